//! Engine `keytext`: the text layer of descriptor public keys (`DescriptorPublicKey::from_str` and
//! `Display`), observed on generated texts and dumped as a Coq file.
//!   keytext <seed> <tier> [file]     tier = quick | thorough; with a file: observe its lines (kind "replay")
//!
//! Per text `s`:
//!   obs      [2] panic | [1; code] error class | [0; K] ++ origin ++ body ++ rest (dump over public fields)
//!   printed  [0] if not accepted | [1; flag] ++ bytes of `k.to_string()`, flag = the printed text parses to
//!            a key with the same dump
//!   table    body-validity oracle from the bitcoin/secp256k1 crates directly (candidate -> info)
//! Every random choice derives from one splitmix64 state seeded by <seed>.
use crate::text::{guarded, quiet_panics, Rng};
use bitcoin::bip32::{self, ChildNumber, DerivationPath, Fingerprint, Xpriv, Xpub};
use bitcoin::secp256k1::{Secp256k1, SecretKey, XOnlyPublicKey};
use bitcoin::Network;
use miniscript::descriptor::{
    DerivPaths, DescriptorKeyParseError as E, DescriptorMultiXKey, DescriptorPublicKey, DescriptorXKey,
    MalformedKeyDataKind as M, SinglePubKey, Wildcard,
};
use std::collections::BTreeMap;
use std::fmt::Write as _;
use std::str::FromStr;

// ---------------------------------------------------------------------------------------------
// observation

fn child(c: &ChildNumber) -> u64 {
    match c {
        ChildNumber::Normal { index } => 2 * (*index as u64),
        ChildNumber::Hardened { index } => 2 * (*index as u64) + 1,
    }
}

fn dump_path(p: &DerivationPath, out: &mut Vec<u64>) {
    let cs: &[ChildNumber] = p.as_ref();
    out.push(cs.len() as u64);
    out.extend(cs.iter().map(child));
}

fn dump_origin(o: &Option<(Fingerprint, DerivationPath)>, out: &mut Vec<u64>) {
    match o {
        None => out.push(0),
        Some((fp, path)) => {
            out.push(1);
            out.extend(fp.to_bytes().iter().map(|b| *b as u64));
            dump_path(path, out);
        }
    }
}

/// byte strings travel packed: length, then little-endian words of 7 bytes
fn pack(b: &[u8]) -> Vec<u64> {
    let mut v = vec![b.len() as u64];
    for ch in b.chunks(7) {
        let mut w: u64 = 0;
        for (j, x) in ch.iter().enumerate() {
            w |= (*x as u64) << (8 * j);
        }
        v.push(w);
    }
    v
}

fn dump_body(s: &str, out: &mut Vec<u64>) {
    out.extend(pack(s.as_bytes()));
}

fn wild(w: &Wildcard) -> u64 {
    match w {
        Wildcard::None => 0,
        Wildcard::Unhardened => 1,
        Wildcard::Hardened => 2,
    }
}

fn dump(k: &DescriptorPublicKey) -> Vec<u64> {
    let mut out = vec![0u64];
    match k {
        DescriptorPublicKey::Single(sp) => match &sp.key {
            SinglePubKey::FullKey(pk) => {
                out.push(0);
                dump_origin(&sp.origin, &mut out);
                dump_body(&pk.to_string(), &mut out);
            }
            SinglePubKey::XOnly(x) => {
                out.push(1);
                dump_origin(&sp.origin, &mut out);
                dump_body(&x.to_string(), &mut out);
            }
        },
        DescriptorPublicKey::XPub(x) => {
            out.push(2);
            dump_origin(&x.origin, &mut out);
            dump_body(&x.xkey.to_string(), &mut out);
            dump_path(&x.derivation_path, &mut out);
            out.push(wild(&x.wildcard));
        }
        DescriptorPublicKey::MultiXPub(x) => {
            out.push(3);
            dump_origin(&x.origin, &mut out);
            dump_body(&x.xkey.to_string(), &mut out);
            let ps = x.derivation_paths.paths();
            out.push(ps.len() as u64);
            for p in ps.iter() {
                dump_path(p, &mut out);
            }
            out.push(wild(&x.wildcard));
        }
    }
    out
}

fn bip32_code(e: &bip32::Error, fmt: u64, num: u64) -> u64 {
    match e {
        bip32::Error::InvalidChildNumberFormat => fmt,
        bip32::Error::InvalidChildNumber(_) => num,
        _ => 98,
    }
}

fn err_code(e: &E) -> u64 {
    match e {
        E::MalformedKeyData(k) => match k {
            M::KeyTooShort => 1,
            M::EncounteredUnprintableCharacter => 2,
            M::EmptyKey => 3,
            M::UnclosedSquareBracket => 4,
            M::NoMasterFingerprintFound => 5,
            M::InvalidMasterFingerprintLength => 6,
            M::NoKeyAfterOrigin => 10,
            M::MultipleFingerprintsInPublicKey => 11,
            M::InvalidWildcardInDerivationPath => 14,
            M::MultipleDerivationPathIndexSteps => 15,
            M::InvalidMultiIndexStep => 16,
            M::DerivationPathTooLong => 19,
            M::InvalidFullPublicKeyPrefix => 21,
            M::InvalidPublicKeyLength => 23,
            _ => 99,
        },
        E::MasterFingerprint { .. } => 7,
        E::MasterDerivationPath(e) => bip32_code(e, 8, 9),
        E::UnexpectedXPrivateKey => 12,
        E::XKeyParseError(_) => 13,
        E::DerivationIndexError { err, .. } => bip32_code(err, 17, 18),
        E::XonlyPublicKey(_) => 20,
        E::FullPublicKey(_) => 22,
        _ => 99,
    }
}

fn table_of(s: &str) -> Vec<(Vec<u8>, Vec<u64>)> {
    fn add<'a>(c: &'a str, cands: &mut Vec<&'a str>) {
        if !c.is_empty() && !cands.contains(&c) {
            cands.push(c);
        }
    }
    let mut cands: Vec<&str> = Vec::new();
    let mut pieces: Vec<&str> = s.split(']').collect();
    pieces.push(s);
    for p in pieces {
        add(p, &mut cands);
        if let Some(f) = p.split('/').next() {
            add(f, &mut cands);
        }
    }
    let mut out = Vec::new();
    for c in cands {
        let info = |tag: u64, d: u64, txt: String| {
            let mut v = vec![tag, d];
            v.extend(pack(txt.as_bytes()));
            v
        };
        let r = guarded(|| {
            if let Ok(x) = Xpub::from_str(c) {
                Some(info(1, x.depth as u64, x.to_string()))
            } else if c.len() == 66 || c.len() == 130 {
                bitcoin::PublicKey::from_str(c).ok().map(|p| info(2, 0, p.to_string()))
            } else if c.len() == 64 {
                XOnlyPublicKey::from_str(c).ok().map(|p| info(3, 0, p.to_string()))
            } else {
                None
            }
        });
        if let Some(Some(v)) = r {
            out.push((c.as_bytes().to_vec(), v));
        }
    }
    out
}

struct Case {
    text: String,
    kind: &'static str,
    table: Vec<(Vec<u8>, Vec<u64>)>,
    obs: Vec<u64>,
    printed: Vec<u64>,
    printed_text: Option<String>,
    outcome: String,
    shapes: Vec<&'static str>,
}

fn shapes_of(k: &DescriptorPublicKey) -> Vec<&'static str> {
    let mut v = Vec::new();
    let (origin, paths, w): (bool, Vec<&DerivationPath>, Option<&Wildcard>) = match k {
        DescriptorPublicKey::Single(sp) => (sp.origin.is_some(), vec![], None),
        DescriptorPublicKey::XPub(x) => (x.origin.is_some(), vec![&x.derivation_path], Some(&x.wildcard)),
        DescriptorPublicKey::MultiXPub(x) => {
            (x.origin.is_some(), x.derivation_paths.paths().iter().collect(), Some(&x.wildcard))
        }
    };
    v.push(if origin { "origin" } else { "no-origin" });
    match w {
        Some(Wildcard::None) => v.push("wild-none"),
        Some(Wildcard::Unhardened) => v.push("wild-unh"),
        Some(Wildcard::Hardened) => v.push("wild-hard"),
        None => {}
    }
    if let Some(p0) = paths.first() {
        let n = p0.len();
        v.push(if n == 0 {
            "pathlen-0"
        } else if n <= 3 {
            "pathlen-1-3"
        } else {
            "pathlen-4+"
        });
        if paths.iter().any(|p| p.into_iter().any(|c| c.is_hardened())) {
            v.push("hardened-steps");
        }
    }
    if paths.len() > 1 {
        let a: &[ChildNumber] = paths[0].as_ref();
        let b: &[ChildNumber] = paths[1].as_ref();
        let pos = (0..a.len().min(b.len())).find(|i| a[*i] != b[*i]);
        match pos {
            Some(0) => v.push("multi-first"),
            Some(i) if i + 1 == a.len() => v.push("multi-last"),
            Some(_) => v.push("multi-middle"),
            None => v.push("multi-nodiff"),
        }
        v.push(if paths.len() == 2 { "alts-2" } else { "alts-3+" });
    }
    v
}

fn observe(text: String, kind: &'static str) -> Case {
    let table = table_of(&text);
    let r = guarded(|| DescriptorPublicKey::from_str(&text));
    let (obs, printed, printed_text, outcome, shapes) = match r {
        None => (vec![2], vec![0], None, "panic".to_string(), vec![]),
        Some(Err(e)) => {
            let c = err_code(&e);
            (vec![1, c], vec![0], None, format!("err{}", c), vec![])
        }
        Some(Ok(k)) => {
            let d = match guarded(|| dump(&k)) {
                Some(d) => d,
                None => vec![2],
            };
            let outcome = match d.get(1) {
                Some(0) => "ok-single-full",
                Some(1) => "ok-single-xonly",
                Some(2) => "ok-xpub",
                Some(3) => "ok-multi",
                _ => "panic",
            }
            .to_string();
            let shapes = guarded(|| shapes_of(&k)).unwrap_or_default();
            match guarded(|| k.to_string()) {
                None => (d, vec![1, 0], Some("<panic in Display>".to_string()), outcome, shapes),
                Some(p) => {
                    let flag = match guarded(|| DescriptorPublicKey::from_str(&p)) {
                        Some(Ok(k2)) => (guarded(|| dump(&k2)) == Some(d.clone())) as u64,
                        _ => 0,
                    };
                    let mut pr = vec![1, flag];
                    pr.extend(pack(p.as_bytes()));
                    (d, pr, Some(p), outcome, shapes)
                }
            }
        }
    };
    Case { text, kind, table, obs, printed, printed_text, outcome, shapes }
}

// ---------------------------------------------------------------------------------------------
// material

struct Material {
    xpubs: Vec<String>, // depths 0,1,2,3,5 on both networks
    xpub0: String,      // depth 0, mainnet
    xpub250: String,
    xpub255: String,
    xprvs: Vec<String>,
    comp: Vec<String>,
    uncomp: Vec<String>,
    xonly: Vec<String>,
}

fn bytes32(rng: &mut Rng) -> [u8; 32] {
    let mut b = [0u8; 32];
    for ch in b.chunks_mut(8) {
        ch.copy_from_slice(&rng.next().to_le_bytes());
    }
    b
}

fn material(rng: &mut Rng) -> Material {
    let secp = Secp256k1::new();
    let mut xpubs = Vec::new();
    let mut xprvs = Vec::new();
    let mut xpub0 = String::new();
    let mut deep: Option<Xpub> = None;
    for net in [Network::Bitcoin, Network::Testnet] {
        let seed = bytes32(rng);
        let master = Xpriv::new_master(net, &seed).expect("master");
        for depth in [0usize, 1, 2, 3, 5] {
            let path: Vec<ChildNumber> = (0..depth)
                .map(|_| {
                    let i = rng.below(1 << 31) as u32;
                    if rng.chance(1, 2) {
                        ChildNumber::Hardened { index: i }
                    } else {
                        ChildNumber::Normal { index: i }
                    }
                })
                .collect();
            let xprv = master.derive_priv(&secp, &path).expect("derive");
            let xpub = Xpub::from_priv(&secp, &xprv);
            if depth == 0 && net == Network::Bitcoin {
                xpub0 = xpub.to_string();
            }
            if depth == 5 {
                deep = Some(xpub);
            }
            xpubs.push(xpub.to_string());
            if depth == 0 || depth == 2 {
                xprvs.push(xprv.to_string());
            }
        }
    }
    let mut x250 = deep.expect("deep");
    x250.depth = 250;
    let mut x255 = x250;
    x255.depth = 255;
    let mut comp = Vec::new();
    let mut uncomp = Vec::new();
    let mut xonly = Vec::new();
    while comp.len() < 6 {
        if let Ok(sk) = SecretKey::from_slice(&bytes32(rng)) {
            let inner = bitcoin::secp256k1::PublicKey::from_secret_key(&secp, &sk);
            comp.push(bitcoin::PublicKey { compressed: true, inner }.to_string());
            uncomp.push(bitcoin::PublicKey { compressed: false, inner }.to_string());
            xonly.push(inner.x_only_public_key().0.to_string());
        }
    }
    Material { xpubs, xpub0, xpub250: x250.to_string(), xpub255: x255.to_string(), xprvs, comp, uncomp, xonly }
}

// ---------------------------------------------------------------------------------------------
// generation

#[derive(Clone)]
struct Parts {
    fp: Option<String>,
    osteps: Vec<String>,
    body: String,
    steps: Vec<String>,
    wild: Option<String>,
}

impl Parts {
    fn render(&self) -> String {
        let mut s = String::new();
        if let Some(fp) = &self.fp {
            s.push('[');
            s.push_str(fp);
            for st in &self.osteps {
                s.push('/');
                s.push_str(st);
            }
            s.push(']');
        }
        s.push_str(&self.body);
        for st in &self.steps {
            s.push('/');
            s.push_str(st);
        }
        if let Some(w) = &self.wild {
            s.push('/');
            s.push_str(w);
        }
        s
    }
}

fn index(rng: &mut Rng) -> u32 {
    match rng.below(6) {
        0 => 0,
        1 => 1,
        2 => rng.below(100) as u32,
        3 => 0x7fff_ffff,
        4 => rng.below(1 << 31) as u32,
        _ => rng.below(3000) as u32,
    }
}

fn num_text(rng: &mut Rng, n: u32) -> String {
    match rng.below(14) {
        0 => format!("+{}", n),
        1 => format!("00{}", n),
        2 if n < 10 => format!("0{}", n),
        _ => format!("{}", n),
    }
}

fn hard_suffix(rng: &mut Rng) -> &'static str {
    match rng.below(5) {
        0 | 1 => "'",
        2 => "h",
        _ => "",
    }
}

fn step(rng: &mut Rng) -> String {
    let n = index(rng);
    format!("{}{}", num_text(rng, n), hard_suffix(rng))
}

fn multistep(rng: &mut Rng) -> String {
    let k = match rng.below(6) {
        0 | 1 | 2 => 2,
        3 => 3,
        4 => 4,
        _ => 5,
    };
    let mut seen: Vec<(u32, bool)> = Vec::new();
    let mut alts: Vec<String> = Vec::new();
    while alts.len() < k {
        let n = if rng.chance(2, 3) { rng.below(8) as u32 } else { index(rng) };
        let sfx = hard_suffix(rng);
        let key = (n, !sfx.is_empty());
        if seen.contains(&key) {
            continue;
        }
        seen.push(key);
        alts.push(format!("{}{}", num_text(rng, n), sfx));
    }
    format!("<{}>", alts.join(";"))
}

fn fingerprint(rng: &mut Rng) -> String {
    let v = rng.next() as u32;
    let lower = format!("{:08x}", v);
    match rng.below(5) {
        0 => lower.to_uppercase(),
        1 => lower
            .chars()
            .map(|c| if rng.chance(1, 2) { c.to_ascii_uppercase() } else { c })
            .collect(),
        _ => lower,
    }
}

fn origin(rng: &mut Rng, p: &mut Parts) {
    p.fp = Some(fingerprint(rng));
    let n = rng.below(6);
    p.osteps = (0..n).map(|_| step(rng)).collect();
}

#[derive(Clone, Copy, Default)]
struct Want {
    origin: Option<bool>,
    multi: Option<bool>,
    wild: Option<bool>,
    min_steps: usize,
}

fn gen_xpub(rng: &mut Rng, m: &Material, w: Want) -> Parts {
    let mut p = Parts { fp: None, osteps: vec![], body: String::new(), steps: vec![], wild: None };
    if w.origin.unwrap_or_else(|| rng.chance(1, 2)) {
        origin(rng, &mut p);
    }
    let deep = rng.chance(1, 25);
    p.body = if deep { m.xpub250.clone() } else { rng.pick(&m.xpubs).clone() };
    let max_steps = if deep { 3 } else { 6 };
    let n = (rng.below(max_steps as u64 + 1) as usize).max(w.min_steps.min(max_steps));
    p.steps = (0..n).map(|_| step(rng)).collect();
    if w.multi.unwrap_or_else(|| rng.chance(2, 5)) {
        let ms = multistep(rng);
        let pos = match rng.below(3) {
            0 => 0,
            1 => p.steps.len(),
            _ => rng.below(p.steps.len() as u64 + 1) as usize,
        };
        p.steps.insert(pos, ms);
    }
    if w.wild.unwrap_or_else(|| rng.chance(1, 2)) {
        p.wild = Some(rng.pick(&["*", "*", "*'", "*h"]).to_string());
    }
    p
}

fn gen_single(rng: &mut Rng, m: &Material, which: u64, with_origin: bool) -> Parts {
    let mut p = Parts { fp: None, osteps: vec![], body: String::new(), steps: vec![], wild: None };
    if with_origin {
        origin(rng, &mut p);
    }
    p.body = match which % 3 {
        0 => rng.pick(&m.comp).clone(),
        1 => rng.pick(&m.uncomp).clone(),
        _ => rng.pick(&m.xonly).clone(),
    };
    p
}

fn random_hex(rng: &mut Rng, n: usize) -> String {
    (0..n).map(|_| char::from_digit(rng.below(16) as u32, 16).unwrap()).collect()
}

fn mixed_case(rng: &mut Rng, s: &str) -> String {
    s.chars().map(|c| if rng.chance(1, 2) { c.to_ascii_uppercase() } else { c }).collect()
}

fn single_case(rng: &mut Rng, m: &Material, i: u64) -> String {
    let with_origin = rng.chance(1, 2);
    let which = rng.below(3);
    let mut p = gen_single(rng, m, which, with_origin);
    match i % 12 {
        0 => p = gen_single(rng, m, 0, with_origin),
        1 => p = gen_single(rng, m, 1, with_origin),
        2 => p = gen_single(rng, m, 2, with_origin),
        3 => p.body = p.body.to_uppercase(),
        4 => {
            p.body = rng.pick(&m.comp).clone();
            p.body.replace_range(0..2, *rng.pick(&["05", "06", "00", "07"]));
        }
        5 => {
            p.body = rng.pick(&m.uncomp).clone();
            p.body.replace_range(0..2, *rng.pick(&["02", "03"]));
        }
        6 => {
            // well-formed hex of a valid length that is not a point
            loop {
                let b = match rng.below(3) {
                    0 => random_hex(rng, 64),
                    1 => format!("{}{}", rng.pick(&["02", "03"]), random_hex(rng, 64)),
                    _ => format!("04{}", random_hex(rng, 128)),
                };
                let ok = if b.len() == 64 {
                    XOnlyPublicKey::from_str(&b).is_ok()
                } else {
                    bitcoin::PublicKey::from_str(&b).is_ok()
                };
                if !ok {
                    p.body = b;
                    break;
                }
            }
        }
        7 => p.steps = vec![rng.pick(&["0", "1", "*", "0'", "<0;1>"]).to_string()],
        8 => {
            p.body = rng.pick(&m.uncomp).clone();
            p.body.replace_range(0..2, *rng.pick(&["06", "07"]));
        }
        9 => p.body = mixed_case(rng, &p.body),
        10 => {
            // wrong lengths
            let n = *rng.pick(&[63usize, 65, 67, 128, 129, 131, 132]);
            p.body = format!("02{}", random_hex(rng, n - 2));
        }
        _ => {
            // 66 chars with a non-hex character / 64 with a non-hex character
            let mut b: Vec<u8> = p.body.clone().into_bytes();
            let pos = 2 + rng.below(b.len() as u64 - 2) as usize;
            b[pos] = *rng.pick(&[b'g', b'x', b' ', b'/', b'Z']);
            p.body = String::from_utf8(b).unwrap();
        }
    }
    p.render()
}

const NMUT: u64 = 56;

fn big_number(v: u64) -> &'static str {
    ["2147483648", "4294967295", "4294967296", "99999999999"][(v % 4) as usize]
}

fn insert_step(rng: &mut Rng, p: &mut Parts, st: String) {
    // into the key path (mostly) or the origin path
    if p.fp.is_some() && rng.chance(1, 3) {
        let pos = rng.below(p.osteps.len() as u64 + 1) as usize;
        p.osteps.insert(pos, st);
    } else {
        let pos = rng.below(p.steps.len() as u64 + 1) as usize;
        p.steps.insert(pos, st);
    }
}

fn insert_at(s: &str, pos: usize, what: &str) -> String {
    let mut o = String::with_capacity(s.len() + what.len());
    o.push_str(&s[..pos]);
    o.push_str(what);
    o.push_str(&s[pos..]);
    o
}

fn mutated_case(rng: &mut Rng, m: &Material, i: u64) -> String {
    let v = i % NMUT;
    let any = Want::default();
    let with_origin = Want { origin: Some(true), ..any };
    match v {
        0 | 1 => {
            let s = gen_xpub(rng, m, any).render();
            let pos = rng.below(s.len() as u64) as usize;
            if v == 0 {
                format!("{}{}", &s[..pos], &s[pos + 1..])
            } else {
                insert_at(&s, pos, &s[pos..pos + 1])
            }
        }
        2..=5 => {
            let s = gen_xpub(rng, m, with_origin).render();
            let close = s.find(']').unwrap();
            match v {
                2 => s[1..].to_string(),
                3 => format!("[{}", s),
                4 => format!("{}{}", &s[..close], &s[close + 1..]),
                _ => insert_at(&s, close, "]"),
            }
        }
        6 => {
            let s = gen_xpub(rng, m, any).render();
            let pos = rng.below(s.len() as u64 + 1) as usize;
            insert_at(&s, pos, "]")
        }
        7..=9 | 46 => {
            let mut p = gen_xpub(rng, m, with_origin);
            let fp = p.fp.clone().unwrap();
            p.fp = Some(match v {
                7 => fp[..7].to_string(),
                8 => format!("{}{}", fp, rng.below(10)),
                9 => {
                    let pos = rng.below(8) as usize;
                    format!("{}{}{}", &fp[..pos], rng.pick(&["g", "x", "G", " ", "+", "-"]), &fp[pos + 1..])
                }
                _ => {
                    let pos = rng.below(8) as usize;
                    format!("{}{}{}", &fp[..pos], rng.pick(&["\u{15}", "\u{14}", "\u{1f}"]), &fp[pos + 1..])
                }
            });
            p.render()
        }
        10 => {
            let mut p = gen_xpub(rng, m, any);
            insert_step(rng, &mut p, String::new());
            p.render()
        }
        11 => format!("{}/", gen_xpub(rng, m, any).render()),
        12..=15 => {
            let mut p = gen_xpub(rng, m, any);
            let st = format!("{}{}", big_number(v - 12), hard_suffix(rng));
            insert_step(rng, &mut p, st);
            p.render()
        }
        16 => {
            let mut p = gen_xpub(rng, m, Want { multi: Some(true), ..any });
            let ms = if rng.chance(1, 2) { "<0;1>".to_string() } else { multistep(rng) };
            let pos = rng.below(p.steps.len() as u64 + 1) as usize;
            p.steps.insert(pos, ms);
            p.render()
        }
        17..=24 => {
            let mut p = gen_xpub(rng, m, Want { multi: Some(false), ..any });
            let st = ["<5>", "<>", "<;>", "<1;>", "<1;1>", "<1;1'>", "<1;2", "1;2>"][(v - 17) as usize];
            let pos = rng.below(p.steps.len() as u64 + 1) as usize;
            p.steps.insert(pos, st.to_string());
            p.render()
        }
        25..=28 => {
            let p = gen_xpub(rng, m, Want { wild: Some(true), ..any });
            let s = p.render();
            match v {
                25 => format!("{}/1", s),
                26 => {
                    let mut q = p.clone();
                    q.wild = Some("**".to_string());
                    q.render()
                }
                27 => format!("{}/{}", s, rng.pick(&["*", "*'", "*h"])),
                _ => format!("{}/0", s),
            }
        }
        29 => {
            let mut p = gen_xpub(rng, m, any);
            p.wild = Some("*H".to_string());
            p.render()
        }
        30..=35 | 47 | 48 => {
            let mut p = gen_xpub(rng, m, any);
            let st = match v {
                30 => "5H",
                31 => "h",
                32 => "'",
                33 => "-1",
                34 => "+",
                35 => " 5",
                47 => "5\u{14}",
                _ => *rng.pick(&["5 ", "0x5", "5''", "5h'", "'5", "1_0", "٣", "<0;1>h", "<0;-1>", "<0;+>", "<0;5H>", "<+0;0>", "<01;1>"]),
            };
            insert_step(rng, &mut p, st.to_string());
            p.render()
        }
        36..=38 => {
            let s = gen_xpub(rng, m, any).render();
            let pos = rng.below(s.len() as u64 + 1) as usize;
            let ch: String = match v {
                36 => rng.pick(&["\t", "\u{13}", "\n", "\0", "\u{1}"]).to_string(),
                37 => char::from_u32(0x14 + rng.below(12) as u32).unwrap().to_string(),
                _ => "\u{7f}".to_string(),
            };
            insert_at(&s, pos, &ch)
        }
        39..=41 => {
            let wo = v == 41 || rng.chance(1, 2);
            let mut p = gen_xpub(rng, m, Want { origin: Some(wo), min_steps: 1, ..any });
            let na = rng.pick(&["é", "\u{a0}", "\u{80}", "€"]).to_string();
            match v {
                39 => {
                    let pos = rng.below(p.body.len() as u64 + 1) as usize;
                    p.body = insert_at(&p.body, pos, &na);
                }
                40 => {
                    let k = rng.below(p.steps.len() as u64) as usize;
                    p.steps[k] = format!("{}{}", na, p.steps[k]);
                }
                _ => {
                    let fp = p.fp.clone().unwrap();
                    let pos = rng.below(8) as usize;
                    p.fp = Some(format!("{}{}{}", &fp[..pos], na, &fp[pos + 1..]));
                }
            }
            p.render()
        }
        42 => {
            let mut p = gen_xpub(rng, m, with_origin);
            match rng.below(3) {
                0 => p.osteps.insert(0, "m".to_string()),
                1 => p.fp = Some("m".to_string()),
                _ => p.steps.insert(0, "m".to_string()),
            }
            p.render()
        }
        43 => {
            let mut p = gen_xpub(rng, m, any);
            p.body = rng.pick(&m.xprvs).clone();
            p.render()
        }
        44 => {
            let mut p = gen_xpub(rng, m, any);
            let keep = *rng.pick(&[64usize, 64, 100, 110, 4, 60]);
            p.body.truncate(keep);
            p.render()
        }
        45 => {
            let mut p = gen_xpub(rng, m, any);
            const B58: &[u8] = b"123456789ABCDEFGHJKLMNPQRSTUVWXYZabcdefghijkmnopqrstuvwxyz";
            let mut b = p.body.clone().into_bytes();
            let pos = 4 + rng.below(b.len() as u64 - 4) as usize;
            loop {
                let c = *rng.pick(B58);
                if c != b[pos] {
                    b[pos] = c;
                    break;
                }
            }
            p.body = String::from_utf8(b).unwrap();
            p.render()
        }
        49 => {
            // characters outside base58 in the body (0, O, I, l)
            let mut p = gen_xpub(rng, m, any);
            let mut b = p.body.clone().into_bytes();
            let pos = 4 + rng.below(b.len() as u64 - 4) as usize;
            b[pos] = *rng.pick(&[b'0', b'O', b'I', b'l', b' ', b'+']);
            p.body = String::from_utf8(b).unwrap();
            p.render()
        }
        50 => {
            // upper-case / mixed-case prefix of the xpub
            let mut p = gen_xpub(rng, m, any);
            let pre = rng.pick(&["XPUB", "Xpub", "xpuB", "TPUB", "ypub", "zpub"]).to_string();
            p.body.replace_range(0..4, &pre);
            p.render()
        }
        51 => {
            // two origins / text after a second bracket
            let a = gen_xpub(rng, m, with_origin).render();
            let close = a.find(']').unwrap();
            format!("{}{}", &a[..close + 1], a)
        }
        52 => {
            // origin without a key / origin only padded to the minimum length
            let p = gen_xpub(rng, m, with_origin);
            let s = p.render();
            let close = s.find(']').unwrap();
            let mut o = s[..close + 1].to_string();
            if rng.chance(1, 2) {
                o.pop();
                while o.len() < 70 {
                    o.push_str("/0");
                }
                if rng.chance(1, 2) {
                    o.push(']');
                }
            } else {
                while o.len() < 70 {
                    o = insert_at(&o, o.len() - 1, "/1'");
                }
            }
            o
        }
        53 => {
            // empty fingerprint or empty brackets in front of a key
            let s = gen_xpub(rng, m, Want { origin: Some(false), ..any }).render();
            format!("{}{}", rng.pick(&["[]", "[/0]", "[", "]", "[/]", "[deadbeef/]", "[deadbeef]]", "[[deadbeef]"]), s)
        }
        54 => {
            // hardened marker variants on a valid step
            let mut p = gen_xpub(rng, m, Want { min_steps: 1, multi: Some(false), ..any });
            let k = rng.below(p.steps.len() as u64) as usize;
            let base: String = p.steps[k].trim_end_matches(|c| c == '\'' || c == 'h').to_string();
            p.steps[k] = format!("{}{}", base, rng.pick(&["H", "hh", "'h", "h'", "\"", "`"]));
            p.render()
        }
        _ => {
            // replace a random character by a random printable one
            let s = gen_xpub(rng, m, any).render();
            let pos = rng.below(s.len() as u64) as usize;
            let c = (0x20 + rng.below(0x5f) as u8) as char;
            format!("{}{}{}", &s[..pos], c, &s[pos + 1..])
        }
    }
}

fn directed(m: &Material) -> Vec<String> {
    let mut v: Vec<String> = Vec::new();
    for s in ["", "[", "[]", "xpub", "]", "/", "*", "[deadbeef]", "[deadbeef/0']"] {
        v.push(s.to_string());
    }
    v.push("a".repeat(63));
    v.push(" ".repeat(64));
    v.push(" ".repeat(63));
    v.push("0".repeat(64));
    v.push("0".repeat(66));
    v.push("[".repeat(64));
    v.push("]".repeat(64));
    v.push("/".repeat(64));
    v.push(format!("xpub{}", "1".repeat(60)));
    v.push(format!("tpub{}", "/".repeat(60)));
    v.push(format!("xprv{}", "1".repeat(60)));
    v.push(format!("[{}", "a".repeat(63)));
    v.push(format!("[deadbeef{}", "/0".repeat(28)));
    v.push(format!("[deadbeef{}]", "/0".repeat(28)));
    v.push(format!("é{}", "a".repeat(62)));
    v.push(format!("é{}", "a".repeat(61)));
    let x = &m.xpubs[3];
    v.push(format!("[d34db33f/44'/0'/0']{}/1/<0;1>/*", x));
    v.push(format!("[d34db33f/44h/0h/0h]{}/1/<0;1>/*h", x));
    v.push(format!("[D34DB33F/44'/0'/0']{}/<0;1;2'>/7/*'", x));
    v.push(format!("{}", x));
    v.push(format!("{}/*", x));
    v.push(format!("{}/", x));
    v.push(format!("[d34db33f]{}", x));
    v.push(format!("[d34db33f]{}", m.comp[0]));
    v.push(format!("[d34db33f/0]{}", m.xonly[0]));
    v.push(m.uncomp[0].clone());
    // depth limits
    let z = &m.xpub0;
    for n in [254usize, 255, 256] {
        v.push(format!("{}{}", z, "/0".repeat(n)));
    }
    v.push(format!("{}{}/*", z, "/0".repeat(254)));
    v.push(format!("{}{}/*", z, "/0".repeat(255)));
    v.push(format!("{}{}/*h", z, "/0".repeat(254)));
    v.push(format!("{}{}/*'", z, "/0".repeat(255)));
    let d = &m.xpub250;
    v.push(format!("{}{}", d, "/0".repeat(5)));
    v.push(format!("{}{}", d, "/0".repeat(6)));
    v.push(format!("{}{}/*", d, "/0".repeat(5)));
    v.push(format!("{}{}/*", d, "/0".repeat(4)));
    v.push(format!("{}/1/2'/<3;4>/5/6h", d));
    v.push(format!("{}/1/2'/<3;4>/5/6h/*", d));
    v.push(format!("{}/1/2'/<3;4>/5/*", d));
    let f = &m.xpub255;
    v.push(f.clone());
    v.push(format!("{}/*", f));
    v.push(format!("{}/*h", f));
    v.push(format!("{}/0", f));
    v.push(format!("{}/<0;1>", f));
    v.push(format!("[d34db33f/1']{}", f));
    v.push(format!("[d34db33f/1']{}/*", f));
    // multipath steps at the limit
    v.push(format!("{}{}/<0;1>", z, "/0".repeat(254)));
    v.push(format!("{}{}/<0;1>", z, "/0".repeat(255)));
    v.push(format!("{}/<0;1>{}", z, "/0".repeat(254)));
    v.push(format!("{}/<0;1>{}", z, "/0".repeat(255)));
    v.push(format!("{}{}/<0;1;2>/*", z, "/0".repeat(253)));
    v.push(format!("{}{}/<0;1;2>/*", z, "/0".repeat(254)));
    v.push(format!("{}{}/<0;1>/0/*h", z, "/1'".repeat(252)));
    v.push(format!("{}{}/<0;1>/0/*h", z, "/1'".repeat(253)));
    // long origin path (no limit there)
    v.push(format!("[d34db33f{}]{}/*", "/0".repeat(300), z));
    v
}


// ---------------------------------------------------------------------------------------------
// keys built as VALUES on the BIP32 depth limit: depth + steps + (1 if wildcard) = 253..256, for
// xpubs of depth 0, 5 (real derivation) and 250 (depth field set by hand), every wildcard, single path
// and multipath (step first / middle / last).  Display, then FromStr: a value within the limit
// (total <= 255) must come back equal; the printed texts also join the cases compared with the model.

struct ValueCase {
    text: String,
    desc: String,
    within: bool,
    rt_ok: bool,
    result: String,
}

fn value_cases(seed: u64) -> Vec<ValueCase> {
    let mut rng = Rng(seed ^ 0x6b65_7974_6578_7400);
    let m = material(&mut rng);
    let mut rng = Rng(seed ^ 0x7661_6c75_6573);
    let bases: Vec<Xpub> = vec![
        Xpub::from_str(&m.xpub0).expect("xpub0"),
        Xpub::from_str(&m.xpubs[4]).expect("xpub depth 5"),
        Xpub::from_str(&m.xpub250).expect("xpub250"),
    ];
    let mut out = Vec::new();
    for x in &bases {
        let d = x.depth as usize;
        for total in [253usize, 254, 255, 256] {
            for (wi, w) in [Wildcard::None, Wildcard::Unhardened, Wildcard::Hardened].iter().enumerate() {
                let wsteps = if wi == 0 { 0 } else { 1 };
                if total < d + wsteps {
                    continue;
                }
                let steps = total - d - wsteps;
                for shape in 0..4usize {
                    if shape > 0 && steps == 0 {
                        continue;
                    }
                    let path: Vec<ChildNumber> = (0..steps)
                        .map(|_| {
                            let i = rng.below(3) as u32;
                            if rng.chance(1, 4) {
                                ChildNumber::Hardened { index: i }
                            } else {
                                ChildNumber::Normal { index: i }
                            }
                        })
                        .collect();
                    let origin = if rng.chance(1, 2) {
                        Some((
                            bitcoin::bip32::Fingerprint::from([0xd3, 0x4d, 0xb3, 0x3f]),
                            DerivationPath::from(vec![ChildNumber::Hardened { index: 44 }]),
                        ))
                    } else {
                        None
                    };
                    let (key, sname) = if shape == 0 {
                        (
                            DescriptorPublicKey::XPub(DescriptorXKey {
                                origin,
                                xkey: *x,
                                derivation_path: DerivationPath::from(path.clone()),
                                wildcard: *w,
                            }),
                            "single-path",
                        )
                    } else {
                        let pos = match shape {
                            1 => 0,
                            2 => steps / 2,
                            _ => steps - 1,
                        };
                        let mut pa = path.clone();
                        let mut pb = path.clone();
                        pa[pos] = ChildNumber::Normal { index: 7 };
                        pb[pos] = ChildNumber::Hardened { index: 7 };
                        (
                            DescriptorPublicKey::MultiXPub(DescriptorMultiXKey {
                                origin,
                                xkey: *x,
                                derivation_paths: DerivPaths::new(vec![
                                    DerivationPath::from(pa),
                                    DerivationPath::from(pb),
                                ])
                                .expect("two paths"),
                                wildcard: *w,
                            }),
                            ["", "multipath-first", "multipath-middle", "multipath-last"][shape],
                        )
                    };
                    let text = match guarded(|| key.to_string()) {
                        Some(t) => t,
                        None => continue,
                    };
                    let dv = dump(&key);
                    let (rt_ok, result) = match guarded(|| DescriptorPublicKey::from_str(&text)) {
                        None => (false, "panic".to_string()),
                        Some(Err(e)) => (false, format!("rejected: {}", e)),
                        Some(Ok(k2)) => {
                            if dump(&k2) == dv {
                                (true, "equal".to_string())
                            } else {
                                (false, "parsed to a different key".to_string())
                            }
                        }
                    };
                    out.push(ValueCase {
                        text,
                        desc: format!("xpub depth {} + {} steps + wildcard {:?} = {} ({})", d, steps, w, total, sname),
                        within: total <= 255,
                        rt_ok,
                        result,
                    });
                }
            }
        }
    }
    out
}

fn generate(seed: u64, tier: &str) -> Vec<(String, &'static str)> {
    let mut rng = Rng(seed ^ 0x6b65_7974_6578_7400);
    let m = material(&mut rng);
    let mult: u64 = if tier == "thorough" { 4 } else { 1 };
    let mut out: Vec<(String, &'static str)> = Vec::new();
    for i in 0..(1000 * mult) {
        let w = match i % 10 {
            0 => Want { origin: Some(true), multi: Some(true), wild: Some(true), min_steps: 2 },
            1 => Want { origin: Some(false), multi: Some(false), wild: Some(false), min_steps: 0 },
            _ => Want::default(),
        };
        out.push((gen_xpub(&mut rng, &m, w).render(), "valid"));
    }
    for i in 0..(192 * mult) {
        out.push((single_case(&mut rng, &m, i), "single"));
    }
    for i in 0..(NMUT * 12 * mult) {
        out.push((mutated_case(&mut rng, &m, i), "mutated"));
    }
    for s in directed(&m) {
        out.push((s, "directed"));
    }
    for v in value_cases(seed) {
        out.push((v.text, "value"));
    }
    out
}

// ---------------------------------------------------------------------------------------------
// output

fn lst<T: std::fmt::Display>(out: &mut String, v: impl Iterator<Item = T>) {
    out.push('[');
    for (i, x) in v.enumerate() {
        if i > 0 {
            out.push(';');
        }
        let _ = write!(out, "{}", x);
    }
    out.push(']');
}

fn json(m: &BTreeMap<String, u64>) -> String {
    let mut s = String::from("{");
    for (i, (k, v)) in m.iter().enumerate() {
        if i > 0 {
            s.push(',');
        }
        let _ = write!(s, "\"{}\":{}", k, v);
    }
    s.push('}');
    s
}

const TY: &str = "list (list int * list (list int * list int) * list int * list int)";

pub fn run(args: &[String]) {
    let seed: u64 = args.first().and_then(|s| s.parse().ok()).unwrap_or(1);
    let tier = args.get(1).map(|s| s.as_str()).unwrap_or("quick").to_string();
    let file = args.get(2).map(|s| s.as_str());
    quiet_panics();
    let texts: Vec<(String, &'static str)> = match file {
        Some(path) => {
            let raw = std::fs::read(path).unwrap_or_else(|e| {
                eprintln!("keytext: cannot read {}: {}", path, e);
                std::process::exit(2);
            });
            String::from_utf8_lossy(&raw)
                .split('\n')
                .map(|l| l.strip_suffix('\r').unwrap_or(l))
                .filter(|l| !l.is_empty())
                .map(|l| (l.to_string(), "replay"))
                .collect()
        }
        None => generate(seed, &tier),
    };
    let cases: Vec<Case> = texts.into_iter().map(|(s, k)| observe(s, k)).collect();

    let mut out = String::new();
    out.push_str("(* GENERATED by `verif-harness keytext` from the compiled library; do not edit. *)\n");
    out.push_str("From Coq Require Import List Uint63.\nImport ListNotations.\nLocal Open Scope uint63_scope.\n");
    let mut parts = Vec::new();
    for (ci, ch) in cases.chunks(100).enumerate() {
        let pn = format!("keytext_cases_p{}", ci);
        let _ = write!(out, "Definition {} : {} := [", pn, TY);
        for (j, c) in ch.iter().enumerate() {
            if j > 0 {
                out.push(';');
            }
            out.push('(');
            lst(&mut out, pack(c.text.as_bytes()).iter());
            out.push_str(", [");
            for (t, (cand, info)) in c.table.iter().enumerate() {
                if t > 0 {
                    out.push(';');
                }
                out.push('(');
                lst(&mut out, pack(cand).iter());
                out.push_str(", ");
                lst(&mut out, info.iter());
                out.push(')');
            }
            out.push_str("], ");
            lst(&mut out, c.obs.iter());
            out.push_str(", ");
            lst(&mut out, c.printed.iter());
            out.push(')');
        }
        out.push_str("].\n");
        parts.push(pn);
    }
    if parts.is_empty() {
        let _ = writeln!(out, "Definition keytext_cases : {} := [].", TY);
    } else {
        let _ = writeln!(out, "Definition keytext_cases : {} := {}.", TY, parts.join(" ++ "));
    }
    print!("{}", out);

    let mut kinds: BTreeMap<String, u64> = BTreeMap::new();
    let mut outcomes: BTreeMap<String, u64> = BTreeMap::new();
    let mut shapes: BTreeMap<String, u64> = BTreeMap::new();
    let (mut accepted, mut reparse_ok) = (0u64, 0u64);
    for c in &cases {
        *kinds.entry(c.kind.to_string()).or_default() += 1;
        *outcomes.entry(c.outcome.clone()).or_default() += 1;
        for s in &c.shapes {
            *shapes.entry(s.to_string()).or_default() += 1;
        }
        if c.obs.first() == Some(&0) {
            accepted += 1;
            if c.printed.get(1) == Some(&1) {
                reparse_ok += 1;
            }
        }
    }
    eprintln!(
        "KEYTEXT cases={} accepted={} reparse_ok={} kinds={} outcomes={} shapes={}",
        cases.len(),
        accepted,
        reparse_ok,
        json(&kinds),
        json(&outcomes),
        json(&shapes)
    );
    if file.is_none() {
        let vs = value_cases(seed);
        let within = vs.iter().filter(|v| v.within).count();
        let within_ok = vs.iter().filter(|v| v.within && v.rt_ok).count();
        let over = vs.iter().filter(|v| !v.within).count();
        let over_rej = vs.iter().filter(|v| !v.within && v.result.starts_with("rejected")).count();
        eprintln!(
            "KEYVALUES n={} within_limit={} within_limit_roundtrip_ok={} over_limit={} over_limit_rejected={}",
            vs.len(),
            within,
            within_ok,
            over,
            over_rej
        );
        for v in vs.iter().filter(|v| v.within && !v.rt_ok) {
            eprintln!("KEYVALUEFAIL {} :: {} :: {}", v.desc, v.result, v.text);
        }
    }
    if file.is_some() {
        for (i, c) in cases.iter().enumerate() {
            let acc = (c.obs.first() == Some(&0)) as u64;
            let pan = (c.obs.first() == Some(&2)) as u64;
            let pr = c.printed_text.clone().unwrap_or_else(|| "-".to_string());
            let re = if acc == 1 { format!("{}", c.printed.get(1).copied().unwrap_or(0)) } else { "-".to_string() };
            eprintln!("KEYOBS {} accepted={} printed={} reparse_equal={} panic={}", i, acc, pr, re, pan);
        }
    }
    // samples: the shortest case of up to 8 distinct outcomes
    let mut order: Vec<&Case> = cases.iter().collect();
    order.sort_by_key(|c| c.text.len());
    let mut seen: Vec<&str> = Vec::new();
    for c in order {
        if seen.len() >= 8 {
            break;
        }
        if seen.contains(&c.outcome.as_str()) {
            continue;
        }
        seen.push(c.outcome.as_str());
        eprintln!(
            "KEYTEXTSAMPLE {:?} [{}] -> {} printed={}",
            c.text,
            c.kind,
            c.outcome,
            c.printed_text.as_deref().unwrap_or("-")
        );
    }
}
