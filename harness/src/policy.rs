//! C18 engine: runs the real `policy::Semantic` / `policy::Concrete` API on generated
//! policies and prints one canonical observation per line (a list of numbers).
//!
//!   verif-harness policy gen <seed> <quick|thorough>   generated cases (corpus first)
//!   verif-harness policy eval <file>                   observe the inputs listed in <file>
//!
//! Policies are built with the public constructors (`Threshold::new`, enum variants),
//! never through the string parser, and outputs are read back by walking the returned
//! values.  Token encoding of a policy (prefix form):
//!   0 UNSATISFIABLE | 1 TRIVIAL | 2 i pk(key i) | 3 t after(t) | 4 t older(t)
//!   | 5 i sha256 | 6 i hash256 | 7 i ripemd160 | 8 i hash160
//!   | 9 k n <n children> thresh | 10 n <children> and (concrete) | 11 n <children> or (concrete)
//!   | 12 n (<odds> <child>)*n  or with explicit odds per branch (concrete; 11 = all odds 1)
//! A result slot holds the value or 99 when the call panicked.
//! Lines:
//!   1 <p> <normalized> <idem 0/1/99> <sorted> <n_keys: 1 v|99> <min_keys: 0|1 m|99>
//!     <na> (<unit 0 blocks/1 time> <v> <at_age>)* <nl> (<unit 0 height/1 seconds> <v> <at_lock_time>)*
//!   2 <p> <q> <entails: 0 None|1 Some(false)|2 Some(true)|99>
//!   3 <c> <check_timelocks: 0 Err|1 Ok|99> <lift: 0 <pol>|1 timelock Err|2 other Err|99>
use std::panic::{catch_unwind, AssertUnwindSafe};
use std::sync::Arc;

use bitcoin::{absolute, relative};
use miniscript::policy::concrete::{Policy as Concrete, PolicyError};
use miniscript::policy::semantic::Policy as Semantic;
use miniscript::policy::Liftable;
use miniscript::{AbsLockTime, Error, RelLockTime, Threshold};

type Sem = Semantic<String>;
type Conc = Concrete<String>;

const PANIC: u64 = 99;
/// large but still a `usize` on every target and within the 62 bits of the Coq packing
const HUGE_ODDS: u64 = 1 << 31;

#[derive(Clone, Debug, PartialEq, Eq)]
pub enum P {
    U,
    T,
    Key(u64),
    After(u64),
    Older(u64),
    Sha(u64),
    H256(u64),
    Rip(u64),
    H160(u64),
    Th(usize, Vec<P>),
    And(Vec<P>),
    Or(Vec<P>),
    /// concrete `Or` with explicit odds per branch (the plain `Or` uses odds 1 everywhere)
    OrW(Vec<(u64, P)>),
}

const KEYS: [&str; 10] = ["A", "B", "C", "D", "E", "F", "G", "H", "I", "J"];
fn key_name(i: u64) -> String { KEYS[i as usize].to_string() }
fn hash_name(i: u64) -> String { format!("h{}", i) }
fn key_idx(s: &str) -> u64 { KEYS.iter().position(|k| *k == s).expect("unknown key name") as u64 }
fn hash_idx(s: &str) -> u64 { s[1..].parse().expect("unknown hash name") }

fn to_sem(p: &P) -> Sem {
    match p {
        P::U => Sem::Unsatisfiable,
        P::T => Sem::Trivial,
        P::Key(i) => Sem::Key(key_name(*i)),
        P::After(t) => Sem::After(AbsLockTime::from_consensus(*t as u32).expect("abs lock time")),
        P::Older(t) => Sem::Older(RelLockTime::from_consensus(*t as u32).expect("rel lock time")),
        P::Sha(i) => Sem::Sha256(hash_name(*i)),
        P::H256(i) => Sem::Hash256(hash_name(*i)),
        P::Rip(i) => Sem::Ripemd160(hash_name(*i)),
        P::H160(i) => Sem::Hash160(hash_name(*i)),
        P::Th(k, subs) => Sem::Thresh(
            Threshold::new(*k, subs.iter().map(|s| Arc::new(to_sem(s))).collect()).expect("threshold"),
        ),
        P::And(_) | P::Or(_) | P::OrW(_) => panic!("and/or are concrete-only"),
    }
}

fn to_conc(p: &P) -> Conc {
    match p {
        P::U => Conc::Unsatisfiable,
        P::T => Conc::Trivial,
        P::Key(i) => Conc::Key(key_name(*i)),
        P::After(t) => Conc::After(AbsLockTime::from_consensus(*t as u32).expect("abs lock time")),
        P::Older(t) => Conc::Older(RelLockTime::from_consensus(*t as u32).expect("rel lock time")),
        P::Sha(i) => Conc::Sha256(hash_name(*i)),
        P::H256(i) => Conc::Hash256(hash_name(*i)),
        P::Rip(i) => Conc::Ripemd160(hash_name(*i)),
        P::H160(i) => Conc::Hash160(hash_name(*i)),
        P::Th(k, subs) => Conc::Thresh(
            Threshold::new(*k, subs.iter().map(|s| Arc::new(to_conc(s))).collect()).expect("threshold"),
        ),
        P::And(subs) => Conc::And(subs.iter().map(|s| Arc::new(to_conc(s))).collect()),
        P::Or(subs) => Conc::Or(subs.iter().map(|s| (1usize, Arc::new(to_conc(s)))).collect()),
        P::OrW(subs) => Conc::Or(subs.iter().map(|(w, s)| (*w as usize, Arc::new(to_conc(s)))).collect()),
    }
}

fn enc(p: &P, out: &mut Vec<u64>) {
    match p {
        P::U => out.push(0),
        P::T => out.push(1),
        P::Key(i) => out.extend([2, *i]),
        P::After(t) => out.extend([3, *t]),
        P::Older(t) => out.extend([4, *t]),
        P::Sha(i) => out.extend([5, *i]),
        P::H256(i) => out.extend([6, *i]),
        P::Rip(i) => out.extend([7, *i]),
        P::H160(i) => out.extend([8, *i]),
        P::Th(k, subs) => {
            out.extend([9, *k as u64, subs.len() as u64]);
            subs.iter().for_each(|s| enc(s, out));
        }
        P::And(subs) => {
            out.extend([10, subs.len() as u64]);
            subs.iter().for_each(|s| enc(s, out));
        }
        P::Or(subs) => {
            out.extend([11, subs.len() as u64]);
            subs.iter().for_each(|s| enc(s, out));
        }
        P::OrW(subs) => {
            out.extend([12, subs.len() as u64]);
            for (w, s) in subs {
                out.push(*w);
                enc(s, out);
            }
        }
    }
}

/// read a returned semantic policy back (walks the real value)
fn enc_sem(p: &Sem, out: &mut Vec<u64>) {
    match p {
        Sem::Unsatisfiable => out.push(0),
        Sem::Trivial => out.push(1),
        Sem::Key(k) => out.extend([2, key_idx(k)]),
        Sem::After(t) => out.extend([3, t.to_consensus_u32() as u64]),
        Sem::Older(t) => out.extend([4, t.to_consensus_u32() as u64]),
        Sem::Sha256(h) => out.extend([5, hash_idx(h)]),
        Sem::Hash256(h) => out.extend([6, hash_idx(h)]),
        Sem::Ripemd160(h) => out.extend([7, hash_idx(h)]),
        Sem::Hash160(h) => out.extend([8, hash_idx(h)]),
        Sem::Thresh(th) => {
            out.extend([9, th.k() as u64, th.n() as u64]);
            th.iter().for_each(|s| enc_sem(s, out));
        }
    }
}

fn dec(toks: &[u64], pos: &mut usize) -> P {
    let t = toks[*pos];
    *pos += 1;
    let arg = |pos: &mut usize| {
        let v = toks[*pos];
        *pos += 1;
        v
    };
    match t {
        0 => P::U,
        1 => P::T,
        2 => P::Key(arg(pos)),
        3 => P::After(arg(pos)),
        4 => P::Older(arg(pos)),
        5 => P::Sha(arg(pos)),
        6 => P::H256(arg(pos)),
        7 => P::Rip(arg(pos)),
        8 => P::H160(arg(pos)),
        9 => {
            let k = arg(pos) as usize;
            let n = arg(pos) as usize;
            P::Th(k, (0..n).map(|_| dec(toks, pos)).collect())
        }
        10 => {
            let n = arg(pos) as usize;
            P::And((0..n).map(|_| dec(toks, pos)).collect())
        }
        11 => {
            let n = arg(pos) as usize;
            P::Or((0..n).map(|_| dec(toks, pos)).collect())
        }
        12 => {
            let n = arg(pos) as usize;
            P::OrW(
                (0..n)
                    .map(|_| {
                        let w = arg(pos);
                        (w, dec(toks, pos))
                    })
                    .collect(),
            )
        }
        x => panic!("bad policy token {}", x),
    }
}

#[derive(Clone, Debug)]
pub enum Input {
    /// policy, ages (unit, value), lock times (unit, value)
    Sem(P, Vec<(u64, u64)>, Vec<(u64, u64)>),
    Ent(P, P),
    Conc(P),
}

fn guard<T>(f: impl FnOnce() -> T) -> Option<T> { catch_unwind(AssertUnwindSafe(f)).ok() }

fn push_rpol(out: &mut Vec<u64>, r: Option<Sem>) {
    match r {
        Some(s) => enc_sem(&s, out),
        None => out.push(PANIC),
    }
}

fn rel_of(unit: u64, v: u64) -> relative::LockTime {
    if unit == 0 {
        relative::LockTime::from_height(v as u16)
    } else {
        relative::LockTime::from_512_second_intervals(v as u16)
    }
}
fn abs_of(unit: u64, v: u64) -> absolute::LockTime {
    let l = absolute::LockTime::from_consensus(v as u32);
    assert_eq!(l.is_block_time(), unit == 1, "lock time unit tag inconsistent with value");
    l
}

/// run the implementation on one input and encode input + observations
pub fn observe(inp: &Input) -> Vec<u64> {
    let mut out = Vec::new();
    match inp {
        Input::Sem(p, ages, locks) => {
            out.push(1);
            enc(p, &mut out);
            let s = to_sem(p);
            let norm = guard(|| s.clone().normalized());
            let idem = match &norm {
                Some(n) => match guard(|| n.clone().normalized() == *n) {
                    Some(b) => b as u64,
                    None => PANIC,
                },
                None => PANIC,
            };
            push_rpol(&mut out, norm);
            out.push(idem);
            push_rpol(&mut out, guard(|| s.clone().sorted()));
            match guard(|| s.n_keys()) {
                Some(v) => out.extend([1, v as u64]),
                None => out.push(PANIC),
            }
            match guard(|| s.minimum_n_keys()) {
                Some(None) => out.push(0),
                Some(Some(m)) => out.extend([1, m as u64]),
                None => out.push(PANIC),
            }
            out.push(ages.len() as u64);
            for (u, v) in ages {
                out.extend([*u, *v]);
                push_rpol(&mut out, guard(|| s.clone().at_age(rel_of(*u, *v))));
            }
            out.push(locks.len() as u64);
            for (u, v) in locks {
                out.extend([*u, *v]);
                push_rpol(&mut out, guard(|| s.clone().at_lock_time(abs_of(*u, *v))));
            }
        }
        Input::Ent(p, q) => {
            out.push(2);
            enc(p, &mut out);
            enc(q, &mut out);
            let (a, b) = (to_sem(p), to_sem(q));
            out.push(match guard(|| a.entails(b)) {
                Some(None) => 0,
                Some(Some(false)) => 1,
                Some(Some(true)) => 2,
                None => PANIC,
            });
        }
        Input::Conc(c) => {
            out.push(3);
            enc(c, &mut out);
            let cc = to_conc(c);
            out.push(match guard(|| cc.check_timelocks()) {
                Some(Ok(())) => 1,
                Some(Err(_)) => 0,
                None => PANIC,
            });
            match guard(|| cc.lift()) {
                Some(Ok(s)) => {
                    out.push(0);
                    enc_sem(&s, &mut out);
                }
                Some(Err(Error::ConcretePolicy(PolicyError::HeightTimelockCombination))) => out.push(1),
                Some(Err(_)) => out.push(2),
                None => out.push(PANIC),
            }
        }
    }
    out
}

// ------------------------------------------------------------------ generators
struct Rng(u64);
impl Rng {
    fn next(&mut self) -> u64 {
        self.0 = self.0.wrapping_add(0x9E3779B97F4A7C15);
        let mut z = self.0;
        z = (z ^ (z >> 30)).wrapping_mul(0xBF58476D1CE4E5B9);
        z = (z ^ (z >> 27)).wrapping_mul(0x94D049BB133111EB);
        z ^ (z >> 31)
    }
    fn below(&mut self, n: u64) -> u64 { self.next() % n }
    fn pick<'a, T>(&mut self, v: &'a [T]) -> &'a T { &v[self.below(v.len() as u64) as usize] }
}

/// compositions of `total` into `parts` positive integers
fn compositions(total: usize, parts: usize) -> Vec<Vec<usize>> {
    if parts == 0 {
        return if total == 0 { vec![vec![]] } else { vec![] };
    }
    let mut r = Vec::new();
    for first in 1..=(total + 1).saturating_sub(parts) {
        for mut rest in compositions(total - first, parts - 1) {
            let mut v = vec![first];
            v.append(&mut rest);
            r.push(v);
        }
    }
    r
}

fn product(lists: &[&Vec<P>]) -> Vec<Vec<P>> {
    let mut acc: Vec<Vec<P>> = vec![vec![]];
    for l in lists {
        let mut next = Vec::with_capacity(acc.len() * l.len());
        for a in &acc {
            for x in l.iter() {
                let mut b = a.clone();
                b.push(x.clone());
                next.push(b);
            }
        }
        acc = next;
    }
    acc
}

/// all policies with exactly `size` nodes; by_size[s] must hold all policies of size s < size.
/// `concrete`: also And / Or nodes (of any arity >= 1).
fn all_of_size(size: usize, leaves: &[P], by_size: &[Vec<P>], concrete: bool, max_arity: usize) -> Vec<P> {
    if size == 1 {
        return leaves.to_vec();
    }
    let mut r = Vec::new();
    for n in 1..=(size - 1).min(max_arity) {
        for comp in compositions(size - 1, n) {
            let lists: Vec<&Vec<P>> = comp.iter().map(|s| &by_size[*s]).collect();
            for subs in product(&lists) {
                for k in 1..=n {
                    r.push(P::Th(k, subs.clone()));
                }
                if concrete {
                    r.push(P::And(subs.clone()));
                    r.push(P::Or(subs.clone()));
                    // the odds are a hint for the compiler only and must not change the meaning:
                    // zero on the first / last / every branch, a huge one, equal ones
                    let n = subs.len();
                    let with = |w: &dyn Fn(usize) -> u64| {
                        P::OrW(subs.iter().enumerate().map(|(i, c)| (w(i), c.clone())).collect())
                    };
                    r.push(with(&|i| if i == 0 { 0 } else { 1 }));
                    r.push(with(&|i| if i + 1 == n { 0 } else { 3 }));
                    r.push(with(&|_| 0));
                    r.push(with(&|i| if i == 0 { HUGE_ODDS } else { 1 }));
                    r.push(with(&|_| 7));
                }
            }
        }
    }
    r
}

fn exhaustive(max_size: usize, leaves: &[P], concrete: bool, max_arity: usize) -> Vec<P> {
    let mut by_size: Vec<Vec<P>> = vec![vec![]];
    for s in 1..=max_size {
        let v = all_of_size(s, leaves, &by_size, concrete, max_arity);
        by_size.push(v);
    }
    by_size.into_iter().flatten().collect()
}

fn rand_leaf(rng: &mut Rng, atoms: &[P]) -> P {
    match rng.below(100) {
        0..=7 => P::U,
        8..=15 => P::T,
        _ => rng.pick(atoms).clone(),
    }
}

fn rand_k(rng: &mut Rng, n: usize) -> usize {
    match rng.below(4) {
        0 => 1,
        1 => n,
        _ => 1 + rng.below(n as u64) as usize,
    }
}

/// a random policy with at most `budget` nodes
fn rand_pol(rng: &mut Rng, budget: usize, atoms: &[P], concrete: bool) -> P {
    if budget <= 1 || rng.below(8) == 0 {
        if concrete && rng.below(12) == 0 {
            return if rng.below(2) == 0 { P::And(vec![]) } else { P::Or(vec![]) };
        }
        return rand_leaf(rng, atoms);
    }
    let n = 1 + rng.below(((budget - 1).min(5)) as u64) as usize;
    // split budget-1 among n children
    let mut shares = vec![1usize; n];
    for _ in 0..(budget - 1 - n) {
        let i = rng.below(n as u64) as usize;
        shares[i] += 1;
    }
    let subs: Vec<P> = shares.iter().map(|b| rand_pol(rng, *b, atoms, concrete)).collect();
    if concrete {
        match rng.below(5) {
            0 | 1 => return P::And(subs),
            2 => {
                if rng.below(2) == 0 {
                    return P::Or(subs);
                }
                const ODDS: [u64; 8] = [0, 0, 0, 1, 1, 2, 7, HUGE_ODDS];
                return P::OrW(subs.into_iter().map(|c| (*rng.pick(&ODDS), c)).collect());
            }
            _ => {}
        }
    }
    let k = rand_k(rng, n);
    P::Th(k, subs)
}

const OLDERS: [u64; 6] = [5, 10, 4194309, 4194314, 65541, 65535];
const AFTERS: [u64; 6] = [100, 200, 499_999_999, 500_000_000, 500_000_100, 2_147_483_647];
const AGES: [(u64, u64); 8] = [(0, 0), (0, 5), (0, 7), (0, 10), (0, 65535), (1, 5), (1, 9), (1, 10)];
const LOCKS: [(u64, u64); 8] = [
    (0, 0),
    (0, 100),
    (0, 150),
    (0, 200),
    (0, 499_999_999),
    (1, 500_000_000),
    (1, 500_000_100),
    (1, 4_294_967_295),
];

/// up to `n` distinct atoms for one random case (keys may repeat inside the policy)
fn rand_atoms(rng: &mut Rng, n: usize) -> Vec<P> {
    let mut v: Vec<P> = Vec::new();
    while v.len() < n {
        let a = match rng.below(10) {
            0..=3 => P::Key(rng.below(6)),
            4 | 5 => P::Older(*rng.pick(&OLDERS)),
            6 | 7 => P::After(*rng.pick(&AFTERS)),
            _ => match rng.below(4) {
                0 => P::Sha(rng.below(3)),
                1 => P::H256(rng.below(3)),
                2 => P::Rip(rng.below(3)),
                _ => P::H160(rng.below(3)),
            },
        };
        if !v.contains(&a) {
            v.push(a);
        }
    }
    v
}

fn count_terms(p: &P) -> usize {
    match p {
        P::Th(_, s) | P::And(s) | P::Or(s) => s.iter().map(count_terms).sum::<usize>(),
        P::OrW(s) => s.iter().map(|(_, c)| count_terms(c)).sum::<usize>(),
        P::U | P::T => 0,
        _ => 1,
    }
}

fn count_nodes(p: &P) -> usize {
    match p {
        P::Th(_, s) | P::And(s) | P::Or(s) => 1 + s.iter().map(count_nodes).sum::<usize>(),
        P::OrW(s) => 1 + s.iter().map(|(_, c)| count_nodes(c)).sum::<usize>(),
        _ => 1,
    }
}

/// replace the i-th node (pre-order) by `with`
fn replace_nth(p: &P, i: &mut isize, with: &P) -> P {
    if *i == 0 {
        *i -= 1;
        return with.clone();
    }
    *i -= 1;
    match p {
        P::Th(k, s) => P::Th(*k, s.iter().map(|c| replace_nth(c, i, with)).collect()),
        P::And(s) => P::And(s.iter().map(|c| replace_nth(c, i, with)).collect()),
        P::Or(s) => P::Or(s.iter().map(|c| replace_nth(c, i, with)).collect()),
        P::OrW(s) => P::OrW(s.iter().map(|(w, c)| (*w, replace_nth(c, i, with))).collect()),
        x => x.clone(),
    }
}

/// a policy related to `p` (so that entailment holds reasonably often)
fn related(rng: &mut Rng, p: &P, atoms: &[P]) -> P {
    let n = count_nodes(p);
    let mut i = rng.below(n as u64) as isize;
    let with = match rng.below(4) {
        0 => P::T,
        1 => P::U,
        2 => rng.pick(atoms).clone(),
        _ => rand_pol(rng, 4, atoms, false),
    };
    let q = replace_nth(p, &mut i, &with);
    match (rng.below(3), &q) {
        (0, P::Th(k, s)) if *k > 1 => P::Th(k - 1, s.clone()),
        (1, P::Th(k, s)) if *k < s.len() => P::Th(k + 1, s.clone()),
        _ => q,
    }
}

fn corpus() -> Vec<Input> {
    use P::*;
    let ages = vec![(0, 4), (0, 5), (1, 5)];
    let locks = vec![(0, 99), (0, 100), (1, 500_000_100)];
    let sem = |p: P| Input::Sem(p, ages.clone(), locks.clone());
    vec![
        // DESIGN 10-j (repaired, 51c85bfb): entails on un-normalized arguments
        Input::Ent(T, Th(1, vec![T, Key(0)])),
        Input::Ent(Th(2, vec![U, Key(0)]), U),
        Input::Ent(Th(2, vec![U, Key(0)]), Key(1)),
        // time locks are independent atoms for entails
        Input::Ent(Older(10), Older(5)),
        // the test-suite's escrow / htlc shapes
        Input::Ent(Th(2, vec![Key(0), Key(2)]), Th(2, vec![Key(0), Key(1), Key(2)])),
        Input::Ent(Th(2, vec![Key(0), Key(1), Key(2)]), Th(1, vec![Key(0), Th(2, vec![Key(2), Key(1)])])),
        // more than ENTAILMENT_MAX_TERMINALS terminals
        Input::Ent(Th(11, (0..21).map(|i| Key(i % 10)).collect()), T),
        // duplicate keys and minimum_n_keys
        sem(Th(2, vec![Key(0), Key(0)])),
        sem(Th(2, vec![Key(0), Key(0), Key(1)])),
        // flattening corner cases
        sem(Th(2, vec![Th(2, vec![Key(0), Key(1)]), Key(2)])),
        sem(Th(1, vec![Th(1, vec![Key(0), Key(1)]), T])),
        sem(Th(2, vec![Th(1, vec![Key(0), Older(5)]), T, After(100)])),
        sem(Th(3, vec![Th(2, vec![Key(0), Key(1)]), T, U, Older(4194309)])),
        sem(Th(1, vec![Th(1, vec![Th(1, vec![Key(0)])])])),
        // DESIGN 10-e (repaired, 780a529d): And / Or of any arity
        Input::Conc(And(vec![Key(0), Key(1), Key(2)])),
        Input::Conc(And(vec![Key(0)])),
        Input::Conc(And(vec![Key(0), Key(1)])),
        Input::Conc(Or(vec![Key(0)])),
        Input::Conc(And(vec![])),
        Input::Conc(Or(vec![])),
        // odds are a compiler hint only: zero, huge, equal odds must lift like any other
        Input::Conc(OrW(vec![(0, Key(0)), (1, Key(1))])),
        Input::Conc(OrW(vec![(0, Key(0)), (0, Key(1))])),
        Input::Conc(OrW(vec![(HUGE_ODDS, Key(0)), (1, Key(1))])),
        Input::Conc(And(vec![Key(2), OrW(vec![(0, And(vec![Key(0), Older(1000)])), (5, Key(1))])])),
        Input::Conc(OrW(vec![(0, After(1)), (0, After(500_000_001))])),
        Input::Conc(And(vec![OrW(vec![(0, After(1)), (9, Key(0))]), After(500_000_001)])),
        Input::Conc(Th(2, vec![And(vec![]), Or(vec![]), Key(0)])),
        // lift re-runs check_timelocks inside unsatisfiable branches
        Input::Conc(And(vec![And(vec![After(1), After(500_000_001)]), U])),
        Input::Conc(Or(vec![Key(0), And(vec![And(vec![After(1), After(500_000_001)]), U])])),
        // DESIGN 10-k (repaired, b588aa3a): unsatisfiable branches are ignored by the mixed time-lock check
        Input::Conc(And(vec![After(1), And(vec![After(500_000_001), U])])),
        Input::Conc(Th(2, vec![After(1), After(500_000_001), U])),
        Input::Conc(Th(3, vec![After(1), After(500_000_001), U])),
        Input::Conc(And(vec![After(1), After(500_000_001)])),
        Input::Conc(Or(vec![After(1), After(500_000_001)])),
        Input::Conc(Th(2, vec![After(1), After(500_000_001), Key(0)])),
        Input::Conc(Th(2, vec![Older(5), Older(4194309), T])),
        Input::Conc(And(vec![Or(vec![Older(5), Key(0)]), Or(vec![Older(4194309), Key(1)])])),
    ]
}

pub fn generate(seed: u64, thorough: bool) -> Vec<Input> {
    use P::*;
    let mut cases = corpus();
    let ages = vec![(0, 4), (0, 5), (1, 5)];
    let locks = vec![(0, 99), (0, 100), (1, 500_000_100)];

    // F1: every semantic policy with at most N nodes over 2 constants + 4 atoms
    let leaves6 = [U, T, Key(0), Key(1), Older(5), After(100)];
    for p in exhaustive(if thorough { 6 } else { 5 }, &leaves6, false, 5) {
        cases.push(Input::Sem(p, ages.clone(), locks.clone()));
    }
    // F2: deeper nesting over 2 constants + 1 atom
    let leaves3 = [U, T, Key(0)];
    for p in exhaustive(if thorough { 8 } else { 7 }, &leaves3, false, 3) {
        if count_nodes(&p) >= 6 {
            cases.push(Input::Sem(p, vec![], vec![]));
        }
    }
    // E1: entailment on all ordered pairs of small policies
    let small = exhaustive(3, &[U, T, Key(0), Key(1), Older(5)], false, 2);
    let small_q = exhaustive(if thorough { 4 } else { 3 }, &[U, T, Key(0), Key(1), Older(5)], false, 3);
    for p in &small {
        for q in &small_q {
            cases.push(Input::Ent(p.clone(), q.clone()));
        }
    }
    // C1: every concrete policy with at most N nodes (And/Or of any arity up to 3)
    // And([]) / Or([]) (constructible through the public enum) count as leaves here
    let cleaves =
        [U, T, Key(0), Older(5), Older(4194309), After(100), After(500_000_001), And(vec![]), Or(vec![])];
    for c in exhaustive(4, &cleaves, true, 3) {
        cases.push(Input::Conc(c));
    }
    if thorough {
        for c in exhaustive(5, &[U, T, Older(5), Older(4194309), After(500_000_001)], true, 3) {
            if count_nodes(&c) == 5 {
                cases.push(Input::Conc(c));
            }
        }
    }

    // random streams (all choices derive from the seed)
    let mut rng = Rng(seed ^ 0xC18C18C18);
    let n_rand = if thorough { 15000 } else { 1500 };
    for i in 0..n_rand {
        let natoms = 1 + rng.below(8) as usize;
        let atoms = rand_atoms(&mut rng, natoms);
        let budget = if i % 3 == 0 { 30 } else { 4 + rng.below(14) as usize };
        let p = rand_pol(&mut rng, budget, &atoms, false);
        let a = (0..2).map(|_| *rng.pick(&AGES)).collect();
        let l = (0..2).map(|_| *rng.pick(&LOCKS)).collect();
        cases.push(Input::Sem(p, a, l));
    }
    for _ in 0..n_rand {
        let natoms = 1 + rng.below(7) as usize;
        let atoms = rand_atoms(&mut rng, natoms);
        let bp = 2 + rng.below(12) as usize;
        let p = rand_pol(&mut rng, bp, &atoms, false);
        let q = if rng.below(3) == 0 {
            let bq = 2 + rng.below(12) as usize;
            rand_pol(&mut rng, bq, &atoms, false)
        } else {
            related(&mut rng, &p, &atoms)
        };
        if rng.below(2) == 0 {
            cases.push(Input::Ent(p, q));
        } else {
            cases.push(Input::Ent(q, p));
        }
    }
    // entailment with many terminals but few distinct atoms (the recursion depth is the number
    // of distinct atoms): both sides of ENTAILMENT_MAX_TERMINALS = 20
    for n in [8usize, 9, 10, 11, 15, 19, 20, 21, 22, 25] {
        for _ in 0..(if thorough { 12 } else { 4 }) {
            let natoms = 2 + rng.below(4) as usize;
            let atoms = rand_atoms(&mut rng, natoms);
            // exactly n terminals: groups of leaves under two levels of thresholds
            let mut groups: Vec<P> = Vec::new();
            let mut left = n;
            while left > 0 {
                let g = (1 + rng.below(4) as usize).min(left);
                left -= g;
                let leaves: Vec<P> = (0..g).map(|_| rng.pick(&atoms).clone()).collect();
                let k = rand_k(&mut rng, g);
                groups.push(P::Th(k, leaves));
            }
            let k = rand_k(&mut rng, groups.len());
            let p = P::Th(k, groups);
            let q = related(&mut rng, &p, &atoms);
            cases.push(Input::Ent(p.clone(), q.clone()));
            if count_terms(&q) <= 25 {
                cases.push(Input::Ent(q, p));
            }
        }
    }
    for i in 0..n_rand {
        let natoms = 1 + rng.below(7) as usize;
        let mut atoms = rand_atoms(&mut rng, natoms);
        if i % 2 == 0 {
            // make lock leaves frequent
            atoms.push(P::Older(*rng.pick(&OLDERS)));
            atoms.push(P::After(*rng.pick(&AFTERS)));
        }
        let b = 3 + rng.below(18) as usize;
        cases.push(Input::Conc(rand_pol(&mut rng, b, &atoms, true)));
    }
    cases
}

fn parse_input(toks: &[u64]) -> Input {
    let mut pos = 1;
    match toks[0] {
        1 => {
            let p = dec(toks, &mut pos);
            let pairs = |pos: &mut usize| {
                let n = toks[*pos] as usize;
                *pos += 1;
                let mut v = Vec::new();
                for _ in 0..n {
                    v.push((toks[*pos], toks[*pos + 1]));
                    *pos += 2;
                }
                v
            };
            let ages = pairs(&mut pos);
            let locks = pairs(&mut pos);
            Input::Sem(p, ages, locks)
        }
        2 => {
            let p = dec(toks, &mut pos);
            let q = dec(toks, &mut pos);
            Input::Ent(p, q)
        }
        3 => Input::Conc(dec(toks, &mut pos)),
        x => panic!("bad input kind {}", x),
    }
}

fn print_line(v: &[u64]) {
    let s: Vec<String> = v.iter().map(|x| x.to_string()).collect();
    println!("{}", s.join(" "));
}

pub fn run(args: &[String]) {
    // panics of the library are observations; keep stderr quiet
    std::panic::set_hook(Box::new(|_| {}));
    match args.first().map(|s| s.as_str()) {
        Some("gen") => {
            let seed: u64 = args.get(1).and_then(|s| s.parse().ok()).unwrap_or(1);
            let thorough = args.get(2).map(|s| s == "thorough").unwrap_or(false);
            for c in generate(seed, thorough) {
                print_line(&observe(&c));
            }
        }
        Some("eval") => {
            let text = std::fs::read_to_string(&args[1]).expect("input file");
            for line in text.lines() {
                let toks: Vec<u64> = line.split_whitespace().map(|t| t.parse().expect("number")).collect();
                if toks.is_empty() {
                    continue;
                }
                print_line(&observe(&parse_input(&toks)));
            }
        }
        _ => {
            eprintln!("usage: verif-harness policy gen <seed> <quick|thorough> | policy eval <file>");
            std::process::exit(2);
        }
    }
}
