//! `codec` engine (property C04): script encoding / lexing / decoding.
//!
//! (i)  generated and directed miniscripts in the four contexts: `encode()`, `script_size()`,
//!      `ext.pk_cost`, type, and the three decoders applied to the encoding;
//! (ii) byte strings: every encoded script under systematic edits, cross-context decoding,
//!      opcode soups and random bytes: lexer tokens, raw parser result, the three decoders'
//!      accept/reject class and, on accept, the decoded AST, its type, size and re-encoding.
//!
//! One text block per case (see `emit_case`). Nothing here judges anything: the oracle
//! (tools/props/c04.py) and the extracted Coq model (ocaml/driver_codec.ml) read the blocks.
use crate::ast::*;
use bitcoin::hashes::Hash;
use bitcoin::ScriptBuf;
use miniscript::miniscript::decode::{self, ParseableKey};
use miniscript::miniscript::lex::{self, Token, TokenIter};
use miniscript::miniscript::ScriptContext;
use miniscript::{
    AbsLockTime, BareCtx, Legacy, Miniscript, MiniscriptKey, RelLockTime, Segwitv0, Tap, Terminal,
    Threshold, ToPublicKey, ValidationParams,
};
use std::fmt::Write as _;
use std::panic::{catch_unwind, AssertUnwindSafe};
use std::sync::Arc;

// ------------------------------------------------------------------ instruction view of a script
#[derive(Clone, PartialEq, Eq, Debug)]
pub(crate) enum Ins {
    Push(Vec<u8>), // data push (any push opcode)
    Op(u8),        // any other byte, including OP_1NEGATE / OP_1..16
}

/// permissive parse (no minimality requirements); stops at the first truncated push
pub(crate) fn parse_ins(b: &[u8]) -> (Vec<Ins>, bool) {
    let mut out = Vec::new();
    let mut i = 0;
    while i < b.len() {
        let c = b[i];
        i += 1;
        let (n, hdr) = match c {
            0..=75 => (c as usize, 0),
            76 => {
                if i + 1 > b.len() {
                    return (out, false);
                }
                (b[i] as usize, 1)
            }
            77 => {
                if i + 2 > b.len() {
                    return (out, false);
                }
                (b[i] as usize | (b[i + 1] as usize) << 8, 2)
            }
            78 => {
                if i + 4 > b.len() {
                    return (out, false);
                }
                (b[i] as usize | (b[i + 1] as usize) << 8 | (b[i + 2] as usize) << 16 | (b[i + 3] as usize) << 24, 4)
            }
            _ => {
                out.push(Ins::Op(c));
                continue;
            }
        };
        i += hdr;
        if i + n > b.len() {
            return (out, false);
        }
        out.push(Ins::Push(b[i..i + n].to_vec()));
        i += n;
    }
    (out, true)
}

fn ser_push_with(d: &[u8], form: u8, out: &mut Vec<u8>) {
    // form: 0 = shortest, 1 = PUSHDATA1, 2 = PUSHDATA2, 4 = PUSHDATA4
    match form {
        0 => {
            let n = d.len();
            if n <= 75 {
                out.push(n as u8)
            } else if n <= 255 {
                out.push(76);
                out.push(n as u8)
            } else if n <= 65535 {
                out.push(77);
                out.push(n as u8);
                out.push((n >> 8) as u8)
            } else {
                out.push(78);
                out.extend_from_slice(&(n as u32).to_le_bytes())
            }
        }
        1 => {
            out.push(76);
            out.push(d.len() as u8)
        }
        2 => {
            out.push(77);
            out.push(d.len() as u8);
            out.push((d.len() >> 8) as u8)
        }
        _ => {
            out.push(78);
            out.extend_from_slice(&(d.len() as u32).to_le_bytes())
        }
    }
    out.extend_from_slice(d);
}

fn ser_ins(v: &[Ins]) -> Vec<u8> {
    let mut out = Vec::new();
    for i in v {
        match i {
            Ins::Push(d) => ser_push_with(d, 0, &mut out),
            Ins::Op(c) => out.push(*c),
        }
    }
    out
}

// ------------------------------------------------------------------ canonical dumps
fn key_name<Pk: ToPublicKey>(w: &World, tap: bool, k: &Pk) -> String {
    let b = if tap { k.to_x_only_pubkey().serialize().to_vec() } else { k.to_public_key().to_bytes() };
    for i in 0..N_KEYS {
        if w.key_bytes(i, tap) == b {
            return i.to_string();
        }
    }
    format!("x{}", hex(&b))
}

/// prefix dump of any Terminal whose key type can be serialised (decoded trees have
/// bitcoin::PublicKey / XOnlyPublicKey keys; generated ones DefiniteDescriptorKey)
fn gdump<Pk: MiniscriptKey + ToPublicKey, Ctx: ScriptContext>(w: &World, tap: bool, t: &Terminal<Pk, Ctx>, out: &mut Vec<String>) {
    let un = |tag: &str, x: &Arc<Miniscript<Pk, Ctx>>, out: &mut Vec<String>| {
        out.push(tag.into());
        gdump(w, tap, &x.node, out)
    };
    match t {
        Terminal::True => out.push("1".into()),
        Terminal::False => out.push("0".into()),
        Terminal::PkK(k) => {
            out.push("pk_k".into());
            out.push(key_name(w, tap, k))
        }
        Terminal::PkH(k) => {
            out.push("pk_h".into());
            out.push(key_name(w, tap, k))
        }
        Terminal::RawPkH(h) => {
            out.push("raw_pk_h".into());
            out.push(hex(h.as_byte_array()))
        }
        Terminal::After(t) => {
            out.push("after".into());
            out.push(t.to_consensus_u32().to_string())
        }
        Terminal::Older(t) => {
            out.push("older".into());
            out.push(t.to_consensus_u32().to_string())
        }
        Terminal::Sha256(h) => {
            out.push("sha256".into());
            out.push(hex(Pk::to_sha256(h).as_byte_array()))
        }
        Terminal::Hash256(h) => {
            out.push("hash256".into());
            out.push(hex(Pk::to_hash256(h).as_byte_array()))
        }
        Terminal::Ripemd160(h) => {
            out.push("ripemd160".into());
            out.push(hex(Pk::to_ripemd160(h).as_byte_array()))
        }
        Terminal::Hash160(h) => {
            out.push("hash160".into());
            out.push(hex(Pk::to_hash160(h).as_byte_array()))
        }
        Terminal::Alt(x) => un("a", x, out),
        Terminal::Swap(x) => un("s", x, out),
        Terminal::Check(x) => un("c", x, out),
        Terminal::DupIf(x) => un("d", x, out),
        Terminal::Verify(x) => un("v", x, out),
        Terminal::NonZero(x) => un("j", x, out),
        Terminal::ZeroNotEqual(x) => un("n", x, out),
        Terminal::AndV(x, y) => {
            un("and_v", x, out);
            gdump(w, tap, &y.node, out)
        }
        Terminal::AndB(x, y) => {
            un("and_b", x, out);
            gdump(w, tap, &y.node, out)
        }
        Terminal::AndOr(a, b, c) => {
            un("andor", a, out);
            gdump(w, tap, &b.node, out);
            gdump(w, tap, &c.node, out)
        }
        Terminal::OrB(x, y) => {
            un("or_b", x, out);
            gdump(w, tap, &y.node, out)
        }
        Terminal::OrD(x, y) => {
            un("or_d", x, out);
            gdump(w, tap, &y.node, out)
        }
        Terminal::OrC(x, y) => {
            un("or_c", x, out);
            gdump(w, tap, &y.node, out)
        }
        Terminal::OrI(x, y) => {
            un("or_i", x, out);
            gdump(w, tap, &y.node, out)
        }
        Terminal::Thresh(th) => {
            out.push("thresh".into());
            out.push(th.k().to_string());
            out.push(th.n().to_string());
            for x in th.iter() {
                gdump(w, tap, &x.node, out);
            }
        }
        Terminal::Multi(th) | Terminal::SortedMulti(th) => {
            out.push(if matches!(t, Terminal::Multi(..)) { "multi" } else { "sortedmulti" }.into());
            out.push(th.k().to_string());
            out.push(th.n().to_string());
            for k in th.iter() {
                out.push(key_name(w, tap, k));
            }
        }
        Terminal::MultiA(th) | Terminal::SortedMultiA(th) => {
            out.push(if matches!(t, Terminal::MultiA(..)) { "multi_a" } else { "sortedmulti_a" }.into());
            out.push(th.k().to_string());
            out.push(th.n().to_string());
            for k in th.iter() {
                out.push(key_name(w, tap, k));
            }
        }
    }
}

pub(crate) fn gdump_str<Pk: MiniscriptKey + ToPublicKey, Ctx: ScriptContext>(w: &World, tap: bool, t: &Terminal<Pk, Ctx>) -> String {
    let mut v = Vec::new();
    gdump(w, tap, t, &mut v);
    v.join(" ")
}

pub(crate) fn ty_str(t: &miniscript::miniscript::types::Type) -> String {
    use miniscript::miniscript::types::{Base, Dissat, Input};
    let b = match t.corr.base {
        Base::B => "B",
        Base::K => "K",
        Base::V => "V",
        Base::W => "W",
    };
    let i = match t.corr.input {
        Input::Zero => "z",
        Input::One => "o",
        Input::Any => "a",
        Input::OneNonZero => "on",
        Input::AnyNonZero => "an",
    };
    let d = match t.mall.dissat {
        Dissat::None => "N",
        Dissat::Unique => "U",
        Dissat::Unknown => "K",
    };
    format!("{}.{}.{}{}.{}.{}{}", b, i, t.corr.dissatisfiable as u8, t.corr.unit as u8, d, t.mall.signed as u8, t.mall.non_malleable as u8)
}

fn tok_str(t: &Token) -> String {
    match t {
        Token::Num(n) => format!("Num:{}", n),
        Token::Hash20(b) => format!("Hash20:{}", hex(b)),
        Token::Bytes32(b) => format!("Bytes32:{}", hex(b)),
        Token::Bytes33(b) => format!("Bytes33:{}", hex(b)),
        Token::Bytes65(b) => format!("Bytes65:{}", hex(b)),
        x => format!("{:?}", x),
    }
}

/// error class: the variant names of the error value, never its message
pub(crate) fn err_class(e: &miniscript::Error) -> String {
    let s = format!("{:?}", e);
    let mut idents: Vec<String> = Vec::new();
    let mut cur = String::new();
    for ch in s.chars() {
        if ch.is_ascii_alphanumeric() || ch == '_' {
            cur.push(ch);
        } else {
            if !cur.is_empty() {
                idents.push(std::mem::take(&mut cur));
            }
            if ch != '(' && ch != '{' && ch != ' ' {
                break;
            }
            if ch == '{' {
                break;
            }
        }
        if idents.len() >= 3 {
            break;
        }
    }
    if !cur.is_empty() && idents.len() < 3 {
        idents.push(cur);
    }
    let depth = match idents.first().map(|x| x.as_str()) {
        Some("ScriptLexer") => {
            if idents.get(1).map(|x| x.as_str()) == Some("Script") {
                3
            } else {
                2
            }
        }
        Some("ContextError") | Some("Validation") => 2,
        _ => 1,
    };
    idents.truncate(depth);
    idents.join(":")
}

// ------------------------------------------------------------------ one case
struct CtxDesc {
    name: &'static str,
    tap: bool,
}

pub(crate) fn key_valid(tap: bool, b: &[u8]) -> bool {
    // the oracle side: rust-bitcoin / secp256k1 directly
    if tap {
        bitcoin::secp256k1::XOnlyPublicKey::from_slice(b).is_ok()
    } else {
        bitcoin::PublicKey::from_slice(b).is_ok()
    }
}

fn dec_line<Ctx: ScriptContext>(w: &World, cd: &CtxDesc, tag: &str, script: &ScriptBuf, params: Option<&ValidationParams>, out: &mut String)
where
    Ctx::Key: ToPublicKey,
{
    let r = catch_unwind(AssertUnwindSafe(|| match params {
        Some(p) => Miniscript::<Ctx::Key, Ctx>::decode_with_validation_params(script, p),
        None => {
            if tag == "cons" {
                Miniscript::<Ctx::Key, Ctx>::decode_consensus(script)
            } else {
                Miniscript::<Ctx::Key, Ctx>::decode(script)
            }
        }
    }));
    match r {
        Err(_) => writeln!(out, "D {} panic", tag).unwrap(),
        Ok(Err(e)) => writeln!(out, "D {} err {}", tag, err_class(&e)).unwrap(),
        Ok(Ok(ms)) => {
            let obs = catch_unwind(AssertUnwindSafe(|| {
                (hex(ms.encode().as_bytes()), ms.script_size(), ms.ext.pk_cost, ty_str(&ms.ty), gdump_str(w, cd.tap, &ms.node))
            }));
            match obs {
                Ok((re, sz, pc, ty, d)) => writeln!(out, "D {} ok {} {} {} {} | {}", tag, ty, sz, pc, re, d).unwrap(),
                Err(_) => writeln!(out, "D {} okpanic", tag).unwrap(),
            }
        }
    }
}

#[allow(clippy::too_many_arguments)]
fn emit_case<Ctx: ScriptContext>(w: &World, cd: &CtxDesc, id: &str, kind: &str, bytes: &[u8], src: Option<&str>, enc: Option<&str>, out: &mut String)
where
    Ctx::Key: ToPublicKey + ParseableKey,
{
    writeln!(out, "C {} {} {} {}", id, cd.name, kind, hex(bytes)).unwrap();
    if let Some(s) = src {
        writeln!(out, "S {}", s).unwrap();
    }
    if let Some(e) = enc {
        writeln!(out, "E {}", e).unwrap();
    }
    // key validity of every 32/33/65-byte push (oracle side)
    let (ins, _) = parse_ins(bytes);
    let mut seen: Vec<Vec<u8>> = Vec::new();
    let mut kline = String::new();
    for i in &ins {
        if let Ins::Push(d) = i {
            if (d.len() == 32 || d.len() == 33 || d.len() == 65) && !seen.contains(d) {
                seen.push(d.clone());
                write!(kline, " {}={}", hex(d), key_valid(cd.tap, d) as u8).unwrap();
            }
        }
    }
    if !kline.is_empty() {
        writeln!(out, "K{}", kline).unwrap();
    }
    let script = ScriptBuf::from_bytes(bytes.to_vec());
    // lexer
    let toks = catch_unwind(AssertUnwindSafe(|| lex::lex(&script)));
    match &toks {
        Err(_) => writeln!(out, "L panic").unwrap(),
        Ok(Err(e)) => writeln!(out, "L err {}", err_class(&miniscript::Error::ScriptLexer(e.clone()))).unwrap(),
        Ok(Ok(ts)) => {
            let v: Vec<String> = ts.iter().map(tok_str).collect();
            writeln!(out, "L ok {}", v.join(" ")).unwrap()
        }
    }
    // raw parser (decode::decode) on the lexer's tokens
    if let Ok(Ok(ts)) = &toks {
        let r = catch_unwind(AssertUnwindSafe(|| {
            let mut it = TokenIter::new(ts.clone());
            let r = decode::decode::<Ctx>(&mut it);
            (r, it.len())
        }));
        match r {
            Err(_) => writeln!(out, "P panic").unwrap(),
            Ok((Err(e), _)) => writeln!(out, "P err {}", err_class(&e)).unwrap(),
            Ok((Ok(ms), rest)) => writeln!(out, "P ok {} {} | {}", rest, ty_str(&ms.ty), gdump_str(w, cd.tap, &ms.node)).unwrap(),
        }
    }
    dec_line::<Ctx>(w, cd, "max", &script, Some(&ValidationParams::MAX), out);
    dec_line::<Ctx>(w, cd, "cons", &script, None, out);
    dec_line::<Ctx>(w, cd, "sane", &script, None, out);
    writeln!(out, ".").unwrap();
}

// ------------------------------------------------------------------ edits
const VERIFY_FORMS: [(u8, u8, &str); 4] = [(0x88, 0x87, "equal"), (0x9d, 0x9c, "numequal"), (0xad, 0xac, "checksig"), (0xaf, 0xae, "checkmultisig")];
const OP_SWAPS: [(u8, u8); 14] = [
    (0x63, 0x64),
    (0x64, 0x63),
    (0x9a, 0x9b),
    (0x9b, 0x9a),
    (0xb1, 0xb2),
    (0xb2, 0xb1),
    (0x7c, 0x6b),
    (0x87, 0x9c),
    (0x9c, 0x87),
    (0xac, 0xba),
    (0xba, 0xac),
    (0xa8, 0xaa),
    (0xa6, 0xa9),
    (0x73, 0x76),
];

pub(crate) fn all_edits(w: &World, tap: bool, ins: &[Ins]) -> Vec<(String, Vec<u8>)> {
    let mut out: Vec<(String, Vec<u8>)> = Vec::new();
    let with = |i: usize, repl: &[Ins]| -> Vec<u8> {
        let mut v: Vec<Ins> = ins[..i].to_vec();
        v.extend_from_slice(repl);
        v.extend_from_slice(&ins[i + 1..]);
        ser_ins(&v)
    };
    let raw_with = |i: usize, raw: &[u8]| -> Vec<u8> {
        let mut b = ser_ins(&ins[..i]);
        b.extend_from_slice(raw);
        b.extend_from_slice(&ser_ins(&ins[i + 1..]));
        b
    };
    for (i, x) in ins.iter().enumerate() {
        match x {
            Ins::Op(c) => {
                for (vf, base, name) in VERIFY_FORMS.iter() {
                    if c == vf {
                        out.push((format!("split-{}verify", name), with(i, &[Ins::Op(*base), Ins::Op(0x69)])));
                    }
                    // the reverse edit: OP VERIFY -> OPVERIFY
                    if c == base && matches!(ins.get(i + 1), Some(Ins::Op(0x69))) {
                        let mut v: Vec<Ins> = ins[..i].to_vec();
                        v.push(Ins::Op(*vf));
                        v.extend_from_slice(&ins[i + 2..]);
                        out.push((format!("join-{}verify", name), ser_ins(&v)));
                    }
                }
                if (0x51..=0x60).contains(c) {
                    out.push(("num-opn-to-push".into(), raw_with(i, &[1, c - 0x50])));
                    out.push(("num-opn-to-push2".into(), raw_with(i, &[2, c - 0x50, 0])));
                    let d = if *c == 0x60 { 0x5f } else { c + 1 };
                    out.push(("num-opn-change".into(), with(i, &[Ins::Op(d)])));
                    if *c == 0x51 {
                        out.push(("num-one-to-reserved".into(), with(i, &[Ins::Op(0x50)])));
                    }
                    if *c == 0x60 {
                        out.push(("num-16-to-nop".into(), with(i, &[Ins::Op(0x61)])));
                    }
                }
                for (a, b) in OP_SWAPS.iter() {
                    if c == a {
                        out.push(("opswap".into(), with(i, &[Ins::Op(*b)])));
                    }
                }
            }
            Ins::Push(d) => {
                if d.len() <= 255 {
                    let mut r = Vec::new();
                    ser_push_with(d, 1, &mut r);
                    out.push(("push-pushdata1".into(), raw_with(i, &r)));
                }
                {
                    let mut r = Vec::new();
                    ser_push_with(d, 2, &mut r);
                    out.push(("push-pushdata2".into(), raw_with(i, &r)));
                    let mut r = Vec::new();
                    ser_push_with(d, 4, &mut r);
                    out.push(("push-pushdata4".into(), raw_with(i, &r)));
                }
                match d.len() {
                    0 => {
                        out.push(("num-zero-to-push".into(), raw_with(i, &[1, 0])));
                        out.push(("num-zero-to-negzero".into(), raw_with(i, &[1, 0x80])));
                        out.push(("num-zero-to-one".into(), with(i, &[Ins::Op(0x51)])));
                        // the opcodes next to the number opcodes (seeded change C04-9: an off-by-one range
                        // test in the lexer read OP_RESERVED as the number 0)
                        out.push(("num-zero-to-reserved".into(), with(i, &[Ins::Op(0x50)])));
                        out.push(("num-zero-to-1negate".into(), with(i, &[Ins::Op(0x4f)])));
                    }
                    1..=5 => {
                        // a number push: pad (non-minimal), negate, shrink to OP_n, neighbours
                        let mut p = d.clone();
                        let last = *p.last().unwrap();
                        if last & 0x80 == 0 {
                            p.push(0);
                            out.push(("num-pad".into(), with(i, &[Ins::Push(p)])));
                            let mut n = d.clone();
                            *n.last_mut().unwrap() |= 0x80;
                            out.push(("num-negate".into(), with(i, &[Ins::Push(n)])));
                        }
                        out.push(("num-push-to-opn".into(), with(i, &[Ins::Op(0x52 + (d[0] % 15))])));
                        out.push(("num-push-small".into(), with(i, &[Ins::Push(vec![1 + d[0] % 16])])));
                        let mut g = d.clone();
                        g.push(0x01);
                        out.push(("num-grow".into(), with(i, &[Ins::Push(g)])));
                        if d.len() == 4 {
                            let mut g = d.clone();
                            g[3] |= 0x40;
                            g.push(0x00);
                            out.push(("num-5bytes".into(), with(i, &[Ins::Push(g)])));
                        }
                    }
                    20 => {
                        let mut e = d.clone();
                        e.extend_from_slice(&[0x11; 12]);
                        out.push(("len-20-to-32".into(), with(i, &[Ins::Push(e)])));
                        out.push(("len-20-to-19".into(), with(i, &[Ins::Push(d[..19].to_vec())])));
                        out.push(("len-20-to-21".into(), with(i, &[Ins::Push([&d[..], &[7u8]].concat())])));
                    }
                    32 => {
                        out.push(("len-32-to-33".into(), with(i, &[Ins::Push([&[2u8], &d[..]].concat())])));
                        out.push(("len-32-to-20".into(), with(i, &[Ins::Push(d[..20].to_vec())])));
                        out.push(("len-32-to-31".into(), with(i, &[Ins::Push(d[..31].to_vec())])));
                        let mut e = d.clone();
                        e[31] ^= 1;
                        out.push(("key-bitflip".into(), with(i, &[Ins::Push(e)])));
                    }
                    33 => {
                        out.push(("len-33-to-32".into(), with(i, &[Ins::Push(d[1..].to_vec())])));
                        out.push(("len-33-to-65".into(), with(i, &[Ins::Push(w.key_bytes(6, false))])));
                        let mut e = d.clone();
                        e[32] ^= 1;
                        out.push(("key-bitflip".into(), with(i, &[Ins::Push(e)])));
                        let mut e = d.clone();
                        e[0] = 5;
                        out.push(("key-badprefix".into(), with(i, &[Ins::Push(e)])));
                    }
                    65 => {
                        out.push(("len-65-to-33".into(), with(i, &[Ins::Push(w.key_bytes(0, false))])));
                        let mut e = d.clone();
                        e[0] = 6 + (e[64] & 1);
                        out.push(("key-hybrid".into(), with(i, &[Ins::Push(e)])));
                    }
                    _ => {}
                }
            }
        }
        // structural
        let mut v = ins.to_vec();
        v.remove(i);
        out.push(("drop".into(), ser_ins(&v)));
        let mut v = ins.to_vec();
        v.insert(i, x.clone());
        out.push(("dup".into(), ser_ins(&v)));
        if i + 1 < ins.len() {
            let mut v = ins.to_vec();
            v.swap(i, i + 1);
            out.push(("swap-adjacent".into(), ser_ins(&v)));
        }
    }
    let full = ser_ins(ins);
    for cut in 1..full.len() {
        out.push(("truncate-tail".into(), full[..cut].to_vec()));
        out.push(("truncate-head".into(), full[cut..].to_vec()));
    }
    let key = Ins::Push(w.key_bytes(1, tap));
    for (name, extra) in [
        ("append-op1", vec![Ins::Op(0x51)]),
        ("append-verify", vec![Ins::Op(0x69)]),
        ("append-drop", vec![Ins::Op(0x75)]),
        ("append-ff", vec![Ins::Op(0xff)]),
        ("append-nop", vec![Ins::Op(0x61)]),
        ("append-1negate", vec![Ins::Op(0x4f)]),
        ("append-key", vec![key.clone()]),
        ("append-pk", vec![key.clone(), Ins::Op(0xac)]),
        ("append-0notequal", vec![Ins::Op(0x92)]),
        ("append-checksig", vec![Ins::Op(0xac)]),
    ] {
        let mut v = ins.to_vec();
        v.extend(extra.clone());
        out.push((name.into(), ser_ins(&v)));
        let mut v = extra.clone();
        v.extend_from_slice(ins);
        out.push((name.replace("append", "prepend"), ser_ins(&v)));
    }
    out
}

// ------------------------------------------------------------------ directed ASTs
type Ms<Ctx> = Miniscript<Key, Ctx>;
type OA<Ctx> = Option<Arc<Ms<Ctx>>>;
fn fa<Ctx: ScriptContext>(t: Terminal<Key, Ctx>) -> OA<Ctx> { Miniscript::from_ast(t).ok().map(Arc::new) }
fn un<Ctx: ScriptContext>(f: fn(Arc<Ms<Ctx>>) -> Terminal<Key, Ctx>, x: OA<Ctx>) -> OA<Ctx> { fa(f(x?)) }
fn bin<Ctx: ScriptContext>(f: fn(Arc<Ms<Ctx>>, Arc<Ms<Ctx>>) -> Terminal<Key, Ctx>, x: OA<Ctx>, y: OA<Ctx>) -> OA<Ctx> { fa(f(x?, y?)) }

/// hand-made shapes the random generator reaches rarely or never: number-size break points,
/// large multi / multi_a / thresh, and_v associations, c:/v:/n: over and_v, pk_h, sortedmulti.
/// Anything from_ast rejects in this context is skipped.
pub(crate) fn directed<Ctx: ScriptContext>(w: &World, tap: bool, nk: usize) -> Vec<Ms<Ctx>> {
    use Terminal as T;
    let mut out: Vec<Ms<Ctx>> = Vec::new();
    let key = |i: usize| w.key(i % nk, tap);
    let pk = |i: usize| un::<Ctx>(T::Check, fa(T::PkK(key(i))));
    let pkh = |i: usize| un::<Ctx>(T::Check, fa(T::PkH(key(i))));
    let v = |x: OA<Ctx>| un::<Ctx>(T::Verify, x);
    let s = |x: OA<Ctx>| un::<Ctx>(T::Swap, x);
    let mut add = |x: OA<Ctx>| {
        if let Some(m) = x {
            out.push((*m).clone())
        }
    };
    for t in [1u32, 2, 15, 16, 17, 127, 128, 129, 255, 256, 32767, 32768, 65535, 65536, 8388607, 8388608, 499_999_999, 500_000_000, 0x7fff_ffff, 0x7fff_fffe] {
        if let Ok(a) = AbsLockTime::from_consensus(t) {
            add(bin(T::AndV, v(pk(0)), fa(T::After(a))));
        }
        if let Ok(r) = RelLockTime::from_consensus(t) {
            add(bin(T::AndV, v(pk(0)), fa(T::Older(r))));
        }
    }
    for t in [0x400000u32, 0x400001, 0x40ffff, 0x410000, 0x7fffffff, 0x3fffff] {
        if let Ok(r) = RelLockTime::from_consensus(t) {
            add(bin(T::AndV, v(pk(1)), fa(T::Older(r))));
        }
    }
    // multi / multi_a sizes
    for (k, n) in [(1usize, 1usize), (1, 2), (2, 3), (15, 16), (16, 16), (1, 17), (16, 17), (17, 17), (17, 20), (20, 20), (3, 20)] {
        let keys: Vec<Key> = (0..n).map(key).collect();
        if tap {
            if let Ok(th) = Threshold::new(k, keys.clone()) {
                add(fa(T::MultiA(th.clone())));
                add(fa(T::SortedMultiA(th.clone())));
                add(bin(T::AndV, v(fa(T::MultiA(th))), pk(2)));
            }
        } else if let Ok(th) = Threshold::new(k, keys.clone()) {
            add(fa(T::Multi(th.clone())));
            add(fa(T::SortedMulti(th.clone())));
            add(bin(T::AndV, v(fa(T::Multi(th))), pk(2)));
        }
    }
    if tap {
        for (k, n) in [(1usize, 30usize), (17, 30), (30, 30), (127, 130), (128, 130), (1, 130)] {
            let keys: Vec<Key> = (0..n).map(key).collect();
            if let Ok(th) = Threshold::new(k, keys) {
                add(fa(T::MultiA(th)));
            }
        }
    }
    // thresh with many subs (k over the OP_n range)
    for (k, n) in [(1usize, 1usize), (2, 2), (1, 3), (16, 18), (17, 18), (18, 18)] {
        let mut subs: Vec<Arc<Ms<Ctx>>> = Vec::new();
        if let Some(x) = pk(0) {
            subs.push(x)
        }
        for i in 1..n {
            if let Some(x) = s(pk(i)) {
                subs.push(x)
            }
        }
        if let Ok(th) = Threshold::new(k, subs) {
            add(fa(T::Thresh(th.clone())));
            add(bin(T::AndV, v(fa(T::Thresh(th))), pk(3)));
        }
    }
    // and_v associations and wrappers over and_v
    let x = || v(pk(0));
    let y = || v(pk(1));
    let z = || pk(2);
    let xz = || bin::<Ctx>(T::AndV, x(), z());
    add(bin(T::AndV, x(), bin(T::AndV, y(), z())));
    add(bin(T::AndV, bin(T::AndV, x(), y()), z()));
    add(bin(T::AndV, bin(T::AndV, x(), y()), bin(T::AndV, v(pk(3)), z())));
    let k1 = || fa::<Ctx>(T::PkK(key(1)));
    let kh1 = || fa::<Ctx>(T::PkH(key(1)));
    add(un(T::Check, bin(T::AndV, x(), k1())));
    add(bin(T::AndV, x(), un(T::Check, k1())));
    add(un(T::Check, bin(T::AndV, x(), kh1())));
    add(un(T::ZeroNotEqual, xz()));
    add(un(T::Verify, xz()));
    add(bin(T::AndB, xz(), s(pk(3))));
    add(bin(T::OrB, bin(T::AndV, x(), fa(T::False)), s(pk(3))));
    add((|| fa(T::AndOr(xz()?, pk(3)?, pk(4)?)))());
    add((|| fa(T::AndOr(pk(3)?, xz()?, bin(T::AndV, y(), pk(4))?)))());
    add(bin(T::OrD, xz(), pk(3)));
    add(bin(T::OrD, pk(3), xz()));
    add(bin(T::OrC, xz(), y()));
    add(bin(T::OrC, pk(3), bin(T::AndV, x(), y())));
    add(un(T::Alt, xz()));
    add(un(T::Swap, xz()));
    add(un(T::DupIf, bin(T::AndV, x(), y())));
    add(un(T::NonZero, xz()));
    add(bin(T::OrI, xz(), bin(T::AndV, y(), pk(3))));
    if let (Some(a), Some(b)) = (xz(), s(pk(3))) {
        if let Ok(th) = Threshold::new(1, vec![a, b]) {
            add(fa(T::Thresh(th)));
        }
    }
    // leaves on their own and verify-wrapped (free verify or not)
    add(pk(0));
    add(pkh(0));
    add(pk(6));
    add(pkh(7));
    add(fa(T::PkK(key(0))));
    add(fa(T::PkH(key(0))));
    add(fa(T::PkK(key(7))));
    add(fa(T::True));
    add(fa(T::False));
    for j in 0..2 {
        for h in 0..4 {
            let t: Terminal<Key, Ctx> = match h {
                0 => T::Sha256(w.sha256_img(j)),
                1 => T::Hash256(w.hash256_img(j)),
                2 => T::Ripemd160(w.ripemd160_img(j)),
                _ => T::Hash160(w.hash160_img(j)),
            };
            add(fa(t.clone()));
            add(bin(T::AndV, v(fa(t.clone())), pk(1)));
            add(bin(T::AndV, v(bin(T::AndB, pk(1), s(fa(t)))), pk(2)));
        }
    }
    add(bin(T::AndV, v(pkh(2)), pk(1)));
    add(bin(T::AndV, v(un(T::ZeroNotEqual, pk(2))), pk(1)));
    add(bin(T::AndV, v(bin(T::OrI, pk(2), pk(3))), pk(1)));
    add(bin(T::AndV, v(xz()), pk(3)));
    // tree height at the recursion limit (402): and_b(and_v(v:pk,pk), a:n:...:n:pk); the decoder
    // re-associates and_v outwards, which makes the tree one level deeper
    for wrappers in [396usize, 397, 398, 399] {
        let mut deep = pk(2);
        for _ in 0..wrappers {
            deep = un(T::ZeroNotEqual, deep);
        }
        add(bin(T::AndB, xz(), un(T::Alt, deep)));
    }
    out
}

// ------------------------------------------------------------------ per-context run
pub(crate) fn opcode_soup(rng: &mut Rng, w: &World, tap: bool) -> Vec<u8> {
    // token sequences made of the opcodes Miniscript uses: reaches deep into the parser
    const OPS: [u8; 34] = [
        0x00, 0x51, 0x52, 0x60, 0x63, 0x64, 0x67, 0x68, 0x69, 0x6b, 0x6c, 0x73, 0x75, 0x76, 0x7c, 0x82, 0x87, 0x88, 0x92, 0x93, 0x9a, 0x9b,
        0x9c, 0x9d, 0xa6, 0xa8, 0xa9, 0xaa, 0xac, 0xad, 0xae, 0xaf, 0xb1, 0xb2,
    ];
    let n = 1 + rng.below(14) as usize;
    let mut v = Vec::new();
    for _ in 0..n {
        match rng.below(10) {
            0 => v.push(Ins::Push(w.key_bytes(rng.below(6) as usize, tap))),
            1 => v.push(Ins::Push(w.sha256_img(0).as_byte_array().to_vec())),
            2 => v.push(Ins::Push(w.hash160_img(0).as_byte_array().to_vec())),
            3 => v.push(Ins::Push(vec![0x20])),
            4 => v.push(Ins::Op(0xba)),
            5 => v.push(Ins::Push(vec![(17 + rng.below(100)) as u8])),
            _ => v.push(Ins::Op(OPS[rng.below(OPS.len() as u64) as usize])),
        }
    }
    ser_ins(&v)
}

pub(crate) fn directed_bytes(w: &World, tap: bool) -> Vec<(String, Vec<u8>)> {
    let mut out: Vec<(String, Vec<u8>)> = Vec::new();
    let key = |i: usize| Ins::Push(w.key_bytes(i, tap));
    out.push(("empty".into(), vec![]));
    out.push(("lock0-cltv".into(), vec![0x00, 0xb1]));
    out.push(("lock0-csv".into(), vec![0x00, 0xb2]));
    out.push(("lockmax-cltv".into(), vec![0x04, 0xff, 0xff, 0xff, 0x7f, 0xb1]));
    out.push(("lockmax-csv".into(), vec![0x04, 0xff, 0xff, 0xff, 0x7f, 0xb2]));
    out.push(("thresh-k0".into(), ser_ins(&[key(0), Ins::Op(0xac), Ins::Push(vec![]), Ins::Op(0x87)])));
    out.push(("thresh-k2-of-1".into(), ser_ins(&[key(0), Ins::Op(0xac), Ins::Op(0x52), Ins::Op(0x87)])));
    out.push(("multi-n0".into(), vec![0x00, 0x00, 0xae]));
    out.push(("multi-k0".into(), ser_ins(&[Ins::Push(vec![]), key(0), Ins::Op(0x51), Ins::Op(0xae)])));
    out.push(("multi-k2-of-1".into(), ser_ins(&[Ins::Op(0x52), key(0), Ins::Op(0x51), Ins::Op(0xae)])));
    out.push(("multi-missing-key".into(), ser_ins(&[Ins::Op(0x51), key(0), Ins::Op(0x52), Ins::Op(0xae)])));
    let mut m21 = vec![Ins::Op(0x51)];
    for i in 0..21 {
        m21.push(key(i % 6));
    }
    m21.push(Ins::Push(vec![21]));
    m21.push(Ins::Op(0xae));
    out.push(("multi-n21".into(), ser_ins(&m21)));
    out.push(("multi_a-k0".into(), ser_ins(&[key(0), Ins::Op(0xac), Ins::Push(vec![]), Ins::Op(0x9c)])));
    out.push(("multi_a-k2-of-1".into(), ser_ins(&[key(0), Ins::Op(0xac), Ins::Op(0x52), Ins::Op(0x9c)])));
    out.push(("multi_a-k1000".into(), ser_ins(&[key(0), Ins::Op(0xac), Ins::Push(vec![0xe8, 0x03]), Ins::Op(0x9c)])));
    out.push(("multi_a-no-checksig".into(), ser_ins(&[key(0), Ins::Op(0xba), Ins::Op(0x51), Ins::Op(0x9c)])));
    // n:n:...:c:pk_k chains around the recursion limit (tree height = wrappers + 1)
    for d in [400usize, 401, 402, 403] {
        let mut v = vec![key(0), Ins::Op(0xac)];
        v.extend(std::iter::repeat(Ins::Op(0x92)).take(d));
        out.push((format!("deep-n-{}", d), ser_ins(&v)));
    }
    // and_v chains of v:pk around the 520 / 3600 / 10000 byte limits (35 resp. 34 bytes a link)
    for n in [13usize, 14, 15, 16, 101, 102, 103, 104, 105, 106, 107, 284, 285, 286, 287, 293, 294, 295, 303, 304] {
        let mut v = Vec::new();
        for i in 0..n {
            v.push(key(i % 6));
            v.push(Ins::Op(0xad));
        }
        v.push(key(0));
        v.push(Ins::Op(0xac));
        out.push((format!("chain-{}", n), ser_ins(&v)));
    }
    out
}

struct Plan {
    n_ast: usize,
    edits_per_ast: usize,
    n_rand: usize,
}

fn run_ctx<Ctx: ScriptContext>(w: &World, cd: &CtxDesc, seed: u64, plan: &Plan, foreign: &[Vec<u8>], keep: &mut Vec<Vec<u8>>)
where
    Ctx::Key: ToPublicKey + ParseableKey,
{
    let nk = if cd.tap { 6 } else if cd.name == "segwitv0" { 6 } else { 8 };
    let ci = CtxInfo { tap: cd.tap, legacy_like: cd.name == "bare" || cd.name == "legacy", n_keys: nk };
    let mut rng = Rng(seed ^ 0xC04C04);
    let mut out = String::new();
    let mut asts: Vec<(String, Ms<Ctx>)> = Vec::new();
    for (i, m) in directed::<Ctx>(w, cd.tap, nk).into_iter().enumerate() {
        asts.push((format!("{}-d{}", cd.name, i), m));
    }
    let mut i = 0u64;
    while asts.len() < plan.n_ast && i < 20 * plan.n_ast as u64 {
        i += 1;
        let mut g = Gen::new(w, seed.wrapping_mul(0x9E37).wrapping_add(i * 7919) ^ (cd.name.len() as u64) << 40, ci);
        g.dup_keys = i % 4 == 0;
        let depth = (i % 5) as u32;
        let b = match i % 11 {
            0 => B::K,
            1 => B::V,
            2 => B::W,
            _ => B::B,
        };
        if let Some(m) = g.gen::<Ctx>(b, depth) {
            asts.push((format!("{}-g{}", cd.name, i), m));
        }
    }
    for (id, m) in &asts {
        let r = catch_unwind(AssertUnwindSafe(|| (m.encode().into_bytes(), m.script_size(), m.ext.pk_cost, m.ext.has_free_verify)));
        let (bytes, sz, pc, hfv) = match r {
            Ok(x) => x,
            Err(_) => {
                writeln!(out, "C {} {} gen -\nS {}\nX encode-panic\n.", id, cd.name, dump_str(w, &m.node)).unwrap();
                continue;
            }
        };
        let src = dump_str(w, &m.node);
        let cons_ok = catch_unwind(AssertUnwindSafe(|| m.validate(&Ctx::CONSENSUS).is_ok())).unwrap_or(false);
        let sane_ok = catch_unwind(AssertUnwindSafe(|| m.validate(&Ctx::SANE).is_ok())).unwrap_or(false);
        let enc = format!("{} {} {} {} {} {} {}", hex(&bytes), sz, pc, hfv as u8, ty_str(&m.ty), cons_ok as u8, sane_ok as u8);
        emit_case::<Ctx>(w, cd, id, "gen", &bytes, Some(&src), Some(&enc), &mut out);
        if keep.len() < 400 {
            keep.push(bytes.clone());
        }
        // systematic edits of the encoding
        let (ins, complete) = parse_ins(&bytes);
        if !complete {
            continue;
        }
        let eds = all_edits(w, cd.tap, &ins);
        if eds.is_empty() {
            continue;
        }
        // stratified sample: pick a kind first, then a candidate of that kind
        let mut kinds: Vec<&str> = eds.iter().map(|e| e.0.as_str()).collect();
        kinds.sort();
        kinds.dedup();
        let mut chosen: Vec<usize> = Vec::new();
        // every *VERIFY split / join of this script is always taken (the known weak spot)
        for (j, e) in eds.iter().enumerate() {
            if e.0.starts_with("split-") || e.0.starts_with("join-") {
                chosen.push(j);
            }
        }
        for _ in 0..plan.edits_per_ast {
            let k = kinds[rng.below(kinds.len() as u64) as usize];
            let cands: Vec<usize> = eds.iter().enumerate().filter(|(_, e)| e.0 == k).map(|(j, _)| j).collect();
            let j = cands[rng.below(cands.len() as u64) as usize];
            if !chosen.contains(&j) {
                chosen.push(j);
            }
        }
        for (n, j) in chosen.iter().enumerate() {
            let (k, b) = &eds[*j];
            emit_case::<Ctx>(w, cd, &format!("{}-e{}", id, n), &format!("edit:{}", k), b, Some(&src), None, &mut out);
        }
        if out.len() > 1 << 20 {
            print!("{}", out);
            out.clear();
        }
    }
    // scripts encoded under another context
    for (n, b) in foreign.iter().enumerate() {
        emit_case::<Ctx>(w, cd, &format!("{}-x{}", cd.name, n), "xctx", b, None, None, &mut out);
    }
    // hand-made byte strings for the rarer reject classes (lock-time range, recursion depth,
    // per-context script-size limits, threshold bounds)
    for (n, (k, b)) in directed_bytes(w, cd.tap).into_iter().enumerate() {
        emit_case::<Ctx>(w, cd, &format!("{}-b{}", cd.name, n), &format!("bytes:{}", k), &b, None, None, &mut out);
    }
    // opcode soups and raw random bytes
    for n in 0..plan.n_rand {
        let b = if n % 2 == 0 {
            opcode_soup(&mut rng, w, cd.tap)
        } else {
            let len = rng.below(40) as usize;
            (0..len).map(|_| rng.next() as u8).collect()
        };
        let kind = if n % 2 == 0 { "soup" } else { "random" };
        emit_case::<Ctx>(w, cd, &format!("{}-r{}", cd.name, n), kind, &b, None, None, &mut out);
        if out.len() > 1 << 20 {
            print!("{}", out);
            out.clear();
        }
    }
    print!("{}", out);
}

pub(crate) fn world_lines(w: &World) {
    use bitcoin::hashes::hash160;
    for i in 0..N_KEYS {
        let full = w.key_bytes(i, false);
        let x = w.key_bytes(i, true);
        let comp = bitcoin::PublicKey { inner: w.pks[i].inner, compressed: true }.to_bytes();
        println!(
            "W {} {} {} {} {} {}",
            i,
            hex(&full),
            hex(hash160::Hash::hash(&full).as_byte_array()),
            hex(&x),
            hex(hash160::Hash::hash(&x).as_byte_array()),
            hex(&comp)
        );
    }
}

/// rebuild an AST from its prefix dump (keys as world indices) with from_ast
fn undump<Ctx: ScriptContext>(w: &World, tap: bool, toks: &mut std::slice::Iter<String>) -> Option<Arc<Ms<Ctx>>> {
    use bitcoin::hashes::{hash160, ripemd160, sha256};
    use miniscript::hash256;
    use Terminal as T;
    let t = toks.next()?.clone();
    let num = |toks: &mut std::slice::Iter<String>| -> Option<usize> { toks.next()?.parse().ok() };
    let keyt = |toks: &mut std::slice::Iter<String>| -> Option<Key> { Some(w.key(toks.next()?.parse().ok()?, tap)) };
    let raw = |toks: &mut std::slice::Iter<String>| -> Option<Vec<u8>> {
        let h = toks.next()?;
        (0..h.len() / 2).map(|i| u8::from_str_radix(&h[2 * i..2 * i + 2], 16).ok()).collect()
    };
    let term: Terminal<Key, Ctx> = match t.as_str() {
        "1" => T::True,
        "0" => T::False,
        "pk_k" => T::PkK(keyt(toks)?),
        "pk_h" => T::PkH(keyt(toks)?),
        "raw_pk_h" => T::RawPkH(hash160::Hash::from_slice(&raw(toks)?).ok()?),
        "after" => T::After(AbsLockTime::from_consensus(num(toks)? as u32).ok()?),
        "older" => T::Older(RelLockTime::from_consensus(num(toks)? as u32).ok()?),
        "sha256" => T::Sha256(sha256::Hash::from_slice(&raw(toks)?).ok()?),
        "hash256" => T::Hash256(hash256::Hash::from_slice(&raw(toks)?).ok()?),
        "ripemd160" => T::Ripemd160(ripemd160::Hash::from_slice(&raw(toks)?).ok()?),
        "hash160" => T::Hash160(hash160::Hash::from_slice(&raw(toks)?).ok()?),
        "a" => T::Alt(undump(w, tap, toks)?),
        "s" => T::Swap(undump(w, tap, toks)?),
        "c" => T::Check(undump(w, tap, toks)?),
        "d" => T::DupIf(undump(w, tap, toks)?),
        "v" => T::Verify(undump(w, tap, toks)?),
        "j" => T::NonZero(undump(w, tap, toks)?),
        "n" => T::ZeroNotEqual(undump(w, tap, toks)?),
        "and_v" | "and_b" | "or_b" | "or_d" | "or_c" | "or_i" => {
            let x = undump(w, tap, toks)?;
            let y = undump(w, tap, toks)?;
            match t.as_str() {
                "and_v" => T::AndV(x, y),
                "and_b" => T::AndB(x, y),
                "or_b" => T::OrB(x, y),
                "or_d" => T::OrD(x, y),
                "or_c" => T::OrC(x, y),
                _ => T::OrI(x, y),
            }
        }
        "andor" => {
            let a = undump(w, tap, toks)?;
            let b = undump(w, tap, toks)?;
            let c = undump(w, tap, toks)?;
            T::AndOr(a, b, c)
        }
        "thresh" => {
            let k = num(toks)?;
            let n = num(toks)?;
            let mut subs = Vec::new();
            for _ in 0..n {
                subs.push(undump(w, tap, toks)?);
            }
            T::Thresh(Threshold::new(k, subs).ok()?)
        }
        "multi" | "sortedmulti" | "multi_a" | "sortedmulti_a" => {
            let k = num(toks)?;
            let n = num(toks)?;
            let mut ks = Vec::new();
            for _ in 0..n {
                ks.push(keyt(toks)?);
            }
            match t.as_str() {
                "multi" => T::Multi(Threshold::new(k, ks).ok()?),
                "sortedmulti" => T::SortedMulti(Threshold::new(k, ks).ok()?),
                "multi_a" => T::MultiA(Threshold::new(k, ks).ok()?),
                _ => T::SortedMultiA(Threshold::new(k, ks).ok()?),
            }
        }
        _ => return None,
    };
    fa(term)
}

fn replay_ast<Ctx: ScriptContext>(w: &World, cd: &CtxDesc, dump: &[String])
where
    Ctx::Key: ToPublicKey + ParseableKey,
{
    let mut it = dump.iter();
    let mut out = String::new();
    match undump::<Ctx>(w, cd.tap, &mut it) {
        Some(m) => {
            let bytes = m.encode().into_bytes();
            let cons_ok = m.validate(&Ctx::CONSENSUS).is_ok();
            let sane_ok = m.validate(&Ctx::SANE).is_ok();
            let src = dump_str(w, &m.node);
            let enc = format!("{} {} {} {} {} {} {}", hex(&bytes), m.script_size(), m.ext.pk_cost, m.ext.has_free_verify as u8, ty_str(&m.ty), cons_ok as u8, sane_ok as u8);
            emit_case::<Ctx>(w, cd, "replay", "gen", &bytes, Some(&src), Some(&enc), &mut out);
        }
        None => writeln!(out, "X cannot rebuild the AST in this context").unwrap(),
    }
    print!("{}", out);
}

/// `codec <seed> <n_ast per ctx> <edits per ast> <n_rand per ctx>`; `codec replay <ctx> <hex>`;
/// `codec replay-ast <ctx> <prefix dump tokens...>`
pub fn run(args: &[String]) {
    let w = World::new();
    if args.first().map(|s| s.as_str()) == Some("replay-ast") {
        world_lines(&w);
        match args[1].as_str() {
            "bare" => replay_ast::<BareCtx>(&w, &CtxDesc { name: "bare", tap: false }, &args[2..]),
            "legacy" => replay_ast::<Legacy>(&w, &CtxDesc { name: "legacy", tap: false }, &args[2..]),
            "segwitv0" => replay_ast::<Segwitv0>(&w, &CtxDesc { name: "segwitv0", tap: false }, &args[2..]),
            _ => replay_ast::<Tap>(&w, &CtxDesc { name: "tap", tap: true }, &args[2..]),
        }
        println!("EOF");
        return;
    }
    if args.first().map(|s| s.as_str()) == Some("replay") {
        world_lines(&w);
        let ctx = args[1].as_str();
        let bytes: Vec<u8> = if args[2] == "-" { vec![] } else { (0..args[2].len() / 2).map(|i| u8::from_str_radix(&args[2][2 * i..2 * i + 2], 16).unwrap()).collect() };
        let mut out = String::new();
        match ctx {
            "bare" => emit_case::<BareCtx>(&w, &CtxDesc { name: "bare", tap: false }, "replay", "replay", &bytes, None, None, &mut out),
            "legacy" => emit_case::<Legacy>(&w, &CtxDesc { name: "legacy", tap: false }, "replay", "replay", &bytes, None, None, &mut out),
            "segwitv0" => emit_case::<Segwitv0>(&w, &CtxDesc { name: "segwitv0", tap: false }, "replay", "replay", &bytes, None, None, &mut out),
            _ => emit_case::<Tap>(&w, &CtxDesc { name: "tap", tap: true }, "replay", "replay", &bytes, None, None, &mut out),
        }
        print!("{}", out);
        println!("EOF");
        return;
    }
    let seed: u64 = args.first().and_then(|s| s.parse().ok()).unwrap_or(1);
    let n_ast: usize = args.get(1).and_then(|s| s.parse().ok()).unwrap_or(200);
    let edits: usize = args.get(2).and_then(|s| s.parse().ok()).unwrap_or(8);
    let n_rand: usize = args.get(3).and_then(|s| s.parse().ok()).unwrap_or(200);
    let plan = Plan { n_ast, edits_per_ast: edits, n_rand };
    world_lines(&w);
    let mut keep_sw: Vec<Vec<u8>> = Vec::new();
    let mut keep_tap: Vec<Vec<u8>> = Vec::new();
    let mut keep_leg: Vec<Vec<u8>> = Vec::new();
    let mut sink: Vec<Vec<u8>> = Vec::new();
    run_ctx::<Segwitv0>(&w, &CtxDesc { name: "segwitv0", tap: false }, seed, &plan, &[], &mut keep_sw);
    run_ctx::<Tap>(&w, &CtxDesc { name: "tap", tap: true }, seed, &plan, &keep_sw[..keep_sw.len().min(150)], &mut keep_tap);
    run_ctx::<Legacy>(&w, &CtxDesc { name: "legacy", tap: false }, seed, &plan, &keep_tap[..keep_tap.len().min(150)], &mut keep_leg);
    run_ctx::<BareCtx>(&w, &CtxDesc { name: "bare", tap: false }, seed, &plan, &keep_sw[..keep_sw.len().min(100)], &mut sink);
    // legacy scripts (uncompressed keys, no or_i/d:) offered to the segwit decoder
    let mut out = String::new();
    for (n, b) in keep_leg.iter().take(150).enumerate() {
        emit_case::<Segwitv0>(&w, &CtxDesc { name: "segwitv0", tap: false }, &format!("segwitv0-y{}", n), "xctx", b, None, None, &mut out);
    }
    print!("{}", out);
    println!("EOF");
}
