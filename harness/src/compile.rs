//! `compile` engine (property C08): seeded generator of concrete policies, every public
//! compilation entry point of the library, and a canonical dump of every returned output
//! (AST, ATTACHED type of every node, recomputation with `from_ast`, string form, re-parse,
//! `validate(&Ctx::SANE)`, resource figures, Taproot tree).  The dump is judged by the
//! proved validator extracted from coq/Ms/PolicyVal.v (ocaml/driver_val.ml).
//!
//! usage: verif-harness compile <seed> <n_policies> [max_leaves]
//!        verif-harness compile-one <mode:string|real> <policy tokens...>     (replay)
use crate::ast::{hex, Rng};
use crate::tables::ty_idx;
use bitcoin::hashes::{hash160, ripemd160, sha256, sha256d, Hash};
use miniscript::descriptor::ShInner;
use miniscript::miniscript::ScriptContext;
use miniscript::policy::concrete::{DescriptorCtx, Policy as Concrete};
use miniscript::policy::{Liftable, Semantic};
use miniscript::{
    BareCtx, DefiniteDescriptorKey, Descriptor, FromStrKey, Legacy, Miniscript, MiniscriptKey,
    Segwitv0, Tap, Terminal, Threshold,
};
use std::collections::BTreeMap;
use std::fmt::Write as _;
use std::panic::{catch_unwind, AssertUnwindSafe};
use std::str::FromStr;
use std::sync::Arc;

pub const N_KEYS: usize = 16;
pub const UNSPENDABLE: usize = 9000;
pub const N_TABLE: usize = 1100; // keys available to the near-limit stream
pub const UNC_FROM: usize = 800; // Bare/Legacy tables: indices from here are uncompressed keys
pub const N_PRE: usize = 160; // distinct preimages

/// The generator's own policy tree (independent of the library's types).
#[derive(Clone, Debug, PartialEq)]
pub enum P {
    Key(usize),
    After(u32),
    Older(u32),
    Hash(u8, usize), // kind 0 sha256, 1 hash256, 2 ripemd160, 3 hash160; preimage index
    And(Vec<P>),
    Or(Vec<(usize, P)>),
    Thresh(usize, Vec<P>),
    Trivial,
    Unsat,
}

const HASH_NAMES: [&str; 4] = ["sha256", "hash256", "ripemd160", "hash160"];

fn preimage(j: usize) -> [u8; 32] {
    *sha256::Hash::hash(format!("verif c08 preimage {}", j).as_bytes()).as_byte_array()
}
fn hash_hex(kind: u8, j: usize) -> String {
    let p = preimage(j);
    match kind {
        0 => hex(sha256::Hash::hash(&p).as_byte_array()),
        1 => hex(sha256d::Hash::hash(&p).as_byte_array()),
        2 => hex(ripemd160::Hash::hash(&p).as_byte_array()),
        _ => hex(hash160::Hash::hash(&p).as_byte_array()),
    }
}

impl P {
    pub fn tokens(&self, out: &mut Vec<String>) {
        match self {
            P::Key(i) => {
                out.push("pk".into());
                out.push(i.to_string())
            }
            P::After(n) => {
                out.push("after".into());
                out.push(n.to_string())
            }
            P::Older(n) => {
                out.push("older".into());
                out.push(n.to_string())
            }
            P::Hash(k, j) => {
                out.push(HASH_NAMES[*k as usize].into());
                out.push(hash_hex(*k, *j))
            }
            P::And(l) => {
                out.push("and".into());
                out.push(l.len().to_string());
                for x in l {
                    x.tokens(out)
                }
            }
            P::Or(l) => {
                out.push("or".into());
                out.push(l.len().to_string());
                for (w, x) in l {
                    out.push(w.to_string());
                    x.tokens(out)
                }
            }
            P::Thresh(k, l) => {
                out.push("thresh".into());
                out.push(k.to_string());
                out.push(l.len().to_string());
                for x in l {
                    x.tokens(out)
                }
            }
            P::Trivial => out.push("trivial".into()),
            P::Unsat => out.push("unsat".into()),
        }
    }
    pub fn token_str(&self) -> String {
        let mut v = Vec::new();
        self.tokens(&mut v);
        v.join(" ")
    }
    pub fn n_leaves(&self) -> usize {
        match self {
            P::And(l) | P::Thresh(_, l) => l.iter().map(|x| x.n_leaves()).sum(),
            P::Or(l) => l.iter().map(|x| x.1.n_leaves()).sum(),
            _ => 1,
        }
    }
    fn keys(&self, out: &mut Vec<usize>) {
        match self {
            P::Key(i) => out.push(*i),
            P::And(l) | P::Thresh(_, l) => l.iter().for_each(|x| x.keys(out)),
            P::Or(l) => l.iter().for_each(|x| x.1.keys(out)),
            _ => {}
        }
    }
    fn replace_key(&self, k: usize) -> P {
        match self {
            P::Key(i) if *i == k => P::Unsat,
            P::And(l) => P::And(l.iter().map(|x| x.replace_key(k)).collect()),
            P::Or(l) => P::Or(l.iter().map(|(w, x)| (*w, x.replace_key(k))).collect()),
            P::Thresh(t, l) => P::Thresh(*t, l.iter().map(|x| x.replace_key(k)).collect()),
            x => x.clone(),
        }
    }
    /// root-level disjunction leaves (Or, and Thresh with k = 1), left to right
    fn root_disjuncts<'a>(&'a self, out: &mut Vec<&'a P>) {
        match self {
            P::Or(l) => l.iter().for_each(|x| x.1.root_disjuncts(out)),
            P::Thresh(1, l) => l.iter().for_each(|x| x.root_disjuncts(out)),
            x => out.push(x),
        }
    }
    pub fn parse(toks: &[String]) -> Option<P> {
        fn go(t: &[String], i: &mut usize) -> Option<P> {
            let name = t.get(*i)?.clone();
            *i += 1;
            let num = |i: &mut usize| -> Option<usize> {
                let v = t.get(*i)?.parse::<usize>().ok();
                *i += 1;
                v
            };
            Some(match name.as_str() {
                "pk" => P::Key(num(i)?),
                "after" => P::After(num(i)? as u32),
                "older" => P::Older(num(i)? as u32),
                "sha256" | "hash256" | "ripemd160" | "hash160" => {
                    let kind = HASH_NAMES.iter().position(|n| *n == name)? as u8;
                    let h = t.get(*i)?.clone();
                    *i += 1;
                    let j = (0..N_PRE).find(|j| hash_hex(kind, *j) == h)?;
                    P::Hash(kind, j)
                }
                "and" => {
                    let n = num(i)?;
                    let mut l = Vec::new();
                    for _ in 0..n {
                        l.push(go(t, i)?)
                    }
                    P::And(l)
                }
                "or" => {
                    let n = num(i)?;
                    let mut l = Vec::new();
                    for _ in 0..n {
                        let w = num(i)?;
                        l.push((w, go(t, i)?))
                    }
                    P::Or(l)
                }
                "thresh" => {
                    let k = num(i)?;
                    let n = num(i)?;
                    let mut l = Vec::new();
                    for _ in 0..n {
                        l.push(go(t, i)?)
                    }
                    P::Thresh(k, l)
                }
                "trivial" => P::Trivial,
                "unsat" => P::Unsat,
                _ => return None,
            })
        }
        let mut i = 0;
        let p = go(toks, &mut i)?;
        if i == toks.len() {
            Some(p)
        } else {
            None
        }
    }
}

// ------------------------------------------------------------------ key tables
/// key index -> key string, per key mode and context family
pub struct KeyTable {
    pub strs: Vec<String>,   // N_TABLE entries
    pub kinds: Vec<char>,    // c compressed / u uncompressed / x x-only
    pub unspendable: String, // internal key supplied when no key can be extracted
    index: std::collections::HashMap<String, usize>,
}

fn real_pk(i: usize) -> bitcoin::secp256k1::PublicKey {
    let secp = bitcoin::secp256k1::Secp256k1::new();
    let h = sha256::Hash::hash(format!("verif c08 key {}", i).as_bytes());
    let sk = bitcoin::secp256k1::SecretKey::from_slice(h.as_byte_array()).unwrap();
    bitcoin::secp256k1::PublicKey::from_secret_key(&secp, &sk)
}

fn real_pks() -> &'static Vec<bitcoin::secp256k1::PublicKey> {
    static PKS: std::sync::OnceLock<Vec<bitcoin::secp256k1::PublicKey>> = std::sync::OnceLock::new();
    PKS.get_or_init(|| (0..N_TABLE).map(real_pk).collect())
}

/// Tables are built once per (mode, tap, legacy_like).  Indices 0..15 are what the random stream
/// uses; the near-limit stream uses the rest (>= UNC_FROM: uncompressed in Bare/Legacy tables).
pub fn key_table(mode: &str, tap: bool, legacy_like: bool) -> Arc<KeyTable> {
    static CACHE: std::sync::OnceLock<std::sync::Mutex<std::collections::HashMap<(String, bool, bool), Arc<KeyTable>>>> =
        std::sync::OnceLock::new();
    let cache = CACHE.get_or_init(|| std::sync::Mutex::new(std::collections::HashMap::new()));
    let key = (mode.to_string(), tap, legacy_like);
    if let Some(t) = cache.lock().unwrap().get(&key) {
        return Arc::clone(t);
    }
    let mut strs = Vec::new();
    let mut kinds = Vec::new();
    for i in 0..N_TABLE {
        if mode == "string" {
            strs.push(format!("K{}", i));
            kinds.push('c');
        } else if tap && mode == "realmix" && (i == 14 || i == 15) {
            // a key kind the context must refuse
            let pk = bitcoin::PublicKey { inner: real_pks()[i], compressed: false };
            strs.push(format!("{}", pk));
            kinds.push('u');
        } else if tap || (mode == "realmix" && legacy_like && (i == 12 || i == 13)) {
            strs.push(format!("{}", real_pks()[i].x_only_public_key().0));
            kinds.push('x');
        } else if legacy_like && (i == 14 || i == 15 || i >= UNC_FROM) {
            let pk = bitcoin::PublicKey { inner: real_pks()[i], compressed: false };
            strs.push(format!("{}", pk));
            kinds.push('u');
        } else {
            let pk = bitcoin::PublicKey { inner: real_pks()[i], compressed: true };
            strs.push(format!("{}", pk));
            kinds.push('c');
        }
    }
    let unspendable = if mode == "string" {
        "KU".to_string()
    } else if tap {
        format!("{}", real_pk(UNSPENDABLE).x_only_public_key().0)
    } else {
        format!("{}", bitcoin::PublicKey { inner: real_pk(UNSPENDABLE), compressed: true })
    };
    let index = strs.iter().enumerate().map(|(i, s)| (s.clone(), i)).collect();
    let t = Arc::new(KeyTable { strs, kinds, unspendable, index });
    cache.lock().unwrap().insert(key, Arc::clone(&t));
    t
}

impl KeyTable {
    fn index_of(&self, s: &str) -> usize {
        if s == self.unspendable {
            return UNSPENDABLE;
        }
        self.index.get(s).copied().unwrap_or(99999)
    }
}

// ------------------------------------------------------------------ building the library's policy
fn build<Pk: FromStrKey>(p: &P, kt: &KeyTable) -> Result<Concrete<Pk>, String> {
    let leaf = |s: String| Concrete::<Pk>::from_str(&s).map_err(|e| format!("leaf {}: {}", s, e));
    match p {
        P::Key(i) => leaf(format!("pk({})", kt.strs[*i])),
        P::After(n) => leaf(format!("after({})", n)),
        P::Older(n) => leaf(format!("older({})", n)),
        P::Hash(k, j) => leaf(format!("{}({})", HASH_NAMES[*k as usize], hash_hex(*k, *j))),
        P::Trivial => Ok(Concrete::Trivial),
        P::Unsat => Ok(Concrete::Unsatisfiable),
        P::And(l) => {
            let mut v = Vec::new();
            for x in l {
                v.push(Arc::new(build::<Pk>(x, kt)?));
            }
            Ok(Concrete::And(v))
        }
        P::Or(l) => {
            let mut v = Vec::new();
            for (w, x) in l {
                v.push((*w, Arc::new(build::<Pk>(x, kt)?)));
            }
            Ok(Concrete::Or(v))
        }
        P::Thresh(k, l) => {
            let mut v = Vec::new();
            for x in l {
                v.push(Arc::new(build::<Pk>(x, kt)?));
            }
            Threshold::new(*k, v).map(Concrete::Thresh).map_err(|e| format!("thresh: {}", e))
        }
    }
}

/// canonical dump of the library's own policy value (must equal the generator's dump)
fn dump_concrete<Pk: MiniscriptKey>(p: &Concrete<Pk>, kt: &KeyTable, out: &mut Vec<String>) {
    match p {
        Concrete::Unsatisfiable => out.push("unsat".into()),
        Concrete::Trivial => out.push("trivial".into()),
        Concrete::Key(k) => {
            out.push("pk".into());
            out.push(kt.index_of(&k.to_string()).to_string())
        }
        Concrete::After(t) => {
            out.push("after".into());
            out.push(t.to_consensus_u32().to_string())
        }
        Concrete::Older(t) => {
            out.push("older".into());
            out.push(t.to_consensus_u32().to_string())
        }
        Concrete::Sha256(h) => {
            out.push("sha256".into());
            out.push(h.to_string())
        }
        Concrete::Hash256(h) => {
            out.push("hash256".into());
            out.push(h.to_string())
        }
        Concrete::Ripemd160(h) => {
            out.push("ripemd160".into());
            out.push(h.to_string())
        }
        Concrete::Hash160(h) => {
            out.push("hash160".into());
            out.push(h.to_string())
        }
        Concrete::And(l) => {
            out.push("and".into());
            out.push(l.len().to_string());
            for x in l {
                dump_concrete(x, kt, out)
            }
        }
        Concrete::Or(l) => {
            out.push("or".into());
            out.push(l.len().to_string());
            for (w, x) in l {
                out.push(w.to_string());
                dump_concrete(x, kt, out)
            }
        }
        Concrete::Thresh(th) => {
            out.push("thresh".into());
            out.push(th.k().to_string());
            out.push(th.n().to_string());
            for x in th.iter() {
                dump_concrete(x, kt, out)
            }
        }
    }
}

fn dump_semantic<Pk: MiniscriptKey>(p: &Semantic<Pk>, kt: &KeyTable, out: &mut Vec<String>) {
    match p {
        Semantic::Unsatisfiable => out.push("unsat".into()),
        Semantic::Trivial => out.push("trivial".into()),
        Semantic::Key(k) => {
            out.push("pk".into());
            out.push(kt.index_of(&k.to_string()).to_string())
        }
        Semantic::After(t) => {
            out.push("after".into());
            out.push(t.to_consensus_u32().to_string())
        }
        Semantic::Older(t) => {
            out.push("older".into());
            out.push(t.to_consensus_u32().to_string())
        }
        Semantic::Sha256(h) => {
            out.push("sha256".into());
            out.push(h.to_string())
        }
        Semantic::Hash256(h) => {
            out.push("hash256".into());
            out.push(h.to_string())
        }
        Semantic::Ripemd160(h) => {
            out.push("ripemd160".into());
            out.push(h.to_string())
        }
        Semantic::Hash160(h) => {
            out.push("hash160".into());
            out.push(h.to_string())
        }
        Semantic::Thresh(th) => {
            out.push("thresh".into());
            out.push(th.k().to_string());
            out.push(th.n().to_string());
            for x in th.iter() {
                dump_semantic(x, kt, out)
            }
        }
    }
}

// ------------------------------------------------------------------ walking an output
struct Walk {
    toks: Vec<String>,
    tys: Vec<u64>,
    ty_same: Vec<u8>,  // 1: attached ty == from_ast recomputation, 0: differs, 2: recomputation failed
    ext_same: Vec<u8>, // same for ext
}

/// Pre-order dump of the tree with the ATTACHED type of every node; every node is also rebuilt
/// bottom-up with `Miniscript::from_ast` (which recomputes ty and ext from the rebuilt children)
/// and the attached annotations are compared with the recomputed ones.
fn walk<Pk: MiniscriptKey, Ctx: ScriptContext>(
    ms: &Miniscript<Pk, Ctx>,
    kt: &KeyTable,
    w: &mut Walk,
) -> Option<Miniscript<Pk, Ctx>> {
    let slot = w.tys.len();
    w.tys.push(ty_idx(&ms.ty));
    w.ty_same.push(2);
    w.ext_same.push(2);
    let key = |k: &Pk, w: &mut Walk| w.toks.push(kt.index_of(&k.to_string()).to_string());
    macro_rules! un {
        ($name:expr, $x:expr, $ctor:expr) => {{
            w.toks.push($name.into());
            walk(&$x, kt, w).map(|c| $ctor(Arc::new(c)))
        }};
    }
    macro_rules! bin {
        ($name:expr, $x:expr, $y:expr, $ctor:expr) => {{
            w.toks.push($name.into());
            let a = walk(&$x, kt, w);
            let b = walk(&$y, kt, w);
            match (a, b) {
                (Some(a), Some(b)) => Some($ctor(Arc::new(a), Arc::new(b))),
                _ => None,
            }
        }};
    }
    macro_rules! multi {
        ($name:expr, $th:expr, $ctor:expr) => {{
            w.toks.push($name.into());
            w.toks.push($th.k().to_string());
            w.toks.push($th.n().to_string());
            for k in $th.iter() {
                key(k, w);
            }
            Some($ctor($th.clone()))
        }};
    }
    let node: Option<Terminal<Pk, Ctx>> = match &ms.node {
        Terminal::True => {
            w.toks.push("1".into());
            Some(Terminal::True)
        }
        Terminal::False => {
            w.toks.push("0".into());
            Some(Terminal::False)
        }
        Terminal::PkK(k) => {
            w.toks.push("pk_k".into());
            key(k, w);
            Some(Terminal::PkK(k.clone()))
        }
        Terminal::PkH(k) => {
            w.toks.push("pk_h".into());
            key(k, w);
            Some(Terminal::PkH(k.clone()))
        }
        Terminal::RawPkH(h) => {
            w.toks.push("raw_pk_h".into());
            w.toks.push(hex(h.as_byte_array()));
            Some(Terminal::RawPkH(*h))
        }
        Terminal::After(t) => {
            w.toks.push("after".into());
            w.toks.push(t.to_consensus_u32().to_string());
            Some(Terminal::After(*t))
        }
        Terminal::Older(t) => {
            w.toks.push("older".into());
            w.toks.push(t.to_consensus_u32().to_string());
            Some(Terminal::Older(*t))
        }
        Terminal::Sha256(h) => {
            w.toks.push("sha256".into());
            w.toks.push(h.to_string());
            Some(Terminal::Sha256(h.clone()))
        }
        Terminal::Hash256(h) => {
            w.toks.push("hash256".into());
            w.toks.push(h.to_string());
            Some(Terminal::Hash256(h.clone()))
        }
        Terminal::Ripemd160(h) => {
            w.toks.push("ripemd160".into());
            w.toks.push(h.to_string());
            Some(Terminal::Ripemd160(h.clone()))
        }
        Terminal::Hash160(h) => {
            w.toks.push("hash160".into());
            w.toks.push(h.to_string());
            Some(Terminal::Hash160(h.clone()))
        }
        Terminal::Alt(x) => un!("a", x, Terminal::Alt),
        Terminal::Swap(x) => un!("s", x, Terminal::Swap),
        Terminal::Check(x) => un!("c", x, Terminal::Check),
        Terminal::DupIf(x) => un!("d", x, Terminal::DupIf),
        Terminal::Verify(x) => un!("v", x, Terminal::Verify),
        Terminal::NonZero(x) => un!("j", x, Terminal::NonZero),
        Terminal::ZeroNotEqual(x) => un!("n", x, Terminal::ZeroNotEqual),
        Terminal::AndV(x, y) => bin!("and_v", x, y, Terminal::AndV),
        Terminal::AndB(x, y) => bin!("and_b", x, y, Terminal::AndB),
        Terminal::OrB(x, y) => bin!("or_b", x, y, Terminal::OrB),
        Terminal::OrD(x, y) => bin!("or_d", x, y, Terminal::OrD),
        Terminal::OrC(x, y) => bin!("or_c", x, y, Terminal::OrC),
        Terminal::OrI(x, y) => bin!("or_i", x, y, Terminal::OrI),
        Terminal::AndOr(a, b, c) => {
            w.toks.push("andor".into());
            let a = walk(a, kt, w);
            let b = walk(b, kt, w);
            let c = walk(c, kt, w);
            match (a, b, c) {
                (Some(a), Some(b), Some(c)) => {
                    Some(Terminal::AndOr(Arc::new(a), Arc::new(b), Arc::new(c)))
                }
                _ => None,
            }
        }
        Terminal::Thresh(th) => {
            w.toks.push("thresh".into());
            w.toks.push(th.k().to_string());
            w.toks.push(th.n().to_string());
            let mut subs = Vec::new();
            let mut ok = true;
            for x in th.iter() {
                match walk(x, kt, w) {
                    Some(c) => subs.push(Arc::new(c)),
                    None => ok = false,
                }
            }
            if ok {
                Threshold::new(th.k(), subs).ok().map(Terminal::Thresh)
            } else {
                None
            }
        }
        Terminal::Multi(th) => multi!("multi", th, Terminal::Multi),
        Terminal::SortedMulti(th) => multi!("sortedmulti", th, Terminal::SortedMulti),
        Terminal::MultiA(th) => multi!("multi_a", th, Terminal::MultiA),
        Terminal::SortedMultiA(th) => multi!("sortedmulti_a", th, Terminal::SortedMultiA),
    };
    let rebuilt = node.and_then(|n| {
        catch_unwind(AssertUnwindSafe(|| Miniscript::from_ast(n).ok())).ok().flatten()
    });
    if let Some(r) = &rebuilt {
        w.ty_same[slot] = (r.ty == ms.ty) as u8;
        w.ext_same[slot] = (r.ext == ms.ext) as u8;
    }
    rebuilt
}

fn class_of<E: std::fmt::Debug>(e: &E) -> String {
    let s = format!("{:?}", e);
    // keep the variant path: identifiers and '(' nesting up to the first payload
    let mut out = String::new();
    for ch in s.chars() {
        if ch.is_ascii_alphanumeric() || ch == '_' {
            out.push(ch)
        } else if ch == '(' && out.len() < 60 {
            out.push('.')
        } else {
            break;
        }
    }
    if out.is_empty() {
        "Error".into()
    } else {
        out
    }
}

/// Dump one miniscript output: MS / TY / RB / STR / RP / SN / LIM / LIFT lines.
fn emit_ms<Pk: FromStrKey, Ctx: ScriptContext>(
    out: &mut String,
    ms: &Miniscript<Pk, Ctx>,
    kt: &KeyTable,
    enc_len: Option<(usize, bool)>,
) {
    let mut w = Walk { toks: vec![], tys: vec![], ty_same: vec![], ext_same: vec![] };
    let rebuilt = walk(ms, kt, &mut w);
    writeln!(out, "MS {}", w.toks.join(" ")).unwrap();
    writeln!(out, "TY {}", w.tys.iter().map(|c| c.to_string()).collect::<Vec<_>>().join(" ")).unwrap();
    let fl = |v: &Vec<u8>| v.iter().map(|b| char::from(b'0' + *b)).collect::<String>();
    writeln!(
        out,
        "RB {} {} {}",
        if rebuilt.is_some() { "ok" } else { "fail" },
        fl(&w.ty_same),
        fl(&w.ext_same)
    )
    .unwrap();
    let s = ms.to_string();
    writeln!(out, "STR {}", s).unwrap();
    // re-parse from the string form under the default sanity rules (FromStr = Ctx::SANE)
    let rp = catch_unwind(AssertUnwindSafe(|| Miniscript::<Pk, Ctx>::from_str(&s)));
    match rp {
        Ok(Ok(m2)) => {
            let mut w2 = Walk { toks: vec![], tys: vec![], ty_same: vec![], ext_same: vec![] };
            walk(&m2, kt, &mut w2);
            let same = w2.toks == w.toks && w2.tys == w.tys && m2.to_string() == s;
            writeln!(out, "RP {}", if same { "ok-eq" } else { "ok-ne" }).unwrap()
        }
        Ok(Err(e)) => writeln!(out, "RP err:{}", class_of(&e)).unwrap(),
        Err(_) => writeln!(out, "RP panic").unwrap(),
    }
    match catch_unwind(AssertUnwindSafe(|| ms.validate(&Ctx::SANE))) {
        Ok(Ok(())) => writeln!(out, "SN ok").unwrap(),
        Ok(Err(e)) => writeln!(out, "SN err:{}", class_of(&e)).unwrap(),
        Err(_) => writeln!(out, "SN panic").unwrap(),
    }
    let o = |x: Option<usize>| x.map(|v| v.to_string()).unwrap_or_else(|| "-".into());
    let ti = ms.ext.timelock_info;
    writeln!(
        out,
        "LIM size={} enc={} ifop={} pkcost={} ops={} wit={} ssz={} stk={} h={} tl={}{}{}{}{} rep={} lv={} gv={}",
        ms.script_size(),
        o(enc_len.map(|x| x.0)),
        enc_len.map(|x| (x.1 as u8).to_string()).unwrap_or_else(|| "-".into()),
        ms.ext.pk_cost,
        o(ms.ext.sat_data.map(|d| ms.ext.static_ops + d.max_exec_op_count)),
        o(ms.max_satisfaction_witness_elements().ok()),
        o(ms.max_satisfaction_size().ok()),
        o(ms.ext.sat_data.map(|d| d.max_witness_stack_count + d.max_exec_stack_count)),
        ms.ext.tree_height,
        ti.csv_with_height as u8,
        ti.csv_with_time as u8,
        ti.cltv_with_height as u8,
        ti.cltv_with_time as u8,
        ti.contains_combination as u8,
        ms.has_repeated_keys() as u8,
        match Ctx::check_local_validity(ms) {
            Ok(()) => "ok".to_string(),
            Err(e) => format!("err:{}", class_of(&e)),
        },
        match Ctx::check_global_validity(ms) {
            Ok(()) => "ok".to_string(),
            Err(e) => format!("err:{}", class_of(&e)),
        }
    )
    .unwrap();
    match catch_unwind(AssertUnwindSafe(|| ms.lift())) {
        Ok(Ok(sem)) => {
            let mut t = Vec::new();
            dump_semantic(&sem, kt, &mut t);
            writeln!(out, "LIFT {}", t.join(" ")).unwrap()
        }
        Ok(Err(e)) => writeln!(out, "LIFT err:{}", class_of(&e)).unwrap(),
        Err(_) => writeln!(out, "LIFT panic").unwrap(),
    }
}

/// How to obtain the real script length (only for keys that serialise)
pub trait EncLen: MiniscriptKey {
    /// (length of the real script, does it contain OP_IF / OP_NOTIF / OP_IFDUP) -- read off the BYTES
    fn enc_len<Ctx: ScriptContext>(ms: &Miniscript<Self, Ctx>) -> Option<(usize, bool)>;
}
impl EncLen for String {
    fn enc_len<Ctx: ScriptContext>(_ms: &Miniscript<Self, Ctx>) -> Option<(usize, bool)> { None }
}
impl EncLen for DefiniteDescriptorKey {
    fn enc_len<Ctx: ScriptContext>(ms: &Miniscript<Self, Ctx>) -> Option<(usize, bool)> {
        catch_unwind(AssertUnwindSafe(|| {
            use bitcoin::blockdata::opcodes::all::{OP_IF, OP_IFDUP, OP_NOTIF};
            use bitcoin::blockdata::script::Instruction;
            let sc = ms.encode();
            let has_if = sc.instructions().any(|i| match i {
                Ok(Instruction::Op(op)) => op == OP_IF || op == OP_NOTIF || op == OP_IFDUP,
                _ => false,
            });
            (sc.len(), has_if)
        }))
        .ok()
    }
}

fn kinds_line(p: &P, kt: &KeyTable) -> String {
    let mut ks = Vec::new();
    p.keys(&mut ks);
    ks.sort();
    ks.dedup();
    let mut s: Vec<String> = ks.iter().map(|i| format!("{}:{}", i, kt.kinds[*i])).collect();
    s.push(format!("{}:{}", UNSPENDABLE, if kt.kinds[0] == 'x' { 'x' } else { 'c' }));
    s.join(" ")
}

fn compile_ms<Pk: FromStrKey + EncLen, Ctx: ScriptContext>(
    out: &mut String,
    id: &str,
    ctxname: &str,
    p: &P,
    kt: &KeyTable,
) {
    let pol = match build::<Pk>(p, kt) {
        Ok(x) => x,
        Err(_) => {
            writeln!(out, "OUT {} api=compile ctx={} res=err:Build", id, ctxname).unwrap();
            return;
        }
    };
    let r = catch_unwind(AssertUnwindSafe(|| pol.compile::<Ctx>()));
    match r {
        Err(_) => writeln!(out, "OUT {} api=compile ctx={} res=panic", id, ctxname).unwrap(),
        Ok(Err(e)) => {
            writeln!(out, "OUT {} api=compile ctx={} res=err:{}", id, ctxname, class_of(&e)).unwrap()
        }
        Ok(Ok(ms)) => {
            writeln!(out, "OUT {} api=compile ctx={} res=ok kk={}", id, ctxname, kinds_line(p, kt)).unwrap();
            emit_ms(out, &ms, kt, Pk::enc_len(&ms));
            writeln!(out, "ENDOUT").unwrap();
        }
    }
}

fn emit_desc<Pk: FromStrKey + EncLen>(out: &mut String, d: &Descriptor<Pk>, kt: &KeyTable, p: &P, api: &str) {
    match d {
        Descriptor::Bare(b) => {
            writeln!(out, "DESC bare").unwrap();
            emit_ms(out, b.as_inner(), kt, Pk::enc_len(b.as_inner()))
        }
        Descriptor::Sh(sh) => match sh.as_inner() {
            ShInner::Ms(ms) => {
                writeln!(out, "DESC sh").unwrap();
                emit_ms(out, ms, kt, Pk::enc_len(ms))
            }
            ShInner::Wsh(wsh) => {
                writeln!(out, "DESC shwsh").unwrap();
                emit_ms(out, wsh.as_inner(), kt, Pk::enc_len(wsh.as_inner()))
            }
            ShInner::Wpkh(_) => writeln!(out, "DESC other").unwrap(),
        },
        Descriptor::Wsh(wsh) => {
            writeln!(out, "DESC wsh").unwrap();
            emit_ms(out, wsh.as_inner(), kt, Pk::enc_len(wsh.as_inner()))
        }
        Descriptor::Tr(tr) => {
            let ik = kt.index_of(&tr.internal_key().to_string());
            let mut pk = Vec::new();
            p.keys(&mut pk);
            let inpol = pk.contains(&ik);
            let n = tr.leaves().count();
            writeln!(out, "DESC tr ik={} inpol={} nleaves={}", ik, inpol as u8, n).unwrap();
            for leaf in tr.leaves() {
                writeln!(out, "LEAF {}", leaf.depth()).unwrap();
                let ms: &Miniscript<Pk, Tap> = leaf.miniscript();
                emit_ms(out, ms, kt, Pk::enc_len(ms));
            }
            // independently compiled leaves of the root-level disjunction (compile_tr only)
            if api == "tr" {
                let p2 = if inpol { p.replace_key(ik) } else { p.clone() };
                let mut ds = Vec::new();
                p2.root_disjuncts(&mut ds);
                if p2 != P::Trivial {
                    for sub in ds {
                        if *sub == P::Unsat {
                            continue;
                        }
                        let r = build::<Pk>(sub, kt).ok().and_then(|sp| {
                            catch_unwind(AssertUnwindSafe(|| sp.compile::<Tap>())).ok()
                        });
                        match r {
                            Some(Ok(ms)) => {
                                let mut w = Walk { toks: vec![], tys: vec![], ty_same: vec![], ext_same: vec![] };
                                walk(&ms, kt, &mut w);
                                writeln!(out, "EXP {}", w.toks.join(" ")).unwrap();
                            }
                            Some(Err(e)) => writeln!(out, "EXPERR {}", class_of(&e)).unwrap(),
                            None => writeln!(out, "EXPERR panic").unwrap(),
                        }
                    }
                }
            }
        }
        _ => writeln!(out, "DESC other").unwrap(),
    }
    let s = d.to_string();
    writeln!(out, "DSTR {}", s).unwrap();
    match catch_unwind(AssertUnwindSafe(|| Descriptor::<Pk>::from_str(&s))) {
        Ok(Ok(d2)) => {
            // `pkh(K)` printed by Bare(c:pk_h(K)) re-parses as the Pkh descriptor: same string,
            // same output script, another Rust value -- reported as an alias, not as a difference
            let verdict = if d2.to_string() != s {
                "ok-ne"
            } else if d2 == *d {
                "ok-eq"
            } else {
                "ok-alias"
            };
            writeln!(out, "DRP {}", verdict).unwrap()
        }
        Ok(Err(e)) => writeln!(out, "DRP err:{}", class_of(&e)).unwrap(),
        Err(_) => writeln!(out, "DRP panic").unwrap(),
    }
    match catch_unwind(AssertUnwindSafe(|| d.lift())) {
        Ok(Ok(sem)) => {
            let mut t = Vec::new();
            dump_semantic(&sem, kt, &mut t);
            writeln!(out, "DLIFT {}", t.join(" ")).unwrap()
        }
        Ok(Err(e)) => writeln!(out, "DLIFT err:{}", class_of(&e)).unwrap(),
        Err(_) => writeln!(out, "DLIFT panic").unwrap(),
    }
}

fn compile_desc<Pk: FromStrKey + EncLen>(
    out: &mut String,
    id: &str,
    api: &str,
    ctxname: &str,
    p: &P,
    kt: &KeyTable,
    f: &dyn Fn(&Concrete<Pk>, Option<Pk>) -> Result<Descriptor<Pk>, String>,
) {
    let pol = match build::<Pk>(p, kt) {
        Ok(x) => x,
        Err(_) => {
            writeln!(out, "OUT {} api={} ctx={} res=err:Build", id, api, ctxname).unwrap();
            return;
        }
    };
    let unsp = Pk::from_str(&kt.unspendable).ok();
    let r = catch_unwind(AssertUnwindSafe(|| f(&pol, unsp)));
    match r {
        Err(_) => writeln!(out, "OUT {} api={} ctx={} res=panic", id, api, ctxname).unwrap(),
        Ok(Err(e)) => writeln!(out, "OUT {} api={} ctx={} res=err:{}", id, api, ctxname, e).unwrap(),
        Ok(Ok(d)) => {
            writeln!(out, "OUT {} api={} ctx={} res=ok kk={}", id, api, ctxname, kinds_line(p, kt)).unwrap();
            emit_desc(out, &d, kt, p, api);
            writeln!(out, "ENDOUT").unwrap();
        }
    }
}

fn all_apis<Pk: FromStrKey + EncLen>(out: &mut String, id: &str, p: &P, mode: &str, only: Option<&str>) {
    let want = |c: &str| only.map_or(true, |o| o == c || (o == "taplim" && c == "taplim-core"));
    let kt_l = key_table(mode, false, true);
    // mode "realmix": the segwit contexts also see the two uncompressed keys (14, 15), which they
    // must refuse -- an Ok output containing one is rejected by the validator's key-kind rule
    let kt_s = key_table(mode, false, mode == "realmix");
    let kt_t = key_table(mode, true, false);
    if want("bare") {
        compile_ms::<Pk, BareCtx>(out, id, "bare", p, &kt_l);
    }
    if want("legacy") {
        compile_ms::<Pk, Legacy>(out, id, "legacy", p, &kt_l);
    }
    if want("segwitv0") {
        compile_ms::<Pk, Segwitv0>(out, id, "segwitv0", p, &kt_s);
    }
    if want("tap") || want("taplim-core") {
        compile_ms::<Pk, Tap>(out, id, "tap", p, &kt_t);
    }
    let ce = |e: miniscript::Error| class_of(&e);
    if want("bare") {
    compile_desc::<Pk>(out, id, "desc", "bare", p, &kt_l, &|pol, _| {
        pol.compile_to_descriptor::<BareCtx>(DescriptorCtx::Bare).map_err(ce)
    });
    }
    if want("legacy") {
    compile_desc::<Pk>(out, id, "desc", "sh", p, &kt_l, &|pol, _| {
        pol.compile_to_descriptor::<Legacy>(DescriptorCtx::Sh).map_err(ce)
    });
    }
    if want("segwitv0") {
    compile_desc::<Pk>(out, id, "desc", "wsh", p, &kt_s, &|pol, _| {
        pol.compile_to_descriptor::<Segwitv0>(DescriptorCtx::Wsh).map_err(ce)
    });
    }
    if want("segwitv0") {
    compile_desc::<Pk>(out, id, "desc", "shwsh", p, &kt_s, &|pol, _| {
        pol.compile_to_descriptor::<Segwitv0>(DescriptorCtx::ShWsh).map_err(ce)
    });
    }
    if want("tap") {
    compile_desc::<Pk>(out, id, "desc", "tr-none", p, &kt_t, &|pol, _| {
        pol.compile_to_descriptor::<Tap>(DescriptorCtx::Tr(None)).map_err(ce)
    });
    }
    if want("tap") {
    compile_desc::<Pk>(out, id, "desc", "tr-unsp", p, &kt_t, &|pol, u| {
        pol.compile_to_descriptor::<Tap>(DescriptorCtx::Tr(u)).map_err(ce)
    });
    }
    if want("tap") {
    compile_desc::<Pk>(out, id, "tr", "tr-none", p, &kt_t, &|pol, _| {
        pol.compile_tr(None).map_err(|e| class_of(&e))
    });
    }
    if want("tap") || want("taplim-core") {
    compile_desc::<Pk>(out, id, "tr", "tr-unsp", p, &kt_t, &|pol, u| {
        pol.compile_tr(u).map_err(|e| class_of(&e))
    });
    }
    if want("tap") {
    compile_desc::<Pk>(out, id, "trnative", "tr-unsp", p, &kt_t, &|pol, u| {
        pol.compile_tr_native(u, 64).map_err(|e| class_of(&e))
    });
    }
    // compile_tr_native with budgets too small to avoid IF fragments: it must refuse, never return
    // a leaf with OP_IF / OP_NOTIF (max_leaves = 1, 2, number of root disjuncts - 1)
    if want("tap") {
        let mut ds = Vec::new();
        p.root_disjuncts(&mut ds);
        let mut budgets = vec![1usize, 2];
        if ds.len() >= 2 && !budgets.contains(&(ds.len() - 1)) {
            budgets.push(ds.len() - 1);
        }
        for b in budgets {
            let name = format!("trnative{}", b);
            compile_desc::<Pk>(out, id, &name, "tr-unsp", p, &kt_t, &|pol, u| {
                pol.compile_tr_native(u, b).map_err(|e| class_of(&e))
            });
        }
    }
    if want("tap") {
    compile_desc::<Pk>(out, id, "trpriv", "tr-unsp", p, &kt_t, &|pol, u| {
        pol.compile_tr_private_experimental(u).map_err(ce)
    });
    }
}

// ------------------------------------------------------------------ generator
struct PGen {
    rng: Rng,
    next_key: usize,
    abs_time: bool,
    rel_time: bool,
    strict_units: bool,
}

const ODDS: [usize; 12] = [1, 1, 1, 2, 3, 9, 10, 99, 100, 1000, 1_000_000, 4_294_967_295];

impl PGen {
    fn key(&mut self) -> P {
        let i = if self.rng.chance(1, 40) {
            self.rng.below(N_KEYS as u64) as usize // rare duplicate
        } else {
            let i = self.next_key % N_KEYS;
            self.next_key += 1;
            i
        };
        P::Key(i)
    }
    fn after(&mut self) -> P {
        let time = if self.strict_units { self.abs_time } else { self.rng.chance(1, 2) };
        let v = if time {
            match self.rng.below(3) {
                0 => 500_000_000,
                1 => 500_000_000 + 1 + self.rng.below(1000) as u32,
                _ => 1_700_000_000 + self.rng.below(100_000) as u32,
            }
        } else {
            match self.rng.below(4) {
                0 => 1,
                1 => 1 + self.rng.below(16) as u32,
                2 => 499_999_999,
                _ => 100 + self.rng.below(800_000) as u32,
            }
        };
        P::After(v)
    }
    fn older(&mut self) -> P {
        let time = if self.strict_units { self.rel_time } else { self.rng.chance(1, 2) };
        let base = match self.rng.below(5) {
            0 => 1,
            1 => 1 + self.rng.below(16) as u32,
            2 => 65535,
            3 => 144 * (1 + self.rng.below(30) as u32),
            _ => 1 + self.rng.below(65535) as u32,
        };
        let mut v = if time { 0x400000 | base } else { base };
        if self.rng.chance(1, 30) {
            v |= 0x10000; // a bit outside the 16-bit value mask (ignored by BIP68)
        }
        P::Older(v)
    }
    fn hash(&mut self) -> P { P::Hash(self.rng.below(4) as u8, self.rng.below(4) as usize) }
    fn leaf(&mut self, need_sig: bool) -> P {
        if need_sig {
            return self.key();
        }
        match self.rng.below(12) {
            0..=4 => self.key(),
            5 | 6 => self.after(),
            7 | 8 => self.older(),
            _ => self.hash(),
        }
    }
    fn odds(&mut self) -> usize {
        if self.rng.chance(1, 60) {
            return 1usize << 61;
        }
        ODDS[self.rng.below(ODDS.len() as u64) as usize]
    }
    fn split(&mut self, total: usize, parts: usize) -> Vec<usize> {
        // total >= parts, every part >= 1
        let mut v = vec![1; parts];
        for _ in 0..(total - parts) {
            let i = self.rng.below(parts as u64) as usize;
            v[i] += 1;
        }
        v
    }
    fn tree(&mut self, leaves: usize, need_sig: bool) -> P {
        if leaves <= 1 {
            return self.leaf(need_sig);
        }
        match self.rng.below(10) {
            0..=3 => {
                let s = self.split(leaves, 2);
                let which = self.rng.below(2) as usize;
                let a = self.tree(s[0], need_sig && which == 0);
                let b = self.tree(s[1], need_sig && which == 1);
                P::And(vec![a, b])
            }
            4..=7 => {
                let s = self.split(leaves, 2);
                let a = self.tree(s[0], need_sig);
                let b = self.tree(s[1], need_sig);
                let (wa, wb) = (self.odds(), self.odds());
                P::Or(vec![(wa, a), (wb, b)])
            }
            _ => {
                let n = 2 + self.rng.below(std::cmp::min(leaves - 1, 4) as u64) as usize;
                let s = self.split(leaves, n);
                let k = match self.rng.below(4) {
                    0 => 1,
                    1 => n,
                    _ => 1 + self.rng.below(n as u64) as usize,
                };
                let all_keys = self.rng.chance(1, 3);
                let mut which = self.rng.below(n as u64) as usize;
                let subs: Vec<P> = (0..n)
                    .map(|i| {
                        if all_keys {
                            self.key()
                        } else {
                            let ns = need_sig && (k < n || i == which);
                            if k == n && i == which {
                                which = n; // only one forced
                            }
                            self.tree(s[i], ns)
                        }
                    })
                    .collect();
                P::Thresh(k, subs)
            }
        }
    }
}

pub fn gen_policy(seed: u64, idx: u64, max_leaves: usize) -> (String, P) {
    let mut g = PGen {
        rng: Rng(seed.wrapping_mul(0x9E3779B97F4A7C15) ^ idx.wrapping_mul(0xD1B54A32D192ED03) ^ 0xC08),
        next_key: 0,
        abs_time: false,
        rel_time: false,
        strict_units: true,
    };
    g.next_key = g.rng.below(N_KEYS as u64) as usize;
    g.abs_time = g.rng.chance(1, 3);
    g.rel_time = g.rng.chance(1, 3);
    g.strict_units = !g.rng.chance(1, 8);
    let shape = g.rng.below(20);
    let nl = 1 + g.rng.below(max_leaves as u64) as usize;
    match shape {
        0 => ("single-key".into(), g.key()),
        1 => {
            // thresh(n,n) / thresh(1,..) over keys -> multi / multi_a
            let n = 2 + g.rng.below(5) as usize;
            let k = if g.rng.chance(1, 2) { n } else { 1 };
            ("thresh-keys-degenerate".into(), P::Thresh(k, (0..n).map(|_| g.key()).collect()))
        }
        2 => {
            let n = 2 + g.rng.below(6) as usize;
            let k = 1 + g.rng.below(n as u64) as usize;
            ("thresh-keys".into(), P::Thresh(k, (0..n).map(|_| g.key()).collect()))
        }
        3 => {
            // or with a constant child
            let c = if g.rng.chance(1, 2) { P::Unsat } else { P::Trivial };
            let x = g.tree(std::cmp::min(nl, 4), true);
            let (wa, wb) = (g.odds(), g.odds());
            let v = if g.rng.chance(1, 2) { vec![(wa, c), (wb, x)] } else { vec![(wa, x), (wb, c)] };
            ("or-constant".into(), P::Or(v))
        }
        4 => {
            let c = if g.rng.chance(1, 2) { P::Unsat } else { P::Trivial };
            let x = g.tree(std::cmp::min(nl, 4), true);
            let v = if g.rng.chance(1, 2) { vec![c, x] } else { vec![x, c] };
            ("and-constant".into(), P::And(v))
        }
        5 => {
            // repeated structure: a chain of or(and(pk, lock), ...)
            let n = 2 + g.rng.below(4) as usize;
            if g.rng.chance(1, 2) {
                g.strict_units = false; // every lock draws its own unit
            }
            let mut acc: Option<P> = None;
            for _ in 0..n {
                let lock = if g.rng.chance(1, 2) { g.older() } else { g.after() };
                let item = P::And(vec![g.key(), lock]);
                acc = Some(match acc {
                    None => item,
                    Some(a) => {
                        let (wa, wb) = (g.odds(), g.odds());
                        P::Or(vec![(wa, a), (wb, item)])
                    }
                });
            }
            ("repeated-or-and".into(), acc.unwrap())
        }
        6 => {
            // or(w@key-ish, w@hash-and-key) with extreme odds: the or_d / or_i choices
            let a = g.key();
            let b = P::And(vec![g.key(), g.hash()]);
            let (wa, wb) = (g.odds(), g.odds());
            let v = if g.rng.chance(1, 2) { vec![(wa, a), (wb, b)] } else { vec![(wa, b), (wb, a)] };
            ("or-odds-hash".into(), P::Or(v))
        }
        7 => {
            // thresh over mixed subs (keys, and(key,lock), and(key,hash))
            let n = 2 + g.rng.below(4) as usize;
            let k = 1 + g.rng.below(n as u64) as usize;
            let subs = (0..n)
                .map(|_| match g.rng.below(4) {
                    0 => P::And(vec![g.key(), g.older()]),
                    1 => P::And(vec![g.key(), g.hash()]),
                    _ => g.key(),
                })
                .collect();
            ("thresh-mixed".into(), P::Thresh(k, subs))
        }
        8 => {
            // non-binary and / or (programmatic only): the entry points must refuse them
            let n = if g.rng.chance(1, 2) { 1 } else { 3 };
            if g.rng.chance(1, 2) {
                ("nary-and".into(), P::And((0..n).map(|_| g.key()).collect()))
            } else {
                ("nary-or".into(), P::Or((0..n).map(|_| (1, g.key())).collect()))
            }
        }
        9 => ("random-unsafe".into(), g.tree(nl, false)),
        10 => {
            // a key guarding a choice of two sigless conditions: compilable only if the choice can
            // be made non-malleably (two hash locks cannot)
            let a = if g.rng.chance(1, 2) { g.hash() } else { g.older() };
            let b = if g.rng.chance(2, 3) { g.hash() } else { g.after() };
            let (wa, wb) = (g.odds(), g.odds());
            let o = P::Or(vec![(wa, a), (wb, b)]);
            let k = g.key();
            let v = if g.rng.chance(1, 2) { vec![k, o] } else { vec![o, k] };
            ("key-and-sigless-choice".into(), P::And(v))
        }
        11 | 12 | 13 => {
            // both UNITS of one lock kind on different spending paths: after(<height>) vs
            // after(<unix time>), older(<blocks>) vs older(<512 s units>).  The locks sit at
            // corresponding positions of the branches, mostly with equal odds (the compiler then
            // asks its cache for both with the same probabilities), sometimes nested.
            let abs = g.rng.chance(1, 2);
            let mut lock = |g: &mut PGen, time: bool| -> P {
                g.strict_units = true;
                if abs {
                    g.abs_time = time;
                    g.after()
                } else {
                    g.rel_time = time;
                    g.older()
                }
            };
            let first_time = g.rng.chance(1, 2);
            let l1 = lock(&mut g, first_time);
            let l2 = lock(&mut g, !first_time);
            let n_br = 2 + g.rng.below(2) as usize;
            let mut branches: Vec<P> = Vec::new();
            for i in 0..n_br {
                let l = match i {
                    0 => l1.clone(),
                    1 => l2.clone(),
                    _ => {
                        let t = g.rng.chance(1, 2);
                        lock(&mut g, t)
                    }
                };
                let k = g.key();
                branches.push(match g.rng.below(4) {
                    0 => P::And(vec![l, k]),
                    1 => P::And(vec![k, P::And(vec![g.key(), l])]),
                    _ => P::And(vec![k, l]),
                });
            }
            let equal = g.rng.chance(2, 3);
            let core = match g.rng.below(3) {
                0 => P::Thresh(1, branches),
                _ => {
                    let mut it = branches.into_iter();
                    let mut acc = it.next().unwrap();
                    for b in it {
                        let (wa, wb) = if equal { (1, 1) } else { (g.odds(), g.odds()) };
                        acc = P::Or(vec![(wa, acc), (wb, b)]);
                    }
                    acc
                }
            };
            let p = match g.rng.below(5) {
                0 => P::And(vec![g.key(), core]),
                1 => P::Or(vec![(1, g.key()), (1, core)]),
                2 => P::Thresh(1, vec![g.key(), core]),
                _ => core,
            };
            ("mixed-lock-units".into(), p)
        }
        _ => ("random".into(), g.tree(nl, true)),
    }
}

pub(crate) fn run_case(out: &mut String, id: &str, shape: &str, p: &P, mode: &str, only: Option<&str>) {
    writeln!(out, "CASE {} mode={} shape={} leaves={}", id, mode, shape, p.n_leaves()).unwrap();
    writeln!(out, "POL {}", p.token_str()).unwrap();
    // the library's own view of the policy (built value, Display) -- tie of the generator's dump
    let kt = key_table(mode, false, true);
    let desc = if mode == "string" {
        build::<String>(p, &kt).map(|c| {
            let mut t = Vec::new();
            dump_concrete(&c, &kt, &mut t);
            (t.join(" "), c.to_string())
        })
    } else {
        build::<DefiniteDescriptorKey>(p, &kt).map(|c| {
            let mut t = Vec::new();
            dump_concrete(&c, &kt, &mut t);
            (t.join(" "), c.to_string())
        })
    };
    match desc {
        Ok((toks, s)) => {
            writeln!(out, "POLLIB {}", toks).unwrap();
            writeln!(out, "POLSTR {}", s).unwrap();
        }
        Err(e) => writeln!(out, "POLERR {}", e.replace('\n', " ")).unwrap(),
    }
    if mode == "string" {
        all_apis::<String>(out, id, p, mode, only);
    } else {
        all_apis::<DefiniteDescriptorKey>(out, id, p, mode, only);
    }
    writeln!(out, "END {}", id).unwrap();
}

pub fn run(args: &[String]) {
    let seed: u64 = args.first().and_then(|s| s.parse().ok()).unwrap_or(1);
    let n: u64 = args.get(1).and_then(|s| s.parse().ok()).unwrap_or(50);
    let max_leaves: usize = args.get(2).and_then(|s| s.parse().ok()).unwrap_or(8);
    let mut hist: BTreeMap<String, u64> = BTreeMap::new();
    for i in 0..n {
        let (shape, p) = gen_policy(seed, i, max_leaves);
        let mode = if i % 2 == 0 {
            "string"
        } else if i % 16 == 15 {
            "realmix"
        } else {
            "real"
        };
        let id = format!("s{}-{}", seed, i);
        let mut out = String::new();
        run_case(&mut out, &id, &shape, &p, mode, None);
        print!("{}", out);
        *hist.entry(shape).or_insert(0) += 1;
    }
    for (k, v) in hist {
        println!("GENHIST {} {}", k, v);
    }
}

/// Replay of one policy given as tokens: compile-one <mode> [only=<ctx>] <tokens...>
pub fn run_one(args: &[String]) {
    // deep conjunctions of the near-limit stream: plenty of stack
    let a: Vec<String> = args.to_vec();
    std::thread::Builder::new().stack_size(1 << 30).spawn(move || run_one_body(&a)).unwrap().join().unwrap();
}
fn run_one_body(args: &[String]) {
    let mode = args.first().map(|s| s.as_str()).unwrap_or("string");
    let mut rest = &args[1.min(args.len())..];
    let mut only: Option<String> = None;
    if let Some(f) = rest.first() {
        if let Some(c) = f.strip_prefix("only=") {
            only = Some(c.to_string());
            rest = &rest[1..];
        }
    }
    let p = match P::parse(rest) {
        Some(p) => p,
        None => {
            eprintln!("cannot parse policy tokens");
            std::process::exit(2)
        }
    };
    let mut out = String::new();
    run_case(&mut out, "replay", "replay", &p, mode, only.as_deref());
    print!("{}", out);
}

/// Does compile::<Ctx> of the policy succeed in the named context? (bisection oracle of the
/// near-limit stream)
pub(crate) fn ok_in_ctx(p: &P, mode: &str, ctx: &str) -> bool {
    fn go<Pk: FromStrKey>(p: &P, mode: &str, ctx: &str) -> bool {
        let kt = match ctx {
            "tap" => key_table(mode, true, false),
            "segwitv0" => key_table(mode, false, false),
            _ => key_table(mode, false, true),
        };
        let pol = match build::<Pk>(p, &kt) {
            Ok(x) => x,
            Err(_) => return false,
        };
        catch_unwind(AssertUnwindSafe(|| match ctx {
            "bare" => pol.compile::<BareCtx>().is_ok(),
            "legacy" => pol.compile::<Legacy>().is_ok(),
            "segwitv0" => pol.compile::<Segwitv0>().is_ok(),
            _ => pol.compile::<Tap>().is_ok(),
        }))
        .unwrap_or(false)
    }
    if mode == "string" {
        go::<String>(p, mode, ctx)
    } else {
        go::<DefiniteDescriptorKey>(p, mode, ctx)
    }
}
