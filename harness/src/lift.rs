//! `lift` engine (C07): for generated miniscripts in every context, descriptors of every
//! output type and taproot trees, print
//!   * the implementation's `Liftable::lift` result, dumped by an own walker over
//!     `policy::Semantic` (keys as World indices), or its error class;
//!   * the `within_resource_limits` verdict per miniscript (input bit of the model);
//!   * for every asset world over the script's atoms (all key subsets, all preimage subsets,
//!     lock values on both sides of every time lock and of the other unit), whether the
//!     implementation's MALLEABLE satisfier finds a satisfaction under exactly those assets.
//! The OCaml driver (ocaml/driver_lift.ml, extracted Coq model/spec) compares the lift with the
//! model exactly, evaluates the implementation's policy with the specification's truth table
//! and compares with the satisfier's verdict and with the specification's satisfaction table.
use crate::ast::*;
use bitcoin::hashes::{hash160, ripemd160, sha256, Hash};
use bitcoin::secp256k1::{self, Message};
use bitcoin::sighash::{EcdsaSighashType, TapSighashType};
use bitcoin::taproot::TapLeafHash;
use bitcoin::{absolute, relative, Sequence};
use miniscript::descriptor::TapTree;
use miniscript::miniscript::ScriptContext;
use miniscript::policy::{LiftError, Liftable, Semantic};
use miniscript::{
    hash256, BareCtx, Descriptor, Legacy, Miniscript, Satisfier, Segwitv0, Tap, Terminal, Threshold,
};
use std::fmt::Write as _;
use std::panic::{catch_unwind, AssertUnwindSafe};
use std::sync::Arc;

type Ms<Ctx> = Miniscript<Key, Ctx>;

/// Assets held by the caller in one world. Signatures are well-formed dummies: whether the
/// satisfier FINDS a satisfaction does not depend on their validity (C01 executes witnesses).
struct LAssets<'a> {
    w: &'a World,
    keymask: u32,
    premask: u32,
    lock_time: Option<absolute::LockTime>,
    sequence: Option<Sequence>,
    ecdsa: bitcoin::ecdsa::Signature,
    schnorr: bitcoin::taproot::Signature,
    internal_idx: Option<usize>,
}

impl<'a> LAssets<'a> {
    fn has_key(&self, i: usize) -> bool { self.keymask & (1 << i) != 0 }
    fn pre(&self, j: usize) -> Option<[u8; 32]> {
        if self.premask & (1 << j) != 0 {
            Some(self.w.preimages[j])
        } else {
            None
        }
    }
}

impl<'a> Satisfier<Key> for LAssets<'a> {
    fn lookup_ecdsa_sig(&self, k: &Key) -> Option<bitcoin::ecdsa::Signature> {
        if self.has_key(self.w.key_index(k)) {
            Some(self.ecdsa)
        } else {
            None
        }
    }
    fn lookup_tap_key_spend_sig(&self, k: &Key) -> Option<bitcoin::taproot::Signature> {
        let i = self.w.key_index(k);
        if Some(i) == self.internal_idx && self.has_key(i) {
            Some(self.schnorr)
        } else {
            None
        }
    }
    fn lookup_tap_leaf_script_sig(&self, k: &Key, _lh: &TapLeafHash) -> Option<bitcoin::taproot::Signature> {
        if self.has_key(self.w.key_index(k)) {
            Some(self.schnorr)
        } else {
            None
        }
    }
    fn lookup_sha256(&self, h: &sha256::Hash) -> Option<[u8; 32]> {
        (0..N_PRE).find(|j| self.w.sha256_img(*j) == *h).and_then(|j| self.pre(j))
    }
    fn lookup_hash256(&self, h: &hash256::Hash) -> Option<[u8; 32]> {
        (0..N_PRE).find(|j| self.w.hash256_img(*j) == *h).and_then(|j| self.pre(j))
    }
    fn lookup_ripemd160(&self, h: &ripemd160::Hash) -> Option<[u8; 32]> {
        (0..N_PRE).find(|j| self.w.ripemd160_img(*j) == *h).and_then(|j| self.pre(j))
    }
    fn lookup_hash160(&self, h: &hash160::Hash) -> Option<[u8; 32]> {
        (0..N_PRE).find(|j| self.w.hash160_img(*j) == *h).and_then(|j| self.pre(j))
    }
    // exactly as harness/src/sat.rs: the held lock values judged by the library's own
    // Satisfier impls for LockTime / Sequence
    fn check_older(&self, n: relative::LockTime) -> bool {
        match self.sequence {
            Some(s) => <Sequence as Satisfier<Key>>::check_older(&s, n),
            None => false,
        }
    }
    fn check_after(&self, n: absolute::LockTime) -> bool {
        match self.lock_time {
            Some(l) => <absolute::LockTime as Satisfier<Key>>::check_after(&l, n),
            None => false,
        }
    }
}

// ------------------------------------------------------------------ policy dump
fn dump_pol(w: &World, p: &Semantic<Key>, out: &mut Vec<String>) {
    match p {
        Semantic::Unsatisfiable => out.push("U".into()),
        Semantic::Trivial => out.push("T".into()),
        Semantic::Key(k) => {
            out.push("pk".into());
            out.push(w.key_index(k).to_string())
        }
        Semantic::After(t) => {
            out.push("after".into());
            out.push(t.to_consensus_u32().to_string())
        }
        Semantic::Older(t) => {
            out.push("older".into());
            out.push(t.to_consensus_u32().to_string())
        }
        Semantic::Sha256(h) => {
            out.push("sha256".into());
            out.push(hex(h.as_byte_array()))
        }
        Semantic::Hash256(h) => {
            out.push("hash256".into());
            out.push(hex(h.as_byte_array()))
        }
        Semantic::Ripemd160(h) => {
            out.push("ripemd160".into());
            out.push(hex(h.as_byte_array()))
        }
        Semantic::Hash160(h) => {
            out.push("hash160".into());
            out.push(hex(h.as_byte_array()))
        }
        Semantic::Thresh(th) => {
            out.push("thresh".into());
            out.push(th.k().to_string());
            out.push(th.n().to_string());
            for s in th.iter() {
                dump_pol(w, s, out);
            }
        }
    }
}

fn lift_line(w: &World, r: std::thread::Result<Result<Semantic<Key>, miniscript::Error>>) -> (String, bool) {
    match r {
        Err(_) => ("LIFT PANIC".into(), false),
        Ok(Err(e)) => {
            let c = match e {
                miniscript::Error::LiftError(LiftError::BranchExceedResourceLimits) => "BranchExceedResourceLimits",
                miniscript::Error::LiftError(LiftError::HeightTimelockCombination) => "HeightTimelockCombination",
                miniscript::Error::LiftError(LiftError::RawDescriptorLift) => "RawDescriptorLift",
                _ => "Other",
            };
            (format!("LIFT ERR {}", c), false)
        }
        Ok(Ok(p)) => {
            let mut v = Vec::new();
            dump_pol(w, &p, &mut v);
            (format!("LIFT OK {}", v.join(" ")), true)
        }
    }
}

// ------------------------------------------------------------------ atoms and worlds
#[derive(Default)]
struct Atoms {
    keys: Vec<usize>,
    pres: Vec<usize>,
    abs: Vec<u32>,
    rel: Vec<u32>,
}

fn push_u<T: PartialEq>(v: &mut Vec<T>, x: T) {
    if !v.contains(&x) {
        v.push(x);
    }
}

fn collect_atoms<Ctx: ScriptContext>(w: &World, ms: &Ms<Ctx>, a: &mut Atoms) {
    for k in ms.iter_pk() {
        push_u(&mut a.keys, w.key_index(&k));
    }
    for m in ms.iter() {
        match &m.node {
            Terminal::After(t) => push_u(&mut a.abs, t.to_consensus_u32()),
            Terminal::Older(t) => push_u(&mut a.rel, t.to_consensus_u32()),
            Terminal::Sha256(h) => {
                if let Some(j) = (0..N_PRE).find(|j| w.sha256_img(*j) == *h) {
                    push_u(&mut a.pres, j)
                }
            }
            Terminal::Hash256(h) => {
                if let Some(j) = (0..N_PRE).find(|j| w.hash256_img(*j) == *h) {
                    push_u(&mut a.pres, j)
                }
            }
            Terminal::Ripemd160(h) => {
                if let Some(j) = (0..N_PRE).find(|j| w.ripemd160_img(*j) == *h) {
                    push_u(&mut a.pres, j)
                }
            }
            Terminal::Hash160(h) => {
                if let Some(j) = (0..N_PRE).find(|j| w.hash160_img(*j) == *h) {
                    push_u(&mut a.pres, j)
                }
            }
            _ => {}
        }
    }
}

/// held nLockTime candidates: none, both sides of every after(t), and a value of the other unit
fn abs_cands(abs: &[u32]) -> Vec<Option<u32>> {
    let mut v: Vec<Option<u32>> = vec![None];
    for &t in abs {
        if t >= 2 {
            push_u(&mut v, Some(t - 1));
        }
        push_u(&mut v, Some(t));
        push_u(&mut v, Some(if t < 500_000_000 { 500_000_001 } else { 499_999_999 }));
    }
    v
}
/// held nSequence candidates: none, both sides of every older(t), same value in the other
/// unit, and the same value with the disable bit set
fn rel_cands(rel: &[u32]) -> Vec<Option<u32>> {
    let mut v: Vec<Option<u32>> = vec![None];
    for &t in rel {
        if t & 0xffff >= 1 {
            push_u(&mut v, Some(t - 1));
        }
        push_u(&mut v, Some(t));
        push_u(&mut v, Some(t ^ 0x40_0000));
        push_u(&mut v, Some(t | 0x8000_0000));
    }
    v
}

struct WorldIter {
    list: Vec<(u32, u32, Option<u32>, Option<u32>)>,
    exhaustive: bool,
}

fn worlds(a: &Atoms, rng: &mut Rng, cap: usize) -> WorldIter {
    let ac = abs_cands(&a.abs);
    let rc = rel_cands(&a.rel);
    let nk = a.keys.len();
    let np = a.pres.len();
    let natoms = nk + np + a.abs.len() + a.rel.len();
    let mask_of = |sub: u32, idx: &Vec<usize>| -> u32 {
        let mut m = 0u32;
        for (b, &k) in idx.iter().enumerate() {
            if sub & (1 << b) != 0 {
                m |= 1 << k;
            }
        }
        m
    };
    let total = (1usize << (nk + np)).saturating_mul(ac.len()).saturating_mul(rc.len());
    let mut list = Vec::new();
    if natoms <= 10 && total <= cap {
        for ks in 0..(1u32 << nk) {
            for ps in 0..(1u32 << np) {
                for l in ac.iter() {
                    for s in rc.iter() {
                        list.push((mask_of(ks, &a.keys), mask_of(ps, &a.pres), *l, *s));
                    }
                }
            }
        }
        WorldIter { list, exhaustive: true }
    } else {
        // too many atoms for the complete sweep: a seeded sample, with the extreme worlds first
        let allk = mask_of((1u32 << nk) - 1, &a.keys);
        let allp = mask_of((1u32 << np) - 1, &a.pres);
        for l in ac.iter() {
            for s in rc.iter() {
                list.push((allk, allp, *l, *s));
                list.push((0, 0, *l, *s));
            }
        }
        let n = cap.min(768);
        while list.len() < n {
            let ks = rng.below(1u64 << nk) as u32;
            let ps = rng.below(1u64 << np) as u32;
            let l = ac[rng.below(ac.len() as u64) as usize];
            let s = rc[rng.below(rc.len() as u64) as usize];
            list.push((mask_of(ks, &a.keys), mask_of(ps, &a.pres), l, s));
        }
        WorldIter { list, exhaustive: false }
    }
}

struct Sigs {
    ecdsa: bitcoin::ecdsa::Signature,
    schnorr: bitcoin::taproot::Signature,
}

fn mk_sigs(w: &World) -> Sigs {
    let msg = Message::from_digest([7u8; 32]);
    let sig = w.secp.sign_ecdsa(&msg, &w.sks[0]);
    let kp = secp256k1::Keypair::from_secret_key(&w.secp, &w.sks[0]);
    let ss = w.secp.sign_schnorr_no_aux_rand(&msg, &kp);
    Sigs {
        ecdsa: bitcoin::ecdsa::Signature { signature: sig, sighash_type: EcdsaSighashType::All },
        schnorr: bitcoin::taproot::Signature { signature: ss, sighash_type: TapSighashType::Default },
    }
}

/// What the satisfier produced in one world: the items fed to the (inner) script in push order
/// and that script's bytes; `None` items = a key spend (no script runs).
pub struct Wit {
    items: Option<Vec<Vec<u8>>>,
    script: Vec<u8>,
}

fn emit_worlds<F: Fn(&LAssets) -> Option<Wit>>(
    w: &World,
    sg: &Sigs,
    a: &Atoms,
    internal: Option<usize>,
    rng: &mut Rng,
    cap: usize,
    out: &mut String,
    sat: F,
) {
    let wi = worlds(a, rng, cap);
    writeln!(
        out,
        "ATOMS keys={} pres={} abs={} rel={} worlds={} exhaustive={}",
        a.keys.len(),
        a.pres.len(),
        a.abs.len(),
        a.rel.len(),
        wi.list.len(),
        wi.exhaustive as u8
    )
    .unwrap();
    // witnesses kept for execution by the specification's instrumented Script semantics:
    // the largest one (the most expensive branch some world forces) and the first three
    let mut kept: Vec<(String, Wit)> = Vec::new();
    let mut largest: Option<(usize, String, Wit)> = None;
    for (km, pm, l, s) in wi.list {
        let assets = LAssets {
            w,
            keymask: km,
            premask: pm,
            lock_time: l.map(absolute::LockTime::from_consensus),
            sequence: s.map(Sequence),
            ecdsa: sg.ecdsa,
            schnorr: sg.schnorr,
            internal_idx: internal,
        };
        let r = catch_unwind(AssertUnwindSafe(|| sat(&assets)));
        let world = format!(
            "{} {} {} {}",
            km,
            pm,
            l.map(|x| x.to_string()).unwrap_or("-".into()),
            s.map(|x| x.to_string()).unwrap_or("-".into())
        );
        match r {
            Ok(Some(wit)) => {
                // number of elements the script starts with, and their total pushed size
                let (n, bytes) = match &wit.items {
                    Some(it) => (it.len() as i64, it.iter().map(|x| x.len() + 1).sum::<usize>()),
                    None => (-1, 0),
                };
                writeln!(out, "W {} 1 {} {}", world, n, bytes).unwrap();
                if wit.items.is_some() {
                    let nn = n as usize;
                    if largest.as_ref().map(|x| nn > x.0).unwrap_or(true) {
                        largest = Some((nn, world.clone(), Wit { items: wit.items.clone(), script: wit.script.clone() }));
                    }
                    if kept.len() < 3 {
                        kept.push((world, wit));
                    }
                }
            }
            Ok(None) => writeln!(out, "W {} 0 0 0", world).unwrap(),
            Err(_) => writeln!(out, "W {} P 0 0", world).unwrap(),
        }
    }
    if let Some((_, world, wit)) = largest {
        if !kept.iter().any(|k| k.0 == world) {
            kept.push((world, wit));
        }
    }
    for (world, wit) in kept {
        let items = wit.items.unwrap_or_default();
        let mut l = format!("X {} {} {}", world, hex(&wit.script), items.len());
        for it in items.iter() {
            l.push(' ');
            l.push_str(&hex(it));
        }
        writeln!(out, "{}", l).unwrap();
    }
}

/// the pushes of a scriptSig, in push order
fn scriptsig_items(ssig: &bitcoin::ScriptBuf) -> Option<Vec<Vec<u8>>> {
    use bitcoin::blockdata::script::Instruction;
    let mut v = Vec::new();
    for ins in ssig.instructions() {
        match ins.ok()? {
            Instruction::PushBytes(b) => v.push(b.as_bytes().to_vec()),
            Instruction::Op(op) => {
                let c = op.to_u8();
                if (0x51..=0x60).contains(&c) {
                    v.push(vec![c - 0x50])
                } else if c == 0x4f {
                    v.push(vec![0x81])
                } else {
                    return None;
                }
            }
        }
    }
    Some(v)
}

/// split what a descriptor's satisfier returned into (items for the inner script, inner script)
fn desc_wit(kind: &str, inner: &[Vec<u8>], wit: Vec<Vec<u8>>, ssig: bitcoin::ScriptBuf) -> Wit {
    match kind {
        "wsh" | "shwsh" => {
            let mut w = wit;
            let script = w.pop().unwrap_or_default();
            Wit { items: Some(w), script }
        }
        "tr" => {
            if wit.len() >= 2 {
                let mut w = wit;
                w.pop();
                let script = w.pop().unwrap_or_default();
                Wit { items: Some(w), script }
            } else {
                Wit { items: None, script: Vec::new() }
            }
        }
        "sh" => match scriptsig_items(&ssig) {
            Some(mut v) => {
                let script = v.pop().unwrap_or_default();
                Wit { items: Some(v), script }
            }
            None => Wit { items: None, script: Vec::new() },
        },
        "bare" => match scriptsig_items(&ssig) {
            Some(v) => Wit { items: Some(v), script: inner.first().cloned().unwrap_or_default() },
            None => Wit { items: None, script: Vec::new() },
        },
        // pkh / wpkh / sh(wpkh): a key spend
        _ => Wit { items: None, script: Vec::new() },
    }
}

// ------------------------------------------------------------------ generators
fn arc<Ctx: ScriptContext>(m: Ms<Ctx>) -> Arc<Ms<Ctx>> { Arc::new(m) }

/// wrap a generated B fragment into compositions with the constants 0 / 1, so that the
/// lifted policy contains Trivial / Unsatisfiable below thresholds (exercises `normalized`)
fn decorate<Ctx: ScriptContext>(g: &mut Gen, x: Ms<Ctx>, rounds: u32) -> Option<Ms<Ctx>> {
    let mut cur = x;
    for _ in 0..rounds {
        let f = |t: Terminal<Key, Ctx>| Miniscript::from_ast(t).ok();
        let zero = f(Terminal::False)?;
        let one = f(Terminal::True)?;
        let keep = cur.clone();
        let legacy = g.ci.legacy_like;
        let next: Option<Ms<Ctx>> = match g.rng.below(10) {
            0 if !legacy => f(Terminal::OrI(arc(zero), arc(cur))),
            1 if !legacy => f(Terminal::OrI(arc(cur), arc(zero))),
            2 => {
                let v = f(Terminal::Verify(arc(cur)))?;
                f(Terminal::AndV(arc(v), arc(one)))
            }
            3 => f(Terminal::OrD(arc(cur), arc(zero))),
            4 => {
                let y = g.gen::<Ctx>(B::B, 1)?;
                f(Terminal::AndOr(arc(cur), arc(y), arc(zero)))
            }
            5 => {
                let a0 = f(Terminal::Alt(arc(zero)))?;
                let y = g.gen::<Ctx>(B::W, 1)?;
                let subs = vec![arc(cur), arc(a0), arc(y)];
                let k = 1 + g.rng.below(3) as usize;
                f(Terminal::Thresh(Threshold::new(k, subs).ok()?))
            }
            6 => {
                let a0 = f(Terminal::Alt(arc(zero.clone())))?;
                f(Terminal::OrB(arc(cur), arc(a0)))
            }
            7 => {
                let y = g.gen::<Ctx>(B::B, 1)?;
                f(Terminal::AndOr(arc(cur), arc(one), arc(y)))
            }
            8 => {
                let y = g.gen::<Ctx>(B::W, 1)?;
                let z = g.gen::<Ctx>(B::W, 1)?;
                let subs = vec![arc(cur), arc(y), arc(z)];
                let k = 1 + g.rng.below(3) as usize;
                f(Terminal::Thresh(Threshold::new(k, subs).ok()?))
            }
            _ => {
                let y = g.gen::<Ctx>(B::W, 1)?;
                f(Terminal::AndB(arc(cur), arc(y)))
            }
        };
        cur = match next {
            Some(m) => m,
            None => keep,
        };
    }
    Some(cur)
}

/// raw_pk_h somewhere in the tree (lift must refuse)
fn with_raw<Ctx: ScriptContext>(w: &World, g: &mut Gen, x: Ms<Ctx>) -> Option<Ms<Ctx>> {
    let f = |t: Terminal<Key, Ctx>| Miniscript::from_ast(t).ok();
    let kb = w.key_bytes(g.rng.below(5) as usize, g.ci.tap);
    let raw = f(Terminal::RawPkH(hash160::Hash::hash(&kb)))?;
    let craw = f(Terminal::Check(arc(raw)))?;
    match g.rng.below(4) {
        0 => Some(craw),
        1 => {
            let a = f(Terminal::Alt(arc(craw)))?;
            f(Terminal::AndB(arc(x), arc(a)))
        }
        2 => f(Terminal::OrD(arc(craw), arc(x))),
        _ => {
            let v = f(Terminal::Verify(arc(craw)))?;
            f(Terminal::AndV(arc(v), arc(x)))
        }
    }
}

fn gen_ms<Ctx: ScriptContext>(w: &World, seed: u64, ci: CtxInfo, depth: u32, c: u64) -> Option<Ms<Ctx>> {
    let mut g = Gen::new(w, seed, ci);
    g.dup_keys = seed % 7 == 0;
    let base = match c % 16 {
        13 => B::V,
        14 => B::K,
        15 => B::W,
        _ => B::B,
    };
    let m = g.gen::<Ctx>(base, depth)?;
    if base != B::B {
        return Some(m);
    }
    let mut sel = Rng(seed ^ 0xABCD_EF01);
    match sel.below(20) {
        0..=5 => {
            let rounds = 1 + sel.below(3) as u32;
            decorate(&mut g, m, rounds)
        }
        6 => with_raw(w, &mut g, m),
        _ => Some(m),
    }
}

fn ctx_name(kind: &str) -> &'static str {
    match kind {
        "ms-bare" | "bare" => "bare",
        "ms-legacy" | "sh" => "legacy",
        "ms-segv0" | "wsh" | "shwsh" => "segv0",
        _ => "tap",
    }
}

fn emit_ms_case<Ctx: ScriptContext>(
    w: &World,
    sg: &Sigs,
    id: u64,
    kind: &str,
    m: &Ms<Ctx>,
    rng: &mut Rng,
    cap: usize,
    out: &mut String,
) {
    writeln!(out, "CASE {} {} ctx={}", id, kind, ctx_name(kind)).unwrap();
    writeln!(out, "MS {}", dump_str(w, &m.node)).unwrap();
    writeln!(out, "RL {}", m.within_resource_limits() as u8).unwrap();
    writeln!(out, "SCRIPTLEN {} {}", m.encode().len(), m.script_size()).unwrap();
    let (line, ok) = lift_line(w, catch_unwind(AssertUnwindSafe(|| m.lift())));
    writeln!(out, "{}", line).unwrap();
    if ok {
        let mut a = Atoms::default();
        collect_atoms(w, m, &mut a);
        let script = m.encode().into_bytes();
        emit_worlds(w, sg, &a, None, rng, cap, out, |assets| {
            m.satisfy_malleable(assets).ok().map(|items| Wit { items: Some(items), script: script.clone() })
        });
    }
    writeln!(out, "END").unwrap();
}

fn tap_tree(mut leaves: Vec<Ms<Tap>>, shape: u64) -> Option<TapTree<Key>> {
    // leaves are consumed left to right; shape selects the bracketing
    let n = leaves.len();
    let mut it = leaves.drain(..).map(TapTree::leaf);
    match n {
        1 => it.next(),
        2 => TapTree::combine(it.next()?, it.next()?).ok(),
        3 => {
            let (a, b, c) = (it.next()?, it.next()?, it.next()?);
            if shape % 2 == 0 {
                TapTree::combine(a, TapTree::combine(b, c).ok()?).ok()
            } else {
                TapTree::combine(TapTree::combine(a, b).ok()?, c).ok()
            }
        }
        _ => {
            let (a, b, c, d) = (it.next()?, it.next()?, it.next()?, it.next()?);
            match shape % 3 {
                0 => TapTree::combine(TapTree::combine(a, b).ok()?, TapTree::combine(c, d).ok()?).ok(),
                1 => TapTree::combine(a, TapTree::combine(b, TapTree::combine(c, d).ok()?).ok()?).ok(),
                _ => TapTree::combine(TapTree::combine(TapTree::combine(a, b).ok()?, c).ok()?, d).ok(),
            }
        }
    }
}

/// per miniscript of a descriptor: dump, within_resource_limits, (encoded length, script_size()), script bytes
type LeafRec = (String, bool, (usize, usize), Vec<u8>);
fn leaf_rec<Ctx: ScriptContext>(w: &World, m: &Ms<Ctx>) -> LeafRec {
    let sc = m.encode().into_bytes();
    (dump_str(w, &m.node), m.within_resource_limits(), (sc.len(), m.script_size()), sc)
}

fn emit_desc_case(
    w: &World,
    sg: &Sigs,
    id: u64,
    kind: &str,
    desc: &Descriptor<Key>,
    leaves: &[LeafRec],
    keyonly: Option<usize>,
    internal: Option<usize>,
    atoms: &Atoms,
    rng: &mut Rng,
    cap: usize,
    out: &mut String,
) {
    writeln!(out, "CASE {} {} ctx={}", id, kind, ctx_name(kind)).unwrap();
    writeln!(out, "DESC {}", desc).unwrap();
    let inner: Vec<Vec<u8>> = leaves.iter().map(|l| l.3.clone()).collect();
    let inner_scripts = &inner[..];
    for (d, rl, sl, _) in leaves {
        writeln!(out, "MS {}", d).unwrap();
        writeln!(out, "RL {}", *rl as u8).unwrap();
        writeln!(out, "SCRIPTLEN {} {}", sl.0, sl.1).unwrap();
    }
    if let Some(k) = keyonly {
        writeln!(out, "KEYONLY {}", k).unwrap();
    }
    if let Some(k) = internal {
        writeln!(out, "INTERNAL {}", k).unwrap();
    }
    let (line, ok) = lift_line(w, catch_unwind(AssertUnwindSafe(|| desc.lift())));
    writeln!(out, "{}", line).unwrap();
    if ok {
        emit_worlds(w, sg, atoms, internal, rng, cap, out, |assets| {
            desc.get_satisfaction_mall(assets).ok().map(|(wit, ssig)| desc_wit(kind, inner_scripts, wit, ssig))
        });
    }
    writeln!(out, "END").unwrap();
}

pub fn run(args: &[String]) {
    let seed: u64 = args.first().and_then(|s| s.parse().ok()).unwrap_or(1);
    let n: u64 = args.get(1).and_then(|s| s.parse().ok()).unwrap_or(200);
    let part: u64 = args.get(2).and_then(|s| s.parse().ok()).unwrap_or(0);
    let nparts: u64 = args.get(3).and_then(|s| s.parse().ok()).unwrap_or(1).max(1);
    let cap: usize = args.get(4).and_then(|s| s.parse().ok()).unwrap_or(4096);
    let w = World::new();
    let sg = mk_sigs(&w);
    let mut hdr = String::new();
    for i in 0..N_KEYS {
        let kb = w.key_bytes(i, false);
        let xb = w.key_bytes(i, true);
        writeln!(
            hdr,
            "KEY {} {} {} {} {} {}",
            i,
            hex(&kb),
            hex(hash160::Hash::hash(&kb).as_byte_array()),
            hex(&xb),
            hex(hash160::Hash::hash(&xb).as_byte_array()),
            hex(&w.pks[i].inner.serialize())
        )
        .unwrap();
    }
    let zero32 = [0u8; 32];
    for (j, p) in w.preimages.iter().chain(std::iter::once(&zero32)).enumerate() {
        writeln!(
            hdr,
            "PRE {} {} {} {} {} {}",
            j,
            hex(p),
            hex(sha256::Hash::hash(p).as_byte_array()),
            hex(hash256::Hash::hash(p).as_byte_array()),
            hex(ripemd160::Hash::hash(p).as_byte_array()),
            hex(hash160::Hash::hash(p).as_byte_array())
        )
        .unwrap();
    }
    writeln!(hdr, "DUMMY {} {}", hex(&sg.ecdsa.to_vec()), hex(&sg.schnorr.to_vec())).unwrap();
    print!("{}", hdr);
    // committed corpus of minimized failures (earlier mutation witnesses, known findings): run first
    if part == 0 {
        for (i, (kind, leaves)) in CORPUS.iter().enumerate() {
            let id = 1_000_001 + i as u64;
            let mut rng = Rng(seed ^ id);
            let mut out = String::new();
            let r = catch_unwind(AssertUnwindSafe(|| corpus_case(&w, &sg, id, kind, leaves, &mut rng, cap, &mut out)));
            match r {
                Ok(true) => print!("{}", out),
                Ok(false) => println!("NOTE corpus case={} kind={} rejected-by-the-library", id, kind),
                Err(_) => println!("PANIC harness corpus case={} kind={}", id, kind),
            }
        }
    }
    // directed resource-limit family (ids 2000001..): one branch over a context limit next to a
    // cheap branch, and controls just under the limit; part 0 of every run
    if part == 0 {
        let mut out = String::new();
        let r = catch_unwind(AssertUnwindSafe(|| directed_limits(&w, &sg, seed, cap, &mut out)));
        if r.is_err() {
            println!("PANIC harness directed-limits");
        }
        print!("{}", out);
    }
    for c in 0..n {
        if c % nparts != part {
            continue;
        }
        let cseed = seed.wrapping_mul(1_000_003).wrapping_add(c);
        let mut rng = Rng(cseed ^ 0xC07C07);
        let depth = 1 + (c / 12 % 4) as u32;
        let id = c + 1;
        let mut out = String::new();
        let r = catch_unwind(AssertUnwindSafe(|| {
            one_case(&w, &sg, c, cseed, depth, id, &mut rng, cap, &mut out);
        }));
        if r.is_err() {
            println!("PANIC harness case={} seed={}", id, cseed);
        } else {
            print!("{}", out);
        }
    }
}

fn one_case(w: &World, sg: &Sigs, c: u64, cseed: u64, depth: u32, id: u64, rng: &mut Rng, cap: usize, out: &mut String) {
    let seg = CtxInfo { tap: false, legacy_like: false, n_keys: 6 };
    let leg = CtxInfo { tap: false, legacy_like: true, n_keys: 8 };
    let tap = CtxInfo { tap: true, legacy_like: false, n_keys: 5 };
    match c % 12 {
        0 => {
            if let Some(m) = gen_ms::<Segwitv0>(w, cseed, seg, depth, c / 12) {
                emit_ms_case(w, sg, id, "ms-segv0", &m, rng, cap, out)
            }
        }
        1 => {
            if let Some(m) = gen_ms::<Legacy>(w, cseed, leg, depth, c / 12) {
                emit_ms_case(w, sg, id, "ms-legacy", &m, rng, cap, out)
            }
        }
        2 => {
            if let Some(m) = gen_ms::<BareCtx>(w, cseed, leg, depth, c / 12) {
                emit_ms_case(w, sg, id, "ms-bare", &m, rng, cap, out)
            }
        }
        3 => {
            if let Some(m) = gen_ms::<Tap>(w, cseed, tap, depth, c / 12) {
                emit_ms_case(w, sg, id, "ms-tap", &m, rng, cap, out)
            }
        }
        4 | 5 => {
            if let Some(m) = gen_ms::<Segwitv0>(w, cseed, seg, depth, 0) {
                let mut a = Atoms::default();
                collect_atoms(w, &m, &mut a);
                let lv = vec![leaf_rec(w, &m)];
                let (d, kind) = if c % 12 == 4 {
                    (Descriptor::new_wsh(m), "wsh")
                } else {
                    (Descriptor::new_sh_wsh(m), "shwsh")
                };
                if let Ok(d) = d {
                    emit_desc_case(w, sg, id, kind, &d, &lv, None, None, &a, rng, cap, out)
                }
            }
        }
        6 => {
            if let Some(m) = gen_ms::<Legacy>(w, cseed, leg, depth, 0) {
                let mut a = Atoms::default();
                collect_atoms(w, &m, &mut a);
                let lv = vec![leaf_rec(w, &m)];
                if let Ok(d) = Descriptor::new_sh(m) {
                    emit_desc_case(w, sg, id, "sh", &d, &lv, None, None, &a, rng, cap, out)
                }
            }
        }
        7 => {
            // bare outputs admit only pk, pkh and multi at the top level
            let mut g = Gen::new(w, cseed, leg);
            let f = |t: Terminal<Key, BareCtx>| Miniscript::from_ast(t).ok();
            let m: Option<Ms<BareCtx>> = match rng.below(3) {
                0 => f(Terminal::PkK(w.key(rng.below(8) as usize, false))).and_then(|k| f(Terminal::Check(arc(k)))),
                1 => f(Terminal::PkH(w.key(rng.below(8) as usize, false))).and_then(|k| f(Terminal::Check(arc(k)))),
                _ => {
                    let n = 1 + rng.below(3) as usize;
                    let k = 1 + rng.below(n as u64) as usize;
                    let keys: Vec<Key> = (0..n).map(|_| w.key(rng.below(8) as usize, false)).collect();
                    Threshold::new(k, keys).ok().and_then(|th| f(Terminal::Multi(th)))
                }
            };
            let _ = &mut g;
            if let Some(m) = m {
                let mut a = Atoms::default();
                collect_atoms(w, &m, &mut a);
                let lv = vec![leaf_rec(w, &m)];
                if let Ok(d) = Descriptor::new_bare(m) {
                    emit_desc_case(w, sg, id, "bare", &d, &lv, None, None, &a, rng, cap, out)
                }
            }
        }
        8 | 9 | 10 => {
            // taproot: internal key 5, 1..4 leaves, several bracketings; small leaves so that
            // the complete world sweep stays possible
            let nleaves = 1 + (cseed / 7) % 4;
            let mut leaves = Vec::new();
            let mut a = Atoms::default();
            let mut lv = Vec::new();
            for l in 0..nleaves {
                let d = if nleaves >= 3 { depth.min(1) } else { depth.min(2) };
                if let Some(m) = gen_ms::<Tap>(w, cseed.wrapping_mul(31).wrapping_add(l), tap, d, 0) {
                    collect_atoms(w, &m, &mut a);
                    lv.push(leaf_rec(w, &m));
                    leaves.push(m);
                }
            }
            if leaves.is_empty() {
                return;
            }
            let internal = if cseed % 5 == 0 { (cseed / 5 % 5) as usize } else { 5 };
            push_u(&mut a.keys, internal);
            if let Some(tree) = tap_tree(leaves, cseed / 11) {
                if let Ok(d) = Descriptor::new_tr(w.key(internal, true), Some(tree)) {
                    emit_desc_case(w, sg, id, "tr", &d, &lv, None, Some(internal), &a, rng, cap, out)
                }
            }
        }
        _ => {
            // key-only outputs
            let i = rng.below(6) as usize;
            let mut a = Atoms::default();
            a.keys.push(i);
            let (d, kind, internal, keyonly) = match rng.below(4) {
                0 => (Descriptor::new_pkh(w.key(i, false)), "pkh", None, Some(i)),
                1 => (Descriptor::new_wpkh(w.key(i, false)), "wpkh", None, Some(i)),
                2 => (Descriptor::new_sh_wpkh(w.key(i, false)), "shwpkh", None, Some(i)),
                _ => (Descriptor::new_tr(w.key(i, true), None), "tr", Some(i), None),
            };
            if let Ok(d) = d {
                emit_desc_case(w, sg, id, kind, &d, &[], keyonly, internal, &a, rng, cap, out)
            }
        }
    }
}

/// Corpus cases: (kind, miniscript strings; K0..K7 are the World keys, x-only in tap kinds).
/// ids 1000001.. ; always emitted by part 0.
const CORPUS: &[(&str, &[&str])] = &[
    // known finding (pk_cost of multi with uncompressed keys): 521-byte P2SH redeem script accepted and lifted
    ("sh", &["and_v(v:multi(1,K6,K7,K6,K7,K6,K7,K6),and_v(v:pkh(K0),and_v(v:older(65535),pkh(K1))))"]),
    // witnesses of mutations caught while building the check
    ("sh", &["andor(multi(1,K0),1,0)"]),
    ("ms-tap", &["or_i(1,0)"]),
    ("tr", &["after(395)", "after(1)", "j:pk(K0)"]),
    ("bare", &["multi(1,K3,K5)"]),
    ("ms-segv0", &["or_d(pk(K0),1)"]),
    ("wsh", &["andor(pkh(K0),older(5),pk(K1))"]),
    ("ms-segv0", &["thresh(2,pk(K0),s:pk(K1),a:0,a:or_i(0,pk(K2)))"]),
    ("ms-legacy", &["and_v(v:pk(K0),and_v(v:pk(K1),and_v(v:after(10),after(20))))"]),
    ("tr", &["and_v(v:pk(K0),1)", "multi_a(2,K1,K2,K3)"]),
];

fn subst_keys(w: &World, s: &str, tap: bool) -> String {
    let mut r = s.to_string();
    for i in 0..N_KEYS {
        r = r.replace(&format!("K{}", i), &format!("{}", w.key(i, tap)));
    }
    r
}

fn corpus_case(w: &World, sg: &Sigs, id: u64, kind: &str, leaves: &[&str], rng: &mut Rng, cap: usize, out: &mut String) -> bool {
    fn p<Ctx: ScriptContext>(w: &World, s: &str, tap: bool) -> Option<Ms<Ctx>> {
        Miniscript::<Key, Ctx>::from_str_insane(&subst_keys(w, s, tap)).ok()
    }
    macro_rules! desc1 {
        ($ctx:ty, $mk:expr) => {{
            let m = match p::<$ctx>(w, leaves[0], false) {
                Some(m) => m,
                None => return false,
            };
            let mut a = Atoms::default();
            collect_atoms(w, &m, &mut a);
            let lv = vec![leaf_rec(w, &m)];
            match $mk(m) {
                Ok(d) => emit_desc_case(w, sg, id, kind, &d, &lv, None, None, &a, rng, cap, out),
                Err(_) => return false,
            }
        }};
    }
    match kind {
        "ms-segv0" => match p::<Segwitv0>(w, leaves[0], false) {
            Some(m) => emit_ms_case(w, sg, id, kind, &m, rng, cap, out),
            None => return false,
        },
        "ms-legacy" => match p::<Legacy>(w, leaves[0], false) {
            Some(m) => emit_ms_case(w, sg, id, kind, &m, rng, cap, out),
            None => return false,
        },
        "ms-bare" => match p::<BareCtx>(w, leaves[0], false) {
            Some(m) => emit_ms_case(w, sg, id, kind, &m, rng, cap, out),
            None => return false,
        },
        "ms-tap" => match p::<Tap>(w, leaves[0], true) {
            Some(m) => emit_ms_case(w, sg, id, kind, &m, rng, cap, out),
            None => return false,
        },
        "wsh" => desc1!(Segwitv0, Descriptor::new_wsh),
        "shwsh" => desc1!(Segwitv0, Descriptor::new_sh_wsh),
        "sh" => {
            // through the descriptor parser (Miniscript::from_str_insane validates the real script size)
            use std::str::FromStr;
            let d = match Descriptor::<Key>::from_str(&format!("sh({})", subst_keys(w, leaves[0], false))) {
                Ok(d) => d,
                Err(_) => return false,
            };
            let m = match d {
                Descriptor::Sh(ref sh) => match sh.as_inner() {
                    miniscript::descriptor::ShInner::Ms(ms) => ms.clone(),
                    _ => return false,
                },
                _ => return false,
            };
            let mut a = Atoms::default();
            collect_atoms(w, &m, &mut a);
            let lv = vec![leaf_rec(w, &m)];
            emit_desc_case(w, sg, id, kind, &d, &lv, None, None, &a, rng, cap, out)
        }
        "bare" => desc1!(BareCtx, Descriptor::new_bare),
        "tr" => {
            let mut ms = Vec::new();
            let mut a = Atoms::default();
            let mut lv = Vec::new();
            for l in leaves {
                match p::<Tap>(w, l, true) {
                    Some(m) => {
                        collect_atoms(w, &m, &mut a);
                        lv.push(leaf_rec(w, &m));
                        ms.push(m)
                    }
                    None => return false,
                }
            }
            push_u(&mut a.keys, 5);
            match tap_tree(ms, 0).and_then(|t| Descriptor::new_tr(w.key(5, true), Some(t)).ok()) {
                Some(d) => emit_desc_case(w, sg, id, kind, &d, &lv, None, Some(5), &a, rng, cap, out),
                None => return false,
            }
        }
        _ => return false,
    }
    true
}

// ------------------------------------------------------------------ directed resource-limit cases
fn fa<Ctx: ScriptContext>(t: Terminal<Key, Ctx>) -> Option<Ms<Ctx>> { Miniscript::from_ast(t).ok() }

fn cyc(w: &World, idx: &[usize], n: usize, tap: bool) -> Vec<Key> { (0..n).map(|i| w.key(idx[i % idx.len()], tap)).collect() }

/// balanced conjunction and_v(v:L, R) of B fragments
fn and_tree<Ctx: ScriptContext>(mut xs: Vec<Ms<Ctx>>) -> Option<Ms<Ctx>> {
    if xs.len() == 1 {
        return xs.pop();
    }
    let right = xs.split_off(xs.len() / 2);
    let l = and_tree(xs)?;
    let r = and_tree(right)?;
    let v = fa(Terminal::Verify(arc(l)))?;
    fa(Terminal::AndV(arc(v), arc(r)))
}

fn pk<Ctx: ScriptContext>(w: &World, i: usize, tap: bool) -> Option<Ms<Ctx>> {
    let k = fa(Terminal::PkK(w.key(i, tap)))?;
    fa(Terminal::Check(arc(k)))
}
fn pkh<Ctx: ScriptContext>(w: &World, i: usize, tap: bool) -> Option<Ms<Ctx>> {
    let k = fa(Terminal::PkH(w.key(i, tap)))?;
    fa(Terminal::Check(arc(k)))
}
/// cheap branch next to an expensive one: or_i where the context admits it, or_d otherwise
fn beside<Ctx: ScriptContext>(cheap: Ms<Ctx>, big: Ms<Ctx>, legacy: bool) -> Option<Ms<Ctx>> {
    if legacy {
        fa(Terminal::OrD(arc(cheap), arc(big)))
    } else {
        fa(Terminal::OrI(arc(big), arc(cheap)))
    }
}

fn directed_limits(w: &World, sg: &Sigs, seed: u64, cap: usize, out: &mut String) {
    let mut id = 2_000_000u64;
    let mut rng = Rng(seed ^ 0xD1CE);
    let mut note = |id: u64, what: &str, out: &mut String| {
        writeln!(out, "NOTE directed case={} {} not-constructible", id, what).unwrap();
    };
    // ---------------- Tap: 1000 stack elements
    let tap_cases: Vec<(&str, Option<Ms<Tap>>)> = vec![
        ("tap-two-wide-multi_a-1004-elements", (|| {
            let a = fa(Terminal::MultiA(Threshold::new(1, cyc(w, &[1, 2], 999, true)).ok()?))?;
            let b = fa(Terminal::MultiA(Threshold::new(1, cyc(w, &[3, 4], 5, true)).ok()?))?;
            beside(pk(w, 0, true)?, and_tree(vec![a, b])?, false)
        })()),
        ("tap-1001-hashes", (|| {
            let hs: Option<Vec<Ms<Tap>>> = (0..1001).map(|i| fa(Terminal::Sha256(w.sha256_img(i % 2)))).collect();
            beside(pk(w, 0, true)?, and_tree(hs?)?, false)
        })()),
        ("tap-600-plus-500-keys", (|| {
            let a = fa(Terminal::MultiA(Threshold::new(2, cyc(w, &[1, 2], 600, true)).ok()?))?;
            let b = fa(Terminal::MultiA(Threshold::new(1, cyc(w, &[3], 500, true)).ok()?))?;
            beside(pk(w, 0, true)?, and_tree(vec![a, b, pk(w, 4, true)?])?, false)
        })()),
        ("tap-control-980-keys", (|| {
            let a = fa(Terminal::MultiA(Threshold::new(1, cyc(w, &[1, 2], 980, true)).ok()?))?;
            beside(pk(w, 0, true)?, a, false)
        })()),
        ("tap-control-900-hashes", (|| {
            let hs: Option<Vec<Ms<Tap>>> = (0..900).map(|i| fa(Terminal::Sha256(w.sha256_img(i % 2)))).collect();
            beside(pk(w, 0, true)?, and_tree(hs?)?, false)
        })()),
    ];
    for (what, m) in tap_cases {
        id += 1;
        match m {
            Some(m) => {
                emit_ms_case(w, sg, id, "ms-tap", &m, &mut rng, cap, out);
                // the same script as a tap leaf, alone and next to a small leaf
                for with_small in [false, true] {
                    id += 1;
                    let mut a = Atoms::default();
                    collect_atoms(w, &m, &mut a);
                    let mut lv = vec![leaf_rec(w, &m)];
                    let mut leaves = vec![m.clone()];
                    if with_small {
                        if let Some(sm) = pk::<Tap>(w, 1, true) {
                            collect_atoms(w, &sm, &mut a);
                            lv.push(leaf_rec(w, &sm));
                            leaves.push(sm);
                        }
                    }
                    push_u(&mut a.keys, 5);
                    match tap_tree(leaves, 0).and_then(|t| Descriptor::new_tr(w.key(5, true), Some(t)).ok()) {
                        Some(d) => emit_desc_case(w, sg, id, "tr", &d, &lv, None, Some(5), &a, &mut rng, cap, out),
                        None => note(id, what, out),
                    }
                }
            }
            None => {
                note(id, what, out);
                id += 2;
            }
        }
    }
    // ---------------- Segwitv0: 100 witness items, 201 ops
    let seg_cases: Vec<(&str, Option<Ms<Segwitv0>>)> = vec![
        ("segv0-105-witness-items", (|| {
            let ms: Option<Vec<Ms<Segwitv0>>> =
                (0..5).map(|_| fa(Terminal::Multi(Threshold::new(20, cyc(w, &[1, 2], 20, false)).ok()?))).collect();
            beside(pk(w, 0, false)?, and_tree(ms?)?, false)
        })()),
        ("segv0-208-ops", (|| {
            let mut xs: Vec<Ms<Segwitv0>> = Vec::new();
            for _ in 0..4 {
                xs.push(fa(Terminal::Multi(Threshold::new(1, cyc(w, &[1, 2], 20, false)).ok()?))?);
            }
            for _ in 0..30 {
                xs.push(pkh(w, 3, false)?);
            }
            beside(pk(w, 0, false)?, and_tree(xs)?, false)
        })()),
        ("segv0-control-3-wide-multis", (|| {
            let ms: Option<Vec<Ms<Segwitv0>>> =
                (0..3).map(|_| fa(Terminal::Multi(Threshold::new(1, cyc(w, &[1, 2], 20, false)).ok()?))).collect();
            beside(pk(w, 0, false)?, and_tree(ms?)?, false)
        })()),
        ("segv0-control-63-items", (|| {
            let ms: Option<Vec<Ms<Segwitv0>>> =
                (0..3).map(|_| fa(Terminal::Multi(Threshold::new(20, cyc(w, &[1, 2], 20, false)).ok()?))).collect();
            beside(pk(w, 0, false)?, and_tree(ms?)?, false)
        })()),
    ];
    for (what, m) in seg_cases {
        id += 1;
        match m {
            Some(m) => {
                emit_ms_case(w, sg, id, "ms-segv0", &m, &mut rng, cap, out);
                id += 1;
                let mut a = Atoms::default();
                collect_atoms(w, &m, &mut a);
                let lv = vec![leaf_rec(w, &m)];
                match Descriptor::new_wsh(m) {
                    Ok(d) => emit_desc_case(w, sg, id, "wsh", &d, &lv, None, None, &a, &mut rng, cap, out),
                    Err(_) => note(id, what, out),
                }
            }
            None => {
                note(id, what, out);
                id += 1;
            }
        }
    }
    // ---------------- Legacy: 1650-byte scriptSig
    let leg_cases: Vec<(&str, Option<Ms<Legacy>>)> = vec![
        ("legacy-scriptsig-1728-bytes", (|| {
            let xs: Option<Vec<Ms<Legacy>>> = (0..16).map(|i| pkh(w, 1 + i % 2, false)).collect();
            beside(pk(w, 0, false)?, and_tree(xs?)?, true)
        })()),
        ("legacy-control-10-pkh", (|| {
            let xs: Option<Vec<Ms<Legacy>>> = (0..10).map(|i| pkh(w, 1 + i % 2, false)).collect();
            beside(pk(w, 0, false)?, and_tree(xs?)?, true)
        })()),
        // /repo e37a8a3d: the limit applies to the scriptSig as a whole. 13 pkh: satisfaction items about 1400
        // bytes (under the limit), items + push of the 350-byte redeem script over it; 11 pkh: whole scriptSig under it
        ("legacy-scriptsig-items-under-whole-over-13-pkh", (|| {
            let xs: Option<Vec<Ms<Legacy>>> = (0..13).map(|i| pkh(w, 1 + i % 2, false)).collect();
            beside(pk(w, 0, false)?, and_tree(xs?)?, true)
        })()),
        ("legacy-control-11-pkh", (|| {
            let xs: Option<Vec<Ms<Legacy>>> = (0..11).map(|i| pkh(w, 1 + i % 2, false)).collect();
            beside(pk(w, 0, false)?, and_tree(xs?)?, true)
        })()),
    ];
    for (what, m) in leg_cases {
        id += 1;
        match m {
            Some(m) => {
                emit_ms_case(w, sg, id, "ms-legacy", &m, &mut rng, cap, out);
                id += 1;
                let mut a = Atoms::default();
                collect_atoms(w, &m, &mut a);
                let lv = vec![leaf_rec(w, &m)];
                match Descriptor::new_sh(m) {
                    Ok(d) => emit_desc_case(w, sg, id, "sh", &d, &lv, None, None, &a, &mut rng, cap, out),
                    Err(_) => note(id, what, out),
                }
            }
            None => {
                note(id, what, out);
                id += 1;
            }
        }
    }
    // ---------------- Bare: 201 ops
    let bare_cases: Vec<(&str, Option<Ms<BareCtx>>)> = vec![
        ("bare-207-ops", (|| {
            let xs: Option<Vec<Ms<BareCtx>>> = (0..51).map(|i| pkh(w, 1 + i % 2, false)).collect();
            beside(pk(w, 0, false)?, and_tree(xs?)?, true)
        })()),
        ("bare-control-40-pkh", (|| {
            let xs: Option<Vec<Ms<BareCtx>>> = (0..40).map(|i| pkh(w, 1 + i % 2, false)).collect();
            beside(pk(w, 0, false)?, and_tree(xs?)?, true)
        })()),
    ];
    for (what, m) in bare_cases {
        id += 1;
        match m {
            Some(m) => emit_ms_case(w, sg, id, "ms-bare", &m, &mut rng, cap, out),
            None => note(id, what, out),
        }
    }
}
