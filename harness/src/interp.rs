//! `interp` engine (C13): the transaction interpreter against real script execution.
//! For descriptors of every output type (script-bearing ones from the `sat` generator plus
//! directed templates, and the key-only types inner.rs handles specially) and for a set of
//! transaction environments (version, nLockTime, nSequence around each time lock) it builds the
//! real spending transaction, signs with every key, takes the library's satisfactions and derives
//! mutated spends.  Every spend is run through `Interpreter::from_txdata` + `iter` with REAL
//! signature verification; verdict and ordered constraint list are printed together with the data
//! the extracted Coq oracle needs to judge the same spend independently: the valid
//! (key, signature) pairs of THIS transaction (computed here with secp256k1 / rust-bitcoin's
//! sighash only, never through miniscript), hashes of the elements, the taproot commitment verdict.
use crate::ast::*;
use crate::sat::{make_case, Assets, Case};
use bitcoin::hashes::{hash160, ripemd160, sha256, Hash};
use bitcoin::key::TapTweak;
use bitcoin::secp256k1::{self, Message};
use bitcoin::sighash::{EcdsaSighashType, Prevouts, SighashCache, TapSighashType};
use bitcoin::taproot::{ControlBlock, LeafVersion, TapLeafHash};
use bitcoin::{
    absolute, relative, transaction, Amount, OutPoint, Script, ScriptBuf, Sequence, Transaction, TxIn,
    TxOut, Witness, XOnlyPublicKey,
};
use miniscript::interpreter::{HashLockType, Interpreter, KeySigPair, SatisfiedConstraint};
use miniscript::miniscript::ScriptContext;
use miniscript::policy::{Liftable, Semantic};
use miniscript::{
    hash256, BareCtx, Descriptor, Legacy, Miniscript, MiniscriptKey, Satisfier, Segwitv0, Tap, Terminal,
    ToPublicKey, Translator,
};
use miniscript::translate_hash_clone;
use std::collections::{BTreeMap, BTreeSet};
use std::fmt::Write as _;
use std::panic::{catch_unwind, AssertUnwindSafe};
use std::str::FromStr;

const VALUE: u64 = 100_000;

#[derive(Clone, Copy, PartialEq, Eq, Debug)]
pub struct Env {
    pub txv: i32,
    pub lock: u32,
    pub seq: u32,
}

/// optimistic asset provider: every time lock is claimed to be met (drives the satisfier into
/// time-locked paths under environments that do not meet them)
struct Opt<'a>(Assets<'a>);
impl<'a> Satisfier<Key> for Opt<'a> {
    fn lookup_ecdsa_sig(&self, k: &Key) -> Option<bitcoin::ecdsa::Signature> { self.0.lookup_ecdsa_sig(k) }
    fn lookup_tap_key_spend_sig(&self, k: &Key) -> Option<bitcoin::taproot::Signature> {
        self.0.lookup_tap_key_spend_sig(k)
    }
    fn lookup_tap_leaf_script_sig(&self, k: &Key, lh: &TapLeafHash) -> Option<bitcoin::taproot::Signature> {
        self.0.lookup_tap_leaf_script_sig(k, lh)
    }
    fn lookup_tap_control_block_map(&self) -> Option<&BTreeMap<ControlBlock, (ScriptBuf, LeafVersion)>> {
        self.0.lookup_tap_control_block_map()
    }
    fn lookup_sha256(&self, h: &sha256::Hash) -> Option<[u8; 32]> { self.0.lookup_sha256(h) }
    fn lookup_hash256(&self, h: &hash256::Hash) -> Option<[u8; 32]> { self.0.lookup_hash256(h) }
    fn lookup_ripemd160(&self, h: &ripemd160::Hash) -> Option<[u8; 32]> { self.0.lookup_ripemd160(h) }
    fn lookup_hash160(&self, h: &hash160::Hash) -> Option<[u8; 32]> { self.0.lookup_hash160(h) }
    fn check_older(&self, _: relative::LockTime) -> bool { true }
    fn check_after(&self, _: absolute::LockTime) -> bool { true }
}

fn collect_locks<Ctx: ScriptContext>(ms: &Miniscript<Key, Ctx>, abs: &mut Vec<u32>, rel: &mut Vec<u32>) {
    for m in ms.iter() {
        match m.node {
            Terminal::After(t) => abs.push(t.to_consensus_u32()),
            Terminal::Older(t) => rel.push(t.to_consensus_u32()),
            _ => {}
        }
    }
}
fn collect_keys<Ctx: ScriptContext>(w: &World, ms: &Miniscript<Key, Ctx>, keys: &mut Vec<usize>) {
    for k in ms.iter_pk() {
        let i = w.key_index(&k);
        if !keys.contains(&i) {
            keys.push(i);
        }
    }
}

/// A `Case` (as the sat engine builds them) from a descriptor
fn case_from_desc(w: &World, desc: Descriptor<Key>) -> Option<(Case, bool)> {
    let mut all_sane = true;
    let mut keys = Vec::new();
    let mut abs = Vec::new();
    let mut rel = Vec::new();
    let mut dumps = Vec::new();
    let mut internal = None;
    let kind: &'static str;
    macro_rules! take {
        ($m:expr, $ctx:ty) => {{
            if $m.validate(&<$ctx>::SANE).is_err() {
                all_sane = false;
            }
            collect_keys(w, $m, &mut keys);
            collect_locks($m, &mut abs, &mut rel);
            dumps.push((dump_str(w, &$m.node), $m.encode().into_bytes()));
        }};
    }
    match &desc {
        Descriptor::Bare(b) => {
            take!(b.as_inner(), BareCtx);
            // inner.rs dispatches p2pk- and p2pkh-shaped bare scripts as key-only outputs
            let spk = desc.script_pubkey();
            kind = if spk.is_p2pk() {
                "barepk"
            } else if spk.is_p2pkh() {
                "pkh"
            } else {
                "bare"
            };
        }
        Descriptor::Pkh(p) => {
            keys.push(w.key_index(p.as_inner()));
            kind = "pkh";
        }
        Descriptor::Wpkh(p) => {
            keys.push(w.key_index(p.as_inner()));
            kind = "wpkh";
        }
        Descriptor::Wsh(x) => {
            take!(x.as_inner(), Segwitv0);
            kind = "wsh";
        }
        Descriptor::Sh(sh) => match sh.as_inner() {
            miniscript::descriptor::ShInner::Wsh(x) => {
                take!(x.as_inner(), Segwitv0);
                kind = "shwsh";
            }
            miniscript::descriptor::ShInner::Wpkh(p) => {
                keys.push(w.key_index(p.as_inner()));
                kind = "shwpkh";
            }
            miniscript::descriptor::ShInner::Ms(m) => {
                take!(m, Legacy);
                kind = "sh";
            }
        },
        Descriptor::Tr(tr) => {
            let ik = w.key_index(tr.internal_key());
            internal = Some(ik);
            for leaf in tr.leaves() {
                let m = leaf.miniscript();
                take!(m.as_ref(), Tap);
            }
            if !keys.contains(&ik) {
                keys.push(ik);
            }
            kind = if dumps.is_empty() { "trkey" } else { "tr" };
        }
    }
    Some((Case { desc, kind, ms_dump: dumps, exts: vec![], keys, abs, rel, internal }, all_sane))
}

fn is_tap(kind: &str) -> bool { kind == "tr" || kind == "trkey" }
fn is_v0(kind: &str) -> bool { matches!(kind, "wsh" | "shwsh" | "wpkh" | "shwpkh") }

fn build_tx(env: &Env, out_value: u64) -> Transaction {
    Transaction {
        version: transaction::Version(env.txv),
        lock_time: absolute::LockTime::from_consensus(env.lock),
        input: vec![TxIn {
            previous_output: OutPoint { txid: bitcoin::Txid::all_zeros(), vout: 0 },
            script_sig: ScriptBuf::new(),
            sequence: Sequence(env.seq),
            witness: Witness::new(),
        }],
        output: vec![TxOut { value: Amount::from_sat(out_value), script_pubkey: ScriptBuf::new() }],
    }
}

pub struct Signed {
    pub tx: Transaction,
    pub ecdsa: BTreeMap<usize, bitcoin::ecdsa::Signature>,
    pub tapleaf: BTreeMap<(usize, TapLeafHash), bitcoin::taproot::Signature>,
    pub tapkey: Option<bitcoin::taproot::Signature>,
}

fn p2pkh_of(keybytes: &[u8]) -> ScriptBuf {
    let h = hash160::Hash::hash(keybytes);
    ScriptBuf::new_p2pkh(&bitcoin::PubkeyHash::from_byte_array(h.to_byte_array()))
}

/// sign with every key of the case, for the concrete transaction
fn sign_all(w: &World, c: &Case, tx: &Transaction, ety: EcdsaSighashType, tty: TapSighashType) -> Signed {
    let spk = c.desc.script_pubkey();
    let value = Amount::from_sat(VALUE);
    let mut ecdsa = BTreeMap::new();
    let mut tapleaf = BTreeMap::new();
    let mut tapkey = None;
    let mut cache = SighashCache::new(tx);
    let mut ec = |i: usize, msg: Message| {
        let sig = w.secp.sign_ecdsa(&msg, &w.sks[i]);
        bitcoin::ecdsa::Signature { signature: sig, sighash_type: ety }
    };
    match c.kind {
        "wsh" | "shwsh" => {
            let ws = ScriptBuf::from_bytes(c.ms_dump[0].1.clone());
            if let Ok(h) = cache.p2wsh_signature_hash(0, &ws, value, ety) {
                let msg = Message::from_digest(h.to_byte_array());
                for &i in c.keys.iter() {
                    ecdsa.insert(i, ec(i, msg));
                }
            }
        }
        "sh" | "bare" | "barepk" | "pkh" => {
            let sc = if c.kind == "sh" { ScriptBuf::from_bytes(c.ms_dump[0].1.clone()) } else { spk.clone() };
            if let Ok(h) = cache.legacy_signature_hash(0, &sc, ety.to_u32()) {
                let msg = Message::from_digest(h.to_byte_array());
                for &i in c.keys.iter() {
                    ecdsa.insert(i, ec(i, msg));
                }
            }
        }
        "wpkh" | "shwpkh" => {
            for &i in c.keys.iter() {
                let sc = p2pkh_of(&w.key_bytes(i, false));
                if let Ok(h) = cache.p2wsh_signature_hash(0, &sc, value, ety) {
                    let msg = Message::from_digest(h.to_byte_array());
                    ecdsa.insert(i, ec(i, msg));
                }
            }
        }
        _ => {
            let prevouts = [TxOut { value, script_pubkey: spk.clone() }];
            let prevouts = Prevouts::All(&prevouts);
            for (_, sbytes) in c.ms_dump.iter() {
                let ls = ScriptBuf::from_bytes(sbytes.clone());
                let lh = TapLeafHash::from_script(&ls, LeafVersion::TapScript);
                if let Ok(h) = cache.taproot_script_spend_signature_hash(0, &prevouts, lh, tty) {
                    let msg = Message::from_digest(h.to_byte_array());
                    for &i in c.keys.iter() {
                        let kp = secp256k1::Keypair::from_secret_key(&w.secp, &w.sks[i]);
                        let sig = w.secp.sign_schnorr_no_aux_rand(&msg, &kp);
                        tapleaf.insert((i, lh), bitcoin::taproot::Signature { signature: sig, sighash_type: tty });
                    }
                }
            }
            if let Descriptor::Tr(ref tr) = c.desc {
                let si = tr.spend_info();
                let kp = secp256k1::Keypair::from_secret_key(&w.secp, &w.sks[c.internal.unwrap()]);
                let tweaked = kp.tap_tweak(&w.secp, si.merkle_root());
                if let Ok(h) = cache.taproot_key_spend_signature_hash(0, &prevouts, tty) {
                    let msg = Message::from_digest(h.to_byte_array());
                    let sig = w.secp.sign_schnorr_no_aux_rand(&msg, &tweaked.to_keypair());
                    tapkey = Some(bitcoin::taproot::Signature { signature: sig, sighash_type: tty });
                }
            }
        }
    }
    Signed { tx: tx.clone(), ecdsa, tapleaf, tapkey }
}

impl Signed {
    fn all_sigs(&self) -> Vec<Vec<u8>> {
        let mut v: Vec<Vec<u8>> = self.ecdsa.values().map(|s| s.to_vec()).collect();
        v.extend(self.tapleaf.values().map(|s| s.to_vec()));
        if let Some(s) = self.tapkey {
            v.push(s.to_vec());
        }
        v
    }
    /// position-preserving correspondence: signature bytes of `self` -> signature bytes of `other`
    fn map_to(&self, other: &Signed) -> BTreeMap<Vec<u8>, Vec<u8>> {
        let mut m = BTreeMap::new();
        for (k, s) in self.ecdsa.iter() {
            if let Some(o) = other.ecdsa.get(k) {
                m.insert(s.to_vec(), o.to_vec());
            }
        }
        for (k, s) in self.tapleaf.iter() {
            if let Some(o) = other.tapleaf.get(k) {
                m.insert(s.to_vec(), o.to_vec());
            }
        }
        if let (Some(s), Some(o)) = (self.tapkey, other.tapkey) {
            m.insert(s.to_vec(), o.to_vec());
        }
        m
    }
}

// ------------------------------------------------------------------ scriptSig <-> items
fn ssig_items(s: &Script) -> Option<Vec<Vec<u8>>> {
    let mut v = Vec::new();
    for ins in s.instructions() {
        match ins {
            Ok(bitcoin::script::Instruction::PushBytes(b)) => v.push(b.as_bytes().to_vec()),
            Ok(bitcoin::script::Instruction::Op(op)) => {
                let c = op.to_u8();
                if (0x51..=0x60).contains(&c) {
                    v.push(vec![c - 0x50]);
                } else if c == 0x4f {
                    v.push(vec![0x81]);
                } else {
                    return None;
                }
            }
            Err(_) => return None,
        }
    }
    Some(v)
}
fn push_min(out: &mut Vec<u8>, it: &[u8]) {
    if it.is_empty() {
        out.push(0);
    } else if it.len() == 1 && (1..=16).contains(&it[0]) {
        out.push(0x50 + it[0]);
    } else if it.len() == 1 && it[0] == 0x81 {
        out.push(0x4f);
    } else if it.len() <= 75 {
        out.push(it.len() as u8);
        out.extend_from_slice(it);
    } else if it.len() <= 255 {
        out.push(0x4c);
        out.push(it.len() as u8);
        out.extend_from_slice(it);
    } else {
        out.push(0x4d);
        out.push((it.len() & 0xff) as u8);
        out.push((it.len() >> 8) as u8);
        out.extend_from_slice(it);
    }
}
fn build_ssig(items: &[Vec<u8>]) -> Vec<u8> {
    let mut out = Vec::new();
    for it in items {
        push_min(&mut out, it);
    }
    out
}

#[derive(Clone)]
pub struct Spend {
    pub mkind: String,
    pub base: &'static str,
    pub wit: Vec<Vec<u8>>,
    pub ssig: Vec<u8>,
}

/// re-serialise a script replacing the fused *VERIFY opcode `from` by `to` followed by OP_VERIFY
fn noncanon(script: &[u8], from: u8, to: u8) -> Option<Vec<u8>> {
    let s = Script::from_bytes(script);
    let mut out = Vec::new();
    let mut hit = false;
    for ins in s.instruction_indices() {
        let (pos, ins) = ins.ok()?;
        match ins {
            bitcoin::script::Instruction::Op(op) if op.to_u8() == from && !hit => {
                out.push(to);
                out.push(0x69);
                hit = true;
            }
            bitcoin::script::Instruction::Op(op) => out.push(op.to_u8()),
            bitcoin::script::Instruction::PushBytes(b) => {
                // copy the original encoding of the push
                let start = pos;
                let len = b.len();
                let hdr = if len <= 75 { 1 } else if len <= 255 { 2 } else { 3 };
                out.extend_from_slice(&script[start..start + hdr + len]);
            }
        }
    }
    if hit {
        Some(out)
    } else {
        None
    }
}

struct MutCtx<'a> {
    w: &'a World,
    tap: bool,
    sigs: Vec<Vec<u8>>,                       // valid signatures of this tx (any key)
    othertx: BTreeMap<Vec<u8>, Vec<u8>>,      // sig -> same key's signature over a different tx
    variant: BTreeMap<Vec<u8>, Vec<u8>>,      // sig -> same key's valid signature with another sighash type
    keys: Vec<Vec<u8>>,
}

fn junk(rng: &mut Rng) -> Vec<u8> {
    let n = match rng.below(6) {
        0 => 1,
        1 => 32,
        2 => 33,
        3 => 64,
        4 => 71,
        _ => 2 + rng.below(38) as usize,
    };
    (0..n).map(|_| rng.next() as u8).collect()
}

/// apply one mutation of kind `k` at index `i` of `v`; None when not applicable
fn apply_mut(v: &mut Vec<Vec<u8>>, i: usize, k: &str, m: &MutCtx, rng: &mut Rng) -> Option<()> {
    if i >= v.len() {
        return None;
    }
    match k {
        "drop" => {
            v.remove(i);
        }
        "dup" => {
            let x = v[i].clone();
            v.insert(i, x);
        }
        "swap" => {
            if i + 1 >= v.len() || v[i] == v[i + 1] {
                return None;
            }
            v.swap(i, i + 1);
        }
        "swapfar" => {
            let j = rng.below(v.len() as u64) as usize;
            if j == i || v[i] == v[j] {
                return None;
            }
            v.swap(i, j);
        }
        "empty" => {
            if v[i].is_empty() {
                return None;
            }
            v[i] = vec![];
        }
        "one" => {
            if v[i] == [1u8] {
                return None;
            }
            v[i] = vec![1];
        }
        "zero32" => {
            if v[i] == [0u8; 32] {
                return None;
            }
            v[i] = vec![0; 32];
        }
        "junk" => v[i] = junk(rng),
        "othersig" => {
            let cands: Vec<&Vec<u8>> = m.sigs.iter().filter(|s| **s != v[i]).collect();
            if cands.is_empty() {
                return None;
            }
            v[i] = cands[rng.below(cands.len() as u64) as usize].clone();
        }
        "sig-othertx" => {
            let r = m.othertx.get(&v[i])?.clone();
            v[i] = r;
        }
        "sig-variant" => {
            let r = m.variant.get(&v[i])?.clone();
            v[i] = r;
        }
        "sig-append00" => {
            if !(m.tap && v[i].len() == 64) {
                return None;
            }
            v[i].push(0);
        }
        "sig-hashtype" => {
            if !m.othertx.contains_key(&v[i]) {
                return None;
            }
            if m.tap {
                if v[i].len() == 64 {
                    v[i].push(1);
                } else {
                    let n = v[i].len();
                    v[i][n - 1] ^= 0x02;
                }
            } else {
                let n = v[i].len();
                v[i][n - 1] = if v[i][n - 1] == 1 { 3 } else { 1 };
            }
        }
        "sig-flipbit" => {
            if !m.othertx.contains_key(&v[i]) {
                return None;
            }
            let n = v[i].len();
            let pos = 8 + rng.below((n - 10) as u64) as usize;
            v[i][pos] ^= 1 << rng.below(8);
        }
        "preimage" => {
            let p = m.w.preimages[rng.below(N_PRE as u64) as usize].to_vec();
            if p == v[i] {
                return None;
            }
            v[i] = p;
        }
        "key" => {
            if m.keys.is_empty() {
                return None;
            }
            let kb = m.keys[rng.below(m.keys.len() as u64) as usize].clone();
            if kb == v[i] {
                return None;
            }
            v[i] = kb;
        }
        _ => return None,
    }
    Some(())
}

const MUT_KINDS: &[&str] = &[
    "drop", "dup", "swap", "swapfar", "empty", "one", "zero32", "junk", "othersig", "sig-othertx", "sig-variant",
    "sig-append00", "sig-hashtype", "sig-flipbit", "preimage", "key",
];

fn mutants(base: &Spend, kind: &str, m: &MutCtx, rng: &mut Rng, budget: usize) -> Vec<Spend> {
    let mut out = Vec::new();
    let items = ssig_items(Script::from_bytes(&base.ssig)).unwrap_or_default();
    // candidate triples (vector id, index, kind)
    let mut cands: Vec<(u8, usize, &str)> = Vec::new();
    // structural elements (script, control block, redeem script) get the generic kinds only
    const STRUCT_KINDS: &[&str] = &["drop", "dup", "swap", "empty", "one", "junk"];
    let wn = base.wit.len();
    let w_struct = |i: usize| match kind {
        "wsh" | "shwsh" => i + 1 == wn,
        "tr" => wn >= 2 && i + 2 >= wn,
        _ => false,
    };
    let s_struct = |i: usize| match kind {
        "sh" | "shwsh" | "shwpkh" => i + 1 == items.len(),
        _ => false,
    };
    for i in 0..base.wit.len() {
        for k in MUT_KINDS {
            if !w_struct(i) || STRUCT_KINDS.contains(k) {
                cands.push((0, i, k));
            }
        }
    }
    for i in 0..items.len() {
        for k in MUT_KINDS {
            if !s_struct(i) || STRUCT_KINDS.contains(k) {
                cands.push((1, i, k));
            }
        }
    }
    // Fisher-Yates with the seeded generator
    for i in (1..cands.len()).rev() {
        let j = rng.below((i + 1) as u64) as usize;
        cands.swap(i, j);
    }
    let mut apply = |sp: &Spend, c: &(u8, usize, &str), rng: &mut Rng| -> Option<Spend> {
        let mut s = sp.clone();
        if c.0 == 0 {
            apply_mut(&mut s.wit, c.1, c.2, m, rng)?;
        } else {
            let mut it = ssig_items(Script::from_bytes(&s.ssig))?;
            apply_mut(&mut it, c.1, c.2, m, rng)?;
            s.ssig = build_ssig(&it);
        }
        s.base = "mut";
        s.mkind = format!("{}{}", if c.0 == 0 { "w:" } else { "s:" }, c.2);
        Some(s)
    };
    let mut seen = BTreeSet::new();
    seen.insert((base.wit.clone(), base.ssig.clone()));
    let mut singles: Vec<(u8, usize, &str)> = Vec::new();
    for c in cands.iter() {
        if out.len() >= budget {
            break;
        }
        if let Some(s) = apply(base, c, rng) {
            if seen.insert((s.wit.clone(), s.ssig.clone())) {
                out.push(s);
                singles.push(*c);
            }
        }
    }
    // multi-element mutations: two independent single mutations
    let nmulti = (budget / 4).max(1);
    for t in 0..nmulti {
        if singles.len() < 2 {
            break;
        }
        let a = singles[rng.below(singles.len() as u64) as usize];
        let b = singles[rng.below(singles.len() as u64) as usize];
        if let Some(s1) = apply(base, &a, rng) {
            if let Some(mut s2) = apply(&s1, &b, rng) {
                s2.mkind = format!("multi({}+{})", s1.mkind, s2.mkind);
                if seen.insert((s2.wit.clone(), s2.ssig.clone())) {
                    out.push(s2);
                }
            }
        }
        let _ = t;
    }
    // scriptSig encoding: non-minimal push of the first item, and extra leading OP_0
    if !items.is_empty() {
        let mut raw = Vec::new();
        let it0 = &items[0];
        if it0.len() <= 75 {
            raw.push(0x4c);
            raw.push(it0.len() as u8);
            raw.extend_from_slice(it0);
            raw.extend_from_slice(&build_ssig(&items[1..]));
            out.push(Spend { mkind: "s:nonminimal-push".into(), base: "mut", wit: base.wit.clone(), ssig: raw });
        }
        let mut raw = vec![0x61u8]; // OP_NOP in front: not push-only
        raw.extend_from_slice(&base.ssig);
        out.push(Spend { mkind: "s:nop".into(), base: "mut", wit: base.wit.clone(), ssig: raw });
    }
    // every empty element replaced by each valid signature in turn (more signatures than needed)
    if budget >= 8 {
        let mut nfill = 0;
        for i in 0..base.wit.len() {
            if !base.wit[i].is_empty() || w_struct(i) {
                continue;
            }
            for sg in m.sigs.iter() {
                if nfill >= 10 {
                    break;
                }
                let mut s2 = base.clone();
                s2.wit[i] = sg.clone();
                s2.base = "mut";
                s2.mkind = "w:fill-sig".into();
                if seen.insert((s2.wit.clone(), s2.ssig.clone())) {
                    out.push(s2);
                    nfill += 1;
                }
            }
        }
        for i in 0..items.len() {
            if !items[i].is_empty() || s_struct(i) {
                continue;
            }
            for sg in m.sigs.iter() {
                if nfill >= 10 {
                    break;
                }
                let mut it = items.clone();
                it[i] = sg.clone();
                let s2 = Spend { mkind: "s:fill-sig".into(), base: "mut", wit: base.wit.clone(), ssig: build_ssig(&it) };
                if seen.insert((s2.wit.clone(), s2.ssig.clone())) {
                    out.push(s2);
                    nfill += 1;
                }
            }
        }
    }
    // IF selectors (and every other 01 / empty element) in a non-minimal form of the same truth
    // value: 01 -> 02 00, empty -> 00.  MINIMALIF (v0, tapscript) makes the script fail; the base
    // signature version (sh, bare) has no such rule.
    {
        let nonmin = |b: &Vec<u8>| -> Option<Vec<u8>> {
            if b.as_slice() == [1u8] {
                Some(vec![2, 0])
            } else if b.is_empty() {
                Some(vec![0])
            } else {
                None
            }
        };
        let mut nsel = 0;
        for i in 0..base.wit.len() {
            if w_struct(i) || nsel >= 6 {
                continue;
            }
            if let Some(nb) = nonmin(&base.wit[i]) {
                let mut s2 = base.clone();
                s2.wit[i] = nb;
                s2.base = "mut";
                s2.mkind = "w:sel-nonminimal".into();
                if seen.insert((s2.wit.clone(), s2.ssig.clone())) {
                    out.push(s2);
                    nsel += 1;
                }
            }
        }
        for i in 0..items.len() {
            if s_struct(i) || nsel >= 6 {
                continue;
            }
            if let Some(nb) = nonmin(&items[i]) {
                let mut it = items.clone();
                it[i] = nb;
                let s2 = Spend { mkind: "s:sel-nonminimal".into(), base: "mut", wit: base.wit.clone(), ssig: build_ssig(&it) };
                if seen.insert((s2.wit.clone(), s2.ssig.clone())) {
                    out.push(s2);
                    nsel += 1;
                }
            }
        }
    }
    // the hash-type byte of every valid signature rewritten (every output type incl. pkh / wpkh / tr key
    // path).  ECDSA: non-standard bytes that a lossy decoder maps onto a standard type (00, 04, 05, 21,
    // 41, 80, ff) and the other standard types (a signature made for one type is invalid under another:
    // the digest commits to the byte as given).  Schnorr: a type byte appended to a 64-byte (Default)
    // signature, the explicit byte of a 65-byte one changed.
    {
        let rewrite = |sg: &Vec<u8>| -> Vec<(String, Vec<u8>)> {
            let mut r = Vec::new();
            if m.tap {
                let bytes: &[u8] = &[0x01, 0x02, 0x03, 0x81, 0x82, 0x83, 0x04, 0x80, 0xff];
                if sg.len() == 64 {
                    for b in bytes {
                        let mut x = sg.clone();
                        x.push(*b);
                        r.push((format!("sig-hashbyte-{:02x}", b), x));
                    }
                } else if sg.len() == 65 {
                    for b in bytes.iter().chain([0x00u8].iter()) {
                        if sg[64] != *b {
                            let mut x = sg.clone();
                            x[64] = *b;
                            r.push((format!("sig-hashbyte-{:02x}", b), x));
                        }
                    }
                    r.push(("sig-hashbyte-none".into(), sg[..64].to_vec()));
                }
            } else if sg.len() >= 9 {
                for b in [0x00u8, 0x04, 0x05, 0x21, 0x41, 0x80, 0xff, 0x01, 0x02, 0x03, 0x81, 0x82, 0x83] {
                    if sg[sg.len() - 1] != b {
                        let mut x = sg.clone();
                        let n = x.len();
                        x[n - 1] = b;
                        r.push((format!("sig-hashbyte-{:02x}", b), x));
                    }
                }
            }
            r
        };
        let mut nsig = 0;
        for i in 0..base.wit.len() {
            if w_struct(i) || !m.sigs.contains(&base.wit[i]) {
                continue;
            }
            nsig += 1;
            for (j, (name, nb)) in rewrite(&base.wit[i]).into_iter().enumerate() {
                if nsig > 1 && j % 4 != 0 {
                    continue; // further signatures: every fourth byte value
                }
                let mut s2 = base.clone();
                s2.wit[i] = nb;
                s2.base = "mut";
                s2.mkind = format!("w:{}", name);
                if seen.insert((s2.wit.clone(), s2.ssig.clone())) {
                    out.push(s2);
                }
            }
        }
        for i in 0..items.len() {
            if s_struct(i) || !m.sigs.contains(&items[i]) {
                continue;
            }
            nsig += 1;
            for (j, (name, nb)) in rewrite(&items[i]).into_iter().enumerate() {
                if nsig > 1 && j % 4 != 0 {
                    continue;
                }
                let mut it = items.clone();
                it[i] = nb;
                let s2 = Spend { mkind: format!("s:{}", name), base: "mut", wit: base.wit.clone(), ssig: build_ssig(&it) };
                if seen.insert((s2.wit.clone(), s2.ssig.clone())) {
                    out.push(s2);
                }
            }
        }
    }
    // scriptSig shape, every output type: extra pushes (empty, 01, junk) in front of and behind the
    // existing ones.  BIP141: the scriptSig of a P2SH-wrapped witness program is exactly the push of
    // the redeem script, the scriptSig of a native witness program (wsh, wpkh, tr) is empty.
    for (name, extra) in [("empty", vec![]), ("01", vec![1u8]), ("junk", vec![0xabu8, 0xcd, 0xef])] {
        let mut front = vec![extra.clone()];
        front.extend(items.iter().cloned());
        let mut back = items.clone();
        back.push(extra.clone());
        for (pos, it) in [("prepend", front), ("append", back)] {
            if pos == "append" && items.is_empty() {
                continue; // same bytes as the prepend form
            }
            let s2 = Spend { mkind: format!("s:ssig-{}-{}", pos, name), base: "mut", wit: base.wit.clone(), ssig: build_ssig(&it) };
            if seen.insert((s2.wit.clone(), s2.ssig.clone())) {
                out.push(s2);
            }
        }
    }
    // a different script in place of the committed one: OP_1 with nothing to consume
    match kind {
        "wsh" | "shwsh" => out.push(Spend { mkind: "script-true".into(), base: "mut", wit: vec![vec![0x51]], ssig: base.ssig.clone() }),
        "tr" if base.wit.len() >= 2 => out.push(Spend {
            mkind: "script-true".into(),
            base: "mut",
            wit: vec![vec![0x51], base.wit[base.wit.len() - 1].clone()],
            ssig: vec![],
        }),
        "sh" => out.push(Spend { mkind: "script-true".into(), base: "mut", wit: vec![], ssig: vec![0x01, 0x51] }),
        _ => {}
    }
    // the script element re-serialised non-canonically (fused VERIFY opcodes split)
    let (vec_id, idx): (u8, Option<usize>) = match kind {
        "wsh" | "shwsh" => (0, base.wit.len().checked_sub(1)),
        "tr" if base.wit.len() >= 2 => (0, Some(base.wit.len() - 2)),
        "sh" => (1, items.len().checked_sub(1)),
        _ => (0, None),
    };
    if let Some(idx) = idx {
        for (name, from, to) in [
            ("noncanon-numequalverify", 0x9du8, 0x9cu8),
            ("noncanon-equalverify", 0x88, 0x87),
            ("noncanon-checksigverify", 0xad, 0xac),
            ("noncanon-checkmultisigverify", 0xaf, 0xae),
        ] {
            let mut s = base.clone();
            let el = if vec_id == 0 { base.wit[idx].clone() } else { items[idx].clone() };
            if let Some(ns) = noncanon(&el, from, to) {
                if vec_id == 0 {
                    s.wit[idx] = ns;
                } else {
                    let mut it = items.clone();
                    it[idx] = ns;
                    s.ssig = build_ssig(&it);
                }
                s.base = "mut";
                s.mkind = name.into();
                out.push(s);
            }
        }
    }
    out
}

// ------------------------------------------------------------------ independent signature oracle
enum SigCtx {
    Legacy(ScriptBuf),
    V0(ScriptBuf),
    TapKey,
    TapLeaf(TapLeafHash),
    Nothing,
}

/// the signature-checking context real execution would use for THIS spend (from its own elements)
fn sig_ctx(kind: &str, spk: &ScriptBuf, sp: &Spend) -> SigCtx {
    let items = ssig_items(Script::from_bytes(&sp.ssig)).unwrap_or_default();
    match kind {
        "wsh" | "shwsh" => match sp.wit.last() {
            Some(s) => SigCtx::V0(ScriptBuf::from_bytes(s.clone())),
            None => SigCtx::Nothing,
        },
        "sh" => match items.last() {
            Some(s) => SigCtx::Legacy(ScriptBuf::from_bytes(s.clone())),
            None => SigCtx::Nothing,
        },
        "bare" | "barepk" | "pkh" => SigCtx::Legacy(spk.clone()),
        "wpkh" | "shwpkh" => match sp.wit.last() {
            Some(k) => SigCtx::V0(p2pkh_of(k)),
            None => SigCtx::Nothing,
        },
        _ => {
            if sp.wit.len() == 1 {
                SigCtx::TapKey
            } else if sp.wit.len() >= 2 {
                let ls = ScriptBuf::from_bytes(sp.wit[sp.wit.len() - 2].clone());
                SigCtx::TapLeaf(TapLeafHash::from_script(&ls, LeafVersion::TapScript))
            } else {
                SigCtx::Nothing
            }
        }
    }
}

/// consensus + standardness validity of (key, sig) for this transaction, by secp256k1 and
/// rust-bitcoin's sighash only
fn oracle_sigok(
    secp: &secp256k1::Secp256k1<secp256k1::All>,
    tx: &Transaction,
    prevout: &TxOut,
    ctx: &SigCtx,
    key: &[u8],
    sig: &[u8],
) -> bool {
    let mut cache = SighashCache::new(tx);
    match ctx {
        SigCtx::Nothing => false,
        SigCtx::Legacy(sc) | SigCtx::V0(sc) => {
            let v0 = matches!(ctx, SigCtx::V0(_));
            if sig.len() < 9 || sig.len() > 73 {
                return false;
            }
            let pk = match secp256k1::PublicKey::from_slice(key) {
                Ok(p) => p,
                Err(_) => return false,
            };
            if !(key.len() == 33 || (key.len() == 65 && !v0 && key[0] == 4)) {
                return false;
            }
            let ht = sig[sig.len() - 1] as u32;
            let ty = match EcdsaSighashType::from_standard(ht) {
                Ok(t) => t,
                Err(_) => return false,
            };
            let s = match secp256k1::ecdsa::Signature::from_der(&sig[..sig.len() - 1]) {
                Ok(s) => s,
                Err(_) => return false,
            };
            let mut n = s;
            n.normalize_s();
            if n != s {
                return false;
            }
            let digest = if v0 {
                match cache.p2wsh_signature_hash(0, sc, prevout.value, ty) {
                    Ok(h) => h.to_byte_array(),
                    Err(_) => return false,
                }
            } else {
                match cache.legacy_signature_hash(0, sc, ht) {
                    Ok(h) => h.to_byte_array(),
                    Err(_) => return false,
                }
            };
            secp.verify_ecdsa(&Message::from_digest(digest), &s, &pk).is_ok()
        }
        SigCtx::TapKey | SigCtx::TapLeaf(_) => {
            if key.len() != 32 {
                return false;
            }
            let xk = match XOnlyPublicKey::from_slice(key) {
                Ok(k) => k,
                Err(_) => return false,
            };
            let (raw, ty) = match sig.len() {
                64 => (sig, TapSighashType::Default),
                65 => {
                    // BIP341: an explicit hash type byte 0x00 is invalid
                    let t = match sig[64] {
                        1 => TapSighashType::All,
                        2 => TapSighashType::None,
                        3 => TapSighashType::Single,
                        0x81 => TapSighashType::AllPlusAnyoneCanPay,
                        0x82 => TapSighashType::NonePlusAnyoneCanPay,
                        0x83 => TapSighashType::SinglePlusAnyoneCanPay,
                        _ => return false,
                    };
                    (&sig[..64], t)
                }
                _ => return false,
            };
            let s = match secp256k1::schnorr::Signature::from_slice(raw) {
                Ok(s) => s,
                Err(_) => return false,
            };
            let po = [prevout.clone()];
            let prevouts = Prevouts::All(&po);
            let digest = match ctx {
                SigCtx::TapKey => match cache.taproot_key_spend_signature_hash(0, &prevouts, ty) {
                    Ok(h) => h.to_byte_array(),
                    Err(_) => return false,
                },
                SigCtx::TapLeaf(lh) => match cache.taproot_script_spend_signature_hash(0, &prevouts, *lh, ty) {
                    Ok(h) => h.to_byte_array(),
                    Err(_) => return false,
                },
                _ => unreachable!(),
            };
            secp.verify_schnorr(&s, &Message::from_digest(digest), &xk).is_ok()
        }
    }
}

// ------------------------------------------------------------------ interpreter run
fn err_class(e: &miniscript::interpreter::Error) -> &'static str {
    use miniscript::interpreter::Error as E;
    match e {
        E::AbsoluteLockTimeNotMet(..) => "abs_not_met",
        E::AbsoluteLockTimeComparisonInvalid(..) => "abs_invalid",
        E::CannotInferTrDescriptors => "cannot_infer_tr",
        E::ControlBlockParse(..) => "control_block_parse",
        E::ControlBlockVerificationError => "control_block_verify",
        E::CouldNotEvaluate => "could_not_evaluate",
        E::EcdsaSig(..) | E::SchnorrSig(..) | E::Secp(..) | E::SighashError(..) | E::InvalidEcdsaSignature(..)
        | E::InvalidSchnorrSignature(..) | E::NonStandardSighash(..) | E::InvalidSchnorrSighashType(..) => "sig",
        E::ExpectedPush => "expected_push",
        E::HashPreimageLengthMismatch => "preimage_len",
        E::IncorrectPubkeyHash => "incorrect_pubkey_hash",
        E::IncorrectScriptHash => "incorrect_script_hash",
        E::IncorrectWPubkeyHash => "incorrect_wpubkey_hash",
        E::IncorrectWScriptHash => "incorrect_wscript_hash",
        E::InsufficientSignaturesMultiSig => "multi_insufficient",
        E::Miniscript(..) => "decode",
        E::MissingExtraZeroMultiSig => "multi_missing_zero",
        E::MultiSigEvaluationError => "multi_eval",
        E::NonEmptyWitness => "non_empty_witness",
        E::NonEmptyScriptSig => "non_empty_script_sig",
        E::PkEvaluationError(..) => "pk_eval",
        E::PkHashVerifyFail(..) => "pkh_fail",
        E::PubkeyParseError | E::XOnlyPublicKeyParseError | E::UncompressedPubkey => "key_parse",
        E::RelativeLockTimeNotMet(..) => "rel_not_met",
        E::RelativeLockTimeDisabled(..) => "rel_disabled",
        E::ScriptSatisfactionError => "script_sat",
        E::TapAnnexUnsupported => "annex",
        E::UnexpectedStackBoolean => "stack_bool",
        E::UnexpectedStackEnd => "stack_end",
        E::UnexpectedStackElementPush => "elem_push",
        E::VerifyFailed => "verify",
    }
}

fn ks_str(ks: &KeySigPair) -> (Vec<u8>, Vec<u8>) {
    match ks {
        KeySigPair::Ecdsa(pk, sig) => (pk.to_bytes(), sig.to_vec()),
        KeySigPair::Schnorr(xk, sig) => (xk.serialize().to_vec(), sig.to_vec()),
    }
}

#[derive(Default)]
struct Reported {
    keys: BTreeSet<Vec<u8>>, // x-only bytes of the keys with a reported signature
    hashes: BTreeSet<(u8, Vec<u8>)>,
    after: BTreeSet<u32>,
    older: BTreeSet<u32>,
}

fn xonly_of(key: &[u8]) -> Vec<u8> {
    match key.len() {
        32 => key.to_vec(),
        33 | 65 => key[1..33].to_vec(),
        _ => key.to_vec(),
    }
}

fn cons_str(c: &SatisfiedConstraint, rep: &mut Reported) -> String {
    match c {
        SatisfiedConstraint::PublicKey { key_sig } => {
            let (k, s) = ks_str(key_sig);
            rep.keys.insert(xonly_of(&k));
            format!("pk:{}:{}", hex(&k), hex(&s))
        }
        SatisfiedConstraint::PublicKeyHash { keyhash, key_sig } => {
            let (k, s) = ks_str(key_sig);
            rep.keys.insert(xonly_of(&k));
            format!("pkh:{}:{}:{}", hex(keyhash.as_byte_array()), hex(&k), hex(&s))
        }
        SatisfiedConstraint::HashLock { hash, preimage } => {
            let (t, n, h): (&str, u8, Vec<u8>) = match hash {
                HashLockType::Sha256(h) => ("sha256", 0, h.as_byte_array().to_vec()),
                HashLockType::Hash256(h) => ("hash256", 1, h.as_byte_array().to_vec()),
                HashLockType::Ripemd160(h) => ("ripemd160", 2, h.as_byte_array().to_vec()),
                HashLockType::Hash160(h) => ("hash160", 3, h.as_byte_array().to_vec()),
            };
            rep.hashes.insert((n, h.clone()));
            format!("{}:{}:{}", t, hex(&h), hex(preimage))
        }
        SatisfiedConstraint::RelativeTimelock { n } => {
            rep.older.insert(n.to_consensus_u32());
            format!("older:{}", n.to_consensus_u32())
        }
        SatisfiedConstraint::AbsoluteTimelock { n } => {
            rep.after.insert(n.to_consensus_u32());
            format!("after:{}", n.to_consensus_u32())
        }
    }
}

fn eval_policy(p: &Semantic<Key>, rep: &Reported) -> bool {
    match p {
        Semantic::Unsatisfiable => false,
        Semantic::Trivial => true,
        Semantic::Key(k) => rep.keys.contains(&k.to_x_only_pubkey().serialize().to_vec()),
        Semantic::After(t) => rep.after.contains(&t.to_consensus_u32()),
        // the interpreter reports a relative::LockTime: type flag + low 16 bits of the operand
        Semantic::Older(t) => rep.older.contains(&(t.to_consensus_u32() & 0x0040_ffff)),
        Semantic::Sha256(h) => rep.hashes.contains(&(0, h.as_byte_array().to_vec())),
        Semantic::Hash256(h) => rep.hashes.contains(&(1, h.as_byte_array().to_vec())),
        Semantic::Ripemd160(h) => rep.hashes.contains(&(2, h.as_byte_array().to_vec())),
        Semantic::Hash160(h) => rep.hashes.contains(&(3, h.as_byte_array().to_vec())),
        Semantic::Thresh(th) => th.iter().filter(|s| eval_policy(s, rep)).count() >= th.k(),
    }
}

// ------------------------------------------------------------------ what the interpreter decodes
struct ToKey;
impl Translator<bitcoin::PublicKey> for ToKey {
    type TargetPk = Key;
    type Error = ();
    fn pk(&mut self, pk: &bitcoin::PublicKey) -> Result<Key, ()> { Key::from_str(&pk.to_string()).map_err(|_| ()) }
    translate_hash_clone!(bitcoin::PublicKey);
}
struct XToKey;
impl Translator<XOnlyPublicKey> for XToKey {
    type TargetPk = Key;
    type Error = ();
    fn pk(&mut self, pk: &XOnlyPublicKey) -> Result<Key, ()> { Key::from_str(&pk.to_string()).map_err(|_| ()) }
    translate_hash_clone!(XOnlyPublicKey);
}

/// prefix dump of `Miniscript::decode_consensus(script)` in the context the interpreter uses
fn decoded_dump(w: &World, kind: &str, script: &[u8]) -> Option<String> {
    let s = Script::from_bytes(script);
    let r = catch_unwind(AssertUnwindSafe(|| -> Option<String> {
        match kind {
            "wsh" | "shwsh" => {
                let m = Miniscript::<bitcoin::PublicKey, Segwitv0>::decode_consensus(s).ok()?;
                let t = m.translate_pk(&mut ToKey).ok()?;
                Some(dump_str(w, &t.node))
            }
            "sh" => {
                let m = Miniscript::<bitcoin::PublicKey, Legacy>::decode_consensus(s).ok()?;
                let t = m.translate_pk(&mut ToKey).ok()?;
                Some(dump_str(w, &t.node))
            }
            "bare" => {
                let m = Miniscript::<bitcoin::PublicKey, BareCtx>::decode_consensus(s).ok()?;
                let t = m.translate_pk(&mut ToKey).ok()?;
                Some(dump_str(w, &t.node))
            }
            "tr" => {
                let m = Miniscript::<XOnlyPublicKey, Tap>::decode_consensus(s).ok()?;
                let t = m.translate_pk(&mut XToKey).ok()?;
                Some(dump_str(w, &t.node))
            }
            _ => None,
        }
    }));
    r.ok().flatten()
}

/// the same with the context's fragment restrictions lifted (generic consensus parameters): tells a
/// miniscript outside the context's language (or_i / d: before segwit) from a non-miniscript
fn decoded_dump_ext(w: &World, kind: &str, script: &[u8]) -> Option<String> {
    let s = Script::from_bytes(script);
    let p = miniscript::ValidationParams::CONSENSUS;
    let r = catch_unwind(AssertUnwindSafe(|| -> Option<String> {
        match kind {
            "wsh" | "shwsh" => {
                let m = Miniscript::<bitcoin::PublicKey, Segwitv0>::decode_with_validation_params(s, &p).ok()?;
                let t = m.translate_pk(&mut ToKey).ok()?;
                Some(dump_str(w, &t.node))
            }
            "sh" => {
                let m = Miniscript::<bitcoin::PublicKey, Legacy>::decode_with_validation_params(s, &p).ok()?;
                let t = m.translate_pk(&mut ToKey).ok()?;
                Some(dump_str(w, &t.node))
            }
            "bare" => {
                let m = Miniscript::<bitcoin::PublicKey, BareCtx>::decode_with_validation_params(s, &p).ok()?;
                let t = m.translate_pk(&mut ToKey).ok()?;
                Some(dump_str(w, &t.node))
            }
            "tr" => {
                let m = Miniscript::<XOnlyPublicKey, Tap>::decode_with_validation_params(s, &p).ok()?;
                let t = m.translate_pk(&mut XToKey).ok()?;
                Some(dump_str(w, &t.node))
            }
            _ => None,
        }
    }));
    r.ok().flatten()
}

fn script_elem<'a>(kind: &str, sp: &'a Spend, items: &'a [Vec<u8>], spk: &'a [u8]) -> Option<&'a [u8]> {
    match kind {
        "wsh" | "shwsh" => sp.wit.last().map(|v| &v[..]),
        "sh" => items.last().map(|v| &v[..]),
        "bare" => Some(spk),
        "tr" if sp.wit.len() >= 2 => Some(&sp.wit[sp.wit.len() - 2][..]),
        _ => None,
    }
}

pub fn ssig_items_pub(b: &[u8]) -> Option<Vec<Vec<u8>>> { ssig_items(Script::from_bytes(b)) }
pub fn build_ssig_pub(items: &[Vec<u8>]) -> Vec<u8> { build_ssig(items) }

pub struct Stats {
    pub spends: u64,
}

#[allow(clippy::too_many_arguments)]
fn emit_spend(
    w: &World,
    c: &Case,
    env: &Env,
    tx: &Transaction,
    sp: &Spend,
    sid: u64,
    policy: &Option<Semantic<Key>>,
    dec_cache: &mut BTreeMap<Vec<u8>, Option<String>>,
    out: &mut String,
) {
    let secp = &w.secp;
    let spk = c.desc.script_pubkey();
    let prevout = TxOut { value: Amount::from_sat(VALUE), script_pubkey: spk.clone() };
    let tap = is_tap(c.kind);
    let items = ssig_items(Script::from_bytes(&sp.ssig)).unwrap_or_default();
    writeln!(out, "SP {} base={} mk={} txv={} lock={} seq={}", sid, sp.base, sp.mkind, env.txv, env.lock, env.seq).unwrap();
    writeln!(out, "SS {}", hex(&sp.ssig)).unwrap();
    let mut l = format!("WI {}", sp.wit.len());
    for it in sp.wit.iter() {
        l.push(' ');
        l.push_str(&hex(it));
    }
    writeln!(out, "{}", l).unwrap();
    // hashes of the elements (what the oracle's hash opcodes return)
    let mut elems: Vec<&Vec<u8>> = sp.wit.iter().collect();
    elems.extend(items.iter());
    let mut seen: BTreeSet<&Vec<u8>> = BTreeSet::new();
    for e in elems.iter() {
        if !seen.insert(e) {
            continue;
        }
        if e.len() == 32 && !w.preimages.iter().any(|p| &p[..] == &e[..]) && e[..] != [0u8; 32] {
            writeln!(
                out,
                "H4 {} {} {} {} {}",
                hex(e),
                hex(sha256::Hash::hash(e).as_byte_array()),
                hex(hash256::Hash::hash(e).as_byte_array()),
                hex(ripemd160::Hash::hash(e).as_byte_array()),
                hex(hash160::Hash::hash(e).as_byte_array())
            )
            .unwrap();
        }
        if e.len() == 33 || e.len() == 65 || e.len() == 22 || e.len() == 34 {
            writeln!(out, "HASH hash160 {} {}", hex(e), hex(hash160::Hash::hash(e).as_byte_array())).unwrap();
        }
    }
    if let Some(se) = script_elem(c.kind, sp, &items, spk.as_bytes()) {
        writeln!(out, "HASH sha256 {} {}", hex(se), hex(sha256::Hash::hash(se).as_byte_array())).unwrap();
        writeln!(out, "HASH hash160 {} {}", hex(se), hex(hash160::Hash::hash(se).as_byte_array())).unwrap();
    }
    // candidate (key, signature) pairs
    let mut keys: Vec<Vec<u8>> = c.keys.iter().map(|&i| w.key_bytes(i, tap)).collect();
    if tap {
        keys.push(spk.as_bytes()[2..34].to_vec());
    }
    for e in elems.iter() {
        let kl = if tap { e.len() == 32 } else { e.len() == 33 || e.len() == 65 };
        if kl && !keys.contains(e) {
            keys.push((*e).clone());
        }
    }
    let mut sigs: Vec<Vec<u8>> = Vec::new();
    for e in elems.iter() {
        let sl = if tap { e.len() == 64 || e.len() == 65 } else { e.len() >= 9 && e.len() <= 73 };
        if sl && !sigs.contains(e) {
            sigs.push((*e).clone());
        }
    }
    let sctx = sig_ctx(c.kind, &spk, sp);
    let mut ok_pairs: BTreeSet<(Vec<u8>, Vec<u8>)> = BTreeSet::new();
    for k in keys.iter() {
        for s in sigs.iter() {
            if oracle_sigok(secp, tx, &prevout, &sctx, k, s) {
                ok_pairs.insert((k.clone(), s.clone()));
                writeln!(out, "SIGOK {} {}", hex(k), hex(s)).unwrap();
            }
        }
    }
    if c.kind == "tr" && sp.wit.len() >= 2 {
        let ok = match ControlBlock::decode(&sp.wit[sp.wit.len() - 1]) {
            Ok(cb) => {
                let ok_key = XOnlyPublicKey::from_slice(&spk.as_bytes()[2..34]).unwrap();
                let sc = ScriptBuf::from_bytes(sp.wit[sp.wit.len() - 2].clone());
                cb.verify_taproot_commitment(secp, ok_key, &sc) && cb.leaf_version == LeafVersion::TapScript
            }
            Err(_) => false,
        };
        writeln!(out, "TAPOK {}", ok as u8).unwrap();
    }
    // ---- the implementation
    let witness = Witness::from_slice(&sp.wit);
    let ssig = ScriptBuf::from_bytes(sp.ssig.clone());
    let res = catch_unwind(AssertUnwindSafe(|| {
        let mut rep = Reported::default();
        let interp = match Interpreter::from_txdata(
            &spk,
            &ssig,
            &witness,
            Sequence(env.seq),
            absolute::LockTime::from_consensus(env.lock),
        ) {
            Ok(i) => i,
            Err(e) => return (format!("err:from:{}", err_class(&e)), Vec::new(), rep, Vec::new(), None),
        };
        let po = [prevout.clone()];
        let prevouts = Prevouts::All(&po);
        // the implementation's own view of the candidate pairs (for the model run)
        let mut iview = Vec::new();
        let schnorr = matches!(interp.sig_type(), miniscript::SigType::Schnorr);
        for k in keys.iter() {
            for s in sigs.iter() {
                let pair = if schnorr {
                    // verify_sersig (since fix b1ce3b38) refuses a 65-byte signature ending in 0x00
                    // before parsing; the view handed to the model follows the same rule
                    if s.len() == 65 && s[64] == 0 {
                        None
                    } else {
                        match (XOnlyPublicKey::from_slice(k), bitcoin::taproot::Signature::from_slice(s)) {
                            (Ok(xk), Ok(sg)) => Some(KeySigPair::Schnorr(xk, sg)),
                            _ => None,
                        }
                    }
                } else {
                    match (bitcoin::PublicKey::from_slice(k), bitcoin::ecdsa::Signature::from_slice(s)) {
                        (Ok(pk), Ok(sg)) => Some(KeySigPair::Ecdsa(pk, sg)),
                        _ => None,
                    }
                };
                let v = match pair {
                    Some(p) => interp.verify_sig(secp, tx, 0, &prevouts, &p),
                    None => false,
                };
                iview.push((k.clone(), s.clone(), v));
            }
        }
        let mut cons = Vec::new();
        let mut verdict = String::from("ok");
        for r in interp.iter(secp, tx, 0, &prevouts) {
            match r {
                Ok(cst) => cons.push(cons_str(&cst, &mut rep)),
                Err(e) => {
                    verdict = format!("err:iter:{}", err_class(&e));
                    break;
                }
            }
        }
        let inferred = interp.inferred_descriptor_string();
        (verdict, cons, rep, iview, Some(inferred))
    }));
    match res {
        Err(_) => {
            writeln!(out, "IMPL panic 0").unwrap();
        }
        Ok((verdict, cons, mut rep, iview, inferred)) => {
            for (k, s, v) in iview.iter() {
                let o = ok_pairs.contains(&(k.clone(), s.clone()));
                if *v && !o {
                    writeln!(out, "ISIGX {} {}", hex(k), hex(s)).unwrap();
                } else if !*v && o {
                    writeln!(out, "ISIGN {} {}", hex(k), hex(s)).unwrap();
                }
            }
            if inferred.is_some() {
                if let Some(se) = script_elem(c.kind, sp, &items, spk.as_bytes()) {
                    let d = dec_cache.entry(se.to_vec()).or_insert_with(|| decoded_dump(w, c.kind, se)).clone();
                    match d {
                        Some(d) => writeln!(out, "IMS {}", d).unwrap(),
                        None => writeln!(out, "IMS ?").unwrap(),
                    }
                }
            }
            if inferred.is_none() && verdict == "err:from:decode" {
                // from_txdata could not decode the script: is it a miniscript outside the context's language?
                if let Some(se) = script_elem(c.kind, sp, &items, spk.as_bytes()) {
                    if decoded_dump(w, c.kind, se).is_none() {
                        if let Some(d) = decoded_dump_ext(w, c.kind, se) {
                            writeln!(out, "IMSX {}", d).unwrap();
                        }
                    }
                }
            }
            let mut l = format!("IMPL {} {}", verdict, cons.len());
            for cs in cons.iter() {
                l.push(' ');
                l.push_str(cs);
            }
            writeln!(out, "{}", l).unwrap();
            if verdict == "ok" {
                // for the classification of a false accept: pairs that are invalid as given but become
                // valid once the hash-type byte is replaced by a standard one (resp. dropped, taproot)
                for k in keys.iter() {
                    for s in sigs.iter() {
                        if ok_pairs.contains(&(k.clone(), s.clone())) || s.is_empty() {
                            continue;
                        }
                        let mut alts: Vec<Vec<u8>> = Vec::new();
                        if tap {
                            if s.len() == 65 {
                                alts.push(s[..64].to_vec());
                                for b in [1u8, 2, 3, 0x81, 0x82, 0x83] {
                                    let mut x = s.clone();
                                    x[64] = b;
                                    alts.push(x);
                                }
                            }
                        } else {
                            for b in [1u8, 2, 3, 0x81, 0x82, 0x83] {
                                let mut x = s.clone();
                                let n = x.len();
                                x[n - 1] = b;
                                alts.push(x);
                            }
                        }
                        if alts.iter().any(|a| a != s && oracle_sigok(secp, tx, &prevout, &sctx, k, a)) {
                            writeln!(out, "SIGHB {} {}", hex(k), hex(s)).unwrap();
                        }
                    }
                }
                // taproot key spend: the reported key is the output key; it stands for the internal key
                if c.kind == "tr" || c.kind == "trkey" {
                    if rep.keys.contains(&spk.as_bytes()[2..34].to_vec()) {
                        if let Some(ik) = c.internal {
                            rep.keys.insert(w.key_bytes(ik, true));
                        }
                    }
                }
                match policy {
                    Some(p) => writeln!(out, "POLICY {}", eval_policy(p, &rep) as u8).unwrap(),
                    None => writeln!(out, "POLICY -").unwrap(),
                }
            }
        }
    }
    crate::interp_ftx::emit_ftx(out, &spk, sp);
    writeln!(out, "ENDSP").unwrap();
}

// ------------------------------------------------------------------ environments
fn envs_for(c: &Case, rng: &mut Rng) -> Vec<Env> {
    let mut v: Vec<Env> = Vec::new();
    let mut push = |e: Env, v: &mut Vec<Env>| {
        if !v.contains(&e) {
            v.push(e);
        }
    };
    let mut abs = c.abs.clone();
    abs.sort();
    abs.dedup();
    let mut rel = c.rel.clone();
    rel.sort();
    rel.dedup();
    let maxabs_h = abs.iter().filter(|t| **t < 500_000_000).max().cloned();
    let maxabs_t = abs.iter().filter(|t| **t >= 500_000_000).max().cloned();
    let maxrel_h = rel.iter().filter(|t| **t & 0x400000 == 0).max().cloned();
    let maxrel_t = rel.iter().filter(|t| **t & 0x400000 != 0).max().cloned();
    let good_lock = maxabs_h.or(maxabs_t).unwrap_or(0);
    let good_seq = maxrel_h.or(maxrel_t).unwrap_or(0xffff_fffe);
    // everything of the dominant unit met
    push(Env { txv: 2, lock: good_lock, seq: good_seq }, &mut v);
    if abs.is_empty() && rel.is_empty() {
        push(Env { txv: 2, lock: 0, seq: 0xffff_ffff }, &mut v);
        push(Env { txv: 1, lock: 0, seq: 0xffff_ffff }, &mut v);
        return v;
    }
    if maxabs_h.is_some() && maxabs_t.is_some() || maxrel_h.is_some() && maxrel_t.is_some() {
        push(Env { txv: 2, lock: maxabs_t.or(maxabs_h).unwrap_or(0), seq: maxrel_t.or(maxrel_h).unwrap_or(0xffff_fffe) }, &mut v);
    }
    // nothing met
    push(Env { txv: 2, lock: 0, seq: 0xffff_ffff }, &mut v);
    // around each absolute lock (at most 3 of them)
    let pick = |xs: &Vec<u32>, rng: &mut Rng| -> Vec<u32> {
        let mut xs = xs.clone();
        while xs.len() > 3 {
            let i = rng.below(xs.len() as u64) as usize;
            xs.remove(i);
        }
        xs
    };
    for t in pick(&abs, rng) {
        for l in [t.saturating_sub(1), t, t.saturating_add(1)] {
            push(Env { txv: 2, lock: l, seq: good_seq }, &mut v);
        }
        // the other unit
        let other = if t < 500_000_000 { 500_000_000 + t % 1000 } else { 499_999_999 };
        push(Env { txv: 2, lock: other, seq: good_seq }, &mut v);
        // lock time met but the input is final (BIP65: CLTV fails)
        push(Env { txv: 2, lock: t, seq: 0xffff_ffff }, &mut v);
        push(Env { txv: 1, lock: t, seq: good_seq }, &mut v);
    }
    for r in pick(&rel, rng) {
        let ty = r & 0x400000;
        let val = r & 0xffff;
        for s in [val.saturating_sub(1), val, (val + 1).min(0xffff)] {
            push(Env { txv: 2, lock: good_lock, seq: ty | s }, &mut v);
        }
        push(Env { txv: 2, lock: good_lock, seq: (ty ^ 0x400000) | val }, &mut v); // other unit
        push(Env { txv: 2, lock: good_lock, seq: 0x8000_0000 | r }, &mut v); // disable bit
        push(Env { txv: 2, lock: good_lock, seq: 0xffff_ffff }, &mut v); // final
        push(Env { txv: 1, lock: good_lock, seq: r }, &mut v); // BIP112 needs version >= 2
        push(Env { txv: 2, lock: good_lock, seq: r | 0x0001_0000 | 0x0020_0000 }, &mut v); // unrelated bits set
    }
    v
}

// ------------------------------------------------------------------ driver of one case
#[allow(clippy::too_many_arguments)]
fn run_case(w: &World, c: &Case, id: u64, sane: bool, rng: &mut Rng, budget: usize, sid: &mut u64, out: &mut String) {
    let spk = c.desc.script_pubkey();
    let tap = is_tap(c.kind);
    writeln!(out, "CASE {} {} sane={}", id, c.kind, sane as u8).unwrap();
    writeln!(out, "DESC {}", c.desc).unwrap();
    for (d, sbytes) in c.ms_dump.iter() {
        writeln!(out, "MS {}", d).unwrap();
        writeln!(out, "SCRIPT {}", hex(sbytes)).unwrap();
        writeln!(out, "HASH sha256 {} {}", hex(sbytes), hex(sha256::Hash::hash(sbytes).as_byte_array())).unwrap();
        writeln!(out, "HASH hash160 {} {}", hex(sbytes), hex(hash160::Hash::hash(sbytes).as_byte_array())).unwrap();
        if c.kind == "shwsh" {
            let prog = ScriptBuf::new_p2wsh(&ScriptBuf::from_bytes(sbytes.clone()).wscript_hash());
            writeln!(out, "HASH hash160 {} {}", hex(prog.as_bytes()), hex(hash160::Hash::hash(prog.as_bytes()).as_byte_array())).unwrap();
        }
    }
    writeln!(out, "SPK {}", hex(spk.as_bytes())).unwrap();
    writeln!(out, "KEYS {}", c.keys.iter().map(|k| k.to_string()).collect::<Vec<_>>().join(",")).unwrap();
    let policy = catch_unwind(AssertUnwindSafe(|| c.desc.lift().ok())).ok().flatten();
    let mut dec_cache: BTreeMap<Vec<u8>, Option<String>> = BTreeMap::new();
    let cbmap: Option<BTreeMap<ControlBlock, (ScriptBuf, LeafVersion)>> = if let Descriptor::Tr(ref tr) = c.desc {
        let si = tr.spend_info();
        let mut m = BTreeMap::new();
        for leaf in si.leaves() {
            m.insert(leaf.control_block().clone(), (ScriptBuf::from(leaf.script()), LeafVersion::TapScript));
        }
        Some(m)
    } else {
        None
    };
    let envs = envs_for(c, rng);
    let all_keys: u32 = c.keys.iter().fold(0, |a, k| a | (1 << k));
    for (ei, env) in envs.iter().enumerate() {
        let tx = build_tx(env, 90_000);
        let signed = sign_all(w, c, &tx, EcdsaSighashType::All, TapSighashType::Default);
        // base spends: the library's satisfactions
        let mut bases: Vec<Spend> = Vec::new();
        let mut seen: BTreeSet<(Vec<Vec<u8>>, Vec<u8>)> = BTreeSet::new();
        let mut masks: Vec<(u32, u32)> = vec![(all_keys, (1 << N_PRE) - 1)];
        if ei < 2 {
            for _ in 0..3 {
                let mut m = 0u32;
                for &k in c.keys.iter() {
                    if rng.chance(2, 3) {
                        m |= 1 << k;
                    }
                }
                masks.push((m, if rng.chance(1, 2) { (1 << N_PRE) - 1 } else { rng.below(1 << N_PRE) as u32 }));
            }
        }
        for (km, pm) in masks {
            let mk_assets = || Assets {
                w,
                keymask: km,
                premask: pm,
                lock_time: if env.lock > 0 { Some(absolute::LockTime::from_consensus(env.lock)) } else { None },
                sequence: Some(Sequence(env.seq)),
                ecdsa: &signed.ecdsa,
                tapleaf: &signed.tapleaf,
                tapkey: signed.tapkey,
                internal_idx: c.internal,
                cbmap: cbmap.as_ref(),
            };
            for (mode, label) in [(0, "lib"), (1, "libmall"), (2, "libopt")] {
                let r = catch_unwind(AssertUnwindSafe(|| match mode {
                    0 => c.desc.get_satisfaction(&mk_assets()),
                    1 => c.desc.get_satisfaction_mall(&mk_assets()),
                    _ => c.desc.get_satisfaction(&Opt(mk_assets())),
                }));
                if let Ok(Ok((wit, ssig))) = r {
                    if seen.insert((wit.clone(), ssig.as_bytes().to_vec())) {
                        bases.push(Spend { mkind: "-".into(), base: label, wit, ssig: ssig.into_bytes() });
                    }
                }
            }
        }
        // mutation context: other signatures for this tx, the same keys over another tx, other sighash types
        let tx2 = build_tx(env, 80_000);
        let signed2 = sign_all(w, c, &tx2, EcdsaSighashType::All, TapSighashType::Default);
        let signed3 = sign_all(w, c, &tx, EcdsaSighashType::SinglePlusAnyoneCanPay, TapSighashType::NonePlusAnyoneCanPay);
        let mctx = MutCtx {
            w,
            tap,
            sigs: signed.all_sigs(),
            othertx: signed.map_to(&signed2),
            variant: signed.map_to(&signed3),
            keys: c.keys.iter().map(|&i| w.key_bytes(i, tap)).collect(),
        };
        for (bi, b) in bases.iter().enumerate() {
            *sid += 1;
            emit_spend(w, c, env, &tx, b, *sid, &policy, &mut dec_cache, out);
            // full mutation budget in the first two environments, a small one elsewhere
            let bud = if ei < 2 { budget } else { (budget / 6).max(2) };
            if bi < 2 && ei < 2 {
                // directed malformed stream for from_txdata (model: coq/Ms/InterpTxdataModel.v)
                for msp in crate::interp_ftx::ftx_mutants(b, c.kind) {
                    *sid += 1;
                    emit_spend(w, c, env, &tx, &msp, *sid, &policy, &mut dec_cache, out);
                }
            }
            if bi < 3 {
                for msp in mutants(b, c.kind, &mctx, rng, bud) {
                    *sid += 1;
                    emit_spend(w, c, env, &tx, &msp, *sid, &policy, &mut dec_cache, out);
                }
            }
        }
    }
    writeln!(out, "END").unwrap();
}

fn directed(w: &World) -> Vec<(String, bool)> {
    let k = |i: usize| format!("{}", w.key(i, false));
    let x = |i: usize| format!("{}", w.key(i, true));
    let h = |j: usize| format!("{}", w.sha256_img(j));
    let h160 = |j: usize| format!("{}", w.hash160_img(j));
    let mut v: Vec<(String, bool)> = Vec::new();
    let frags: Vec<String> = vec![
        format!("and_v(v:pk({}),after(10))", k(0)),
        format!("and_v(v:pk({}),older(5))", k(0)),
        format!("and_v(v:pk({}),older(4194309))", k(0)),
        format!("and_v(v:pk({}),after(500000010))", k(0)),
        format!("or_d(pk({}),and_v(v:pkh({}),older(5)))", k(0), k(1)),
        format!("multi(2,{},{},{})", k(0), k(1), k(2)),
        format!("thresh(2,pk({}),s:pk({}),s:pk({}))", k(0), k(1), k(2)),
        format!("andor(pk({}),older(10),pk({}))", k(0), k(1)),
        format!("and_v(or_c(pk({}),v:sha256({})),pk({}))", k(0), h(0), k(1)),
        format!("or_i(and_v(v:after(500000001),pk({})),pk({}))", k(0), k(1)),
        format!("and_b(pk({}),a:and_b(hash160({}),s:pk({})))", k(0), h160(1), k(1)),
        format!("or_b(pk({}),s:pk({}))", k(0), k(1)),
        format!("and_v(v:pk({}),or_d(pk({}),older(12960)))", k(0), k(1)),
        format!("thresh(2,pk({}),s:pk({}),sln:older(7))", k(0), k(1)),
        format!("and_v(v:multi(1,{},{}),after(100))", k(0), k(1)),
        format!("or_d(multi(1,{}),and_v(v:pk({}),after(100)))", k(0), k(1)),
        format!("or_i(pk({}),pk({}))", k(0), k(1)),
    ];
    for f in frags.iter() {
        v.push((format!("wsh({})", f), true));
    }
    for f in frags.iter().take(6) {
        v.push((format!("sh(wsh({}))", f), true));
        v.push((format!("sh({})", f), true));
    }
    v.push((format!("sh(multi(1,{},{}))", k(6), k(7)), true));
    // IF selectors under the base signature version (no MINIMALIF)
    v.push((format!("sh(or_i(pk({}),pk({})))", k(0), k(1)), true));
    v.push((format!("sh(and_b(pk({}),a:or_b(dv:older(7),s:pk({}))))", k(0), k(1)), true));
    v.push((format!("multi(1,{},{})", k(0), k(1)), true));
    v.push((format!("pk({})", k(0)), true));
    v.push((format!("pk({})", k(6)), true));
    v.push((format!("pkh({})", k(1)), true));
    v.push((format!("pkh({})", k(7)), true));
    v.push((format!("wpkh({})", k(2)), true));
    v.push((format!("sh(wpkh({}))", k(3)), true));
    v.push((format!("tr({})", x(5)), true));
    v.push((format!("tr({},and_v(v:pk({}),after(10)))", x(5), x(0)), true));
    v.push((format!("tr({},and_v(v:pk({}),older(5)))", x(5), x(0)), true));
    v.push((format!("tr({},{{multi_a(2,{},{},{}),and_v(v:pk({}),older(5))}})", x(5), x(0), x(1), x(2), x(3)), true));
    v.push((format!("tr({},and_v(v:multi_a(1,{},{}),pk({})))", x(5), x(0), x(1), x(2)), true));
    v.push((format!("tr({},and_v(v:pkh({}),sha256({})))", x(5), x(0), h(2)), true));
    v.push((format!("tr({},thresh(2,pk({}),s:pk({}),sdv:after(9)))", x(5), x(0), x(1)), true));
    // insane on purpose (no signature): what inner.rs does with the script element `01`
    v.push(("wsh(1)".into(), false));
    v.push(("sh(1)".into(), false));
    v
}

pub fn run(args: &[String]) {
    let seed: u64 = args.first().and_then(|s| s.parse().ok()).unwrap_or(1);
    let n: u64 = args.get(1).and_then(|s| s.parse().ok()).unwrap_or(60);
    let budget: usize = args.get(2).and_then(|s| s.parse().ok()).unwrap_or(24);
    let w = World::new();
    let mut out = String::new();
    for i in 0..N_KEYS {
        let kb = w.key_bytes(i, false);
        let xb = w.key_bytes(i, true);
        writeln!(
            out,
            "KEY {} {} {} {} {} {}",
            i,
            hex(&kb),
            hex(hash160::Hash::hash(&kb).as_byte_array()),
            hex(&xb),
            hex(hash160::Hash::hash(&xb).as_byte_array()),
            hex(&w.pks[i].inner.serialize())
        )
        .unwrap();
    }
    let zero32 = [0u8; 32];
    for (j, p) in w.preimages.iter().chain(std::iter::once(&zero32)).enumerate() {
        writeln!(
            out,
            "PRE {} {} {} {} {} {}",
            j,
            hex(p),
            hex(sha256::Hash::hash(p).as_byte_array()),
            hex(hash256::Hash::hash(p).as_byte_array()),
            hex(ripemd160::Hash::hash(p).as_byte_array()),
            hex(hash160::Hash::hash(p).as_byte_array())
        )
        .unwrap();
    }
    print!("{}", out);
    let mut rng = Rng(seed ^ 0xC13C13);
    let mut id = 0u64;
    let mut sid = 0u64;
    // directed templates first
    for (ds, sane) in directed(&w) {
        let desc = if sane {
            Descriptor::<Key>::from_str(&ds).ok()
        } else {
            // insane descriptors are built from the AST
            match ds.as_str() {
                "wsh(1)" => Miniscript::<Key, Segwitv0>::from_ast(Terminal::True).ok().and_then(|m| Descriptor::new_wsh(m).ok()),
                "sh(1)" => Miniscript::<Key, Legacy>::from_ast(Terminal::True).ok().and_then(|m| Descriptor::new_sh(m).ok()),
                _ => None,
            }
        };
        let desc = match desc {
            Some(d) => d,
            None => {
                eprintln!("directed descriptor rejected: {}", ds);
                continue;
            }
        };
        if let Some((case, ok)) = case_from_desc(&w, desc) {
            let sane_d = sane && ok;
            id += 1;
            let mut s = String::new();
            run_case(&w, &case, id, sane_d, &mut rng, budget, &mut sid, &mut s);
            if !sane {
                directed_script_elem(&w, &case, id, &mut sid, &mut s);
            }
            print!("{}", s);
        }
    }
    for cidx in 0..n {
        let cseed = seed.wrapping_mul(1_000_003).wrapping_add(cidx).wrapping_add(0x1313);
        let depth = 1 + (cidx % 4) as u32;
        let sane = cidx % 5 != 4;
        let case = match catch_unwind(AssertUnwindSafe(|| make_case(&w, cseed, cidx, depth, sane))) {
            Ok(Some(x)) => x,
            Ok(None) => continue,
            Err(_) => {
                println!("PANIC make_case seed={} c={}", cseed, cidx);
                continue;
            }
        };
        // bare scripts that are p2pk / p2pkh shaped are dispatched as key-only outputs by inner.rs
        let (case, ok) = match case_from_desc(&w, case.desc.clone()) {
            Some(c2) => c2,
            None => (case, false),
        };
        let sane_d = sane && ok;
        id += 1;
        let mut s = String::new();
        run_case(&w, &case, id, sane_d, &mut rng, budget, &mut sid, &mut s);
        print!("{}", s);
    }
}

/// wsh(1) / sh(1): the script element given as the byte string `01` (witness) resp. OP_1 (scriptSig);
/// inner.rs maps that element to the miniscript `1` whose encoding is OP_1 (0x51)
fn directed_script_elem(w: &World, c: &Case, id: u64, sid: &mut u64, out: &mut String) {
    // re-open the case block: emitted as a separate case with the same descriptor
    let env = Env { txv: 2, lock: 0, seq: 0xffff_ffff };
    let tx = build_tx(&env, 90_000);
    let sp = match c.kind {
        "wsh" => Spend { mkind: "script-elem-01".into(), base: "mut", wit: vec![vec![1u8]], ssig: vec![] },
        "sh" => Spend { mkind: "script-elem-01".into(), base: "mut", wit: vec![], ssig: vec![0x51] },
        _ => return,
    };
    // strip the END of the previous block and append the spend to it
    if out.ends_with("END\n") {
        let l = out.len();
        out.truncate(l - 4);
    }
    *sid += 1;
    let policy = c.desc.lift().ok();
    let mut dc = BTreeMap::new();
    emit_spend(w, c, &env, &tx, &sp, *sid, &policy, &mut dc, out);
    writeln!(out, "END").unwrap();
    let _ = id;
}

