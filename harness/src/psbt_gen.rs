//! Case construction for the `psbt` engine: keys, descriptors of every output type, previous
//! transactions, the spending transaction, and REAL signatures (good and deliberately wrong)
//! computed with `bitcoin::sighash::SighashCache` + `secp256k1` directly.
use super::util::{hex, Rng};
use bitcoin::bip32::{ChildNumber, DerivationPath, Fingerprint, Xpriv, Xpub};
use bitcoin::hashes::{hash160, ripemd160, sha256, sha256d, Hash};
use bitcoin::key::{Keypair, TapTweak, XOnlyPublicKey};
use bitcoin::secp256k1::{self, All, Message, Secp256k1, SecretKey};
use bitcoin::sighash::{EcdsaSighashType, Prevouts, SighashCache, TapSighashType};
use bitcoin::taproot::{ControlBlock, LeafVersion, TapLeafHash, TaprootBuilder, TaprootSpendInfo};
use bitcoin::{
    absolute, transaction, Amount, Network, OutPoint, Psbt, ScriptBuf, Sequence, Transaction, TxIn,
    TxOut, Witness,
};
use miniscript::{DefiniteDescriptorKey, Descriptor, Legacy, Miniscript, Segwitv0, Tap};
use std::str::FromStr;

pub struct KeyInfo {
    pub sk: SecretKey,
    pub pk: secp256k1::PublicKey,
    pub desc: String,
    pub fp: Fingerprint,
    pub path: DerivationPath,
    /// the same key written with OTHER origin information (same derived key, same scripts)
    pub alt_desc: String,
    pub alt_fp: Fingerprint,
    pub alt_path: DerivationPath,
}

impl KeyInfo {
    pub fn full(&self) -> bitcoin::PublicKey { bitcoin::PublicKey::new(self.pk) }
    pub fn xonly(&self) -> XOnlyPublicKey { self.pk.x_only_public_key().0 }
}

pub struct Pool {
    pub secp: Secp256k1<All>,
    pub keys: Vec<KeyInfo>,
    /// one preimage per hash kind (0 sha256, 1 hash160, 2 ripemd160, 3 hash256) and a wrong one
    pub preimages: [[u8; 32]; 4],
    pub wrong_preimage: [u8; 32],
}

pub const HASH_NAMES: [&str; 4] = ["sha256", "hash160", "ripemd160", "hash256"];

pub fn hash_of(kind: usize, pre: &[u8]) -> Vec<u8> {
    match kind {
        0 => sha256::Hash::hash(pre).to_byte_array().to_vec(),
        1 => hash160::Hash::hash(pre).to_byte_array().to_vec(),
        2 => ripemd160::Hash::hash(pre).to_byte_array().to_vec(),
        _ => sha256d::Hash::hash(pre).to_byte_array().to_vec(),
    }
}

pub fn make_pool(rng: &mut Rng, n: usize) -> Pool {
    let secp = Secp256k1::new();
    let master = Xpriv::new_master(Network::Bitcoin, &rng.bytes32()).expect("master");
    let mfp = master.fingerprint(&secp);
    let mut keys = Vec::new();
    for j in 0..n {
        let origin: DerivationPath = vec![
            ChildNumber::from_hardened_idx(86).unwrap(),
            ChildNumber::from_hardened_idx(1).unwrap(),
            ChildNumber::from_hardened_idx(j as u32).unwrap(),
        ]
        .into();
        let acct = master.derive_priv(&secp, &origin).expect("derive");
        let xpub = Xpub::from_priv(&secp, &acct);
        let c = (rng.below(50)) as u32;
        let tail: DerivationPath =
            vec![ChildNumber::from_normal_idx(0).unwrap(), ChildNumber::from_normal_idx(c).unwrap()].into();
        let child = acct.derive_priv(&secp, &tail).expect("derive");
        let sk = child.private_key;
        let pk = secp256k1::PublicKey::from_secret_key(&secp, &sk);
        if j % 4 == 3 {
            // a raw key without origin information
            let ser = pk.serialize();
            let h = hash160::Hash::hash(&ser).to_byte_array();
            let fp = Fingerprint::from([h[0], h[1], h[2], h[3]]);
            let alt_path: DerivationPath = vec![ChildNumber::from_normal_idx(1).unwrap(), ChildNumber::from_normal_idx(2).unwrap()].into();
            keys.push(KeyInfo {
                sk,
                pk,
                desc: hex(&ser),
                fp,
                path: DerivationPath::master(),
                alt_desc: format!("[deadbeef/1/2]{}", hex(&ser)),
                alt_fp: Fingerprint::from([0xde, 0xad, 0xbe, 0xef]),
                alt_path,
            });
        } else {
            let mut full: Vec<ChildNumber> = origin.clone().into();
            full.extend(Vec::<ChildNumber>::from(tail.clone()));
            keys.push(KeyInfo {
                sk,
                pk,
                desc: format!("[{}/86'/1'/{}']{}/0/{}", mfp, j, xpub, c),
                fp: mfp,
                path: full.into(),
                // the xpub one level deeper, without origin: fingerprint of that xpub, path `c`
                alt_desc: {
                    let x0 = Xpub::from_priv(&secp, &acct.derive_priv(&secp, &[ChildNumber::from_normal_idx(0).unwrap()]).expect("derive"));
                    format!("{}/{}", x0, c)
                },
                alt_fp: Xpub::from_priv(&secp, &acct.derive_priv(&secp, &[ChildNumber::from_normal_idx(0).unwrap()]).expect("derive")).fingerprint(),
                alt_path: vec![ChildNumber::from_normal_idx(c).unwrap()].into(),
            });
        }
    }
    let preimages = [rng.bytes32(), rng.bytes32(), rng.bytes32(), rng.bytes32()];
    let wrong_preimage = rng.bytes32();
    Pool { secp, keys, preimages, wrong_preimage }
}

/// Spending condition in the harness' own vocabulary (judged without any script engine).
#[derive(Clone, Debug)]
pub enum Pol {
    Key(usize),
    Older(u32),
    After(u32),
    Hash(usize),
    And(Vec<Pol>),
    Or(Vec<Pol>),
    Thresh(usize, Vec<Pol>),
}

#[derive(Clone, Copy, Debug, PartialEq, Eq)]
pub enum Outer {
    Pkh,
    Wpkh,
    ShWpkh,
    Wsh,
    ShWsh,
    Sh,
    BarePk,
    Tr,
}

impl Outer {
    pub fn name(&self) -> &'static str {
        match self {
            Outer::Pkh => "pkh",
            Outer::Wpkh => "wpkh",
            Outer::ShWpkh => "sh-wpkh",
            Outer::Wsh => "wsh",
            Outer::ShWsh => "sh-wsh",
            Outer::Sh => "sh",
            Outer::BarePk => "bare-pk",
            Outer::Tr => "tr",
        }
    }
    pub fn is_segwit(&self) -> bool { !matches!(self, Outer::Pkh | Outer::Sh | Outer::BarePk) }
}

pub const N_MS_TEMPLATES: usize = 14;
pub const N_LEAF_TEMPLATES: usize = 6;

/// Miniscript templates for P2WSH / P2SH contexts; `k(i)` prints the i-th key of the instance.
fn ms_template(t: usize, k: &dyn Fn(usize) -> String, older: u32, after: u32, hx: &[String; 4]) -> (String, Pol, usize) {
    match t {
        0 => (format!("pk({})", k(0)), Pol::Key(0), 1),
        1 => (
            format!("multi(2,{},{},{})", k(0), k(1), k(2)),
            Pol::Thresh(2, vec![Pol::Key(0), Pol::Key(1), Pol::Key(2)]),
            3,
        ),
        2 => (format!("and_v(v:pk({}),older({}))", k(0), older), Pol::And(vec![Pol::Key(0), Pol::Older(older)]), 1),
        3 => (format!("and_v(v:pk({}),after({}))", k(0), after), Pol::And(vec![Pol::Key(0), Pol::After(after)]), 1),
        4 => (
            format!("or_d(pk({}),and_v(v:pk({}),older({})))", k(0), k(1), older),
            Pol::Or(vec![Pol::Key(0), Pol::And(vec![Pol::Key(1), Pol::Older(older)])]),
            2,
        ),
        5 | 6 | 7 | 8 => {
            let kind = t - 5;
            (
                format!("and_v(v:pk({}),{}({}))", k(0), HASH_NAMES[kind], hx[kind]),
                Pol::And(vec![Pol::Key(0), Pol::Hash(kind)]),
                1,
            )
        }
        9 => (format!("and_v(v:pkh({}),pk({}))", k(0), k(1)), Pol::And(vec![Pol::Key(0), Pol::Key(1)]), 2),
        10 => (
            format!("thresh(2,pk({}),s:pk({}),sln:older({}))", k(0), k(1), older),
            Pol::Thresh(2, vec![Pol::Key(0), Pol::Key(1), Pol::Older(older)]),
            2,
        ),
        11 => (
            format!("or_d(multi(1,{},{}),and_v(v:pk({}),after({})))", k(0), k(1), k(2), after),
            Pol::Or(vec![
                Pol::Thresh(1, vec![Pol::Key(0), Pol::Key(1)]),
                Pol::And(vec![Pol::Key(2), Pol::After(after)]),
            ]),
            3,
        ),
        12 => (
            format!("or_d(pk({}),and_v(v:pkh({}),older({})))", k(0), k(1), older),
            Pol::Or(vec![Pol::Key(0), Pol::And(vec![Pol::Key(1), Pol::Older(older)])]),
            2,
        ),
        _ => (format!("pkh({})", k(0)), Pol::Key(0), 1),
    }
}

/// templates usable under P2SH (no or_i / d: wrappers)
pub const LEGACY_TEMPLATES: [usize; 7] = [0, 1, 2, 3, 4, 9, 12];

fn leaf_template(t: usize, k: &dyn Fn(usize) -> String, older: u32, after: u32, hx: &[String; 4]) -> (String, Pol, usize) {
    match t {
        0 => (format!("pk({})", k(0)), Pol::Key(0), 1),
        1 => (format!("and_v(v:pk({}),older({}))", k(0), older), Pol::And(vec![Pol::Key(0), Pol::Older(older)]), 1),
        2 => (
            format!("multi_a(2,{},{},{})", k(0), k(1), k(2)),
            Pol::Thresh(2, vec![Pol::Key(0), Pol::Key(1), Pol::Key(2)]),
            3,
        ),
        3 => (format!("and_v(v:pk({}),sha256({}))", k(0), hx[0]), Pol::And(vec![Pol::Key(0), Pol::Hash(0)]), 1),
        4 => (format!("and_v(v:pk({}),after({}))", k(0), after), Pol::And(vec![Pol::Key(0), Pol::After(after)]), 1),
        _ => (format!("and_v(v:pkh({}),pk({}))", k(0), k(1)), Pol::And(vec![Pol::Key(0), Pol::Key(1)]), 2),
    }
}

fn remap(p: &Pol, lk: &[usize]) -> Pol {
    match p {
        Pol::Key(i) => Pol::Key(lk[*i]),
        Pol::And(v) => Pol::And(v.iter().map(|x| remap(x, lk)).collect()),
        Pol::Or(v) => Pol::Or(v.iter().map(|x| remap(x, lk)).collect()),
        Pol::Thresh(k, v) => Pol::Thresh(*k, v.iter().map(|x| remap(x, lk)).collect()),
        other => other.clone(),
    }
}

#[derive(Clone)]
pub struct LeafMat {
    #[allow(dead_code)]
    pub depth: u8,
    pub script: ScriptBuf,
    pub leaf_hash: TapLeafHash,
    #[allow(dead_code)]
    pub control_block: ControlBlock,
    pub pol: Pol,
    /// indices (into InputMat.keys) of the keys of this leaf
    pub keys: Vec<usize>,
}

#[derive(Clone)]
pub struct TapMat {
    pub internal: XOnlyPublicKey,
    pub spend_info: TaprootSpendInfo,
    pub leaves: Vec<LeafMat>,
}

/// Everything about one input: its descriptor, the output it spends, the scripts as the harness
/// computes them, signatures and preimages that can be added.
#[derive(Clone)]
pub struct InputMat {
    pub outer: Outer,
    pub template: String,
    pub desc_str: String,
    pub desc: Descriptor<DefiniteDescriptorKey>,
    /// a descriptor of the SAME output that states other key origins
    pub alt_desc: Descriptor<DefiniteDescriptorKey>,
    pub alt_desc_str: String,
    /// pool indices of the keys of this instance (instance key i = pool key keys[i])
    pub keys: Vec<usize>,
    pub pol: Pol,
    pub spk: ScriptBuf,
    pub value: Amount,
    pub prev_tx: Transaction,
    pub vout: u32,
    pub sequence: Sequence,
    pub witness_script: Option<ScriptBuf>,
    pub redeem_script: Option<ScriptBuf>,
    pub tap: Option<TapMat>,
    pub uses_hash: Vec<usize>,
    // filled by `sign_all`
    pub ecdsa_msg: Option<Message>,
    pub ecdsa_sigs: Vec<(usize, bitcoin::ecdsa::Signature, bitcoin::ecdsa::Signature)>,
    pub tap_key_msg: Option<Message>,
    pub tap_key_sig: Option<(bitcoin::taproot::Signature, bitcoin::taproot::Signature)>,
    pub tap_leaf_msgs: Vec<Message>,
    /// (instance key, leaf index, good, bad)
    pub tap_script_sigs: Vec<(usize, usize, bitcoin::taproot::Signature, bitcoin::taproot::Signature)>,
}

fn p2sh_of(script: &ScriptBuf) -> ScriptBuf {
    let h = hash160::Hash::hash(script.as_bytes()).to_byte_array();
    let mut v = vec![0xa9, 0x14];
    v.extend_from_slice(&h);
    v.push(0x87);
    ScriptBuf::from_bytes(v)
}
fn p2wsh_of(script: &ScriptBuf) -> ScriptBuf {
    let h = sha256::Hash::hash(script.as_bytes()).to_byte_array();
    let mut v = vec![0x00, 0x20];
    v.extend_from_slice(&h);
    ScriptBuf::from_bytes(v)
}
fn p2wpkh_of(pk: &secp256k1::PublicKey) -> ScriptBuf {
    let h = hash160::Hash::hash(&pk.serialize()).to_byte_array();
    let mut v = vec![0x00, 0x14];
    v.extend_from_slice(&h);
    ScriptBuf::from_bytes(v)
}
fn p2pkh_of(pk: &secp256k1::PublicKey) -> ScriptBuf {
    let h = hash160::Hash::hash(&pk.serialize()).to_byte_array();
    let mut v = vec![0x76, 0xa9, 0x14];
    v.extend_from_slice(&h);
    v.extend_from_slice(&[0x88, 0xac]);
    ScriptBuf::from_bytes(v)
}
fn p2pk_of(pk: &secp256k1::PublicKey) -> ScriptBuf {
    let mut v = vec![0x21];
    v.extend_from_slice(&pk.serialize());
    v.push(0xac);
    ScriptBuf::from_bytes(v)
}
fn p2tr_of(out: &XOnlyPublicKey) -> ScriptBuf {
    let mut v = vec![0x51, 0x20];
    v.extend_from_slice(&out.serialize());
    ScriptBuf::from_bytes(v)
}

pub struct Choice {
    pub outer: Outer,
    pub template: usize,
    pub leaf_templates: Vec<usize>,
    pub older: u32,
    pub after: u32,
}

pub const OUTERS: [Outer; 8] =
    [Outer::Pkh, Outer::Wpkh, Outer::ShWpkh, Outer::Wsh, Outer::ShWsh, Outer::Sh, Outer::BarePk, Outer::Tr];

pub fn random_choice(rng: &mut Rng) -> Choice {
    // weights favour the miniscript-carrying output types
    let outer = match rng.below(16) {
        0 => Outer::Pkh,
        1 => Outer::Wpkh,
        2 => Outer::ShWpkh,
        3 | 4 | 5 | 6 | 7 => Outer::Wsh,
        8 | 9 => Outer::ShWsh,
        10 | 11 => Outer::Sh,
        12 => Outer::BarePk,
        _ => Outer::Tr,
    };
    let template = match outer {
        Outer::Sh => LEGACY_TEMPLATES[rng.below(LEGACY_TEMPLATES.len())],
        _ => rng.below(N_MS_TEMPLATES),
    };
    let nleaves = rng.below(4);
    let leaf_templates = (0..nleaves).map(|_| rng.below(N_LEAF_TEMPLATES)).collect();
    let older = [5u32, 10][rng.below(2)];
    let after = [500u32, 700][rng.below(2)];
    Choice { outer, template, leaf_templates, older, after }
}

pub const TX_LOCKTIME: u32 = 600;

/// Build one input's descriptor and scripts.  `next_key` hands out distinct pool indices.
pub fn make_input(pool: &Pool, rng: &mut Rng, ch: &Choice, next_key: &mut dyn FnMut() -> usize) -> Result<InputMat, String> {
    let hx: [String; 4] = [
        hex(&hash_of(0, &pool.preimages[0])),
        hex(&hash_of(1, &pool.preimages[1])),
        hex(&hash_of(2, &pool.preimages[2])),
        hex(&hash_of(3, &pool.preimages[3])),
    ];
    let mut keys: Vec<usize> = Vec::new();
    let mut witness_script = None;
    let mut redeem_script = None;
    let mut tap = None;
    let pol;
    let desc_str;
    let spk;
    let template;
    let mut uses_hash = Vec::new();
    fn collect_hash(p: &Pol, out: &mut Vec<usize>) {
        match p {
            Pol::Hash(k) => out.push(*k),
            Pol::And(v) | Pol::Or(v) | Pol::Thresh(_, v) => v.iter().for_each(|x| collect_hash(x, out)),
            _ => {}
        }
    }
    match ch.outer {
        Outer::Pkh | Outer::Wpkh | Outer::ShWpkh | Outer::BarePk => {
            keys.push(next_key());
            let ki = &pool.keys[keys[0]];
            pol = Pol::Key(0);
            match ch.outer {
                Outer::Pkh => {
                    desc_str = format!("pkh({})", ki.desc);
                    spk = p2pkh_of(&ki.pk);
                    template = "pkh(A)".to_string();
                }
                Outer::Wpkh => {
                    desc_str = format!("wpkh({})", ki.desc);
                    spk = p2wpkh_of(&ki.pk);
                    template = "wpkh(A)".to_string();
                }
                Outer::ShWpkh => {
                    desc_str = format!("sh(wpkh({}))", ki.desc);
                    let r = p2wpkh_of(&ki.pk);
                    spk = p2sh_of(&r);
                    redeem_script = Some(r);
                    template = "sh(wpkh(A))".to_string();
                }
                _ => {
                    desc_str = format!("pk({})", ki.desc);
                    spk = p2pk_of(&ki.pk);
                    template = "pk(A)".to_string();
                }
            }
        }
        Outer::Wsh | Outer::ShWsh | Outer::Sh => {
            let (_, _, nk) = ms_template(ch.template, &|_| String::new(), ch.older, ch.after, &hx);
            for _ in 0..nk {
                keys.push(next_key());
            }
            let (ms_desc, p, _) = ms_template(ch.template, &|i| pool.keys[keys[i]].desc.clone(), ch.older, ch.after, &hx);
            let (ms_conc, _, _) =
                ms_template(ch.template, &|i| hex(&pool.keys[keys[i]].pk.serialize()), ch.older, ch.after, &hx);
            let (ms_abs, _, _) =
                ms_template(ch.template, &|i| ["A", "B", "C", "D"][i].to_string(), ch.older, ch.after, &["H".into(), "H".into(), "H".into(), "H".into()]);
            pol = p;
            let script = if ch.outer == Outer::Sh {
                Miniscript::<bitcoin::PublicKey, Legacy>::from_str(&ms_conc).map_err(|e| format!("{}: {}", ms_conc, e))?.encode()
            } else {
                Miniscript::<bitcoin::PublicKey, Segwitv0>::from_str(&ms_conc).map_err(|e| format!("{}: {}", ms_conc, e))?.encode()
            };
            match ch.outer {
                Outer::Wsh => {
                    desc_str = format!("wsh({})", ms_desc);
                    spk = p2wsh_of(&script);
                    witness_script = Some(script);
                    template = format!("wsh({})", ms_abs);
                }
                Outer::ShWsh => {
                    desc_str = format!("sh(wsh({}))", ms_desc);
                    let r = p2wsh_of(&script);
                    spk = p2sh_of(&r);
                    redeem_script = Some(r);
                    witness_script = Some(script);
                    template = format!("sh(wsh({}))", ms_abs);
                }
                _ => {
                    desc_str = format!("sh({})", ms_desc);
                    spk = p2sh_of(&script);
                    redeem_script = Some(script);
                    template = format!("sh({})", ms_abs);
                }
            }
        }
        Outer::Tr => {
            keys.push(next_key());
            let n = ch.leaf_templates.len();
            let depths: Vec<u8> = match n {
                0 => vec![],
                1 => vec![0],
                2 => vec![1, 1],
                _ => vec![1, 2, 2],
            };
            let mut leaves_desc = Vec::new();
            let mut leaves_abs = Vec::new();
            let mut leaf_data = Vec::new();
            let mut pols = vec![Pol::Key(0)];
            let mut prev_first: Option<usize> = None;
            for (li, lt) in ch.leaf_templates.iter().enumerate() {
                let (_, _, nk) = leaf_template(*lt, &|_| String::new(), ch.older, ch.after, &hx);
                // instance-key indices of this leaf; sometimes its first key is the first key of
                // the previous leaf (one key in several leaves)
                let mut lk: Vec<usize> = Vec::new();
                for n in 0..nk {
                    if n == 0 && prev_first.is_some() && rng.chance(1, 3) {
                        lk.push(prev_first.unwrap());
                    } else {
                        lk.push(keys.len());
                        keys.push(next_key());
                    }
                }
                prev_first = Some(lk[0]);
                let (ld, p, _) = leaf_template(*lt, &|i| pool.keys[keys[lk[i]]].desc.clone(), ch.older, ch.after, &hx);
                let (lc, _, _) =
                    leaf_template(*lt, &|i| hex(&pool.keys[keys[lk[i]]].xonly().serialize()), ch.older, ch.after, &hx);
                let names = ["A", "B", "C", "D", "E", "F", "G", "H", "I", "J", "K"];
                let (la, _, _) = leaf_template(*lt, &|i| names[lk[i] % 11].to_string(), ch.older, ch.after, &["H".into(), "H".into(), "H".into(), "H".into()]);
                let script = Miniscript::<XOnlyPublicKey, Tap>::from_str(&lc).map_err(|e| format!("{}: {}", lc, e))?.encode();
                let p = remap(&p, &lk);
                pols.push(p.clone());
                leaves_desc.push(ld);
                leaves_abs.push(la);
                leaf_data.push((depths[li], script, p, lk));
            }
            let tree = |v: &Vec<String>| -> String {
                match v.len() {
                    0 => String::new(),
                    1 => format!(",{}", v[0]),
                    2 => format!(",{{{},{}}}", v[0], v[1]),
                    _ => format!(",{{{},{{{},{}}}}}", v[0], v[1], v[2]),
                }
            };
            desc_str = format!("tr({}{})", pool.keys[keys[0]].desc, tree(&leaves_desc));
            template = format!("tr(A{})", tree(&leaves_abs));
            let internal = pool.keys[keys[0]].xonly();
            let mut b = TaprootBuilder::new();
            for (d, s, _, _) in &leaf_data {
                b = b.add_leaf(*d, s.clone()).map_err(|e| format!("taproot builder: {:?}", e))?;
            }
            let info = b.finalize(&pool.secp, internal).map_err(|_| "taproot finalize".to_string())?;
            spk = p2tr_of(&info.output_key().to_x_only_public_key());
            let mut leaves = Vec::new();
            for (d, s, p, ks) in leaf_data {
                let cb = info
                    .control_block(&(s.clone(), LeafVersion::TapScript))
                    .ok_or_else(|| "no control block".to_string())?;
                leaves.push(LeafMat {
                    depth: d,
                    leaf_hash: TapLeafHash::from_script(&s, LeafVersion::TapScript),
                    script: s,
                    control_block: cb,
                    pol: p,
                    keys: ks,
                });
            }
            tap = Some(TapMat { internal, spend_info: info, leaves });
            pol = Pol::Or(pols);
        }
    }
    collect_hash(&pol, &mut uses_hash);
    let desc = Descriptor::<DefiniteDescriptorKey>::from_str(&desc_str).map_err(|e| format!("{}: {}", desc_str, e))?;
    let alt_desc_str = keys.iter().fold(desc_str.clone(), |acc, k| acc.replace(&pool.keys[*k].desc, &pool.keys[*k].alt_desc));
    let alt_desc = Descriptor::<DefiniteDescriptorKey>::from_str(&alt_desc_str).map_err(|e| format!("{}: {}", alt_desc_str, e))?;
    // the previous transaction: the spent output sits at a random position
    let vout = rng.below(2) as u32;
    let value = Amount::from_sat(50_000 + (rng.below(1000) as u64));
    let filler = TxOut { value: Amount::from_sat(1234), script_pubkey: ScriptBuf::from_bytes(vec![0x51]) };
    let spent = TxOut { value, script_pubkey: spk.clone() };
    let prev_tx = Transaction {
        version: transaction::Version::ONE,
        lock_time: absolute::LockTime::ZERO,
        input: vec![TxIn {
            previous_output: OutPoint { txid: bitcoin::Txid::from_byte_array(rng.bytes32()), vout: 0 },
            script_sig: ScriptBuf::new(),
            sequence: Sequence::MAX,
            witness: Witness::new(),
        }],
        output: if vout == 0 { vec![spent, filler] } else { vec![filler, spent] },
    };
    // sequence: mostly satisfying the relative lock, sometimes not
    let sequence = match rng.below(8) {
        0 => Sequence::MAX,
        1 => Sequence(ch.older - 1),
        2 => Sequence(0xffff_fffd),
        3 => Sequence(ch.older + 3),
        _ => Sequence(ch.older),
    };
    Ok(InputMat {
        outer: ch.outer,
        template,
        desc_str,
        desc,
        alt_desc,
        alt_desc_str,
        keys,
        pol,
        spk,
        value,
        prev_tx,
        vout,
        sequence,
        witness_script,
        redeem_script,
        tap,
        uses_hash,
        ecdsa_msg: None,
        ecdsa_sigs: vec![],
        tap_key_msg: None,
        tap_key_sig: None,
        tap_leaf_msgs: vec![],
        tap_script_sigs: vec![],
    })
}

#[derive(Clone)]
pub struct Case {
    pub tx: Transaction,
    pub inputs: Vec<InputMat>,
    pub utxo_mode: Vec<u8>, // 0 = witness_utxo only, 1 = non_witness_utxo only, 2 = both
    pub out_desc: Option<(Descriptor<DefiniteDescriptorKey>, usize)>,
}

fn flip(msg: &Message) -> Message {
    let mut b = *msg.as_ref();
    b[31] ^= 1;
    Message::from_digest(b)
}

/// Compute the real sighash of every input for every way it can be signed, and sign.
pub fn sign_all(pool: &Pool, case: &mut Case) -> Result<(), String> {
    let secp = &pool.secp;
    let prevouts: Vec<TxOut> =
        case.inputs.iter().map(|m| TxOut { value: m.value, script_pubkey: m.spk.clone() }).collect();
    let tx = case.tx.clone();
    let mut cache = SighashCache::new(&tx);
    for (idx, m) in case.inputs.iter_mut().enumerate() {
        m.ecdsa_sigs.clear();
        m.tap_leaf_msgs.clear();
        m.tap_script_sigs.clear();
        let all = EcdsaSighashType::All;
        let ecdsa_msg: Option<Message> = match m.outer {
            Outer::Pkh | Outer::BarePk => Some(Message::from_digest(
                cache.legacy_signature_hash(idx, &m.spk, all.to_u32()).map_err(|e| e.to_string())?.to_byte_array(),
            )),
            Outer::Sh => Some(Message::from_digest(
                cache
                    .legacy_signature_hash(idx, m.redeem_script.as_ref().unwrap(), all.to_u32())
                    .map_err(|e| e.to_string())?
                    .to_byte_array(),
            )),
            Outer::Wpkh => Some(Message::from_digest(
                cache.p2wpkh_signature_hash(idx, &m.spk, m.value, all).map_err(|e| e.to_string())?.to_byte_array(),
            )),
            Outer::ShWpkh => Some(Message::from_digest(
                cache
                    .p2wpkh_signature_hash(idx, m.redeem_script.as_ref().unwrap(), m.value, all)
                    .map_err(|e| e.to_string())?
                    .to_byte_array(),
            )),
            Outer::Wsh | Outer::ShWsh => Some(Message::from_digest(
                cache
                    .p2wsh_signature_hash(idx, m.witness_script.as_ref().unwrap(), m.value, all)
                    .map_err(|e| e.to_string())?
                    .to_byte_array(),
            )),
            Outer::Tr => None,
        };
        m.ecdsa_msg = ecdsa_msg;
        if let Some(msg) = ecdsa_msg {
            for (i, pk) in m.keys.iter().enumerate() {
                let sk = &pool.keys[*pk].sk;
                let good = bitcoin::ecdsa::Signature { signature: secp.sign_ecdsa(&msg, sk), sighash_type: all };
                let bad = bitcoin::ecdsa::Signature { signature: secp.sign_ecdsa(&flip(&msg), sk), sighash_type: all };
                m.ecdsa_sigs.push((i, good, bad));
            }
        }
        if let Some(tap) = &m.tap {
            let pv = Prevouts::All(&prevouts);
            let kmsg = Message::from_digest(
                cache
                    .taproot_key_spend_signature_hash(idx, &pv, TapSighashType::Default)
                    .map_err(|e| e.to_string())?
                    .to_byte_array(),
            );
            m.tap_key_msg = Some(kmsg);
            let kp = Keypair::from_secret_key(secp, &pool.keys[m.keys[0]].sk);
            let tweaked = kp.tap_tweak(secp, tap.spend_info.merkle_root()).to_keypair();
            let good = bitcoin::taproot::Signature {
                signature: secp.sign_schnorr_no_aux_rand(&kmsg, &tweaked),
                sighash_type: TapSighashType::Default,
            };
            let bad = bitcoin::taproot::Signature {
                signature: secp.sign_schnorr_no_aux_rand(&flip(&kmsg), &tweaked),
                sighash_type: TapSighashType::Default,
            };
            m.tap_key_sig = Some((good, bad));
            for (li, leaf) in tap.leaves.iter().enumerate() {
                let lmsg = Message::from_digest(
                    cache
                        .taproot_script_spend_signature_hash(idx, &pv, leaf.leaf_hash, TapSighashType::Default)
                        .map_err(|e| e.to_string())?
                        .to_byte_array(),
                );
                m.tap_leaf_msgs.push(lmsg);
                for ki in &leaf.keys {
                    let kp = Keypair::from_secret_key(secp, &pool.keys[m.keys[*ki]].sk);
                    let good = bitcoin::taproot::Signature {
                        signature: secp.sign_schnorr_no_aux_rand(&lmsg, &kp),
                        sighash_type: TapSighashType::Default,
                    };
                    let bad = bitcoin::taproot::Signature {
                        signature: secp.sign_schnorr_no_aux_rand(&flip(&lmsg), &kp),
                        sighash_type: TapSighashType::Default,
                    };
                    m.tap_script_sigs.push((*ki, li, good, bad));
                }
            }
        }
    }
    Ok(())
}

/// A multi-input case: 2-4 inputs over distinct keys, one or two outputs.
pub fn make_case(pool: &Pool, rng: &mut Rng, forced: Option<Outer>) -> Result<Case, String> {
    let n = 2 + rng.below(3);
    let mut used = 0usize;
    let mut inputs = Vec::new();
    for j in 0..n {
        let mut ch = random_choice(rng);
        if j == 0 {
            if let Some(o) = forced {
                ch.outer = o;
                if o == Outer::Sh {
                    ch.template = LEGACY_TEMPLATES[ch.template % LEGACY_TEMPLATES.len()];
                }
                if o == Outer::Tr && ch.leaf_templates.is_empty() && rng.chance(1, 2) {
                    ch.leaf_templates = vec![rng.below(N_LEAF_TEMPLATES)];
                }
            }
        }
        let mut next = || {
            let k = used % pool.keys.len();
            used += 1;
            k
        };
        inputs.push(make_input(pool, rng, &ch, &mut next)?);
    }
    if used > pool.keys.len() {
        return Err("key pool exhausted".into());
    }
    let utxo_mode: Vec<u8> = inputs
        .iter()
        .map(|m| if m.outer.is_segwit() { if rng.chance(1, 4) { 2 } else { 0 } } else if rng.chance(1, 4) { 2 } else { 1 })
        .collect();
    // an output paying to a descriptor of the pool's last key (for update_output_with_descriptor)
    let ok = pool.keys.len() - 1;
    let out_desc = Descriptor::<DefiniteDescriptorKey>::from_str(&format!("wpkh({})", pool.keys[ok].desc))
        .map_err(|e| e.to_string())?;
    let mut output = vec![TxOut { value: Amount::from_sat(40_000), script_pubkey: p2wpkh_of(&pool.keys[ok].pk) }];
    if rng.chance(1, 2) {
        output.push(TxOut { value: Amount::from_sat(777), script_pubkey: ScriptBuf::from_bytes(vec![0x6a, 0x01, 0x2a]) });
    }
    let tx = Transaction {
        version: transaction::Version::TWO,
        lock_time: absolute::LockTime::from_height(TX_LOCKTIME).unwrap(),
        input: inputs
            .iter()
            .map(|m| TxIn {
                previous_output: OutPoint { txid: m.prev_tx.compute_txid(), vout: m.vout },
                script_sig: ScriptBuf::new(),
                sequence: m.sequence,
                witness: Witness::new(),
            })
            .collect(),
        output,
    };
    let mut case = Case { tx, inputs, utxo_mode, out_desc: Some((out_desc, 0)) };
    sign_all(pool, &mut case)?;
    Ok(case)
}

/// The PSBT a creator would hand out: unsigned tx plus utxo information only.
pub fn base_psbt(case: &Case) -> Psbt {
    let mut psbt = Psbt::from_unsigned_tx(case.tx.clone()).expect("unsigned tx");
    for (j, m) in case.inputs.iter().enumerate() {
        let mode = case.utxo_mode[j];
        if mode == 0 || mode == 2 {
            psbt.inputs[j].witness_utxo = Some(TxOut { value: m.value, script_pubkey: m.spk.clone() });
        }
        if mode == 1 || mode == 2 {
            psbt.inputs[j].non_witness_utxo = Some(m.prev_tx.clone());
        }
    }
    psbt
}

pub const UTXO_VARIANTS: [&str; 5] = ["consistent", "amount-differs", "script-differs", "txid-differs", "vout-out-of-range"];

/// A PSBT whose input `j` carries BOTH utxo fields; variant 0 is consistent, the others are what
/// the checked updater must refuse: witness_utxo with another amount / another script, a
/// non_witness_utxo that is not the referenced transaction, an outpoint beyond its outputs.
pub fn both_utxo_base(case: &Case, pool: &Pool, j: usize, variant: usize) -> Psbt {
    let mut p = base_psbt(case);
    let m = &case.inputs[j];
    let mut w = TxOut { value: m.value, script_pubkey: m.spk.clone() };
    let mut prev = m.prev_tx.clone();
    match variant {
        1 => w.value = Amount::from_sat(m.value.to_sat() / 10 + 1),
        2 => w.script_pubkey = p2wpkh_of(&pool.keys[pool.keys.len() - 2].pk),
        3 => prev.version = transaction::Version::TWO,
        4 => p.unsigned_tx.input[j].previous_output.vout = 7,
        _ => {}
    }
    p.inputs[j].witness_utxo = Some(w);
    p.inputs[j].non_witness_utxo = Some(prev);
    p
}

/// The same inputs spent by another transaction: other version, nLockTime and nSequences;
/// everything is signed again for it.
pub fn revariant(pool: &Pool, case: &Case, version: i32, lock_time: u32, seqs: &[u32]) -> Result<Case, String> {
    let mut c = case.clone();
    c.tx.version = transaction::Version(version);
    c.tx.lock_time = absolute::LockTime::from_consensus(lock_time);
    for (j, s) in seqs.iter().enumerate() {
        c.tx.input[j].sequence = Sequence(*s);
        c.inputs[j].sequence = Sequence(*s);
    }
    sign_all(pool, &mut c)?;
    Ok(c)
}
