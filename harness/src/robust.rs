//! `robust` engine (property C11): malformed-input streams for every entry point the
//! property lists, each case run under `catch_unwind` in a worker thread with a wall-clock
//! guard and an allocation guard; risky behaviours that cannot be caught inside a process
//! (native stack overflow, allocation failure => abort) are detected by running the cases in
//! CHILD PROCESSES that are supervised, restarted after a crash and whose last announced case
//! is the crashing input. Failures are minimised by a simple shrinker.
//!
//! Sub-commands (`verif-harness robust <cmd> ...`):
//!   all <seed> <tier> [--only c1,c2] [--mult k]   supervisor: every class, report on stdout
//!   worker <class> <seed> <from> <to>             child: runs cases from..to of one class
//!   one <class>   (input line on stdin)           child: one explicit input
//!   replay <class> (input line on stdin)          supervisor-style run of one input (+ shrink)
//!   list                                          class names
//!
//! Everything random derives from splitmix64(seed, class, index): case `idx` of a class can
//! be regenerated alone, which is what makes crash attribution and replays exact.
use std::alloc::{GlobalAlloc, Layout, System};
use std::cell::{Cell, RefCell};
use std::collections::BTreeMap;
use std::io::{BufRead, BufReader, Read, Write};
use std::panic::{catch_unwind, AssertUnwindSafe};
use std::process::{Command, Stdio};
use std::sync::atomic::{AtomicUsize, Ordering};
use std::sync::{mpsc, Arc, Mutex};
use std::time::{Duration, Instant};

mod ep;
mod gen;
mod models;
mod itermodels;

// ------------------------------------------------------------------ allocation guard
/// Counting allocator. Per thread: live bytes, peak, and an optional ceiling. When a case
/// thread exceeds its ceiling the allocation FAILS (null), which Rust turns into
/// `handle_alloc_error` => abort; the line written to stderr first makes the supervisor
/// classify the death of the child as `alloc`. (Unwinding out of a global allocator is
/// undefined behaviour, so the case is not aborted by a panic; process isolation does it.)
pub struct GuardAlloc;

thread_local! {
    static LIVE: Cell<usize> = const { Cell::new(0) };
    static PEAK: Cell<usize> = const { Cell::new(0) };
    static LIMIT: Cell<usize> = const { Cell::new(0) };
}

#[global_allocator]
static GLOBAL: GuardAlloc = GuardAlloc;

#[inline]
fn charge(n: usize) -> bool {
    LIVE.try_with(|c| {
        let v = c.get().saturating_add(n);
        let lim = LIMIT.try_with(|l| l.get()).unwrap_or(0);
        if lim != 0 && v > lim {
            let _ = LIMIT.try_with(|l| l.set(0));
            let _ = std::io::stderr().write_all(b"VERIF-ALLOC-LIMIT exceeded by the running case\n");
            return false;
        }
        c.set(v);
        let _ = PEAK.try_with(|p| {
            if v > p.get() {
                p.set(v)
            }
        });
        true
    })
    .unwrap_or(true)
}
#[inline]
fn uncharge(n: usize) {
    let _ = LIVE.try_with(|c| c.set(c.get().saturating_sub(n)));
}

unsafe impl GlobalAlloc for GuardAlloc {
    unsafe fn alloc(&self, l: Layout) -> *mut u8 {
        if !charge(l.size()) {
            return std::ptr::null_mut();
        }
        System.alloc(l)
    }
    unsafe fn alloc_zeroed(&self, l: Layout) -> *mut u8 {
        if !charge(l.size()) {
            return std::ptr::null_mut();
        }
        System.alloc_zeroed(l)
    }
    unsafe fn dealloc(&self, p: *mut u8, l: Layout) {
        uncharge(l.size());
        System.dealloc(p, l)
    }
    unsafe fn realloc(&self, p: *mut u8, l: Layout, new: usize) -> *mut u8 {
        if new > l.size() {
            if !charge(new - l.size()) {
                return std::ptr::null_mut();
            }
        } else {
            uncharge(l.size() - new);
        }
        System.realloc(p, l, new)
    }
}

// ------------------------------------------------------------------ outcome of one case
#[derive(Clone, Debug, PartialEq, Eq)]
pub enum Kind {
    Ok,
    Err,
    Na, // the input could not be built into a call of the entry point (not counted as err)
    Panic,
    Timeout,
    Stack, // native stack overflow (child died, "has overflowed its stack")
    Alloc, // allocation ceiling (child died, VERIF-ALLOC-LIMIT) or soft ceiling exceeded
    Abort, // child died otherwise (signal / unexpected exit)
}
impl Kind {
    pub fn name(&self) -> &'static str {
        match self {
            Kind::Ok => "ok",
            Kind::Err => "err",
            Kind::Na => "na",
            Kind::Panic => "panic",
            Kind::Timeout => "timeout",
            Kind::Stack => "stack-overflow",
            Kind::Alloc => "alloc",
            Kind::Abort => "abort",
        }
    }
    pub fn parse(s: &str) -> Kind {
        match s {
            "ok" => Kind::Ok,
            "err" => Kind::Err,
            "na" => Kind::Na,
            "panic" => Kind::Panic,
            "timeout" => Kind::Timeout,
            "stack-overflow" => Kind::Stack,
            "alloc" => Kind::Alloc,
            _ => Kind::Abort,
        }
    }
    pub fn is_failure(&self) -> bool { !matches!(self, Kind::Ok | Kind::Err | Kind::Na) }
}

#[derive(Clone, Debug)]
pub struct Outcome {
    pub kind: Kind,
    /// ok/err: error class or observation tag; panic: "file:line"; others: free text
    pub loc: String,
    pub msg: String,
    pub ms: u64,
    pub peak: usize,
}

/// What an entry point reports for a case that returned normally.
pub struct Obs {
    pub ok: bool,
    pub na: bool,
    pub tag: String,
}
impl Obs {
    pub fn ok(tag: impl Into<String>) -> Obs { Obs { ok: true, na: false, tag: tag.into() } }
    pub fn err(tag: impl Into<String>) -> Obs { Obs { ok: false, na: false, tag: tag.into() } }
    pub fn na(tag: impl Into<String>) -> Obs { Obs { ok: false, na: true, tag: tag.into() } }
}

/// Class (first identifier) of an error value from its Debug text, after forcing both
/// Display and Debug (error formatting code is part of the library and may panic too).
pub fn err_class<E: std::fmt::Debug + std::fmt::Display>(e: &E) -> String {
    let _ = format!("{}", e);
    let d = format!("{:?}", e);
    let mut out = String::new();
    let mut depth = 0;
    for ch in d.chars() {
        if ch.is_ascii_alphanumeric() || ch == '_' {
            out.push(ch);
        } else if (ch == '(' || ch == '{' || ch == ' ') && depth < 2 && !out.ends_with('.') {
            depth += 1;
            out.push('.');
        } else {
            break;
        }
        if out.len() > 60 {
            break;
        }
    }
    out.trim_end_matches('.').to_string()
}

thread_local! {
    static LAST_PANIC: RefCell<Option<(String, String)>> = const { RefCell::new(None) };
}

pub struct Limits {
    pub timeout_ms: u64,
    pub alloc_hard: usize,
    pub alloc_soft: usize,
    pub stack: usize,
    /// allocation oracle proportional to the input: peak > max(alloc_floor, alloc_ratio * input length) is a failure
    pub alloc_ratio: usize,
    pub alloc_floor: usize,
}
impl Limits {
    pub fn from_env() -> Limits {
        let g = |k: &str, d: u64| std::env::var(k).ok().and_then(|v| v.parse::<u64>().ok()).unwrap_or(d);
        Limits {
            timeout_ms: g("VERIF_ROBUST_TIMEOUT_MS", 10_000),
            alloc_hard: g("VERIF_ROBUST_ALLOC_HARD", 2 << 30) as usize,
            alloc_soft: g("VERIF_ROBUST_ALLOC_SOFT", 512 << 20) as usize,
            stack: g("VERIF_ROBUST_STACK", 2 << 20) as usize,
            alloc_ratio: g("VERIF_ROBUST_ALLOC_RATIO", 4096) as usize,
            alloc_floor: g("VERIF_ROBUST_ALLOC_FLOOR", 1 << 20) as usize,
        }
    }
}

fn install_hook() {
    std::panic::set_hook(Box::new(|info| {
        let loc = info.location().map(|l| format!("{}:{}", l.file(), l.line())).unwrap_or_else(|| "?".into());
        let msg = if let Some(s) = info.payload().downcast_ref::<&str>() {
            s.to_string()
        } else if let Some(s) = info.payload().downcast_ref::<String>() {
            s.clone()
        } else {
            "<non-string panic payload>".to_string()
        };
        if std::env::var("VERIF_ROBUST_BT").is_ok() {
            eprintln!("PANIC {} {}\n{}", loc, msg, std::backtrace::Backtrace::force_capture());
        }
        let _ = LAST_PANIC.try_with(|c| *c.borrow_mut() = Some((loc, msg)));
    }));
}

/// Run one case in a fresh thread (own stack size, allocation ceiling, wall-clock guard).
/// A timeout leaves the thread behind: the caller (child process) must exit afterwards.
pub fn exec_case(w: &Arc<ep::RWorld>, class: &'static ep::Class, input: &gen::Input, lim: &Limits) -> Outcome {
    let (tx, rx) = mpsc::channel();
    let w2 = w.clone();
    let inp = input.clone();
    let hard = lim.alloc_hard;
    let t0 = Instant::now();
    let h = std::thread::Builder::new().stack_size(lim.stack).spawn(move || {
        let _ = LIVE.try_with(|c| c.set(0));
        let _ = PEAK.try_with(|c| c.set(0));
        let _ = LIMIT.try_with(|c| c.set(hard));
        let r = catch_unwind(AssertUnwindSafe(|| (class.run)(&w2, &inp)));
        let _ = LIMIT.try_with(|c| c.set(0));
        let peak = PEAK.try_with(|c| c.get()).unwrap_or(0);
        let out = match r {
            Ok(o) => (if o.na { Kind::Na } else if o.ok { Kind::Ok } else { Kind::Err }, o.tag, String::new(), peak),
            Err(_) => {
                let (loc, msg) = LAST_PANIC.with(|c| c.borrow_mut().take()).unwrap_or(("?".into(), "?".into()));
                (Kind::Panic, loc, msg, peak)
            }
        };
        drop(inp);
        let _ = tx.send(out);
    });
    let h = match h {
        Ok(h) => h,
        Err(e) => {
            return Outcome { kind: Kind::Abort, loc: "spawn".into(), msg: format!("{}", e), ms: 0, peak: 0 };
        }
    };
    let budget_ms = lim.timeout_ms + 4_000 * (input.len() as u64 >> 20);
    match rx.recv_timeout(Duration::from_millis(budget_ms)) {
        Ok((kind, loc, msg, peak)) => {
            let _ = h.join();
            let ms = t0.elapsed().as_millis() as u64;
            if !kind.is_failure() && peak > lim.alloc_soft + 256 * input.len() {
                return Outcome { kind: Kind::Alloc, loc: "soft-ceiling".into(), msg: format!("peak {} bytes", peak), ms, peak };
            }
            // allocation PROPORTIONAL to the input: a few bytes of input must not make the library
            // ask for hundreds of megabytes, even if the absolute ceilings are not reached
            let allowed = lim.alloc_floor.max(lim.alloc_ratio.saturating_mul(input.len()));
            if !kind.is_failure() && peak > allowed {
                return Outcome {
                    kind: Kind::Alloc,
                    loc: "disproportionate".into(),
                    msg: format!("peak {} bytes for an input of {} bytes (ratio {}, allowed max({}, {} x input))", peak, input.len(), peak / input.len().max(1), lim.alloc_floor, lim.alloc_ratio),
                    ms,
                    peak,
                };
            }
            Outcome { kind, loc, msg, ms, peak }
        }
        Err(_) => Outcome {
            kind: Kind::Timeout,
            loc: "wall-clock".into(),
            msg: format!(">{} ms", budget_ms),
            ms: t0.elapsed().as_millis() as u64,
            peak: 0,
        },
    }
}

fn hexs(s: &str) -> String { crate::ast::hex(s.as_bytes()) }

fn outcome_line(o: &Outcome) -> String {
    format!("{} {} {} {} {}", o.kind.name(), o.ms, o.peak, hexs(&o.loc), hexs(&o.msg))
}
fn unhex_str(h: &str) -> String { String::from_utf8_lossy(&gen::unhex(h).unwrap_or_default()).to_string() }
fn parse_outcome(parts: &[&str]) -> Option<Outcome> {
    if parts.len() < 5 {
        return None;
    }
    Some(Outcome {
        kind: Kind::parse(parts[0]),
        ms: parts[1].parse().ok()?,
        peak: parts[2].parse().ok()?,
        loc: unhex_str(parts[3]),
        msg: unhex_str(parts[4]),
    })
}

// ------------------------------------------------------------------ child side
fn worker(args: &[String]) {
    let class = ep::class_by_name(&args[0]).expect("unknown class");
    let seed: u64 = args[1].parse().unwrap();
    let from: u64 = args[2].parse().unwrap();
    let to: u64 = args[3].parse().unwrap();
    let lim = Limits::from_env();
    let w = Arc::new(ep::RWorld::new());
    install_hook();
    let out = std::io::stdout();
    for idx in from..to {
        let (input, label) = gen::gen_case(&w, class, seed, idx);
        {
            let mut o = out.lock();
            let _ = writeln!(o, "B {} {} {}", idx, label, input.len());
            let _ = o.flush();
        }
        let r = exec_case(&w, class, &input, &lim);
        {
            let mut o = out.lock();
            let _ = writeln!(o, "E {} {}", idx, outcome_line(&r));
            let _ = o.flush();
        }
        if r.kind == Kind::Timeout {
            std::process::exit(3); // a runaway thread is still alive: give up this process
        }
    }
}

fn one(args: &[String]) {
    let class = ep::class_by_name(&args[0]).expect("unknown class");
    let mut line = String::new();
    std::io::stdin().read_to_string(&mut line).unwrap();
    let input = gen::Input::parse(line.trim()).expect("bad input line");
    let lim = Limits::from_env();
    let w = Arc::new(ep::RWorld::new());
    install_hook();
    println!("B 0 explicit {}", input.len());
    let _ = std::io::stdout().flush();
    let r = exec_case(&w, class, &input, &lim);
    println!("E 0 {}", outcome_line(&r));
    let _ = std::io::stdout().flush();
    if r.kind == Kind::Timeout {
        std::process::exit(3);
    }
}

// ------------------------------------------------------------------ supervisor side
fn classify_death(stderr: &str, status: &std::process::ExitStatus) -> (Kind, String) {
    if stderr.contains("VERIF-ALLOC-LIMIT") || stderr.contains("memory allocation of") {
        (Kind::Alloc, "hard-ceiling".into())
    } else if stderr.contains("has overflowed its stack") || stderr.contains("stack overflow") {
        (Kind::Stack, "native-stack".into())
    } else {
        (Kind::Abort, format!("{:?}", status))
    }
}

struct ChildRun {
    results: Vec<(u64, String, usize, Outcome)>, // idx, label, input length, outcome
    next: u64,                                  // first index not yet run
}

/// Run cases [from,to) of a class in one child; on a crash attribute it to the announced case.
fn run_child(exe: &std::path::Path, class: &str, seed: u64, from: u64, to: u64) -> ChildRun {
    let mut child = Command::new(exe)
        .args(["robust", "worker", class, &seed.to_string(), &from.to_string(), &to.to_string()])
        .stdin(Stdio::null())
        .stdout(Stdio::piped())
        .stderr(Stdio::piped())
        .spawn()
        .expect("spawn child");
    let stdout = child.stdout.take().unwrap();
    let mut stderr = child.stderr.take().unwrap();
    let errh = std::thread::spawn(move || {
        let mut s = String::new();
        let _ = stderr.read_to_string(&mut s);
        s
    });
    let mut results = Vec::new();
    let mut open: Option<(u64, String, usize)> = None;
    for line in BufReader::new(stdout).lines() {
        let line = match line {
            Ok(l) => l,
            Err(_) => break,
        };
        let p: Vec<&str> = line.split(' ').collect();
        if p[0] == "B" && p.len() >= 4 {
            open = Some((p[1].parse().unwrap_or(0), p[2].to_string(), p[3].parse().unwrap_or(0)));
        } else if p[0] == "E" && p.len() >= 7 {
            if let (Some((idx, label, len)), Some(o)) = (open.take(), parse_outcome(&p[2..])) {
                results.push((idx, label, len, o));
            }
        }
    }
    let status = child.wait().expect("wait");
    let err = errh.join().unwrap_or_default();
    let mut next = results.last().map(|r| r.0 + 1).unwrap_or(from);
    if let Some((idx, label, len)) = open {
        let (kind, loc) = classify_death(&err, &status);
        let tail: String = err.lines().rev().take(3).collect::<Vec<_>>().join(" | ");
        results.push((idx, label, len, Outcome { kind, loc, msg: tail, ms: 0, peak: 0 }));
        next = idx + 1;
    } else if !status.success() && status.code() != Some(3) && next < to {
        // died between cases: do not loop forever
        results.push((next, "?".into(), 0, Outcome { kind: Kind::Abort, loc: format!("{:?}", status), msg: err, ms: 0, peak: 0 }));
        next += 1;
    }
    ChildRun { results, next }
}

/// Run one explicit input in a child (used by the shrinker for failures that kill the process
/// and by replays).
pub fn run_one_child(exe: &std::path::Path, class: &str, input: &gen::Input) -> Outcome {
    let mut child = Command::new(exe)
        .args(["robust", "one", class])
        .stdin(Stdio::piped())
        .stdout(Stdio::piped())
        .stderr(Stdio::piped())
        .spawn()
        .expect("spawn child");
    {
        let mut si = child.stdin.take().unwrap();
        let _ = si.write_all(input.to_line().as_bytes());
    }
    let out = child.wait_with_output().expect("wait");
    let so = String::from_utf8_lossy(&out.stdout).to_string();
    let se = String::from_utf8_lossy(&out.stderr).to_string();
    for l in so.lines() {
        let p: Vec<&str> = l.split(' ').collect();
        if p[0] == "E" && p.len() >= 7 {
            if let Some(o) = parse_outcome(&p[2..]) {
                return o;
            }
        }
    }
    let (kind, loc) = classify_death(&se, &out.status);
    Outcome { kind, loc, msg: se.lines().rev().take(3).collect::<Vec<_>>().join(" | "), ms: 0, peak: 0 }
}

fn same_failure(a: &Outcome, b: &Outcome) -> bool {
    a.kind == b.kind && (a.kind != Kind::Panic || a.loc == b.loc)
}

/// Greedy shrinker: try the candidates of `gen::shrink_candidates` while the same failure
/// (same kind, same panic location) persists.
fn shrink(exe: &std::path::Path, class: &str, input: &gen::Input, fail: &Outcome, budget: usize) -> (gen::Input, usize) {
    let mut cur = input.clone();
    let mut tries = 0;
    let mut progress = true;
    let deadline = Instant::now() + Duration::from_secs(std::env::var("VERIF_ROBUST_SHRINK_SECS").ok().and_then(|v| v.parse().ok()).unwrap_or(25));
    while progress && tries < budget && Instant::now() < deadline {
        progress = false;
        for cand in gen::shrink_candidates(&cur) {
            if tries >= budget || Instant::now() >= deadline {
                break;
            }
            if cand.len() >= cur.len() {
                continue;
            }
            tries += 1;
            let o = run_one_child(exe, class, &cand);
            if same_failure(&o, fail) {
                cur = cand;
                progress = true;
                break;
            }
        }
    }
    (cur, tries)
}

struct ClassStats {
    cases: u64,
    kinds: BTreeMap<&'static str, u64>,
    labels: BTreeMap<String, u64>,
    tags: BTreeMap<String, u64>,
    max_peak: usize,
    max_ratio: usize,
    max_ms: u64,
    samples: Vec<String>,
    fails: BTreeMap<(String, String), (u64, u64, String, Outcome)>, // (kind, loc) -> (count, first idx, label, outcome)
}

fn supervise(args: &[String]) {
    let seed: u64 = args.first().and_then(|s| s.parse().ok()).unwrap_or(1);
    let tier = args.get(1).map(|s| s.as_str()).unwrap_or("quick").to_string();
    let mut only: Option<Vec<String>> = None;
    let mut mult: f64 = 1.0;
    let mut no_shrink = false;
    let mut i = 2;
    while i < args.len() {
        match args[i].as_str() {
            "--only" => {
                only = Some(args[i + 1].split(',').map(|s| s.to_string()).collect());
                i += 2;
            }
            "--no-shrink" => {
                no_shrink = true;
                i += 1;
            }
            "--mult" => {
                mult = args[i + 1].parse().unwrap_or(1.0);
                i += 2;
            }
            _ => i += 1,
        }
    }
    let exe = std::env::current_exe().expect("current_exe");
    let classes: Vec<&'static ep::Class> = ep::CLASSES
        .iter()
        .filter(|c| only.as_ref().map(|o| o.iter().any(|n| n == c.name)).unwrap_or(true))
        .collect();
    // work items: (class, from, to)
    let mut items = Vec::new();
    for c in &classes {
        let base = if tier == "thorough" { c.thorough } else { c.quick };
        let n = ((base as f64) * mult).ceil() as u64;
        let chunk = c.chunk.max(1);
        let mut f = 0;
        while f < n {
            let t = (f + chunk).min(n);
            items.push((*c, f, t));
            f = t;
        }
    }
    // heavy chunks first
    items.sort_by_key(|(c, f, _)| (if *f == 0 { 0 } else { 1 }, c.name));
    let queue = Arc::new(Mutex::new(items));
    let stats: Arc<Mutex<BTreeMap<&'static str, ClassStats>>> = Arc::new(Mutex::new(BTreeMap::new()));
    let n_workers = std::env::var("VERIF_ROBUST_JOBS").ok().and_then(|v| v.parse().ok()).unwrap_or(14usize);
    let done = Arc::new(AtomicUsize::new(0));
    let mut hs = Vec::new();
    for _ in 0..n_workers {
        let queue = queue.clone();
        let stats = stats.clone();
        let exe = exe.clone();
        let done = done.clone();
        hs.push(std::thread::spawn(move || loop {
            let item = queue.lock().unwrap().pop();
            let (c, from, to) = match item {
                Some(x) => x,
                None => break,
            };
            let mut f = from;
            let mut restarts = 0;
            while f < to && restarts < 200 {
                let r = run_child(&exe, c.name, seed, f, to);
                {
                    let mut st = stats.lock().unwrap();
                    let s = st.entry(c.name).or_insert_with(|| ClassStats {
                        cases: 0,
                        kinds: BTreeMap::new(),
                        labels: BTreeMap::new(),
                        tags: BTreeMap::new(),
                        max_peak: 0,
                        max_ratio: 0,
                        max_ms: 0,
                        samples: Vec::new(),
                        fails: BTreeMap::new(),
                    });
                    for (idx, label, len, o) in &r.results {
                        s.cases += 1;
                        *s.kinds.entry(o.kind.name()).or_insert(0) += 1;
                        *s.labels.entry(label.clone()).or_insert(0) += 1;
                        if !o.kind.is_failure() {
                            *s.tags.entry(format!("{}:{}", o.kind.name(), o.loc)).or_insert(0) += 1;
                        }
                        s.max_peak = s.max_peak.max(o.peak);
                        if o.peak > (1 << 20) && !o.kind.is_failure() {
                            s.max_ratio = s.max_ratio.max(o.peak / (*len).max(1));
                        }
                        s.max_ms = s.max_ms.max(o.ms);
                        if s.samples.len() < 6 && (*idx % 7 == 3 || *idx < 2) {
                            s.samples.push(format!("{} {} {} len={} {}", idx, label, o.kind.name(), len, o.loc));
                        }
                        if o.kind.is_failure() {
                            let e = s
                                .fails
                                // one entry per panic location; resource failures (time-out, allocation,
                                // stack overflow, abort) are told apart by their input class instead
                                .entry((
                                    if o.kind == Kind::Panic { "panic".to_string() } else { "resource".to_string() },
                                    if o.kind == Kind::Panic { o.loc.clone() } else { label.clone() },
                                ))
                                .or_insert((0, *idx, label.clone(), o.clone()));
                            e.0 += 1;
                            if *idx < e.1 {
                                *e = (e.0, *idx, label.clone(), o.clone());
                            }
                        }
                    }
                }
                if r.next <= f {
                    restarts += 1;
                    f += 1;
                } else {
                    if r.next < to {
                        restarts += 1;
                    }
                    f = r.next;
                }
            }
            done.fetch_add(1, Ordering::SeqCst);
        }));
    }
    for h in hs {
        let _ = h.join();
    }
    // report (deterministic order), shrinking the first input of every distinct failure
    let st = stats.lock().unwrap();
    let w = ep::RWorld::new();
    let shrink_budget: usize = std::env::var("VERIF_ROBUST_SHRINK").ok().and_then(|v| v.parse().ok()).unwrap_or(250);
    for c in &classes {
        let s = match st.get(c.name) {
            Some(s) => s,
            None => continue,
        };
        let kinds: Vec<String> = s.kinds.iter().map(|(k, v)| format!("{}={}", k, v)).collect();
        let labels: Vec<String> = s.labels.iter().map(|(k, v)| format!("{}:{}", k, v)).collect();
        let mut tags: Vec<(&String, &u64)> = s.tags.iter().collect();
        tags.sort_by(|a, b| b.1.cmp(a.1).then(a.0.cmp(b.0)));
        let tags: Vec<String> = tags.iter().take(12).map(|(k, v)| format!("{}:{}", k, v)).collect();
        println!(
            "CLASS {} entry={} cases={} {} maxpeak={} maxms={} maxratio={} labels={} tags={}",
            c.name,
            hexs(c.entry),
            s.cases,
            kinds.join(" "),
            s.max_peak,
            s.max_ms,
            s.max_ratio,
            labels.join(","),
            hexs(&tags.join(","))
        );
        for smp in &s.samples {
            println!("SAMPLE {} {}", c.name, hexs(smp));
        }
        for ((_group, _k), (count, idx, label, o)) in &s.fails {
            let (kind, loc) = (o.kind.name(), &o.loc);
            let (input, _) = gen::gen_case(&w, c, seed, *idx);
            // confirm + shrink in child processes (skipped with --no-shrink: the caller decides
            // which failures are new and asks for `robust shrink` only for those)
            let (reproduced, min, tries) = if no_shrink {
                (true, input.clone(), 0)
            } else {
                let confirm = run_one_child(&exe, c.name, &input);
                if same_failure(&confirm, o) {
                    let (m, t) = shrink(&exe, c.name, &input, o, shrink_budget);
                    (true, m, t)
                } else {
                    (false, input.clone(), 0)
                }
            };
            let line = min.to_line();
            println!(
                "FAIL {} kind={} loc={} msg={} label={} idx={} count={} reproduced={} orig_len={} min_len={} shrink_tries={} regen={}:{} input={}",
                c.name,
                kind,
                hexs(loc),
                hexs(&o.msg),
                label,
                idx,
                count,
                reproduced,
                input.len(),
                min.len(),
                tries,
                seed,
                idx,
                if line.len() > 200_000 { "@regen".to_string() } else { line }
            );
        }
    }
    println!("DONE chunks={}", done.load(Ordering::SeqCst));
}

/// `robust shrink <class> [seed idx]`: input line on stdin (or regenerated from seed/idx);
/// prints the minimised input that still shows the same failure
fn shrink_cmd(args: &[String]) {
    let exe = std::env::current_exe().expect("current_exe");
    let class = ep::class_by_name(&args[0]).expect("unknown class");
    let input = if args.len() >= 3 {
        let w = ep::RWorld::new();
        gen::gen_case(&w, class, args[1].parse().unwrap(), args[2].parse().unwrap()).0
    } else {
        let mut line = String::new();
        std::io::stdin().read_to_string(&mut line).unwrap();
        gen::Input::parse(line.trim()).expect("bad input line")
    };
    let o = run_one_child(&exe, class.name, &input);
    if !o.kind.is_failure() {
        println!("SHRUNK {} kind={} loc={} msg={} orig_len={} min_len={} tries=0 input={}", class.name, o.kind.name(), hexs(&o.loc), hexs(&o.msg), input.len(), input.len(), input.to_line());
        return;
    }
    let budget: usize = std::env::var("VERIF_ROBUST_SHRINK").ok().and_then(|v| v.parse().ok()).unwrap_or(250);
    let (min, tries) = shrink(&exe, class.name, &input, &o, budget);
    println!(
        "SHRUNK {} kind={} loc={} msg={} orig_len={} min_len={} tries={} input={}",
        class.name,
        o.kind.name(),
        hexs(&o.loc),
        hexs(&o.msg),
        input.len(),
        min.len(),
        tries,
        min.to_line()
    );
}

fn replay(args: &[String]) {
    let exe = std::env::current_exe().expect("current_exe");
    let mut line = String::new();
    std::io::stdin().read_to_string(&mut line).unwrap();
    let input = gen::Input::parse(line.trim()).expect("bad input line");
    let o = run_one_child(&exe, &args[0], &input);
    println!("REPLAY {} {}", args[0], outcome_line(&o));
    println!("REPLAYTEXT kind={} loc={} msg={}", o.kind.name(), o.loc, o.msg.replace('\n', " "));
}

pub fn run(args: &[String]) {
    if args.is_empty() {
        eprintln!("usage: robust all|worker|one|replay|list ...");
        std::process::exit(2);
    }
    match args[0].as_str() {
        "all" => supervise(&args[1..]),
        "worker" => worker(&args[1..]),
        "one" => one(&args[1..]),
        "replay" => replay(&args[1..]),
        "shrink" => shrink_cmd(&args[1..]),
        "models" => models::run(&args[1..]),
        "iters" => itermodels::run(&args[1..]),
        "verbose" => crate::verboseiter::run(&args[1..]),
        "list" => {
            for c in ep::CLASSES.iter() {
                println!("{} quick={} thorough={} entry={}", c.name, c.quick, c.thorough, c.entry);
            }
        }
        _ => {
            eprintln!("unknown robust sub-command");
            std::process::exit(2);
        }
    }
}
