//! `eqord` engine (C19): `==`, `cmp`, `Hash`, `clone` of Miniscript / Descriptor / policies on
//! generated values and their directed neighbours. Prints raw observations; the judging
//! (structural-equality oracle on the dumps, order laws) and the comparison with the Coq
//! model are done by tools/props/c19.py and coq/Tables/EqOrdCases*.v.
//!
//! Output lines (space separated):
//!   K <dom> r0..r7                       rank of world key i in the implementation's `Ord` of the key type
//!   HB <name> <hex>                      byte strings referred to by the dumps
//!   V <dom> <id> <ok> <dump...>          value (ok=1: every node passed from_ast)
//!   H <dom> <id> <tokens...>             the calls `Hash::hash` makes on the Hasher (keys abbreviated k<i>)
//!   C <dom> <id> <clone==self> <dump(clone)==dump> <hash(clone)==hash>
//!   P <dom> <i> <j> <eq> <cmp> <siphash equal> <hash stream equal>     eq: 0/1/P  cmp: L/E/G/P
//!   S <dom> <gid> <n> <distinct dumps> <BTreeSet len|P> <HashSet len|P> <ids,...>
//!   M <dom> <id> <kind>                  how the value was derived (base / neighbour kind), for the histogram
//!   HW desc <id> <tokens...> / HC desc <id> <tokens...>   the Hasher calls of the warmed value / of a clone of the warmed value
//!   X <dom> translated <n> dropped <m>   a second-key-type domain (<base>:dpk, <base>:str): values obtained by translate_pk
//!   WV desc <id> <warm==fresh> <cmp(warm,fresh)> <hash same> <clone(warm)==fresh> <clone(warm)==warm> <dump(clone(warm)) same> <hash(clone(warm)) same>
//!   W desc <i> <j> <state> <eq> <cmp> <siphash equal>     the pair under a history: which operand had its spend-info
//!        cache filled (script_pubkey()) before the comparison. state: LW left warmed, RW right warmed, BW both,
//!        CB both are clones of warmed values, CF left is a clone of a warmed value and right is fresh.
//!        Warmed operands are separate instances obtained by re-parsing the string form (never by clone).
use crate::ast::{self, hex, CtxInfo, Gen, Key, Rng, World, B, N_KEYS, N_PRE};
use crate::tree::{self, at, paths, replace_at, Tg, T};
use bitcoin::hashes::Hash as _;
use miniscript::descriptor::TapTree;
use miniscript::miniscript::ScriptContext;
use miniscript::policy::{Concrete, Liftable, Semantic};
use miniscript::{AbsLockTime, BareCtx, Descriptor, Legacy, Miniscript, RelLockTime, Segwitv0, Tap, Threshold};
use std::collections::hash_map::DefaultHasher;
use std::collections::{BTreeSet, HashMap, HashSet};
use std::hash::{BuildHasherDefault, Hash, Hasher};
use std::panic::{catch_unwind, AssertUnwindSafe};
use std::sync::Arc;

/// A Hasher that records the calls made on it.
#[derive(Default)]
pub struct Rec(pub Vec<String>);
impl Hasher for Rec {
    fn finish(&self) -> u64 { 0 }
    fn write(&mut self, b: &[u8]) { self.0.push(format!("b{}", hex(b))) }
    fn write_u8(&mut self, i: u8) { self.0.push(format!("c{}", i)) }
    fn write_u16(&mut self, i: u16) { self.0.push(format!("s{}", i)) }
    fn write_u32(&mut self, i: u32) { self.0.push(format!("w{}", i)) }
    fn write_u64(&mut self, i: u64) { self.0.push(format!("q{}", i)) }
    fn write_u128(&mut self, i: u128) { self.0.push(format!("o{}", i)) }
    fn write_usize(&mut self, i: usize) { self.0.push(format!("u{}", i)) }
    fn write_isize(&mut self, i: isize) { self.0.push(format!("i{}", i)) }
}

pub fn record<X: Hash>(x: &X) -> Vec<String> {
    let mut r = Rec::default();
    x.hash(&mut r);
    r.0
}
fn sip<X: Hash>(x: &X) -> u64 {
    let mut h = DefaultHasher::new(); // SipHash-1-3 with the fixed keys (0, 0)
    x.hash(&mut h);
    h.finish()
}

/// replace the sub-sequences a key writes by `k<i>`
fn abbreviate(stream: &[String], pats: &[Vec<String>]) -> Vec<String> {
    let mut out = Vec::new();
    let mut i = 0;
    'outer: while i < stream.len() {
        for (k, p) in pats.iter().enumerate() {
            if !p.is_empty() && i + p.len() <= stream.len() && stream[i..i + p.len()] == p[..] {
                out.push(format!("k{}", k % N_KEYS)); // the pattern list may hold the full keys followed by the x-only keys
                i += p.len();
                continue 'outer;
            }
        }
        out.push(stream[i].clone());
        i += 1;
    }
    out
}

fn c_eq<X: PartialEq>(a: &X, b: &X) -> char {
    match catch_unwind(AssertUnwindSafe(|| a == b)) {
        Ok(true) => '1',
        Ok(false) => '0',
        Err(_) => 'P',
    }
}
fn c_cmp<X: Ord>(a: &X, b: &X) -> char {
    match catch_unwind(AssertUnwindSafe(|| a.cmp(b))) {
        Ok(std::cmp::Ordering::Less) => 'L',
        Ok(std::cmp::Ordering::Equal) => 'E',
        Ok(std::cmp::Ordering::Greater) => 'G',
        Err(_) => 'P',
    }
}

struct Dom<X> {
    name: String,
    vals: Vec<X>,
    dumps: Vec<String>,
    oks: Vec<bool>,
    kinds: Vec<String>,
    index: HashMap<String, usize>,
    pairs: Vec<(usize, usize)>,
    pair_set: HashSet<(usize, usize)>,
    groups: Vec<Vec<usize>>,
}

impl<X> Dom<X> {
    fn new(name: &str) -> Self {
        Dom {
            name: name.to_string(),
            vals: vec![],
            dumps: vec![],
            oks: vec![],
            kinds: vec![],
            index: HashMap::new(),
            pairs: vec![],
            pair_set: HashSet::new(),
            groups: vec![],
        }
    }
    fn add(&mut self, x: X, dump: String, ok: bool, kind: &str) -> usize {
        if let Some(&i) = self.index.get(&dump) {
            return i;
        }
        let i = self.vals.len();
        self.index.insert(dump.clone(), i);
        self.vals.push(x);
        self.dumps.push(dump);
        self.oks.push(ok);
        self.kinds.push(kind.to_string());
        i
    }
    fn pair(&mut self, i: usize, j: usize) {
        if self.pair_set.insert((i, j)) {
            self.pairs.push((i, j));
        }
    }
    fn all_pairs(&mut self, ids: &[usize]) {
        for &i in ids {
            for &j in ids {
                self.pair(i, j);
            }
        }
    }
}

fn emit<X: Eq + Ord + Hash + Clone>(d: &Dom<X>, redump: &dyn Fn(&X) -> String, pats: &[Vec<String>], with_stream: bool) {
    let streams: Vec<Vec<String>> = d.vals.iter().map(|v| record(v)).collect();
    let sips: Vec<u64> = d.vals.iter().map(|v| sip(v)).collect();
    for (i, v) in d.vals.iter().enumerate() {
        println!("V {} {} {} {}", d.name, i, if d.oks[i] { 1 } else { 0 }, d.dumps[i]);
        println!("M {} {} {}", d.name, i, d.kinds[i]);
        if with_stream {
            println!("H {} {} {}", d.name, i, abbreviate(&streams[i], pats).join(" "));
        }
        let c = catch_unwind(AssertUnwindSafe(|| v.clone()));
        match c {
            Ok(c) => println!(
                "C {} {} {} {} {}",
                d.name,
                i,
                c_eq(&c, v),
                if redump(&c) == d.dumps[i] { 1 } else { 0 },
                if sip(&c) == sips[i] && record(&c) == streams[i] { 1 } else { 0 }
            ),
            Err(_) => println!("C {} {} P P P", d.name, i),
        }
    }
    for &(i, j) in &d.pairs {
        println!(
            "P {} {} {} {} {} {} {}",
            d.name,
            i,
            j,
            c_eq(&d.vals[i], &d.vals[j]),
            c_cmp(&d.vals[i], &d.vals[j]),
            if sips[i] == sips[j] { 1 } else { 0 },
            if streams[i] == streams[j] { 1 } else { 0 }
        );
    }
    for (g, ids) in d.groups.iter().enumerate() {
        let distinct: HashSet<&String> = ids.iter().map(|&i| &d.dumps[i]).collect();
        let bt = catch_unwind(AssertUnwindSafe(|| {
            let mut s: BTreeSet<&X> = BTreeSet::new();
            for &i in ids {
                s.insert(&d.vals[i]);
            }
            s.len()
        }));
        let hs = catch_unwind(AssertUnwindSafe(|| {
            let mut s: HashSet<&X, BuildHasherDefault<DefaultHasher>> = HashSet::default();
            for &i in ids {
                s.insert(&d.vals[i]);
            }
            s.len()
        }));
        let f = |r: Result<usize, _>| match r {
            Ok(n) => n.to_string(),
            Err(_) => "P".to_string(),
        };
        let idl: Vec<String> = ids.iter().map(|i| i.to_string()).collect();
        println!("S {} {} {} {} {} {} {}", d.name, g, ids.len(), distinct.len(), f(bt), f(hs), idl.join(","));
    }
}

// ---------------------------------------------------------------- directed neighbours
fn valid_abs(n: u32) -> bool { AbsLockTime::from_consensus(n).is_ok() }
fn valid_rel(n: u32) -> bool { RelLockTime::from_consensus(n).is_ok() }

/// Every single-step variant of `t`: (kind, variant).
pub fn neighbours(t: &T, nkeys: usize) -> Vec<(&'static str, T)> {
    let mut out: Vec<(&'static str, T)> = Vec::new();
    for p in paths(t) {
        let n = at(t, &p);
        let mut push = |kind: &'static str, new: T| out.push((kind, replace_at(t, &p, new)));
        let other_key = |i: usize| (i + 1) % nkeys;
        match n.tg {
            Tg::True => push("leaf-swap", T::leaf(Tg::False, 0)),
            Tg::False => push("leaf-swap", T::leaf(Tg::True, 0)),
            Tg::PkK | Tg::PkH | Tg::RawPkH => {
                push("leaf-key", T::leaf(n.tg, other_key(n.num as usize) as u32));
                for tg in [Tg::PkK, Tg::PkH, Tg::RawPkH] {
                    if tg != n.tg {
                        push("sugar-pk", T::leaf(tg, n.num));
                    }
                }
            }
            Tg::After => {
                if valid_abs(n.num + 1) {
                    push("leaf-time", T::leaf(Tg::After, n.num + 1));
                }
                if n.num > 1 {
                    push("leaf-time", T::leaf(Tg::After, n.num - 1));
                }
                if valid_rel(n.num) {
                    push("leaf-kind", T::leaf(Tg::Older, n.num));
                }
            }
            Tg::Older => {
                if valid_rel(n.num + 1) {
                    push("leaf-time", T::leaf(Tg::Older, n.num + 1));
                }
                if n.num > 1 && valid_rel(n.num - 1) {
                    push("leaf-time", T::leaf(Tg::Older, n.num - 1));
                }
                push("leaf-kind", T::leaf(Tg::After, n.num));
            }
            Tg::Sha256 | Tg::Hash256 | Tg::Ripemd160 | Tg::Hash160 => {
                push("leaf-hash", T::leaf(n.tg, (n.num + 1) % N_PRE as u32));
                let o = match n.tg {
                    Tg::Sha256 => Tg::Hash256,
                    Tg::Hash256 => Tg::Sha256,
                    Tg::Ripemd160 => Tg::Hash160,
                    _ => Tg::Ripemd160,
                };
                push("leaf-kind", T::leaf(o, n.num));
            }
            Tg::Alt | Tg::Swap | Tg::Check | Tg::DupIf | Tg::Verify | Tg::NonZero | Tg::ZeroNotEqual => {
                push("unwrap", n.kids[0].clone());
                let o = match n.tg {
                    Tg::Alt => Tg::Swap,
                    Tg::Swap => Tg::Alt,
                    Tg::Check => Tg::Verify,
                    Tg::DupIf => Tg::NonZero,
                    Tg::Verify => Tg::Check,
                    Tg::NonZero => Tg::ZeroNotEqual,
                    _ => Tg::DupIf,
                };
                push("wrapper-kind", T::un(o, n.kids[0].clone()));
            }
            Tg::AndV | Tg::AndB | Tg::OrB | Tg::OrD | Tg::OrC | Tg::OrI => {
                let (x, y) = (n.kids[0].clone(), n.kids[1].clone());
                if x != y {
                    push("swap-children", T::bin(n.tg, y.clone(), x.clone()));
                }
                let o = match n.tg {
                    Tg::AndV => Tg::AndB,
                    Tg::AndB => Tg::AndV,
                    Tg::OrB => Tg::OrD,
                    Tg::OrD => Tg::OrC,
                    Tg::OrC => Tg::OrI,
                    _ => Tg::OrB,
                };
                push("binary-kind", T::bin(o, x.clone(), y.clone()));
                push("drop-child", x.clone());
                push("drop-child", y.clone());
                match n.tg {
                    Tg::AndV => {
                        push("sugar-t", T::bin(Tg::AndV, x.clone(), T::leaf(Tg::True, 0)));
                        push("sugar-t", T::bin(Tg::AndV, x.clone(), T::leaf(Tg::False, 0)));
                        push("sugar-t", T::bin(Tg::AndV, T::leaf(Tg::True, 0), y.clone()));
                    }
                    Tg::OrI => {
                        push("sugar-ul", T::bin(Tg::OrI, x.clone(), T::leaf(Tg::False, 0)));
                        push("sugar-ul", T::bin(Tg::OrI, T::leaf(Tg::False, 0), y.clone()));
                        push("sugar-ul", T::bin(Tg::OrI, T::leaf(Tg::False, 0), x.clone()));
                        push("sugar-ul", T::bin(Tg::OrI, T::leaf(Tg::False, 0), T::leaf(Tg::False, 0)));
                        push("sugar-ul", T::bin(Tg::OrI, x.clone(), T::leaf(Tg::True, 0)));
                    }
                    _ => {}
                }
            }
            Tg::AndOr => {
                let (a, b, c) = (n.kids[0].clone(), n.kids[1].clone(), n.kids[2].clone());
                let mk = |a: T, b: T, c: T| T { tg: Tg::AndOr, num: 0, keys: vec![], kids: vec![a, b, c] };
                push("swap-children", mk(a.clone(), c.clone(), b.clone()));
                push("swap-children", mk(b.clone(), c.clone(), a.clone()));
                push("swap-children", mk(c.clone(), a.clone(), b.clone()));
                push("sugar-and_n", mk(a.clone(), b.clone(), T::leaf(Tg::False, 0)));
                push("sugar-and_n", mk(a.clone(), b.clone(), T::leaf(Tg::True, 0)));
                push("drop-child", T::bin(Tg::AndV, a.clone(), b.clone()));
            }
            Tg::Thresh => {
                let k = n.num as usize;
                let nn = n.kids.len();
                let mk = |k: usize, kids: Vec<T>| T { tg: Tg::Thresh, num: k as u32, keys: vec![], kids };
                if k + 1 <= nn {
                    push("k+1", mk(k + 1, n.kids.clone()));
                }
                if k > 1 {
                    push("k-1", mk(k - 1, n.kids.clone()));
                }
                let mut more = n.kids.clone();
                more.push(T::un(Tg::Swap, T::pk(nn % nkeys)));
                push("child-added", mk(k, more.clone()));
                if k + 1 <= nn + 1 {
                    push("child-added-k+1", mk(k + 1, more));
                }
                if nn > 1 {
                    let less: Vec<T> = n.kids[..nn - 1].to_vec();
                    push("child-removed", mk(k.min(nn - 1), less.clone()));
                    if k.min(nn - 1) > 1 {
                        push("child-removed-k-1", mk(k.min(nn - 1) - 1, less));
                    }
                }
                if nn >= 3 && n.kids[1] != n.kids[2] {
                    let mut sw = n.kids.clone();
                    sw.swap(1, 2);
                    push("swap-children", mk(k, sw));
                }
                if nn >= 2 {
                    // regroup: move the second child into a thresh in first position (as its last child) and back
                    if n.kids[0].tg == Tg::Thresh {
                        let mut inner = n.kids[0].clone();
                        inner.kids.push(n.kids[1].clone());
                        let mut outer = vec![inner];
                        outer.extend_from_slice(&n.kids[2..]);
                        push("regroup", mk(k.min(nn - 1), outer));
                    } else {
                        let inner = mk(1, vec![n.kids[0].clone(), n.kids[1].clone()]);
                        let mut outer = vec![inner];
                        outer.extend_from_slice(&n.kids[2..]);
                        push("regroup", mk(k.min(nn - 1), outer));
                    }
                }
            }
            Tg::Multi | Tg::SortedMulti | Tg::MultiA | Tg::SortedMultiA => {
                let k = n.num as usize;
                let nn = n.keys.len();
                let mk = |tg: Tg, k: usize, keys: Vec<usize>| T { tg, num: k as u32, keys, kids: vec![] };
                if k + 1 <= nn {
                    push("k+1", mk(n.tg, k + 1, n.keys.clone()));
                }
                if k > 1 {
                    push("k-1", mk(n.tg, k - 1, n.keys.clone()));
                }
                let mut more = n.keys.clone();
                more.push((n.keys[nn - 1] + 1) % nkeys);
                push("key-added", mk(n.tg, k, more));
                if nn > 1 {
                    push("key-removed", mk(n.tg, k.min(nn - 1), n.keys[..nn - 1].to_vec()));
                    if n.keys[0] != n.keys[1] {
                        let mut sw = n.keys.clone();
                        sw.swap(0, 1);
                        push("swap-keys", mk(n.tg, k, sw));
                    }
                }
                let mut ch = n.keys.clone();
                ch[0] = other_key(ch[0]);
                push("leaf-key", mk(n.tg, k, ch));
                let o = match n.tg {
                    Tg::Multi => Tg::SortedMulti,
                    Tg::SortedMulti => Tg::Multi,
                    Tg::MultiA => Tg::SortedMultiA,
                    _ => Tg::MultiA,
                };
                push("multi-kind", mk(o, k, n.keys.clone()));
            }
        }
        // any node: one more wrapper around it
        if p.len() < 2 {
            out.push(("wrap", replace_at(t, &p, T::un(Tg::ZeroNotEqual, n.clone()))));
        }
    }
    out
}

/// whether a neighbour kind changes an n-ary arity or k (the known-defect neighbourhood)
fn arity_kind(kind: &str) -> bool {
    kind.starts_with("k+")
        || kind.starts_with("k-")
        || kind.starts_with("child-")
        || kind.starts_with("key-added")
        || kind.starts_with("key-removed")
        || kind == "regroup"
}

fn run_ctx<Ctx: ScriptContext>(w: &World, seed: u64, ci: CtxInfo, dom: &str, nbase: usize, max_nb: usize) -> Dom<Miniscript<Key, Ctx>> {
    let mut d: Dom<Miniscript<Key, Ctx>> = Dom::new(dom);
    let mut g = Gen::new(w, seed, ci);
    let mut rng = Rng(seed ^ 0x5eed);
    let mut bases: Vec<usize> = Vec::new();
    let add = |d: &mut Dom<Miniscript<Key, Ctx>>, t: &T, kind: &str| -> Option<usize> {
        let (m, ok) = tree::build::<Ctx>(w, ci.tap, t)?;
        let dump = ast::dump_str(w, &m.node);
        assert_eq!(dump, tree::tdump_str(w, ci.tap, t), "harness: build/dump mismatch");
        Some(d.add(m, dump, ok, kind))
    };
    // corpus: the witnesses of DESIGN section 10 row d, in every context (multi_a in Tap)
    let mtag = if ci.tap { Tg::MultiA } else { Tg::Multi };
    let spk = |i: usize| T::un(Tg::Swap, T::pk(i));
    let multi = |k: u32, keys: Vec<usize>| T { tg: mtag, num: k, keys, kids: vec![] };
    let thresh = |k: u32, kids: Vec<T>| T { tg: Tg::Thresh, num: k, keys: vec![], kids };
    let corpus: Vec<T> = vec![
        thresh(1, vec![T::pk(0), spk(1)]),
        thresh(2, vec![T::pk(0), spk(1)]),
        thresh(1, vec![T::pk(0), spk(1), spk(2)]),
        thresh(1, vec![T::pk(0), spk(1), spk(3)]),
        T::bin(Tg::OrB, multi(1, vec![0, 1]), spk(2)),
        T::bin(Tg::OrB, multi(1, vec![0, 1, 2]), spk(0)),
        multi(1, vec![0, 1]),
        multi(1, vec![0, 1, 2]),
        multi(1, vec![0, 1, 3]),
        thresh(2, vec![thresh(1, vec![T::pk(0), spk(1)]), spk(2), spk(3)]),
        thresh(2, vec![thresh(1, vec![T::pk(0), spk(1), spk(2)]), spk(3)]),
    ];
    // relative lock times with BIP68-unused bits set (accepted by RelLockTime; same "meaning", different values)
    let mut corpus = corpus;
    for n in [1u32, 2, 65537, 0x800001, 0x400005, 0x400001, 0x410001] {
        corpus.push(T::leaf(Tg::Older, n));
    }
    for n in [1u32, 2, 499_999_999, 500_000_000, 500_000_001] {
        corpus.push(T::leaf(Tg::After, n));
    }
    let mut corpus_ids = Vec::new();
    for t in &corpus {
        if let Some(i) = add(&mut d, t, "corpus") {
            corpus_ids.push(i);
        }
    }
    d.all_pairs(&corpus_ids);
    d.groups.push(corpus_ids.clone());

    let mut attempts = 0;
    while bases.len() < nbase && attempts < nbase * 20 {
        attempts += 1;
        let depth = 1 + (rng.below(4) as u32);
        g.dup_keys = rng.chance(1, 4);
        let b = match rng.below(10) {
            0 => B::K,
            1 => B::V,
            2 => B::W,
            _ => B::B,
        };
        let m = match g.gen::<Ctx>(b, depth) {
            Some(m) => m,
            None => continue,
        };
        let t = tree::from_terminal(w, ci.tap, &m.node);
        if t.size() > 40 {
            continue;
        }
        let before = d.vals.len();
        let bi = match add(&mut d, &t, "base") {
            Some(i) => i,
            None => continue,
        };
        if bi < before {
            continue; // seen already
        }
        bases.push(bi);
        let mut nbs = neighbours(&t, ci.n_keys);
        // keep all arity/k neighbours, sample the rest
        let mut kept: Vec<(&'static str, T)> = Vec::new();
        let mut rest: Vec<(&'static str, T)> = Vec::new();
        for nb in nbs.drain(..) {
            if arity_kind(nb.0) {
                kept.push(nb);
            } else {
                rest.push(nb);
            }
        }
        while kept.len() < max_nb && !rest.is_empty() {
            let i = rng.below(rest.len() as u64) as usize;
            kept.push(rest.swap_remove(i));
        }
        let mut group = vec![bi];
        let mut arity_ids = vec![bi];
        for (kind, nt) in &kept {
            if let Some(i) = add(&mut d, nt, kind) {
                d.pair(bi, i);
                d.pair(i, bi);
                group.push(i);
                if arity_kind(kind) && arity_ids.len() < 6 {
                    arity_ids.push(i);
                }
            }
        }
        d.pair(bi, bi);
        // a small clique for the triple laws: base + arity neighbours (+ random neighbours up to 5)
        while arity_ids.len() < 5 && group.len() > arity_ids.len() {
            let c = group[rng.below(group.len() as u64) as usize];
            if !arity_ids.contains(&c) {
                arity_ids.push(c);
            }
        }
        d.all_pairs(&arity_ids);
        group.sort();
        group.dedup();
        d.groups.push(group);
        // second-order: neighbours of one arity neighbour against each other (multi(1,A,B,C) vs multi(1,A,B,D))
        if let Some((_, nt)) = kept.iter().find(|(k, _)| *k == "child-added" || *k == "key-added") {
            let nn: Vec<(&'static str, T)> = neighbours(nt, ci.n_keys).into_iter().filter(|(k, _)| *k == "leaf-key").take(3).collect();
            let mut ids = vec![bi];
            if let Some(i) = add(&mut d, nt, "second-order") {
                ids.push(i);
            }
            for (_, x) in &nn {
                if let Some(i) = add(&mut d, x, "second-order") {
                    ids.push(i);
                }
            }
            d.all_pairs(&ids);
        }
    }
    // random cross pairs and triples between unrelated values
    let n = d.vals.len();
    for _ in 0..(nbase * 6) {
        let (i, j, k) = (rng.below(n as u64) as usize, rng.below(n as u64) as usize, rng.below(n as u64) as usize);
        d.all_pairs(&[i, j, k]);
    }
    d
}

// ---------------------------------------------------------------- descriptors
fn ddump(w: &World, d: &Descriptor<Key>) -> String {
    use miniscript::descriptor::ShInner;
    match d {
        Descriptor::Bare(b) => format!("bare {}", ast::dump_str(w, &b.as_inner().node)),
        Descriptor::Pkh(p) => format!("pkh {}", w.key_index(p.as_inner())),
        Descriptor::Wpkh(p) => format!("wpkh {}", w.key_index(p.as_inner())),
        Descriptor::Wsh(x) => format!("wsh {}", ast::dump_str(w, &x.as_inner().node)),
        Descriptor::Sh(s) => match s.as_inner() {
            ShInner::Wsh(x) => format!("sh-wsh {}", ast::dump_str(w, &x.as_inner().node)),
            ShInner::Wpkh(p) => format!("sh-wpkh {}", w.key_index(p.as_inner())),
            ShInner::Ms(m) => format!("sh {}", ast::dump_str(w, &m.node)),
        },
        Descriptor::Tr(t) => {
            let mut s = format!("tr {} {}", w.key_index(t.internal_key()), t.leaves().count());
            for l in t.leaves() {
                s.push_str(&format!(" leaf {} {}", l.depth(), ast::dump_str(w, &l.miniscript().node)));
            }
            s
        }
    }
}

fn tap_tree(leaves: &[Arc<Miniscript<Key, Tap>>], shape: u64) -> Option<TapTree<Key>> {
    // shape bits choose left-deep / right-deep / balanced combination
    // the harness never calls Miniscript::clone on its own account (it is one of the observed operations):
    // leaves are shared through Arc
    fn go(ls: &[Arc<Miniscript<Key, Tap>>], shape: u64) -> Option<TapTree<Key>> {
        if ls.len() == 1 {
            return Some(TapTree::leaf(Arc::clone(&ls[0])));
        }
        let split = match shape % 3 {
            0 => 1,
            1 => ls.len() - 1,
            _ => ls.len() / 2,
        }
        .max(1);
        let l = go(&ls[..split], shape / 3)?;
        let r = go(&ls[split..], shape / 3 + 1)?;
        TapTree::combine(l, r).ok()
    }
    if leaves.is_empty() {
        None
    } else {
        go(leaves, shape)
    }
}

fn run_desc(w: &World, seed: u64, nbase: usize) -> Dom<Descriptor<Key>> {
    let mut d: Dom<Descriptor<Key>> = Dom::new("desc");
    let mut rng = Rng(seed ^ 0xde5c);
    let seg = CtxInfo { tap: false, legacy_like: false, n_keys: 6 };
    let leg = CtxInfo { tap: false, legacy_like: true, n_keys: N_KEYS };
    let tapi = CtxInfo { tap: true, legacy_like: false, n_keys: 6 };
    let mut add = |d: &mut Dom<Descriptor<Key>>, x: Option<Descriptor<Key>>, kind: &str| -> Option<usize> {
        let x = x?;
        let dump = ddump(w, &x);
        Some(d.add(x, dump, true, kind))
    };
    for round in 0..nbase {
        let mut ids: Vec<usize> = Vec::new();
        // one segwit script and its thresh/multi neighbours under wsh, sh(wsh)
        let mut g = Gen::new(w, seed.wrapping_add(round as u64 * 7919), seg);
        if let Some(m) = g.gen::<Segwitv0>(B::B, 1 + rng.below(3) as u32) {
            let t = tree::from_terminal(w, false, &m.node);
            let mut variants = vec![t.clone()];
            variants.extend(neighbours(&t, 6).into_iter().filter(|(k, _)| arity_kind(k) || *k == "leaf-key").take(6).map(|x| x.1));
            for v in &variants {
                if let Some((m, true)) = tree::build::<Segwitv0>(w, false, v) {
                    if let Some(i) = add(&mut d, Descriptor::new_wsh(m).ok(), "wsh") {
                        ids.push(i);
                    }
                }
                if let Some((m, true)) = tree::build::<Segwitv0>(w, false, v) {
                    if let Some(i) = add(&mut d, Descriptor::new_sh_wsh(m).ok(), "sh-wsh") {
                        ids.push(i);
                    }
                }
            }
        }
        let mut g = Gen::new(w, seed.wrapping_add(round as u64 * 104729), leg);
        if let Some(m) = g.gen::<Legacy>(B::B, 1 + rng.below(2) as u32) {
            let t = tree::from_terminal(w, false, &m.node);
            let mut variants = vec![t.clone()];
            variants.extend(neighbours(&t, N_KEYS).into_iter().filter(|(k, _)| arity_kind(k)).take(4).map(|x| x.1));
            for v in &variants {
                if let Some((m, true)) = tree::build::<Legacy>(w, false, v) {
                    if let Some(i) = add(&mut d, Descriptor::new_sh(m).ok(), "sh") {
                        ids.push(i);
                    }
                }
                if let Some((m, true)) = tree::build::<BareCtx>(w, false, v) {
                    if let Some(i) = add(&mut d, Descriptor::new_bare(m).ok(), "bare") {
                        ids.push(i);
                    }
                }
            }
        }
        let k = rng.below(6) as usize;
        for x in [
            Descriptor::new_pkh(w.key(k, false)).ok(),
            Descriptor::new_wpkh(w.key(k, false)).ok(),
            Descriptor::new_sh_wpkh(w.key(k, false)).ok(),
            Descriptor::new_pkh(w.key((k + 1) % 6, false)).ok(),
        ] {
            if let Some(i) = add(&mut d, x, "single-key") {
                ids.push(i);
            }
        }
        // taproot: internal key, 0..4 leaves, tree shapes; leaf neighbours; same leaves at different depths
        let mut g = Gen::new(w, seed.wrapping_add(round as u64 * 15485863), tapi);
        let nl = rng.below(5) as usize;
        let mut leaves: Vec<Arc<Miniscript<Key, Tap>>> = Vec::new();
        for _ in 0..nl {
            if let Some(m) = g.gen::<Tap>(B::B, 1 + rng.below(2) as u32) {
                leaves.push(Arc::new(m));
            }
        }
        let ik = rng.below(6) as usize;
        let shape = rng.below(27);
        if let Some(i) = add(&mut d, Descriptor::new_tr(w.key(ik, true), tap_tree(&leaves, shape)).ok(), "tr") {
            ids.push(i);
        }
        if let Some(i) = add(&mut d, Descriptor::new_tr(w.key((ik + 1) % 6, true), tap_tree(&leaves, shape)).ok(), "tr-key") {
            ids.push(i);
        }
        if leaves.len() >= 3 {
            if let Some(i) = add(&mut d, Descriptor::new_tr(w.key(ik, true), tap_tree(&leaves, shape + 1)).ok(), "tr-shape") {
                ids.push(i);
            }
            let mut sw = leaves.clone();
            sw.swap(0, 1);
            if let Some(i) = add(&mut d, Descriptor::new_tr(w.key(ik, true), tap_tree(&sw, shape)).ok(), "tr-swap") {
                ids.push(i);
            }
        }
        if !leaves.is_empty() {
            if let Some(i) = add(&mut d, Descriptor::new_tr(w.key(ik, true), tap_tree(&leaves[..leaves.len() - 1], shape)).ok(), "tr-leaf-removed") {
                ids.push(i);
            }
            let t = tree::from_terminal(w, true, &leaves[0].node);
            for (_, v) in neighbours(&t, 6).into_iter().filter(|(k, _)| arity_kind(k) || *k == "leaf-key").take(4) {
                if let Some((m, true)) = tree::build::<Tap>(w, true, &v) {
                    let mut l2 = leaves.clone();
                    l2[0] = Arc::new(m);
                    if let Some(i) = add(&mut d, Descriptor::new_tr(w.key(ik, true), tap_tree(&l2, shape)).ok(), "tr-leaf-neighbour") {
                        ids.push(i);
                    }
                }
            }
        }
        ids.sort();
        ids.dedup();
        // all pairs inside the round's family (bounded), plus the set cardinalities
        let cl: Vec<usize> = ids.iter().cloned().take(14).collect();
        d.all_pairs(&cl);
        d.groups.push(ids);
    }
    mirror_family(w, &mut d);
    // directed family for the Hash tie: multi vs sortedmulti, k / arity of thresh and multi, the three kinds of sh,
    // tr without a tree / with a one-leaf tree / the same leaves in different shapes
    {
        let spk = |i: usize| T::un(Tg::Swap, T::pk(i));
        let mk = |tg: Tg, k: u32, keys: Vec<usize>| T { tg, num: k, keys, kids: vec![] };
        let th = |k: u32, kids: Vec<T>| T { tg: Tg::Thresh, num: k, keys: vec![], kids };
        let scripts: Vec<T> = vec![
            mk(Tg::Multi, 1, vec![0, 1]),
            mk(Tg::SortedMulti, 1, vec![0, 1]),
            mk(Tg::Multi, 2, vec![0, 1]),
            mk(Tg::SortedMulti, 2, vec![0, 1]),
            mk(Tg::Multi, 1, vec![0, 1, 2]),
            mk(Tg::Multi, 1, vec![1, 0]),
            th(1, vec![T::pk(0), spk(1)]),
            th(2, vec![T::pk(0), spk(1)]),
            th(1, vec![T::pk(0), spk(1), spk(2)]),
            T::pk(0),
        ];
        let mut ids = Vec::new();
        for t in &scripts {
            if let Some((m, true)) = tree::build::<Segwitv0>(w, false, t) {
                ids.extend(add(&mut d, Descriptor::new_wsh(m).ok(), "directed-wsh"));
            }
            if let Some((m, true)) = tree::build::<Segwitv0>(w, false, t) {
                ids.extend(add(&mut d, Descriptor::new_sh_wsh(m).ok(), "directed-sh-wsh"));
            }
            if let Some((m, true)) = tree::build::<Legacy>(w, false, t) {
                ids.extend(add(&mut d, Descriptor::new_sh(m).ok(), "directed-sh"));
            }
            if let Some((m, true)) = tree::build::<BareCtx>(w, false, t) {
                ids.extend(add(&mut d, Descriptor::new_bare(m).ok(), "directed-bare"));
            }
        }
        let tleaves: Vec<Arc<Miniscript<Key, Tap>>> = [
            T::pk(1),
            mk(Tg::MultiA, 1, vec![1, 2]),
            mk(Tg::SortedMultiA, 1, vec![1, 2]),
            mk(Tg::MultiA, 2, vec![1, 2]),
            T::pk(2),
            T::pk(3),
        ]
        .iter()
        .filter_map(|t| tree::build::<Tap>(w, true, t).and_then(|(m, ok)| if ok { Some(Arc::new(m)) } else { None }))
        .collect();
        ids.extend(add(&mut d, Descriptor::new_tr(w.key(0, true), None).ok(), "directed-tr-no-tree"));
        ids.extend(add(&mut d, Descriptor::new_tr(w.key(1, true), None).ok(), "directed-tr-no-tree"));
        for l in &tleaves {
            ids.extend(add(&mut d, Descriptor::new_tr(w.key(0, true), Some(TapTree::leaf(Arc::clone(l)))).ok(), "directed-tr-one-leaf"));
        }
        if tleaves.len() == 6 {
            let three = [tleaves[0].clone(), tleaves[4].clone(), tleaves[5].clone()];
            for shape in 0..3u64 {
                ids.extend(add(&mut d, Descriptor::new_tr(w.key(0, true), tap_tree(&three, shape)).ok(), "directed-tr-shape"));
            }
        }
        ids.sort();
        ids.dedup();
        d.all_pairs(&ids);
        d.groups.push(ids);
    }
    let n = d.vals.len();
    for _ in 0..(nbase * 4) {
        let (i, j, k) = (rng.below(n as u64) as usize, rng.below(n as u64) as usize, rng.below(n as u64) as usize);
        d.all_pairs(&[i, j, k]);
    }
    d
}

/// a full / chain-shaped tap tree over leaf indices, for the mirror-image family
#[derive(Clone)]
enum Shp {
    L(usize),
    N(Box<Shp>, Box<Shp>),
}
fn shp_full(depth: u32, next: &mut usize) -> Shp {
    if depth == 0 {
        *next += 1;
        Shp::L(*next - 1)
    } else {
        let l = shp_full(depth - 1, next);
        let r = shp_full(depth - 1, next);
        Shp::N(Box::new(l), Box::new(r))
    }
}
fn shp_chain(n: usize, from: usize) -> Shp {
    if n == 1 {
        Shp::L(from)
    } else {
        Shp::N(Box::new(Shp::L(from)), Box::new(shp_chain(n - 1, from + 1)))
    }
}
fn shp_mirror(s: &Shp) -> Shp {
    match s {
        Shp::L(i) => Shp::L(*i),
        Shp::N(l, r) => Shp::N(Box::new(shp_mirror(r)), Box::new(shp_mirror(l))),
    }
}
/// swap the two children of the node at depth `at` on the path that always takes the deeper (else left) child
fn shp_swap_at(s: &Shp, at: u32) -> Shp {
    fn depth(s: &Shp) -> u32 {
        match s {
            Shp::L(_) => 0,
            Shp::N(l, r) => 1 + depth(l).max(depth(r)),
        }
    }
    match s {
        Shp::L(i) => Shp::L(*i),
        Shp::N(l, r) => {
            if at == 0 {
                Shp::N(r.clone(), l.clone())
            } else if depth(r) > depth(l) {
                Shp::N(l.clone(), Box::new(shp_swap_at(r, at - 1)))
            } else {
                Shp::N(Box::new(shp_swap_at(l, at - 1)), r.clone())
            }
        }
    }
}
fn shp_tree(s: &Shp, leaves: &[Arc<Miniscript<Key, Tap>>]) -> Option<TapTree<Key>> {
    match s {
        Shp::L(i) => Some(TapTree::leaf(Arc::clone(&leaves[*i]))),
        Shp::N(l, r) => TapTree::combine(shp_tree(l, leaves)?, shp_tree(r, leaves)?).ok(),
    }
}

/// directed family: tr descriptors whose trees are mirror images of each other or differ by one swapped
/// sibling pair at depth 1, 2, 3 (BIP341 sorts sibling hashes: same merkle root, same output key), with equal
/// and different internal keys
fn mirror_family(w: &World, d: &mut Dom<Descriptor<Key>>) {
    let mut leaves: Vec<Arc<Miniscript<Key, Tap>>> = Vec::new();
    for i in 0..8usize {
        let t = if i < 6 {
            T::pk(i)
        } else {
            T::bin(Tg::AndV, T::un(Tg::Verify, T::pk(i - 6)), T::leaf(Tg::Older, i as u32))
        };
        if let Some((m, true)) = tree::build::<Tap>(w, true, &t) {
            leaves.push(Arc::new(m));
        }
    }
    if leaves.len() < 8 {
        return;
    }
    let mut shapes: Vec<(Shp, u32)> = Vec::new();
    for depth in 1..=3u32 {
        let mut n = 0;
        shapes.push((shp_full(depth, &mut n), depth));
    }
    shapes.push((shp_chain(4, 0), 3));
    shapes.push((shp_chain(3, 2), 2));
    for (base, depth) in &shapes {
        let mut fam: Vec<(String, Shp)> = vec![("tr-mirror-base".into(), base.clone()), ("tr-mirror".into(), shp_mirror(base))];
        for at in 0..*depth {
            fam.push((format!("tr-swap-depth{}", at + 1), shp_swap_at(base, at)));
        }
        let mut ids = Vec::new();
        for ik in [0usize, 1] {
            for (kind, s) in &fam {
                if let Some(x) = Descriptor::new_tr(w.key(ik, true), shp_tree(s, &leaves)).ok() {
                    let dump = ddump(w, &x);
                    ids.push(d.add(x, dump, true, kind));
                }
            }
        }
        ids.sort();
        ids.dedup();
        d.all_pairs(&ids);
        d.groups.push(ids);
    }
}

/// history (cache-state) observations on descriptor pairs, see the header comment
fn emit_history(w: &World, d: &Dom<Descriptor<Key>>, pats: &[Vec<String>]) {
    use std::str::FromStr;
    let reparse = |x: &Descriptor<Key>| -> Option<Descriptor<Key>> {
        let y = Descriptor::<Key>::from_str(&x.to_string()).ok()?;
        if ddump(w, &y) == ddump(w, x) {
            Some(y)
        } else {
            None
        }
    };
    let n = d.vals.len();
    let mut warm: Vec<Option<Descriptor<Key>>> = Vec::with_capacity(n);
    let mut wclone: Vec<Option<Descriptor<Key>>> = Vec::with_capacity(n);
    for x in &d.vals {
        let y = reparse(x).and_then(|y| {
            // fill the spend-info cache (Tr) the way callers do
            catch_unwind(AssertUnwindSafe(|| {
                let _ = y.script_pubkey();
                if let Descriptor::Tr(ref t) = y {
                    let _ = t.spend_info();
                }
            }))
            .ok()?;
            Some(y)
        });
        let c = y.as_ref().and_then(|y| catch_unwind(AssertUnwindSafe(|| y.clone())).ok());
        warm.push(y);
        wclone.push(c);
    }
    let b = |x: bool| if x { 1 } else { 0 };
    for i in 0..n {
        if let (Some(y), Some(c)) = (&warm[i], &wclone[i]) {
            let x = &d.vals[i];
            println!(
                "WV {} {} {} {} {} {} {} {} {}",
                d.name,
                i,
                c_eq(y, x),
                c_cmp(y, x),
                b(sip(y) == sip(x) && record(y) == record(x)),
                c_eq(c, x),
                c_eq(c, y),
                b(ddump(w, c) == d.dumps[i]),
                b(sip(c) == sip(x))
            );
            // the Hasher calls of the warmed value and of the clone of the warmed value (cache filled)
            // (only tr has a cache; the other kinds are covered by the `hash same` flags above)
            if d.dumps[i].starts_with("tr ") {
                println!("HW {} {} {}", d.name, i, abbreviate(&record(y), pats).join(" "));
                println!("HC {} {} {}", d.name, i, abbreviate(&record(c), pats).join(" "));
            }
        }
    }
    for &(i, j) in &d.pairs {
        if !(d.dumps[i].starts_with("tr ") && d.dumps[j].starts_with("tr ")) {
            continue;
        }
        let (xi, xj) = (&d.vals[i], &d.vals[j]);
        let states: [(&str, Option<&Descriptor<Key>>, Option<&Descriptor<Key>>); 5] = [
            ("LW", warm[i].as_ref(), Some(xj)),
            ("RW", Some(xi), warm[j].as_ref()),
            ("BW", warm[i].as_ref(), warm[j].as_ref()),
            ("CB", wclone[i].as_ref(), wclone[j].as_ref()),
            ("CF", wclone[i].as_ref(), Some(xj)),
        ];
        for (name, a, bb) in states {
            if let (Some(a), Some(bb)) = (a, bb) {
                println!("W {} {} {} {} {} {} {}", d.name, i, j, name, c_eq(a, bb), c_cmp(a, bb), b(sip(a) == sip(bb)));
            }
        }
    }
}

// ---------------------------------------------------------------- policies
fn cdump(w: &World, p: &Concrete<Key>) -> String {
    match p {
        Concrete::Unsatisfiable => "unsat".into(),
        Concrete::Trivial => "triv".into(),
        Concrete::Key(k) => format!("key {}", w.key_index(k)),
        Concrete::After(t) => format!("after {}", t.to_consensus_u32()),
        Concrete::Older(t) => format!("older {}", t.to_consensus_u32()),
        Concrete::Sha256(h) => format!("sha256 {}", hex(h.as_byte_array())),
        Concrete::Hash256(h) => format!("hash256 {}", hex(h.as_byte_array())),
        Concrete::Ripemd160(h) => format!("ripemd160 {}", hex(h.as_byte_array())),
        Concrete::Hash160(h) => format!("hash160 {}", hex(h.as_byte_array())),
        Concrete::And(v) => format!("and {} {}", v.len(), v.iter().map(|x| cdump(w, x)).collect::<Vec<_>>().join(" ")),
        Concrete::Or(v) => {
            format!("or {} {}", v.len(), v.iter().map(|(p, x)| format!("{}@ {}", p, cdump(w, x))).collect::<Vec<_>>().join(" "))
        }
        Concrete::Thresh(th) => {
            format!("thresh {} {} {}", th.k(), th.n(), th.iter().map(|x| cdump(w, x)).collect::<Vec<_>>().join(" "))
        }
    }
}
fn sdump(w: &World, p: &Semantic<Key>) -> String {
    match p {
        Semantic::Unsatisfiable => "unsat".into(),
        Semantic::Trivial => "triv".into(),
        Semantic::Key(k) => format!("key {}", w.key_index(k)),
        Semantic::After(t) => format!("after {}", t.to_consensus_u32()),
        Semantic::Older(t) => format!("older {}", t.to_consensus_u32()),
        Semantic::Sha256(h) => format!("sha256 {}", hex(h.as_byte_array())),
        Semantic::Hash256(h) => format!("hash256 {}", hex(h.as_byte_array())),
        Semantic::Ripemd160(h) => format!("ripemd160 {}", hex(h.as_byte_array())),
        Semantic::Hash160(h) => format!("hash160 {}", hex(h.as_byte_array())),
        Semantic::Thresh(th) => {
            format!("thresh {} {} {}", th.k(), th.n(), th.iter().map(|x| sdump(w, x)).collect::<Vec<_>>().join(" "))
        }
    }
}

/// plain mirror of a concrete policy for generation / mutation
#[derive(Clone, PartialEq, Debug)]
enum Pol {
    Unsat,
    Triv,
    Key(usize),
    After(u32),
    Older(u32),
    Sha(usize),
    H256(usize),
    Rip(usize),
    H160(usize),
    And(Vec<Pol>),
    Or(Vec<(usize, Pol)>),
    Thresh(usize, Vec<Pol>),
}

fn gen_pol(rng: &mut Rng, depth: u32) -> Pol {
    let leaf = depth == 0 || rng.chance(1, 3);
    if leaf {
        match rng.below(10) {
            0 => Pol::Unsat,
            1 => Pol::Triv,
            2 | 3 | 4 => Pol::Key(rng.below(6) as usize),
            5 => Pol::After(1 + rng.below(1000) as u32),
            6 => Pol::Older(1 + rng.below(1000) as u32),
            7 => Pol::Sha(rng.below(N_PRE as u64) as usize),
            8 => Pol::H256(rng.below(N_PRE as u64) as usize),
            _ => {
                if rng.chance(1, 2) {
                    Pol::Rip(rng.below(N_PRE as u64) as usize)
                } else {
                    Pol::H160(rng.below(N_PRE as u64) as usize)
                }
            }
        }
    } else {
        match rng.below(3) {
            0 => Pol::And((0..2).map(|_| gen_pol(rng, depth - 1)).collect()),
            1 => Pol::Or((0..2).map(|_| (1 + rng.below(3) as usize, gen_pol(rng, depth - 1))).collect()),
            _ => {
                let n = 1 + rng.below(4) as usize;
                let k = 1 + rng.below(n as u64) as usize;
                Pol::Thresh(k, (0..n).map(|_| gen_pol(rng, depth - 1)).collect())
            }
        }
    }
}

fn pol_neighbours(p: &Pol) -> Vec<(&'static str, Pol)> {
    let mut out = Vec::new();
    match p {
        Pol::Unsat => out.push(("leaf-swap", Pol::Triv)),
        Pol::Triv => out.push(("leaf-swap", Pol::Unsat)),
        Pol::Key(k) => out.push(("leaf-key", Pol::Key((k + 1) % 6))),
        Pol::After(t) => {
            out.push(("leaf-time", Pol::After(t + 1)));
            out.push(("leaf-kind", Pol::Older(*t)));
        }
        Pol::Older(t) => {
            out.push(("leaf-time", Pol::Older(t + 1)));
            out.push(("leaf-kind", Pol::After(*t)));
        }
        Pol::Sha(j) => {
            out.push(("leaf-hash", Pol::Sha((j + 1) % N_PRE)));
            out.push(("leaf-kind", Pol::H256(*j)));
        }
        Pol::H256(j) => out.push(("leaf-hash", Pol::H256((j + 1) % N_PRE))),
        Pol::Rip(j) => {
            out.push(("leaf-hash", Pol::Rip((j + 1) % N_PRE)));
            out.push(("leaf-kind", Pol::H160(*j)));
        }
        Pol::H160(j) => out.push(("leaf-hash", Pol::H160((j + 1) % N_PRE))),
        Pol::And(v) => {
            for (i, c) in v.iter().enumerate() {
                for (k, n) in pol_neighbours(c) {
                    let mut w = v.clone();
                    w[i] = n;
                    out.push((k, Pol::And(w)));
                }
            }
            let mut m = v.clone();
            m.push(Pol::Key(5));
            out.push(("child-added", Pol::And(m)));
            let mut s = v.clone();
            s.reverse();
            out.push(("swap-children", Pol::And(s)));
            out.push(("binary-kind", Pol::Or(v.iter().map(|c| (1, c.clone())).collect())));
            out.push(("binary-kind", Pol::Thresh(v.len(), v.clone())));
        }
        Pol::Or(v) => {
            for (i, (pr, c)) in v.iter().enumerate() {
                for (k, n) in pol_neighbours(c) {
                    let mut w = v.clone();
                    w[i] = (*pr, n);
                    out.push((k, Pol::Or(w)));
                }
                let mut w = v.clone();
                w[i] = (pr + 1, c.clone());
                out.push(("or-prob", Pol::Or(w)));
            }
            let mut s = v.clone();
            s.reverse();
            out.push(("swap-children", Pol::Or(s)));
            out.push(("binary-kind", Pol::Thresh(1, v.iter().map(|c| c.1.clone()).collect())));
        }
        Pol::Thresh(k, v) => {
            for (i, c) in v.iter().enumerate() {
                for (kd, n) in pol_neighbours(c) {
                    let mut w = v.clone();
                    w[i] = n;
                    out.push((kd, Pol::Thresh(*k, w)));
                }
            }
            if k + 1 <= v.len() {
                out.push(("k+1", Pol::Thresh(k + 1, v.clone())));
            }
            if *k > 1 {
                out.push(("k-1", Pol::Thresh(k - 1, v.clone())));
            }
            let mut m = v.clone();
            m.push(Pol::Key(5));
            out.push(("child-added", Pol::Thresh(*k, m)));
            if v.len() > 1 {
                out.push(("child-removed", Pol::Thresh((*k).min(v.len() - 1), v[..v.len() - 1].to_vec())));
                let mut s = v.clone();
                s.swap(0, 1);
                out.push(("swap-children", Pol::Thresh(*k, s)));
            }
        }
    }
    out
}

fn to_concrete(w: &World, p: &Pol) -> Option<Concrete<Key>> {
    Some(match p {
        Pol::Unsat => Concrete::Unsatisfiable,
        Pol::Triv => Concrete::Trivial,
        Pol::Key(k) => Concrete::Key(w.key(*k, false)),
        Pol::After(t) => Concrete::After(AbsLockTime::from_consensus(*t).ok()?),
        Pol::Older(t) => Concrete::Older(RelLockTime::from_consensus(*t).ok()?),
        Pol::Sha(j) => Concrete::Sha256(w.sha256_img(*j)),
        Pol::H256(j) => Concrete::Hash256(w.hash256_img(*j)),
        Pol::Rip(j) => Concrete::Ripemd160(w.ripemd160_img(*j)),
        Pol::H160(j) => Concrete::Hash160(w.hash160_img(*j)),
        Pol::And(v) => Concrete::And(v.iter().map(|c| to_concrete(w, c).map(Arc::new)).collect::<Option<Vec<_>>>()?),
        Pol::Or(v) => Concrete::Or(v.iter().map(|(p, c)| to_concrete(w, c).map(|x| (*p, Arc::new(x)))).collect::<Option<Vec<_>>>()?),
        Pol::Thresh(k, v) => {
            Concrete::Thresh(Threshold::new(*k, v.iter().map(|c| to_concrete(w, c).map(Arc::new)).collect::<Option<Vec<_>>>()?).ok()?)
        }
    })
}
fn to_semantic(w: &World, p: &Pol) -> Option<Semantic<Key>> {
    let th = |k: usize, v: Vec<&Pol>| -> Option<Semantic<Key>> {
        Some(Semantic::Thresh(Threshold::new(k, v.iter().map(|c| to_semantic(w, c).map(Arc::new)).collect::<Option<Vec<_>>>()?).ok()?))
    };
    Some(match p {
        Pol::Unsat => Semantic::Unsatisfiable,
        Pol::Triv => Semantic::Trivial,
        Pol::Key(k) => Semantic::Key(w.key(*k, false)),
        Pol::After(t) => Semantic::After(AbsLockTime::from_consensus(*t).ok()?),
        Pol::Older(t) => Semantic::Older(RelLockTime::from_consensus(*t).ok()?),
        Pol::Sha(j) => Semantic::Sha256(w.sha256_img(*j)),
        Pol::H256(j) => Semantic::Hash256(w.hash256_img(*j)),
        Pol::Rip(j) => Semantic::Ripemd160(w.ripemd160_img(*j)),
        Pol::H160(j) => Semantic::Hash160(w.hash160_img(*j)),
        Pol::And(v) => th(v.len(), v.iter().collect())?,
        Pol::Or(v) => th(1, v.iter().map(|c| &c.1).collect())?,
        Pol::Thresh(k, v) => th(*k, v.iter().collect())?,
    })
}

/// `Semantic` has no `Hash`; wrap it so the generic emitter applies (hash = hash of the dump, i.e. trivially consistent)
#[derive(Clone)]
struct SemH<Pk: miniscript::MiniscriptKey = Key>(Semantic<Pk>, String);
impl<Pk: miniscript::MiniscriptKey> PartialEq for SemH<Pk> {
    fn eq(&self, o: &Self) -> bool { self.0 == o.0 }
}
impl<Pk: miniscript::MiniscriptKey> Eq for SemH<Pk> {}
impl<Pk: miniscript::MiniscriptKey> PartialOrd for SemH<Pk> {
    fn partial_cmp(&self, o: &Self) -> Option<std::cmp::Ordering> { Some(self.cmp(o)) }
}
impl<Pk: miniscript::MiniscriptKey> Ord for SemH<Pk> {
    fn cmp(&self, o: &Self) -> std::cmp::Ordering { self.0.cmp(&o.0) }
}
impl<Pk: miniscript::MiniscriptKey> Hash for SemH<Pk> {
    fn hash<H: Hasher>(&self, s: &mut H) { self.1.hash(s) }
}

fn run_pol(w: &World, seed: u64, nbase: usize) -> (Dom<Concrete<Key>>, Dom<SemH>) {
    let mut dc: Dom<Concrete<Key>> = Dom::new("conc");
    let mut ds: Dom<SemH> = Dom::new("sem");
    let mut rng = Rng(seed ^ 0x9011c7);
    // directed families: odds of or(), relative lock times with BIP68-unused bits ("older-junk"), arities
    {
        let k = |i: usize| Pol::Key(i);
        let mut fam: Vec<Pol> = vec![
            Pol::Or(vec![(9, k(0)), (1, k(1))]),
            Pol::Or(vec![(1, k(0)), (9, k(1))]),
            Pol::Or(vec![(1, k(0)), (1, k(1))]),
            Pol::And(vec![k(2), Pol::Or(vec![(9, k(0)), (1, k(1))])]),
            Pol::And(vec![k(2), Pol::Or(vec![(1, k(0)), (9, k(1))])]),
            Pol::Thresh(1, vec![k(0), k(1)]),
            Pol::Thresh(2, vec![k(0), k(1)]),
            Pol::Thresh(1, vec![k(0), k(1), k(2)]),
            Pol::And(vec![k(0), k(1)]),
            Pol::And(vec![k(0), k(1), k(2)]),
        ];
        for n in [1u32, 2, 65537, 0x800001, 0x400005, 0x400001, 0x410001] {
            fam.push(Pol::Older(n));
            fam.push(Pol::Thresh(1, vec![Pol::Older(n), k(3)]));
        }
        for n in [1u32, 2, 499_999_999, 500_000_000, 500_000_001] {
            fam.push(Pol::After(n));
        }
        let (mut idc, mut ids) = (Vec::new(), Vec::new());
        for q in &fam {
            if let Some(c) = to_concrete(w, q) {
                let dump = cdump(w, &c);
                idc.push(dc.add(c, dump, true, "older-junk/odds corpus"));
            }
            if let Some(s) = to_semantic(w, q) {
                let dump = sdump(w, &s);
                ids.push(ds.add(SemH(s, dump.clone()), dump, true, "older-junk corpus"));
            }
        }
        idc.sort();
        idc.dedup();
        ids.sort();
        ids.dedup();
        dc.all_pairs(&idc);
        ds.all_pairs(&ids);
        dc.groups.push(idc);
        ds.groups.push(ids);
    }
    for _ in 0..nbase {
        let pd = 1 + rng.below(3) as u32;
        let p = gen_pol(&mut rng, pd);
        let mut fam = vec![("base", p.clone())];
        let mut nb = pol_neighbours(&p);
        while fam.len() < 14 && !nb.is_empty() {
            let i = rng.below(nb.len() as u64) as usize;
            fam.push(nb.swap_remove(i));
        }
        let mut idc = Vec::new();
        let mut ids = Vec::new();
        for (kind, q) in &fam {
            if let Some(c) = to_concrete(w, q) {
                let dump = cdump(w, &c);
                idc.push(dc.add(c, dump, true, kind));
            }
            if let Some(s) = to_semantic(w, q) {
                let dump = sdump(w, &s);
                ids.push(ds.add(SemH(s, dump.clone()), dump, true, kind));
            }
        }
        idc.sort();
        idc.dedup();
        ids.sort();
        ids.dedup();
        dc.all_pairs(&idc.iter().cloned().take(8).collect::<Vec<_>>());
        ds.all_pairs(&ids.iter().cloned().take(8).collect::<Vec<_>>());
        dc.groups.push(idc);
        ds.groups.push(ids);
    }
    // lifted policies of generated miniscripts join the semantic domain
    let seg = CtxInfo { tap: false, legacy_like: false, n_keys: 6 };
    let mut g = Gen::new(w, seed ^ 0x11f7, seg);
    let mut lifted = Vec::new();
    for _ in 0..nbase {
        if let Some(m) = g.gen::<Segwitv0>(B::B, 2) {
            if let Ok(s) = m.lift() {
                let dump = sdump(w, &s);
                lifted.push(ds.add(SemH(s, dump.clone()), dump, true, "lifted"));
            }
        }
    }
    for c in lifted.chunks(3) {
        ds.all_pairs(c);
    }
    let n = dc.vals.len();
    for _ in 0..(nbase * 4) {
        let (i, j, k) = (rng.below(n as u64) as usize, rng.below(n as u64) as usize, rng.below(n as u64) as usize);
        dc.all_pairs(&[i, j, k]);
    }
    let n = ds.vals.len();
    for _ in 0..(nbase * 4) {
        let (i, j, k) = (rng.below(n as u64) as usize, rng.below(n as u64) as usize, rng.below(n as u64) as usize);
        ds.all_pairs(&[i, j, k]);
    }
    (dc, ds)
}


// ---------------------------------------------------------------- a second (and third) key type
// The same generic code paths (`impl PartialEq/Ord/Hash for Terminal<Pk, Ctx>`, the derived impls of the descriptor
// and policy types) instantiated with `DescriptorPublicKey` (non-definite keys: wildcards, multipath, origins; its
// derived `Ord` is not its `Display` order) and with `String`.  A value of the second key type is obtained from a
// value over `Key` with `translate_pk` (world key i -> second-world key i) and is identified independently of the
// operations under test by translating it back and dumping it: the dump must be the original's.

use miniscript::descriptor::DescriptorPublicKey;

const XPUB_A: &str = "xpub6ERApfZwUNrhLCkDtcHTcxd75RbzS1ed54G1LkBUHQVHQKqhMkhgbmJbZRkrgZw4koxb5JaHWkY4ALHY2grBGRjaDMzQLcgJvLJuZZvRcEL";
const XPUB_B: &str = "xpub661MyMwAqRbcFtXgS5sYJABqqG9YLmC4Q1Rdap9gSE8NqtwybGhePY2gZ29ESFjqJoCu1Rupje8YtGqsefD265TMg7usUDFdp6W1EGMcet8";
const XPUB_C: &str = "xpub68Gmy5EdvgibQVfPdqkBBCHxA5htiqg55crXYuXoQRKfDBFA1WEjWgP6LHhwBZeNK1VTsfTFUHCdrfp1bgwQ9xv5ski8PX9rL2dZXvgGDnw";

/// the eight keys of the DescriptorPublicKey world, in the full-key flavour and in the flavour used inside tr()
fn dpk_world(w: &World, tap: bool) -> Vec<DescriptorPublicKey> {
    use std::str::FromStr;
    let single = |i: usize| -> String {
        if tap && i != 7 {
            format!("{}", w.pks[i].inner.x_only_public_key().0)
        } else if tap {
            let mut pk = w.pks[i];
            pk.compressed = true;
            format!("{}", pk)
        } else {
            format!("{}", w.pks[i])
        }
    };
    let v: Vec<String> = if !tap {
        vec![
            format!("[d34db33f/44'/0'/0']{}/1/*", XPUB_A),
            format!("{}/<0;1>/*", XPUB_A),
            format!("{}/0/*h", XPUB_B),
            XPUB_C.to_string(),
            format!("[aabbccdd/1/2]{}", single(4)),
            single(5),
            single(6),
            format!("[00000001/7h]{}", single(7)),
        ]
    } else {
        vec![
            format!("[d34db33f/86'/0'/0']{}/86/*", XPUB_A),
            format!("{}/<2;3>/*", XPUB_A),
            format!("{}/1/*h", XPUB_B),
            format!("{}/9", XPUB_C),
            format!("[aabbccdd/1/2]{}", single(4)),
            single(5),
            single(6),
            format!("[00000001/7h]{}", single(7)),
        ]
    };
    v.iter().map(|s| DescriptorPublicKey::from_str(s).expect("dpk world key")).collect()
}
fn str_world(tap: bool) -> Vec<String> {
    let v: [&str; N_KEYS] = if !tap { ["k5", "A", "zz", "k10", "k1", "B", "_", "k0"] } else { ["x3", "Xa", "x10", "x1", "y", "X", "x0", "xz"] };
    v.iter().map(|s| s.to_string()).collect()
}

/// rank of key i in the key type's own `Ord` (checked to be a strict total order on the world)
fn ranks_of<Q: Ord>(keys: &[Q]) -> Vec<usize> {
    let mut idx: Vec<usize> = (0..keys.len()).collect();
    idx.sort_by(|&a, &b| keys[a].cmp(&keys[b]));
    let mut r = vec![0; keys.len()];
    for (pos, &i) in idx.iter().enumerate() {
        r[i] = pos;
    }
    for a in 0..keys.len() {
        for b in 0..keys.len() {
            assert_eq!(keys[a].cmp(&keys[b]), r[a].cmp(&r[b]), "key order table");
            assert_eq!(keys[a] == keys[b], a == b, "world keys distinct");
        }
    }
    r
}

struct FwdDpk<'a>(&'a World, &'a [DescriptorPublicKey]);
impl<'a> miniscript::Translator<Key> for FwdDpk<'a> {
    type TargetPk = DescriptorPublicKey;
    type Error = ();
    fn pk(&mut self, k: &Key) -> Result<DescriptorPublicKey, ()> { Ok(self.1[self.0.key_index(k)].clone()) }
    fn sha256(&mut self, h: &bitcoin::hashes::sha256::Hash) -> Result<bitcoin::hashes::sha256::Hash, ()> { Ok(*h) }
    fn hash256(&mut self, h: &miniscript::hash256::Hash) -> Result<miniscript::hash256::Hash, ()> { Ok(*h) }
    fn ripemd160(&mut self, h: &bitcoin::hashes::ripemd160::Hash) -> Result<bitcoin::hashes::ripemd160::Hash, ()> { Ok(*h) }
    fn hash160(&mut self, h: &bitcoin::hashes::hash160::Hash) -> Result<bitcoin::hashes::hash160::Hash, ()> { Ok(*h) }
}
struct BackDpk<'a>(&'a World, &'a [DescriptorPublicKey], bool);
impl<'a> miniscript::Translator<DescriptorPublicKey> for BackDpk<'a> {
    type TargetPk = Key;
    type Error = ();
    fn pk(&mut self, k: &DescriptorPublicKey) -> Result<Key, ()> {
        let i = self.1.iter().position(|x| x == k).ok_or(())?;
        Ok(self.0.key(i, self.2))
    }
    fn sha256(&mut self, h: &bitcoin::hashes::sha256::Hash) -> Result<bitcoin::hashes::sha256::Hash, ()> { Ok(*h) }
    fn hash256(&mut self, h: &miniscript::hash256::Hash) -> Result<miniscript::hash256::Hash, ()> { Ok(*h) }
    fn ripemd160(&mut self, h: &bitcoin::hashes::ripemd160::Hash) -> Result<bitcoin::hashes::ripemd160::Hash, ()> { Ok(*h) }
    fn hash160(&mut self, h: &bitcoin::hashes::hash160::Hash) -> Result<bitcoin::hashes::hash160::Hash, ()> { Ok(*h) }
}
struct FwdStr<'a>(&'a World, &'a [String]);
impl<'a> miniscript::Translator<Key> for FwdStr<'a> {
    type TargetPk = String;
    type Error = ();
    fn pk(&mut self, k: &Key) -> Result<String, ()> { Ok(self.1[self.0.key_index(k)].clone()) }
    fn sha256(&mut self, h: &bitcoin::hashes::sha256::Hash) -> Result<String, ()> { Ok(h.to_string()) }
    fn hash256(&mut self, h: &miniscript::hash256::Hash) -> Result<String, ()> { Ok(h.to_string()) }
    fn ripemd160(&mut self, h: &bitcoin::hashes::ripemd160::Hash) -> Result<String, ()> { Ok(h.to_string()) }
    fn hash160(&mut self, h: &bitcoin::hashes::hash160::Hash) -> Result<String, ()> { Ok(h.to_string()) }
}
struct BackStr<'a>(&'a World, &'a [String], bool);
impl<'a> miniscript::Translator<String> for BackStr<'a> {
    type TargetPk = Key;
    type Error = ();
    fn pk(&mut self, k: &String) -> Result<Key, ()> {
        let i = self.1.iter().position(|x| x == k).ok_or(())?;
        Ok(self.0.key(i, self.2))
    }
    fn sha256(&mut self, h: &String) -> Result<bitcoin::hashes::sha256::Hash, ()> { std::str::FromStr::from_str(h).map_err(|_| ()) }
    fn hash256(&mut self, h: &String) -> Result<miniscript::hash256::Hash, ()> { std::str::FromStr::from_str(h).map_err(|_| ()) }
    fn ripemd160(&mut self, h: &String) -> Result<bitcoin::hashes::ripemd160::Hash, ()> { std::str::FromStr::from_str(h).map_err(|_| ()) }
    fn hash160(&mut self, h: &String) -> Result<bitcoin::hashes::hash160::Hash, ()> { std::str::FromStr::from_str(h).map_err(|_| ()) }
}

/// the domain `d` re-instantiated with another key type: values that translate and whose back-translation dumps
/// like the original; pairs and groups restricted to them
fn second<X, Y>(d: &Dom<X>, name: &str, fwd: &mut dyn FnMut(&X) -> Option<Y>, back_dump: &dyn Fn(&Y) -> Option<String>) -> Dom<Y> {
    let mut out: Dom<Y> = Dom::new(name);
    let mut map: Vec<Option<usize>> = vec![None; d.vals.len()];
    let mut dropped = 0;
    for (i, v) in d.vals.iter().enumerate() {
        let y = match catch_unwind(AssertUnwindSafe(|| fwd(v))) {
            Ok(Some(y)) => y,
            _ => {
                dropped += 1;
                continue;
            }
        };
        match catch_unwind(AssertUnwindSafe(|| back_dump(&y))) {
            Ok(Some(s)) if s == d.dumps[i] => {}
            _ => {
                dropped += 1;
                continue;
            }
        }
        map[i] = Some(out.add(y, d.dumps[i].clone(), d.oks[i], &d.kinds[i]));
    }
    for &(i, j) in &d.pairs {
        if let (Some(a), Some(b)) = (map[i], map[j]) {
            out.pair(a, b);
        }
    }
    for g in &d.groups {
        let ids: Vec<usize> = g.iter().filter_map(|&i| map[i]).collect();
        if ids.len() > 1 {
            out.groups.push(ids);
        }
    }
    println!("X {} translated {} dropped {}", name, out.vals.len(), dropped);
    out
}

macro_rules! second_ms {
    ($w:expr, $d:expr, $name:expr, $tap:expr, $Ctx:ty, $Q:ty, $Fwd:ident, $Back:ident, $keys:expr, $pats:expr, $stream:expr) => {{
        let keys = $keys;
        let d2: Dom<Miniscript<$Q, $Ctx>> = second(
            $d,
            $name,
            &mut |m: &Miniscript<Key, $Ctx>| m.translate_pk(&mut $Fwd($w, keys)).ok(),
            &|q: &Miniscript<$Q, $Ctx>| q.translate_pk(&mut $Back($w, keys, $tap)).ok().map(|b| ast::dump_str($w, &b.node)),
        );
        emit(
            &d2,
            &|q: &Miniscript<$Q, $Ctx>| q.translate_pk(&mut $Back($w, keys, $tap)).ok().map(|b| ast::dump_str($w, &b.node)).unwrap_or_default(),
            $pats,
            $stream,
        );
    }};
}

macro_rules! second_world {
    ($w:expr, $seed:expr, $sfx:expr, $Q:ty, $Fwd:ident, $Back:ident, $full:expr, $xo:expr, $stream:expr, $nms:expr, $ndesc:expr, $npol:expr, $max_nb:expr) => {{
        let w: &World = $w;
        let full: Vec<$Q> = $full;
        let xo: Vec<$Q> = $xo;
        let pf: Vec<Vec<String>> = full.iter().map(|k| record(k)).collect();
        let px: Vec<Vec<String>> = xo.iter().map(|k| record(k)).collect();
        let mut both = pf.clone();
        both.extend(px.clone());
        let rf = ranks_of(&full);
        let rx = ranks_of(&xo);
        let show = |r: &Vec<usize>| r.iter().map(|x| x.to_string()).collect::<Vec<_>>().join(" ");
        for name in ["bare", "legacy", "segv0"] {
            println!("K {}:{} {}", name, $sfx, show(&rf));
        }
        println!("K tap:{} {}", $sfx, show(&rx));
        let s = ($seed as u64).wrapping_mul(0x9E3779B97F4A7C15) ^ 0x2ec0;
        {
            let ci = CtxInfo { tap: false, legacy_like: true, n_keys: N_KEYS };
            let d = run_ctx::<BareCtx>(w, s, ci, "bare", $nms, $max_nb);
            second_ms!(w, &d, &format!("bare:{}", $sfx), false, BareCtx, $Q, $Fwd, $Back, &full[..], &pf, $stream);
            let d = run_ctx::<Legacy>(w, s.wrapping_add(1000003), ci, "legacy", $nms, $max_nb);
            second_ms!(w, &d, &format!("legacy:{}", $sfx), false, Legacy, $Q, $Fwd, $Back, &full[..], &pf, $stream);
            let ci = CtxInfo { tap: false, legacy_like: false, n_keys: 6 };
            let d = run_ctx::<Segwitv0>(w, s.wrapping_add(2000006), ci, "segv0", $nms, $max_nb);
            second_ms!(w, &d, &format!("segv0:{}", $sfx), false, Segwitv0, $Q, $Fwd, $Back, &full[..], &pf, $stream);
            let ci = CtxInfo { tap: true, legacy_like: false, n_keys: 6 };
            let d = run_ctx::<Tap>(w, s.wrapping_add(3000009), ci, "tap", $nms, $max_nb);
            second_ms!(w, &d, &format!("tap:{}", $sfx), true, Tap, $Q, $Fwd, $Back, &xo[..], &px, $stream);
        }
        {
            let is_tr = |d: &Descriptor<Key>| matches!(d, Descriptor::Tr(_));
            let is_tr2 = |d: &Descriptor<$Q>| matches!(d, Descriptor::Tr(_));
            let back = |q: &Descriptor<$Q>| -> Option<String> {
                let tap = is_tr2(q);
                q.translate_pk(&mut $Back(w, if tap { &xo[..] } else { &full[..] }, tap)).ok().map(|b| ddump(w, &b))
            };
            let dd = run_desc(w, s ^ 0xd, $ndesc);
            let d2: Dom<Descriptor<$Q>> = second(
                &dd,
                &format!("desc:{}", $sfx),
                &mut |d: &Descriptor<Key>| d.translate_pk(&mut $Fwd(w, if is_tr(d) { &xo[..] } else { &full[..] })).ok(),
                &back,
            );
            emit(&d2, &|q: &Descriptor<$Q>| back(q).unwrap_or_default(), &both, $stream);
        }
        {
            let (dc, ds) = run_pol(w, s ^ 0xb, $npol);
            let backc = |q: &Concrete<$Q>| q.translate_pk(&mut $Back(w, &full[..], false)).ok().map(|b| cdump(w, &b));
            let c2: Dom<Concrete<$Q>> =
                second(&dc, &format!("conc:{}", $sfx), &mut |p: &Concrete<Key>| p.translate_pk(&mut $Fwd(w, &full[..])).ok(), &backc);
            emit(&c2, &|q: &Concrete<$Q>| backc(q).unwrap_or_default(), &pf, $stream);
            let backs = |q: &SemH<$Q>| q.0.translate_pk(&mut $Back(w, &full[..], false)).ok().map(|b| sdump(w, &b));
            let s2: Dom<SemH<$Q>> = second(
                &ds,
                &format!("sem:{}", $sfx),
                &mut |p: &SemH<Key>| p.0.translate_pk(&mut $Fwd(w, &full[..])).ok().map(|q| SemH(q, p.1.clone())),
                &backs,
            );
            emit(&s2, &|q: &SemH<$Q>| backs(q).unwrap_or_default(), &[], false);
        }
    }};
}

fn run_second_keys(w: &World, seed: u64, thorough: bool) {
    let (nms, ndesc, npol, max_nb) = if thorough { (40, 30, 50, 16) } else { (8, 6, 10, 10) };
    second_world!(w, seed, "dpk", DescriptorPublicKey, FwdDpk, BackDpk, dpk_world(w, false), dpk_world(w, true), true, nms, ndesc, npol, max_nb);
    second_world!(w, seed, "str", String, FwdStr, BackStr, str_world(false), str_world(true), false, nms, ndesc, npol, max_nb);
}

pub fn run(args: &[String]) {
    // a panic of the harness itself (not of an observed operation) is reported with its message
    let r = catch_unwind(AssertUnwindSafe(|| run_inner(args)));
    if let Err(e) = r {
        let msg = e.downcast_ref::<String>().cloned().or_else(|| e.downcast_ref::<&str>().map(|s| s.to_string())).unwrap_or_default();
        eprintln!("eqord: harness panic: {}", msg);
        std::process::exit(3);
    }
}

/// replay: `eqord values <dom> <dump> -- <dump> ...`: the given values, all ordered pairs, one set group
fn run_values<Ctx: ScriptContext>(w: &World, ci: CtxInfo, dom: &str, dumps: &[String]) -> Dom<Miniscript<Key, Ctx>> {
    let mut d: Dom<Miniscript<Key, Ctx>> = Dom::new(dom);
    let mut ids = Vec::new();
    for dump in dumps {
        let tok: Vec<&str> = dump.split_whitespace().collect();
        let mut pos = 0;
        let t = tree::parse_dump(w, ci.tap, &tok, &mut pos).expect("replay: unparsable dump");
        let (m, ok) = tree::build::<Ctx>(w, ci.tap, &t).expect("replay: value cannot be built");
        let dd = ast::dump_str(w, &m.node);
        ids.push(d.add(m, dd, ok, "replay"));
    }
    d.all_pairs(&ids);
    d.groups.push(ids);
    d
}

fn run_inner(args: &[String]) {
    if args.first().map(|s| s.as_str()) == Some("values") {
        let w = World::new();
        let dom = args[1].as_str();
        let dumps: Vec<String> = args[2..].join(" ").split(" -- ").map(|s| s.trim().to_string()).filter(|s| !s.is_empty()).collect();
        let (tap, legacy_like, n_keys) = match dom {
            "tap" => (true, false, 6),
            "segv0" => (false, false, 6),
            _ => (false, true, N_KEYS),
        };
        let ci = CtxInfo { tap, legacy_like, n_keys };
        let keys: Vec<Key> = (0..N_KEYS).map(|i| w.key(i, tap)).collect();
        let mut idx: Vec<usize> = (0..N_KEYS).collect();
        idx.sort_by(|&a, &b| keys[a].cmp(&keys[b]));
        let mut r = vec![0; N_KEYS];
        for (pos, &i) in idx.iter().enumerate() {
            r[i] = pos;
        }
        for j in 0..N_PRE {
            println!("HB sha256_{} {}", j, hex(w.sha256_img(j).as_byte_array()));
            println!("HB hash256_{} {}", j, hex(w.hash256_img(j).as_byte_array()));
            println!("HB ripemd160_{} {}", j, hex(w.ripemd160_img(j).as_byte_array()));
            println!("HB hash160_{} {}", j, hex(w.hash160_img(j).as_byte_array()));
        }
        for i in 0..N_KEYS {
            println!("HB rawpkh_n_{} {}", i, hex(tree::raw_pkh(&w, i, false).as_byte_array()));
            println!("HB rawpkh_t_{} {}", i, hex(tree::raw_pkh(&w, i, true).as_byte_array()));
        }
        for name in ["bare", "legacy", "segv0", "tap"] {
            println!("K {} {}", name, r.iter().map(|x| x.to_string()).collect::<Vec<_>>().join(" "));
        }
        let p: Vec<Vec<String>> = (0..N_KEYS).map(|i| record(&w.key(i, tap))).collect();
        match dom {
            "bare" => emit(&run_values::<BareCtx>(&w, ci, dom, &dumps), &|m: &Miniscript<Key, BareCtx>| ast::dump_str(&w, &m.node), &p, true),
            "legacy" => emit(&run_values::<Legacy>(&w, ci, dom, &dumps), &|m: &Miniscript<Key, Legacy>| ast::dump_str(&w, &m.node), &p, true),
            "segv0" => emit(&run_values::<Segwitv0>(&w, ci, dom, &dumps), &|m: &Miniscript<Key, Segwitv0>| ast::dump_str(&w, &m.node), &p, true),
            _ => emit(&run_values::<Tap>(&w, ci, dom, &dumps), &|m: &Miniscript<Key, Tap>| ast::dump_str(&w, &m.node), &p, true),
        }
        return;
    }
    let seed: u64 = args.first().and_then(|s| s.parse().ok()).unwrap_or(1);
    let thorough = std::env::var("VERIF_TIER").map(|t| t == "thorough").unwrap_or(false);
    let nbase = if thorough { 160 } else { 36 };
    let max_nb = if thorough { 30 } else { 22 };
    let w = World::new();

    // byte strings the dumps refer to
    for j in 0..N_PRE {
        println!("HB sha256_{} {}", j, hex(w.sha256_img(j).as_byte_array()));
        println!("HB hash256_{} {}", j, hex(w.hash256_img(j).as_byte_array()));
        println!("HB ripemd160_{} {}", j, hex(w.ripemd160_img(j).as_byte_array()));
        println!("HB hash160_{} {}", j, hex(w.hash160_img(j).as_byte_array()));
    }
    for i in 0..N_KEYS {
        println!("HB rawpkh_n_{} {}", i, hex(tree::raw_pkh(&w, i, false).as_byte_array()));
        println!("HB rawpkh_t_{} {}", i, hex(tree::raw_pkh(&w, i, true).as_byte_array()));
    }
    let rank = |tap: bool| -> Vec<usize> {
        let keys: Vec<Key> = (0..N_KEYS).map(|i| w.key(i, tap)).collect();
        let mut idx: Vec<usize> = (0..N_KEYS).collect();
        idx.sort_by(|&a, &b| keys[a].cmp(&keys[b]));
        let mut r = vec![0; N_KEYS];
        for (pos, &i) in idx.iter().enumerate() {
            r[i] = pos;
        }
        // the key order must be a strict total order on the world (sanity of the supplied table)
        for a in 0..N_KEYS {
            for b in 0..N_KEYS {
                assert_eq!(keys[a].cmp(&keys[b]), r[a].cmp(&r[b]), "key order table");
                assert_eq!(keys[a] == keys[b], a == b, "world keys distinct");
            }
        }
        r
    };
    let pats = |tap: bool| -> Vec<Vec<String>> { (0..N_KEYS).map(|i| record(&w.key(i, tap))).collect() };
    let doms: [(&str, bool, bool, usize); 4] =
        [("bare", false, true, N_KEYS), ("legacy", false, true, N_KEYS), ("segv0", false, false, 6), ("tap", true, false, 6)];
    for (ci_idx, (name, tap, legacy_like, n_keys)) in doms.iter().enumerate() {
        let r = rank(*tap);
        println!("K {} {}", name, r.iter().map(|x| x.to_string()).collect::<Vec<_>>().join(" "));
        let ci = CtxInfo { tap: *tap, legacy_like: *legacy_like, n_keys: *n_keys };
        let s = seed.wrapping_mul(0x9E3779B97F4A7C15).wrapping_add(ci_idx as u64 * 1000003);
        let p = pats(*tap);
        match ci_idx {
            0 => {
                let d = run_ctx::<BareCtx>(&w, s, ci, name, nbase, max_nb);
                emit(&d, &|m: &Miniscript<Key, BareCtx>| ast::dump_str(&w, &m.node), &p, true)
            }
            1 => {
                let d = run_ctx::<Legacy>(&w, s, ci, name, nbase, max_nb);
                emit(&d, &|m: &Miniscript<Key, Legacy>| ast::dump_str(&w, &m.node), &p, true)
            }
            2 => {
                let d = run_ctx::<Segwitv0>(&w, s, ci, name, nbase, max_nb);
                emit(&d, &|m: &Miniscript<Key, Segwitv0>| ast::dump_str(&w, &m.node), &p, true)
            }
            _ => {
                let d = run_ctx::<Tap>(&w, s, ci, name, nbase, max_nb);
                emit(&d, &|m: &Miniscript<Key, Tap>| ast::dump_str(&w, &m.node), &p, true)
            }
        }
    }
    let dd = run_desc(&w, seed, if thorough { 120 } else { 30 });
    let mut both = pats(false);
    both.extend(pats(true));
    emit(&dd, &|x: &Descriptor<Key>| ddump(&w, x), &both, true);
    emit_history(&w, &dd, &both);
    let (dc, ds) = run_pol(&w, seed, if thorough { 200 } else { 50 });
    emit(&dc, &|x: &Concrete<Key>| cdump(&w, x), &pats(false), true);
    emit(&ds, &|x: &SemH| sdump(&w, &x.0), &[], false);
    run_second_keys(&w, seed, thorough);
}
