//! `opsdir` engine (C09): a DIRECTED, deterministic stream of Segwitv0 scripts in which a CHECKMULTISIG
//! sits on a path that not every satisfaction takes (multi / sortedmulti below or_i, or_d, or_b, andor,
//! thresh, j:, and_v, ...), i.e. outside the class in which the executed-opcode surcharge of a multi is the
//! same on every path. Output: sat-engine protocol blocks (CASE/DESC/MS/SCRIPT/EXT/SPK/TX/SIG/RUN/END) read
//! by ocaml/driver_ext, which executes every satisfaction the library returns on the extracted `exec_tr`
//! and compares the measured executed-opcode count with `static_ops + max_exec_op_count`.
//! Asset subsets: every subset of the script's keys when it has <= 5 distinct keys, otherwise all / none /
//! 30 splitmix64 subsets; preimage available / not available when a hash occurs; each lock environment;
//! both satisfier modes (get_satisfaction, get_satisfaction_mall).
//! args: [stride] (take every stride-th script of the enumeration; default 1 = all).
use crate::ast::*;
use crate::ext::ext_str;
use crate::sat::{ecdsa_sig, sign_case, spend_tx, world_header, Assets, Case, Sigs, TxEnv};
use bitcoin::{absolute, Amount, Sequence};
use miniscript::{Descriptor, Miniscript, Segwitv0, Terminal};
use std::collections::BTreeSet;
use std::fmt::Write as _;
use std::panic::{catch_unwind, AssertUnwindSafe};

const MULTIS: &[&str] = &[
    "multi(1,K0,K1)",
    "multi(2,K0,K1)",
    "multi(1,K2,K3,K4)",
    "multi(2,K2,K3,K4)",
    "multi(3,K1,K2,K3,K4)",
    "multi(1,K5)",
    "multi(2,K0,K2,K4,K5)",
    "sortedmulti(2,K1,K3,K0)",
    "multi(1,K0,K1,K2,K3,K4)",
];

/// the enumeration of directed scripts (strings over K0..K5 and (H) = sha256 image 0), in a fixed order
pub fn scripts() -> Vec<(String, &'static str)> {
    let m = MULTIS;
    let n = m.len();
    let mut v: Vec<(String, &'static str)> = Vec::new();
    let mut add = |s: String, shape: &'static str| v.push((s, shape));
    for i in 0..n {
        let a = m[i];
        let kx = format!("pk(K{})", (i * 2 + 1) % 6);
        let ky = format!("pk(K{})", (i + 3) % 6);
        // one multi next to a key / a constant
        add(format!("or_i({},{})", a, kx), "or_i(multi,pk)");
        add(format!("or_i({},{})", kx, a), "or_i(pk,multi)");
        add(format!("or_d({},{})", a, kx), "or_d(multi,pk)");
        add(format!("or_d({},{})", kx, a), "or_d(pk,multi)");
        add(format!("or_b({},s:{})", a, kx), "or_b(multi,s:pk)");
        add(format!("or_b({},a:{})", kx, a), "or_b(pk,a:multi)");
        add(format!("and_v(v:{},or_i({},0))", kx, a), "and_v(v:pk,or_i(multi,0))");
        add(format!("and_v(v:{},or_i(0,{}))", kx, a), "and_v(v:pk,or_i(0,multi))");
        add(format!("or_i(and_v(v:{},{}),{})", kx, a, ky), "or_i(and_v(v:pk,multi),pk)");
        add(format!("or_i(and_v(v:older(1),{}),{})", a, ky), "or_i(and_v(v:older,multi),pk)");
        add(format!("or_i(and_v(v:sha256(H),{}),{})", a, ky), "or_i(and_v(v:sha256,multi),pk)");
        add(format!("andor({},{},{})", kx, a, ky), "andor(pk,multi,pk)");
        add(format!("andor({},{},{})", kx, ky, a), "andor(pk,pk,multi)");
        add(format!("andor({},{},{})", a, kx, ky), "andor(multi,pk,pk)");
        add(format!("andor({},sha256(H),{})", a, ky), "andor(multi,sha256,pk)");
        add(format!("thresh(1,{},s:{},s:{})", a, kx, ky), "thresh(1,multi,s:pk,s:pk)");
        add(format!("thresh(2,{},s:{},s:{})", a, kx, ky), "thresh(2,multi,s:pk,s:pk)");
        add(format!("thresh(1,{},a:{})", kx, a), "thresh(1,pk,a:multi)");
        add(format!("or_b({},sdv:older(1))", a), "or_b(multi,sdv:older)");
        add(format!("or_b(dv:older(1),a:{})", a), "or_b(dv:older,a:multi)");
        add(format!("or_b(j:{},s:{})", a, kx), "or_b(j:multi,s:pk)");
        add(format!("or_d(j:{},{})", a, kx), "or_d(j:multi,pk)");
        add(format!("or_i(j:{},{})", a, kx), "or_i(j:multi,pk)");
        add(format!("or_b(or_i({},0),s:{})", a, kx), "or_b(or_i(multi,0),s:pk)");
        add(format!("or_b({},a:or_i(0,{}))", kx, a), "or_b(pk,a:or_i(0,multi))");
        add(format!("and_v(or_c({},v:{}),{})", a, kx, ky), "and_v(or_c(multi,v:pk),pk)");
        add(format!("and_v(or_c({},v:{}),{})", kx, a, ky), "and_v(or_c(pk,v:multi),pk)");
        add(format!("or_i(or_i({},0),or_i(0,{}))", a, kx), "or_i(or_i(multi,0),or_i(0,pk))");
        add(format!("or_i(dv:older(1),{})", a), "or_i(dv:older,multi)");
        add(format!("or_i(and_b({},s:{}),{})", a, kx, ky), "or_i(and_b(multi,s:pk),pk)");
        for j in 0..n {
            if j == i {
                continue;
            }
            let b = m[j];
            // two multis with different n on alternative / conditional paths
            add(format!("or_i({},{})", a, b), "or_i(multi,multi)");
            add(format!("or_d({},{})", a, b), "or_d(multi,multi)");
            add(format!("or_b({},a:{})", a, b), "or_b(multi,a:multi)");
            if (i + j) % 2 == 0 {
                add(format!("and_v(v:{},{})", a, b), "and_v(v:multi,multi)");
                add(format!("and_b({},a:{})", a, b), "and_b(multi,a:multi)");
                add(format!("thresh(1,{},a:{},s:{})", a, b, kx), "thresh(1,multi,a:multi,s:pk)");
                add(format!("thresh(2,{},a:{},s:{})", a, b, kx), "thresh(2,multi,a:multi,s:pk)");
                add(format!("thresh(3,{},a:{},s:{})", a, b, kx), "thresh(3,multi,a:multi,s:pk)");
                add(format!("andor({},{},{})", kx, a, b), "andor(pk,multi,multi)");
                add(format!("or_b(j:{},a:{})", a, b), "or_b(j:multi,a:multi)");
                add(format!("or_b({},aj:{})", a, b), "or_b(multi,aj:multi)");
                add(format!("thresh(1,j:{},aj:{})", a, b), "thresh(1,j:multi,aj:multi)");
                add(format!("or_d({},and_v(v:{},{}))", a, b, kx), "or_d(multi,and_v(v:multi,pk))");
                add(format!("and_v(or_c({},v:{}),{})", a, b, kx), "and_v(or_c(multi,v:multi),pk)");
                add(format!("or_i(and_v(v:{},{}),{})", a, kx, b), "or_i(and_v(v:multi,pk),multi)");
                add(format!("and_v(v:or_i({},{}),{})", a, b, kx), "and_v(v:or_i(multi,multi),pk)");
                add(format!("or_b(or_i({},0),a:or_i(0,{}))", a, b), "or_b(or_i(multi,0),a:or_i(0,multi))");
                add(format!("thresh(1,or_i({},0),a:or_i(0,{}),s:{})", a, b, kx), "thresh(1,or_i(multi,0),a:or_i(0,multi),s:pk)");
                add(format!("or_d({},or_i({},and_v(v:after(100),{})))", a, b, kx), "or_d(multi,or_i(multi,and_v(v:after,pk)))");
            }
            let c = m[(i + j + 1) % n];
            if c != a && c != b && (i * 3 + j) % 4 == 0 {
                add(format!("or_i({},or_i({},{}))", a, b, c), "or_i(multi,or_i(multi,multi))");
                add(format!("or_i(or_i({},{}),{})", a, b, c), "or_i(or_i(multi,multi),multi)");
                add(format!("andor({},{},{})", a, b, c), "andor(multi,multi,multi)");
                add(format!("thresh(1,{},a:{},a:{})", a, b, c), "thresh(1,multi,a:multi,a:multi)");
                add(format!("thresh(2,{},a:{},a:{})", a, b, c), "thresh(2,multi,a:multi,a:multi)");
                add(format!("or_d({},or_d({},{}))", a, b, c), "or_d(multi,or_d(multi,multi))");
                add(format!("or_b({},a:or_d({},{}))", a, b, c), "or_b(multi,a:or_d(multi,multi))");
                add(format!("andor(or_i({},0),{},{})", a, b, c), "andor(or_i(multi,0),multi,multi)");
            }
        }
    }
    let mut seen = BTreeSet::new();
    v.retain(|(s, _)| seen.insert(s.clone()));
    v
}

fn parse(w: &World, s: &str) -> Result<Miniscript<Key, Segwitv0>, String> {
    let mut t = s.to_string();
    for i in (0..N_KEYS).rev() {
        t = t.replace(&format!("K{}", i), &format!("{}", w.key(i, false)));
    }
    t = t.replace("(H)", &format!("({})", w.sha256_img(0)));
    Miniscript::<Key, Segwitv0>::from_str_insane(&t).map_err(|e| format!("{:?}", e).split('(').next().unwrap_or("").to_string())
}

fn case_of(w: &World, m: Miniscript<Key, Segwitv0>) -> Option<(Case, bool)> {
    let mut keys = Vec::new();
    let mut abs = Vec::new();
    let mut rel = Vec::new();
    let mut hashes = false;
    for k in m.iter_pk() {
        let i = w.key_index(&k);
        if !keys.contains(&i) {
            keys.push(i);
        }
    }
    for x in m.iter() {
        match x.node {
            Terminal::After(t) => abs.push(t.to_consensus_u32()),
            Terminal::Older(t) => rel.push(t.to_consensus_u32()),
            Terminal::Sha256(..) | Terminal::Hash256(..) | Terminal::Ripemd160(..) | Terminal::Hash160(..) => hashes = true,
            _ => {}
        }
    }
    keys.sort();
    let ext_s = ext_str(&m.ext);
    let dump = (dump_str(w, &m.node), m.encode().into_bytes());
    let desc = Descriptor::new_wsh(m).ok()?;
    Some((Case { desc, kind: "wsh", ms_dump: vec![dump], exts: vec![ext_s], keys, abs, rel, internal: None }, hashes))
}

fn masks_of(c: &Case, rng: &mut Rng) -> Vec<u32> {
    let nk = c.keys.len();
    let bits = |sub: u32| c.keys.iter().enumerate().fold(0u32, |a, (b, &k)| if sub & (1 << b) != 0 { a | (1 << k) } else { a });
    let mut out = Vec::new();
    if nk <= 5 {
        for sub in 0..(1u32 << nk) {
            out.push(bits(sub));
        }
    } else {
        out.push(bits((1 << nk) - 1));
        out.push(0);
        for _ in 0..30 {
            let m = bits(rng.below(1 << nk) as u32);
            if !out.contains(&m) {
                out.push(m);
            }
        }
    }
    out
}

fn emit(w: &World, c: &Case, hashes: bool, shape: &str, text: &str, env: &TxEnv, id: u64, rng: &mut Rng, out: &mut String) {
    let spk = c.desc.script_pubkey();
    let value = Amount::from_sat(100_000);
    let (tx, lock, seq) = spend_tx(env);
    writeln!(out, "CASE {} {} sane=0", id, c.kind).unwrap();
    writeln!(out, "DESC {}", c.desc).unwrap();
    writeln!(out, "OPSDIR shape={} keys={} text={}", shape, c.keys.len(), text).unwrap();
    for (d, sbytes) in c.ms_dump.iter() {
        writeln!(out, "MS {}", d).unwrap();
        writeln!(out, "SCRIPT {}", hex(sbytes)).unwrap();
    }
    for e in c.exts.iter() {
        writeln!(out, "EXT {}", e).unwrap();
    }
    writeln!(out, "SPK {}", hex(spk.as_bytes())).unwrap();
    writeln!(out, "TX 2 {} {}", lock, seq).unwrap();
    let Sigs { ecdsa, tapleaf, tapkey, cbmap } = sign_case(w, c, &tx, value, &spk, &ecdsa_sig, out);
    for (i, sig) in ecdsa.iter() {
        writeln!(out, "SIG {} {}", i, hex(&sig.to_vec())).unwrap();
    }
    let premasks: &[u32] = if hashes { &[(1 << N_PRE) - 1, 0] } else { &[(1 << N_PRE) - 1] };
    for km in masks_of(c, rng) {
        for &pm in premasks {
            let assets = Assets {
                w,
                keymask: km,
                premask: pm,
                lock_time: env.lock_time.map(absolute::LockTime::from_consensus),
                sequence: env.sequence.map(Sequence),
                ecdsa: &ecdsa,
                tapleaf: &tapleaf,
                tapkey,
                internal_idx: None,
                cbmap: cbmap.as_ref(),
            };
            for mall in [false, true] {
                let r = catch_unwind(AssertUnwindSafe(|| if mall { c.desc.get_satisfaction_mall(&assets) } else { c.desc.get_satisfaction(&assets) }));
                let mode = if mall { "mall" } else { "nonmall" };
                match r {
                    Err(_) => writeln!(out, "RUN {} {} {} PANIC", mode, km, pm).unwrap(),
                    Ok(Err(_)) => writeln!(out, "RUN {} {} {} ERR", mode, km, pm).unwrap(),
                    Ok(Ok((wit, ssig))) => {
                        let mut l = format!("RUN {} {} {} OK {}", mode, km, pm, wit.len());
                        for it in wit.iter() {
                            l.push(' ');
                            l.push_str(&hex(it));
                        }
                        l.push_str(" S ");
                        l.push_str(&hex(ssig.as_bytes()));
                        writeln!(out, "{}", l).unwrap();
                    }
                }
            }
        }
    }
    writeln!(out, "END").unwrap();
}

pub fn run(args: &[String]) {
    let stride: usize = args.first().and_then(|s| s.parse().ok()).unwrap_or(1).max(1);
    let only: Option<&String> = args.get(1);
    let w = World::new();
    print!("{}", world_header(&w));
    let mut rng = Rng(0x0905_d1c7);
    let mut id = 0u64;
    for (idx, (s, shape)) in scripts().into_iter().enumerate() {
        if idx % stride != 0 || only.map(|o| o != &s).unwrap_or(false) {
            continue;
        }
        let m = match catch_unwind(AssertUnwindSafe(|| parse(&w, &s))) {
            Ok(Ok(m)) => m,
            Ok(Err(e)) => {
                println!("XREJ {} {} {}", shape, e, s);
                continue;
            }
            Err(_) => {
                println!("XPANIC parse {} {}", shape, s);
                continue;
            }
        };
        let (case, hashes) = match case_of(&w, m) {
            Some(x) => x,
            None => {
                println!("XREJ {} wsh {}", shape, s);
                continue;
            }
        };
        // lock environments: none; every lock of the script met (if it has one)
        let mut envs = vec![TxEnv { lock_time: None, sequence: None }];
        if !case.abs.is_empty() || !case.rel.is_empty() {
            envs.push(TxEnv { lock_time: case.abs.iter().max().cloned(), sequence: case.rel.iter().max().cloned() });
        }
        for env in envs {
            id += 1;
            let mut o = String::new();
            if catch_unwind(AssertUnwindSafe(|| emit(&w, &case, hashes, shape, &s, &env, id, &mut rng, &mut o))).is_err() {
                println!("END");
                println!("XPANIC emit {} {}", shape, s);
                continue;
            }
            print!("{}", o);
        }
    }
    println!("DONE opsdir");
}
