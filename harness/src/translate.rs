//! `translate` engine (C20): `translate_pk` of Miniscript / Descriptor / policies under several kinds of
//! key mappings, and the key iterators. Prints raw observations; judging and the comparison with the
//! Coq model are done by tools/props/c20.py and coq/Tables/TranslateCases*.v.
//!
//! Key universe of a domain: indices 0..7 are the World's keys in the form the context uses
//! (x-only in tap), 100+j are fresh target keys: j 0..5 compressed, 6..7 uncompressed, 8..13 x-only.
//!
//! Output lines (fields separated by " | "):
//!   KU | dom | idx:kind ...                       kind: c(ompressed) u(ncompressed) x(only)
//!   M  | mapid | name | fp as 8 entries (target index or -) | fail-at call index or -
//!   V  | dom | vid | dump
//!   I  | dom | vid | iter_pk | for_each_key visit order | keys scanned from the Display string | for_any_key(first key)
//!      | short-circuit: j : result : visited      (predicate false exactly on the j-th key of iter_pk)
//!   C  | dom | vid | 1/0/both-fail              translate(rename) then translate(shift) == translate(shift . rename)
//!   T  | dom | vid | mapid | result | calls | type kept | script = byte-level substitution | translated == original
//!      | length of the byte-level substitution of the original script (- if a key is unmapped)
//!      result: OK <dump> / ET <call index> / EO <class> / PANIC
use crate::ast::{self, hex, CtxInfo, Gen, Key, Rng, World, B, N_KEYS, N_PRE};
use crate::tree::{self, Tg, T};
use bitcoin::hashes::{hash160, ripemd160, sha256, Hash};
use bitcoin::script::{Builder, Instruction, PushBytesBuf};
use bitcoin::secp256k1::{Secp256k1, SecretKey};
use bitcoin::ScriptBuf;
use miniscript::descriptor::{ShInner, TapTree};
use miniscript::miniscript::ScriptContext;
use miniscript::policy::{Concrete, Liftable, Semantic};
use miniscript::translate_hash_clone;
use miniscript::{
    hash256, AbsLockTime, BareCtx, Descriptor, ForEachKey, Legacy, Miniscript, MiniscriptKey, RelLockTime, Segwitv0, Tap, Terminal,
    Threshold, ToPublicKey, TranslateErr, Translator,
};
use std::collections::HashMap;
use std::panic::{catch_unwind, AssertUnwindSafe};
use std::str::FromStr;
use std::sync::Arc;

pub const N_TGT: usize = 14;

/// the key universe of one domain
pub struct KeyU {
    pub keys: Vec<(usize, Key, char, Vec<u8>)>, // (index, key, kind, bytes pushed in a script of this domain)
    pub by_str: HashMap<String, usize>,
}

impl KeyU {
    pub fn new(w: &World, tap: bool) -> KeyU {
        let secp = Secp256k1::new();
        let mut keys = Vec::new();
        for i in 0..N_KEYS {
            let k = w.key(i, tap);
            let kind = if tap { 'x' } else if i < 6 { 'c' } else { 'u' };
            keys.push((i, k, kind, w.key_bytes(i, tap)));
        }
        for j in 0..N_TGT {
            let h = sha256::Hash::hash(format!("verif target key {}", j).as_bytes());
            let sk = SecretKey::from_slice(h.as_byte_array()).unwrap();
            let pk = bitcoin::secp256k1::PublicKey::from_secret_key(&secp, &sk);
            let (s, kind) = if j < 6 {
                (format!("{}", bitcoin::PublicKey { inner: pk, compressed: true }), 'c')
            } else if j < 8 {
                (format!("{}", bitcoin::PublicKey { inner: pk, compressed: false }), 'u')
            } else {
                (format!("{}", pk.x_only_public_key().0), 'x')
            };
            let k = Key::from_str(&s).unwrap();
            // what a script of this domain pushes for the key
            let bytes = if tap { k.to_x_only_pubkey().serialize().to_vec() } else { k.to_public_key().to_bytes() };
            keys.push((100 + j, k, kind, bytes));
        }
        let by_str = keys.iter().map(|(i, k, _, _)| (k.to_string(), *i)).collect();
        KeyU { keys, by_str }
    }
    pub fn key(&self, idx: usize) -> Key { self.keys.iter().find(|k| k.0 == idx).expect("key index").1.clone() }
    pub fn index(&self, k: &Key) -> usize { *self.by_str.get(&k.to_string()).expect("key of the universe") }
    pub fn bytes(&self, idx: usize) -> Vec<u8> { self.keys.iter().find(|k| k.0 == idx).unwrap().3.clone() }
}

/// generic dump (format of ast::dump_str) with a caller-supplied key naming
pub fn gdump<Pk, Ctx>(t: &Terminal<Pk, Ctx>, kn: &dyn Fn(&Pk) -> String, out: &mut Vec<String>)
where
    Pk: MiniscriptKey<Sha256 = sha256::Hash, Hash256 = hash256::Hash, Ripemd160 = ripemd160::Hash, Hash160 = hash160::Hash>,
    Ctx: ScriptContext,
{
    let mut un = |n: &str, x: &Arc<Miniscript<Pk, Ctx>>, out: &mut Vec<String>| {
        out.push(n.into());
        gdump(&x.node, kn, out)
    };
    match t {
        Terminal::True => out.push("1".into()),
        Terminal::False => out.push("0".into()),
        Terminal::PkK(k) => {
            out.push("pk_k".into());
            out.push(kn(k))
        }
        Terminal::PkH(k) => {
            out.push("pk_h".into());
            out.push(kn(k))
        }
        Terminal::RawPkH(h) => {
            out.push("raw_pk_h".into());
            out.push(hex(h.as_byte_array()))
        }
        Terminal::After(t) => {
            out.push("after".into());
            out.push(t.to_consensus_u32().to_string())
        }
        Terminal::Older(t) => {
            out.push("older".into());
            out.push(t.to_consensus_u32().to_string())
        }
        Terminal::Sha256(h) => {
            out.push("sha256".into());
            out.push(hex(h.as_byte_array()))
        }
        Terminal::Hash256(h) => {
            out.push("hash256".into());
            out.push(hex(h.as_byte_array()))
        }
        Terminal::Ripemd160(h) => {
            out.push("ripemd160".into());
            out.push(hex(h.as_byte_array()))
        }
        Terminal::Hash160(h) => {
            out.push("hash160".into());
            out.push(hex(h.as_byte_array()))
        }
        Terminal::Alt(x) => un("a", x, out),
        Terminal::Swap(x) => un("s", x, out),
        Terminal::Check(x) => un("c", x, out),
        Terminal::DupIf(x) => un("d", x, out),
        Terminal::Verify(x) => un("v", x, out),
        Terminal::NonZero(x) => un("j", x, out),
        Terminal::ZeroNotEqual(x) => un("n", x, out),
        Terminal::AndV(x, y) => {
            un("and_v", x, out);
            gdump(&y.node, kn, out)
        }
        Terminal::AndB(x, y) => {
            un("and_b", x, out);
            gdump(&y.node, kn, out)
        }
        Terminal::AndOr(a, b, c) => {
            un("andor", a, out);
            gdump(&b.node, kn, out);
            gdump(&c.node, kn, out)
        }
        Terminal::OrB(x, y) => {
            un("or_b", x, out);
            gdump(&y.node, kn, out)
        }
        Terminal::OrD(x, y) => {
            un("or_d", x, out);
            gdump(&y.node, kn, out)
        }
        Terminal::OrC(x, y) => {
            un("or_c", x, out);
            gdump(&y.node, kn, out)
        }
        Terminal::OrI(x, y) => {
            un("or_i", x, out);
            gdump(&y.node, kn, out)
        }
        Terminal::Thresh(th) => {
            out.push("thresh".into());
            out.push(th.k().to_string());
            out.push(th.n().to_string());
            for x in th.iter() {
                gdump(&x.node, kn, out);
            }
        }
        Terminal::Multi(th) | Terminal::SortedMulti(th) => {
            out.push(if matches!(t, Terminal::Multi(_)) { "multi" } else { "sortedmulti" }.into());
            out.push(th.k().to_string());
            out.push(th.n().to_string());
            for k in th.iter() {
                out.push(kn(k));
            }
        }
        Terminal::MultiA(th) | Terminal::SortedMultiA(th) => {
            out.push(if matches!(t, Terminal::MultiA(_)) { "multi_a" } else { "sortedmulti_a" }.into());
            out.push(th.k().to_string());
            out.push(th.n().to_string());
            for k in th.iter() {
                out.push(kn(k));
            }
        }
    }
}

fn gdump_str<Pk, Ctx>(t: &Terminal<Pk, Ctx>, kn: &dyn Fn(&Pk) -> String) -> String
where
    Pk: MiniscriptKey<Sha256 = sha256::Hash, Hash256 = hash256::Hash, Ripemd160 = ripemd160::Hash, Hash160 = hash160::Hash>,
    Ctx: ScriptContext,
{
    let mut v = Vec::new();
    gdump(t, kn, &mut v);
    v.join(" ")
}

/// a mapping: pure part + optional failure at the n-th call (0-based)
#[derive(Clone)]
pub struct Mapping {
    pub name: String,
    pub fp: Vec<Option<usize>>, // per source index 0..7
    pub fail_at: Option<usize>,
}

impl Mapping {
    fn apply(&self, call: usize, src: usize) -> Option<usize> {
        if self.fail_at == Some(call) {
            return None;
        }
        if src < self.fp.len() {
            self.fp[src]
        } else {
            Some(src) // a key outside the source universe (already a target key): unchanged
        }
    }
}

struct MapTr<'a> {
    m: &'a Mapping,
    ku: &'a KeyU,
    calls: Vec<usize>,
}
impl<'a> Translator<Key> for MapTr<'a> {
    type TargetPk = Key;
    type Error = usize;
    fn pk(&mut self, pk: &Key) -> Result<Key, usize> {
        let i = self.ku.index(pk);
        let n = self.calls.len();
        self.calls.push(i);
        match self.m.apply(n, i) {
            Some(j) => Ok(self.ku.key(j)),
            None => Err(n),
        }
    }
    translate_hash_clone!(Key);
}


/// hash mapping of the hash-translating runs: (mode, argument); mirrored by `fh_of` in coq/Ms/TranslateHashRun.v
///   0 identity, 1 first byte xor 1 (injective), 2 constant (argument cut to the hash length; not injective),
///   3 fails on the hash equal to the argument and otherwise as 1, 4 fails on every hash of kind arg[0], otherwise identity
#[derive(Clone)]
pub struct HMap {
    pub mode: u8,
    pub arg: Vec<u8>,
}
impl HMap {
    fn apply(&self, kind: u8, h: &[u8]) -> Option<Vec<u8>> {
        let flip = |h: &[u8]| {
            let mut v = h.to_vec();
            if !v.is_empty() {
                v[0] ^= 1;
            }
            v
        };
        match self.mode {
            0 => Some(h.to_vec()),
            1 => Some(flip(h)),
            2 => Some(self.arg[..h.len()].to_vec()),
            3 => {
                if h == &self.arg[..] {
                    None
                } else {
                    Some(flip(h))
                }
            }
            _ => {
                if self.arg.first() == Some(&kind) {
                    None
                } else {
                    Some(h.to_vec())
                }
            }
        }
    }
}

/// translator with a key mapping AND a hash mapping; one call counter and one log over all five methods
pub struct HTr<'a> {
    m: &'a Mapping,
    hm: &'a HMap,
    ku: &'a KeyU,
    calls: Vec<String>,
}
impl<'a> HTr<'a> {
    fn hash(&mut self, kind: u8, h: &[u8]) -> Result<Vec<u8>, usize> {
        let n = self.calls.len();
        self.calls.push(format!("h{}:{}", kind, hex(h)));
        if self.m.fail_at == Some(n) {
            return Err(n);
        }
        self.hm.apply(kind, h).ok_or(n)
    }
}
impl<'a> Translator<Key> for HTr<'a> {
    type TargetPk = Key;
    type Error = usize;
    fn pk(&mut self, pk: &Key) -> Result<Key, usize> {
        let i = self.ku.index(pk);
        let n = self.calls.len();
        self.calls.push(format!("k{}", i));
        match self.m.apply(n, i) {
            Some(j) => Ok(self.ku.key(j)),
            None => Err(n),
        }
    }
    fn sha256(&mut self, h: &sha256::Hash) -> Result<sha256::Hash, usize> {
        self.hash(0, h.as_byte_array()).map(|v| sha256::Hash::from_slice(&v).unwrap())
    }
    fn hash256(&mut self, h: &hash256::Hash) -> Result<hash256::Hash, usize> {
        self.hash(1, h.as_byte_array()).map(|v| hash256::Hash::from_slice(&v).unwrap())
    }
    fn ripemd160(&mut self, h: &ripemd160::Hash) -> Result<ripemd160::Hash, usize> {
        self.hash(2, h.as_byte_array()).map(|v| ripemd160::Hash::from_slice(&v).unwrap())
    }
    fn hash160(&mut self, h: &hash160::Hash) -> Result<hash160::Hash, usize> {
        self.hash(3, h.as_byte_array()).map(|v| hash160::Hash::from_slice(&v).unwrap())
    }
}

/// (kind, bytes) of the hash tokens of a dump
fn dump_hashes(dump: &str) -> Vec<(u8, Vec<u8>)> {
    let tok: Vec<&str> = dump.split(' ').collect();
    let mut out = Vec::new();
    for i in 0..tok.len().saturating_sub(1) {
        let kind = match tok[i] {
            "sha256" => 0u8,
            "hash256" => 1,
            "ripemd160" => 2,
            "hash160" => 3,
            _ => continue,
        };
        let h = tok[i + 1];
        if h.len() % 2 == 0 && !h.is_empty() && h.chars().all(|c| c.is_ascii_hexdigit()) {
            out.push((kind, (0..h.len() / 2).map(|j| u8::from_str_radix(&h[2 * j..2 * j + 2], 16).unwrap()).collect()));
        }
    }
    out
}

/// the hash-translating runs of one value: `TH | dom | vid | mapid | hash mode | hash argument | result | call log | identity ==`
/// `run(translator, is_identity)` performs the translation and returns (result, "1"/"0"/"-")
#[allow(clippy::too_many_arguments)]
fn th_cases(
    dom: &str,
    vid: usize,
    dump: &str,
    seed: u64,
    tap: bool,
    ku: &KeyU,
    all_keymaps: bool,
    mapid: &mut usize,
    run: &dyn Fn(&mut HTr, bool) -> (String, String),
) {
    let mut rng = Rng(seed ^ 0x4a5b_0000 ^ ((vid as u64) << 20));
    let hashes = dump_hashes(dump);
    let ident_map = Mapping { name: "identity".into(), fp: (0..N_KEYS).map(Some).collect(), fail_at: None };
    let h0 = HMap { mode: 0, arg: vec![] };
    // the translator's calls under the identity: keys and the total number of calls
    let mut probe = HTr { m: &ident_map, hm: &h0, ku, calls: vec![] };
    let _ = run(&mut probe, false);
    let total = probe.calls.len();
    let krtl: Vec<usize> = probe.calls.iter().filter(|c| c.starts_with('k')).map(|c| c[1..].parse().unwrap()).collect();
    let mut kall = krtl.clone();
    kall.sort();
    kall.dedup();
    let kmaps = mappings(&mut rng, tap, !tap, &krtl, &kall);
    let mut hms = vec![h0.clone(), HMap { mode: 1, arg: vec![] }, HMap { mode: 2, arg: vec![0x11; 32] }];
    if !hashes.is_empty() {
        let (k, h) = hashes[rng.below(hashes.len() as u64) as usize].clone();
        hms.push(HMap { mode: 3, arg: h });
        hms.push(HMap { mode: 4, arg: vec![k] });
        let (k2, _) = hashes[hashes.len() - 1].clone();
        hms.push(HMap { mode: 4, arg: vec![k2] });
    }
    let mut pairs: Vec<(Mapping, HMap)> = Vec::new();
    if all_keymaps {
        for (i, mp) in kmaps.iter().enumerate() {
            pairs.push((mp.clone(), hms[(i + vid) % hms.len()].clone()));
        }
    }
    for hm in &hms {
        pairs.push((kmaps[1].clone(), hm.clone()));
    }
    pairs.push((kmaps[0].clone(), hms[0].clone()));
    if all_keymaps {
        pairs.push((kmaps[0].clone(), hms[1].clone()));
        pairs.push((kmaps[2].clone(), hms[2].clone()));
    }
    if total > 0 {
        let fails: &[(usize, usize)] = if all_keymaps { &[(0, 1), (total / 2, 1), (total - 1, 0), (total - 1, 2)] } else { &[(total / 2, 1), (total - 1, 2)] };
        for &(n, hmi) in fails {
            pairs.push((Mapping { name: format!("fail-at-{}", n), fp: kmaps[1].fp.clone(), fail_at: Some(n) }, hms[hmi].clone()));
        }
    }
    for (mp, hm) in pairs {
        *mapid += 1;
        println!(
            "M | {} | {} | {} | {}",
            mapid,
            mp.name,
            mp.fp.iter().map(|x| x.map(|v| v.to_string()).unwrap_or("-".into())).collect::<Vec<_>>().join(" "),
            mp.fail_at.map(|v| v.to_string()).unwrap_or("-".into())
        );
        let mut tr = HTr { m: &mp, hm: &hm, ku, calls: vec![] };
        let (res, eq) = run(&mut tr, mp.name == "identity" && hm.mode == 0);
        println!(
            "TH | {} | {} | {} | {} | {} | {} | {} | {}",
            dom,
            vid,
            mapid,
            hm.mode,
            if hm.arg.is_empty() { "-".to_string() } else { hex(&hm.arg) },
            res,
            if tr.calls.is_empty() { "-".to_string() } else { tr.calls.join(" ") },
            eq
        );
    }
}

fn eq_flag(ident: bool, same: bool) -> String {
    if !ident {
        "-".into()
    } else if same {
        "1".into()
    } else {
        "0".into()
    }
}

/// a second-stage translator on keys of the universe (for the composition check)
struct ShiftTr<'a> {
    ku: &'a KeyU,
    f: &'a dyn Fn(usize) -> usize,
}
impl<'a> Translator<Key> for ShiftTr<'a> {
    type TargetPk = Key;
    type Error = usize;
    fn pk(&mut self, pk: &Key) -> Result<Key, usize> { Ok(self.ku.key((self.f)(self.ku.index(pk)))) }
    translate_hash_clone!(Key);
}

/// string keys -> keys of the universe (hash strings are parsed back)
struct StrTr<'a> {
    m: &'a Mapping,
    ku: &'a KeyU,
    calls: Vec<usize>,
}
impl<'a> Translator<String> for StrTr<'a> {
    type TargetPk = Key;
    type Error = usize;
    fn pk(&mut self, pk: &String) -> Result<Key, usize> {
        let i = *self.ku.by_str.get(pk).expect("string key of the universe");
        let n = self.calls.len();
        self.calls.push(i);
        match self.m.apply(n, i) {
            Some(j) => Ok(self.ku.key(j)),
            None => Err(n),
        }
    }
    fn sha256(&mut self, h: &String) -> Result<sha256::Hash, usize> { Ok(sha256::Hash::from_str(h).expect("sha256 hex")) }
    fn hash256(&mut self, h: &String) -> Result<hash256::Hash, usize> { Ok(hash256::Hash::from_str(h).expect("hash256 hex")) }
    fn ripemd160(&mut self, h: &String) -> Result<ripemd160::Hash, usize> { Ok(ripemd160::Hash::from_str(h).expect("ripemd160 hex")) }
    fn hash160(&mut self, h: &String) -> Result<hash160::Hash, usize> { Ok(hash160::Hash::from_str(h).expect("hash160 hex")) }
}

/// definite keys -> plain public keys (x-only keys in tap)
struct DeriveTr {
    calls: Vec<String>,
}
impl Translator<Key> for DeriveTr {
    type TargetPk = bitcoin::PublicKey;
    type Error = usize;
    fn pk(&mut self, pk: &Key) -> Result<bitcoin::PublicKey, usize> {
        self.calls.push(pk.to_string());
        Ok(pk.to_public_key())
    }
    translate_hash_clone!(Key);
}

pub fn err_class(e: &miniscript::Error) -> String {
    let variant = |s: String| -> String { s.chars().take_while(|c| c.is_alphanumeric()).collect() };
    match e {
        miniscript::Error::TypeCheck(_) => "type".into(),
        miniscript::Error::MaxRecursiveDepthExceeded => "depth".into(),
        // the context error type is not nameable from outside the crate: classify by its Debug variant name
        miniscript::Error::ContextError(c) => match variant(format!("{:?}", c)).as_str() {
            "UncompressedKeysNotAllowed" => "uncompressed".into(),
            "XOnlyKeysNotAllowed" => "xonly".into(),
            "MultiANotAllowed" => "multi_a".into(),
            "TaprootMultiDisabled" => "tapmulti".into(),
            "MaxWitnessScriptSizeExceeded" | "MaxRedeemScriptSizeExceeded" | "MaxBareScriptSizeExceeded" => "size".into(),
            other => format!("ctx:{}", other),
        },
        other => format!("other:{}", variant(format!("{:?}", other))),
    }
}

fn res_str<X>(r: &Result<Result<X, TranslateErr<usize>>, ()>, dump: &dyn Fn(&X) -> String) -> String {
    match r {
        Err(()) => "PANIC".into(),
        Ok(Ok(x)) => format!("OK {}", dump(x)),
        Ok(Err(TranslateErr::TranslatorErr(i))) => format!("ET {}", i),
        Ok(Err(TranslateErr::OuterError(e))) => format!("EO {}", err_class(e)),
    }
}

fn list(v: &[usize]) -> String {
    if v.is_empty() {
        "-".into()
    } else {
        v.iter().map(|x| x.to_string()).collect::<Vec<_>>().join(",")
    }
}

/// byte-level substitution on a script: every push of a source key (or of its hash160) becomes the push of
/// the mapped key (its hash160). Computed with rust-bitcoin only.
fn subst_script(s: &bitcoin::Script, ku: &KeyU, m: &Mapping) -> Option<ScriptBuf> {
    let mut b = Builder::new();
    for ins in s.instructions() {
        match ins.ok()? {
            Instruction::Op(op) => b = b.push_opcode(op),
            Instruction::PushBytes(p) => {
                let data = p.as_bytes();
                let mut out: Vec<u8> = data.to_vec();
                for i in 0..N_KEYS {
                    let kb = ku.bytes(i);
                    if data == &kb[..] {
                        out = ku.bytes(m.fp[i]?);
                    } else if data == hash160::Hash::hash(&kb).as_byte_array() {
                        out = hash160::Hash::hash(&ku.bytes(m.fp[i]?)).as_byte_array().to_vec();
                    }
                }
                b = b.push_slice(PushBytesBuf::try_from(out).ok()?);
            }
        }
    }
    Some(b.into_script())
}

/// keys in the order they appear in a Display string
fn scan_keys(s: &str, ku: &KeyU) -> Vec<usize> {
    let mut found: Vec<(usize, usize)> = Vec::new();
    for (idx, k, _, _) in &ku.keys {
        let ks = k.to_string();
        let mut from = 0;
        while let Some(p) = s[from..].find(&ks) {
            found.push((from + p, *idx));
            from += p + ks.len();
        }
    }
    found.sort();
    found.into_iter().map(|x| x.1).collect()
}

fn mappings(rng: &mut Rng, tap: bool, legacy: bool, keys_rtl: &[usize], keys_all: &[usize]) -> Vec<Mapping> {
    let base = |i: usize| -> usize {
        if tap {
            108 + (i * 5 + 3) % 6
        } else if i < 6 {
            100 + (i * 5 + 3) % 6
        } else {
            100 + i
        }
    };
    let rename: Vec<Option<usize>> = (0..N_KEYS).map(|i| Some(base(i))).collect();
    let mut out = vec![
        Mapping { name: "identity".into(), fp: (0..N_KEYS).map(Some).collect(), fail_at: None },
        Mapping { name: "rename".into(), fp: rename.clone(), fail_at: None },
        Mapping { name: "merge".into(), fp: (0..N_KEYS).map(|_| Some(if tap { 108 } else { 100 })).collect(), fail_at: None },
    ];
    if !keys_all.is_empty() {
        // partial: one key of the value is unmapped
        let k = keys_all[rng.below(keys_all.len() as u64) as usize];
        let mut fp = rename.clone();
        fp[k] = None;
        out.push(Mapping { name: "partial".into(), fp, fail_at: None });
        let k2 = keys_all[keys_all.len() - 1];
        let mut fp = rename.clone();
        fp[k2] = None;
        out.push(Mapping { name: "partial-last".into(), fp, fail_at: None });
        // stateful: fail on the n-th call
        for n in [0, keys_rtl.len() / 2, keys_rtl.len() - 1] {
            out.push(Mapping { name: format!("fail-at-{}", n), fp: rename.clone(), fail_at: Some(n) });
        }
        // context-illegal keys
        let k = keys_all[rng.below(keys_all.len() as u64) as usize];
        let mut fp = rename.clone();
        fp[k] = Some(106);
        out.push(Mapping { name: "to-uncompressed".into(), fp, fail_at: None });
        let mut fp = rename.clone();
        fp[k] = Some(if tap { 100 } else { 109 });
        out.push(Mapping { name: if tap { "to-compressed".into() } else { "to-xonly".into() }, fp, fail_at: None });
        let _ = legacy;
    }
    out
}

fn rtl_keys(t: &T) -> Vec<usize> {
    let mut v = Vec::new();
    fn go(t: &T, v: &mut Vec<usize>) {
        for k in t.kids.iter().rev() {
            go(k, v);
        }
        match t.tg {
            Tg::PkK | Tg::PkH => v.push(t.num as usize),
            Tg::Multi | Tg::SortedMulti | Tg::MultiA | Tg::SortedMultiA => v.extend_from_slice(&t.keys),
            _ => {}
        }
    }
    go(t, &mut v);
    v
}

fn run_ms<Ctx: ScriptContext>(w: &World, seed: u64, ci: CtxInfo, dom: &str, nvals: usize, mapid: &mut usize) {
    let ku = KeyU::new(w, ci.tap);
    println!("KU | {} | {}", dom, ku.keys.iter().map(|k| format!("{}:{}", k.0, k.2)).collect::<Vec<_>>().join(" "));
    let kn = |k: &Key| ku.index(k).to_string();
    let mut g = Gen::new(w, seed, ci);
    let mut rng = Rng(seed ^ 0x7a57);
    let mut vals: Vec<Miniscript<Key, Ctx>> = Vec::new();
    let mut seen: HashMap<String, usize> = HashMap::new();
    // corpus: every n-ary / binary / ternary rebuild with pairwise distinct children
    let pk = |i: usize| T::pk(i);
    let spk = |i: usize| T::un(Tg::Swap, T::pk(i));
    let vpk = |i: usize| T::un(Tg::Verify, T::pk(i));
    let mtag = if ci.tap { Tg::MultiA } else { Tg::Multi };
    let mut corpus: Vec<T> = vec![
        T { tg: Tg::AndOr, num: 0, keys: vec![], kids: vec![pk(0), pk(1), pk(2)] },
        T { tg: Tg::Thresh, num: 2, keys: vec![], kids: vec![pk(0), spk(1), spk(2)] },
        T { tg: Tg::Thresh, num: 1, keys: vec![], kids: vec![pk(3), spk(4), spk(5), spk(0)] },
        T::bin(Tg::OrB, pk(0), spk(1)),
        T::bin(Tg::AndB, pk(2), spk(3)),
        T::bin(Tg::AndV, vpk(4), pk(5)),
        T::bin(Tg::OrD, pk(0), pk(1)),
        T::bin(Tg::OrC, pk(2), vpk(3)),
        T::bin(Tg::OrI, pk(4), pk(5)),
        T { tg: mtag, num: 2, keys: vec![0, 1, 2], kids: vec![] },
        T::bin(Tg::AndV, T::un(Tg::Verify, T { tg: mtag, num: 1, keys: vec![3, 4], kids: vec![] }), T::un(Tg::Check, T::leaf(Tg::PkH, 5))),
        T { tg: Tg::AndOr, num: 0, keys: vec![], kids: vec![pk(0), T { tg: Tg::AndOr, num: 0, keys: vec![], kids: vec![pk(1), pk(2), pk(3)] }, T::un(Tg::Check, T::leaf(Tg::PkH, 4))] },
    ];
    if ci.legacy_like {
        corpus.push(T::bin(Tg::OrB, pk(6), spk(7)));
    }
    for t in &corpus {
        if let Some((m, true)) = tree::build::<Ctx>(w, ci.tap, t) {
            let d = gdump_str(&m.node, &kn);
            if !seen.contains_key(&d) {
                seen.insert(d, vals.len());
                vals.push(m);
            }
        }
    }
    let mut attempts = 0;
    while vals.len() < nvals && attempts < nvals * 20 {
        attempts += 1;
        g.dup_keys = rng.chance(1, 5);
        let depth = 1 + rng.below(4) as u32;
        if let Some(m) = g.gen::<Ctx>(B::B, depth) {
            let d = gdump_str(&m.node, &kn);
            if d.split(' ').count() > 120 || seen.contains_key(&d) {
                continue;
            }
            seen.insert(d, vals.len());
            vals.push(m);
        }
    }
    for (vid, m) in vals.iter().enumerate() {
        let dump = gdump_str(&m.node, &kn);
        println!("V | {} | {} | {}", dom, vid, dump);
        let t = tree::from_terminal(w, ci.tap, &m.node);
        // ---- key iteration
        let it: Vec<usize> = m.iter_pk().map(|k| ku.index(&k)).collect();
        let mut each: Vec<usize> = Vec::new();
        let all = m.for_each_key(|k| {
            each.push(ku.index(k));
            true
        });
        let strk = scan_keys(&m.to_string(), &ku);
        let any = if it.is_empty() { false } else { m.for_any_key(|k| ku.index(k) == it[0]) };
        let mut short = String::from("-");
        if !it.is_empty() {
            let j = it.len() / 2;
            let mut visited: Vec<usize> = Vec::new();
            let mut count = 0usize;
            let r = m.for_each_key(|k| {
                visited.push(ku.index(k));
                count += 1;
                count - 1 != j
            });
            short = format!("{}:{}:{}", j, if r { 1 } else { 0 }, list(&visited));
        }
        println!(
            "I | {} | {} | {} | {}:{} | {} | {} | {}",
            dom,
            vid,
            list(&it),
            if all { 1 } else { 0 },
            list(&each),
            list(&strk),
            if any { 1 } else { 0 },
            short
        );
        // ---- translations
        let krtl = rtl_keys(&t);
        let mut kall = krtl.clone();
        kall.sort();
        kall.dedup();
        let orig_script = m.encode();
        let has_sorted = t.has(&|x: &T| matches!(x.tg, Tg::SortedMulti | Tg::SortedMultiA));
        let has_raw = t.has(&|x: &T| x.tg == Tg::RawPkH);
        for mp in mappings(&mut rng, ci.tap, ci.legacy_like, &krtl, &kall) {
            *mapid += 1;
            println!(
                "M | {} | {} | {} | {}",
                mapid,
                mp.name,
                mp.fp.iter().map(|x| x.map(|v| v.to_string()).unwrap_or("-".into())).collect::<Vec<_>>().join(" "),
                mp.fail_at.map(|v| v.to_string()).unwrap_or("-".into())
            );
            let mut tr = MapTr { m: &mp, ku: &ku, calls: vec![] };
            let r = catch_unwind(AssertUnwindSafe(|| m.translate_pk(&mut tr))).map_err(|_| ());
            let calls = tr.calls.clone();
            let (mut ty_same, mut script_ok, mut eq_orig) = ("-", "-", "-");
            let slen = subst_script(&orig_script, &ku, &mp).map(|s| s.len().to_string()).unwrap_or("-".into());
            if let Ok(Ok(ref x)) = r {
                ty_same = if x.ty == m.ty { "1" } else { "0" };
                if mp.name == "identity" {
                    eq_orig = if x == m { "1" } else { "0" };
                }
                if has_sorted {
                    script_ok = "skip";
                } else {
                    script_ok = match subst_script(&orig_script, &ku, &mp) {
                        Some(exp) => {
                            if exp == x.encode() {
                                "1"
                            } else {
                                "0"
                            }
                        }
                        None => "skip",
                    };
                }
            }
            println!(
                "T | {} | {} | {} | {} | {} | {} | {} | {} | {}",
                dom,
                vid,
                mapid,
                res_str(&r, &|x: &Miniscript<Key, Ctx>| gdump_str(&x.node, &kn)),
                list(&calls),
                ty_same,
                script_ok,
                eq_orig,
                slen
            );
        }
        // ---- composition: rename, then a permutation of the target keys, against the composed mapping in one go
        {
            let rename = mappings(&mut rng, ci.tap, ci.legacy_like, &[], &[]).into_iter().find(|x| x.name == "rename").unwrap();
            let shift = |j: usize| -> usize {
                if j >= 108 {
                    108 + (j - 108 + 1) % 6
                } else if j >= 106 {
                    j
                } else if j >= 100 {
                    100 + (j - 100 + 1) % 6
                } else {
                    j
                }
            };
            let second = ShiftTr { ku: &ku, f: &shift };
            let composed = Mapping { name: "composed".into(), fp: rename.fp.iter().map(|x| x.map(shift)).collect(), fail_at: None };
            let r = catch_unwind(AssertUnwindSafe(|| {
                let mut t1 = MapTr { m: &rename, ku: &ku, calls: vec![] };
                let mut t2 = second;
                let mut t3 = MapTr { m: &composed, ku: &ku, calls: vec![] };
                let a = m.translate_pk(&mut t1).ok().and_then(|x| x.translate_pk(&mut t2).ok());
                let b = m.translate_pk(&mut t3).ok();
                match (a, b) {
                    (Some(a), Some(b)) => format!("{}", (gdump_str(&a.node, &kn) == gdump_str(&b.node, &kn) && a == b) as u8),
                    (None, None) => "both-fail".to_string(),
                    _ => "0".to_string(),
                }
            }));
            println!("C | {} | {} | {}", dom, vid, r.unwrap_or_else(|_| "PANIC".into()));
        }
        // ---- string keys -> concrete keys (through the text form), identity and renaming
        if !has_raw {
            if let Ok(sm) = Miniscript::<String, Ctx>::from_str_with_validation_params(&m.to_string(), &miniscript::ValidationParams::CONSENSUS) {
                for name in ["identity", "rename"] {
                    let mp = mappings(&mut rng, ci.tap, ci.legacy_like, &[], &[]).into_iter().find(|x| x.name == name).unwrap();
                    *mapid += 1;
                    println!(
                        "M | {} | string-{} | {} | -",
                        mapid,
                        mp.name,
                        mp.fp.iter().map(|x| x.map(|v| v.to_string()).unwrap_or("-".into())).collect::<Vec<_>>().join(" ")
                    );
                    let mut tr = StrTr { m: &mp, ku: &ku, calls: vec![] };
                    let r = catch_unwind(AssertUnwindSafe(|| sm.translate_pk(&mut tr))).map_err(|_| ());
                    let eq_orig = match (&r, name) {
                        (Ok(Ok(x)), "identity") => {
                            if x == m && gdump_str(&x.node, &kn) == dump {
                                "1"
                            } else {
                                "0"
                            }
                        }
                        _ => "-",
                    };
                    let ty_same = match &r {
                        Ok(Ok(x)) => {
                            if x.ty == m.ty {
                                "1"
                            } else {
                                "0"
                            }
                        }
                        _ => "-",
                    };
                    println!(
                        "T | {} | {} | {} | {} | {} | {} | - | {} | -",
                        dom,
                        vid,
                        mapid,
                        res_str(&r, &|x: &Miniscript<Key, Ctx>| gdump_str(&x.node, &kn)),
                        list(&tr.calls),
                        ty_same,
                        eq_orig
                    );
                }
            } else {
                println!("X | {} | {} | string form does not parse back: {}", dom, vid, m);
            }
        }
        // ---- definite keys -> derived public keys: same script, same structure
        {
            let mut tr = DeriveTr { calls: vec![] };
            let r = catch_unwind(AssertUnwindSafe(|| m.translate_pk_derive(&mut tr, &ku)));
            match r {
                Ok(s) => println!("D | {} | {} | {}", dom, vid, s),
                Err(_) => println!("D | {} | {} | PANIC", dom, vid),
            }
        }
        // ---- hash-translating runs (values with at least one hash fragment)
        if !dump_hashes(&dump).is_empty() {
            th_cases(dom, vid, &dump, seed, ci.tap, &ku, false, mapid, &|tr: &mut HTr, ident: bool| {
                let r = catch_unwind(AssertUnwindSafe(|| m.translate_pk(tr))).map_err(|_| ());
                let eq = eq_flag(ident, matches!(&r, Ok(Ok(x)) if x == m));
                (res_str(&r, &|x: &Miniscript<Key, Ctx>| gdump_str(&x.node, &kn)), eq)
            });
        }
    }
}

/// helper trait so that `run_ms` can call the derived translation generically
trait DeriveExt {
    fn translate_pk_derive(&self, tr: &mut DeriveTr, ku: &KeyU) -> String;
}
impl<Ctx: ScriptContext> DeriveExt for Miniscript<Key, Ctx> {
    fn translate_pk_derive(&self, tr: &mut DeriveTr, ku: &KeyU) -> String {
        let kn_src = |k: &Key| ku.index(k).to_string();
        let kn_pub = |k: &bitcoin::PublicKey| -> String {
            // name a derived key by the index of the definite key it was derived from
            for (i, key, _, _) in &ku.keys {
                if key.to_public_key() == *k {
                    return i.to_string();
                }
            }
            "?".into()
        };
        match self.translate_pk(tr) {
            Ok(x) => {
                let same_dump = gdump_str(&x.node, &kn_pub) == gdump_str(&self.node, &kn_src);
                let same_script = x.encode() == self.encode();
                format!("OK dump:{} script:{} type:{}", same_dump as u8, same_script as u8, (x.ty == self.ty) as u8)
            }
            Err(TranslateErr::TranslatorErr(i)) => format!("ET {}", i),
            Err(TranslateErr::OuterError(e)) => format!("EO {}", err_class(&e)),
        }
    }
}

// ---------------------------------------------------------------- descriptors
fn ddump(d: &Descriptor<Key>, kn: &dyn Fn(&Key) -> String) -> String {
    match d {
        Descriptor::Bare(b) => format!("bare {}", gdump_str(&b.as_inner().node, kn)),
        Descriptor::Pkh(p) => format!("pkh {}", kn(p.as_inner())),
        Descriptor::Wpkh(p) => format!("wpkh {}", kn(p.as_inner())),
        Descriptor::Wsh(x) => format!("wsh {}", gdump_str(&x.as_inner().node, kn)),
        Descriptor::Sh(s) => match s.as_inner() {
            ShInner::Wsh(x) => format!("sh-wsh {}", gdump_str(&x.as_inner().node, kn)),
            ShInner::Wpkh(p) => format!("sh-wpkh {}", kn(p.as_inner())),
            ShInner::Ms(m) => format!("sh {}", gdump_str(&m.node, kn)),
        },
        Descriptor::Tr(t) => {
            let mut s = format!("tr {} {}", kn(t.internal_key()), t.leaves().count());
            for l in t.leaves() {
                s.push_str(&format!(" leaf {} {}", l.depth(), gdump_str(&l.miniscript().node, kn)));
            }
            s
        }
    }
}

fn tap_tree(leaves: &[Arc<Miniscript<Key, Tap>>], shape: u64) -> Option<TapTree<Key>> {
    if leaves.is_empty() {
        return None;
    }
    if leaves.len() == 1 {
        return Some(TapTree::leaf(Arc::clone(&leaves[0])));
    }
    let split = match shape % 3 {
        0 => 1,
        1 => leaves.len() - 1,
        _ => leaves.len() / 2,
    }
    .max(1);
    TapTree::combine(tap_tree(&leaves[..split], shape / 3)?, tap_tree(&leaves[split..], shape / 3 + 1)?).ok()
}

/// the scripts a descriptor commits to, in a fixed order (for the byte-level substitution check)
fn desc_scripts(d: &Descriptor<Key>) -> Vec<ScriptBuf> {
    match d {
        Descriptor::Tr(t) => t.leaves().map(|l| l.compute_script()).collect(),
        Descriptor::Pkh(_) | Descriptor::Wpkh(_) => vec![],
        Descriptor::Sh(s) if matches!(s.as_inner(), ShInner::Wpkh(_)) => vec![],
        other => other.explicit_script().ok().into_iter().collect(),
    }
}

fn run_desc(w: &World, seed: u64, nbase: usize, mapid: &mut usize) {
    // two universes: tr descriptors use x-only source keys, the others full keys
    let mut rng = Rng(seed ^ 0xde5c20);
    let seg = CtxInfo { tap: false, legacy_like: false, n_keys: 6 };
    let leg = CtxInfo { tap: false, legacy_like: true, n_keys: N_KEYS };
    let tapi = CtxInfo { tap: true, legacy_like: false, n_keys: 6 };
    for (dom, tap) in [("desc", false), ("desc-tr", true)] {
        let ku = KeyU::new(w, tap);
        println!("KU | {} | {}", dom, ku.keys.iter().map(|k| format!("{}:{}", k.0, k.2)).collect::<Vec<_>>().join(" "));
        let kn = |k: &Key| ku.index(k).to_string();
        let mut descs: Vec<Descriptor<Key>> = Vec::new();
        for round in 0..nbase {
            if !tap {
                let mut g = Gen::new(w, seed.wrapping_add(round as u64 * 7919), seg);
                if let Some(m) = g.gen::<Segwitv0>(B::B, 1 + rng.below(3) as u32) {
                    let t = tree::from_terminal(w, false, &m.node);
                    descs.extend(Descriptor::new_wsh(m).ok());
                    if let Some((m2, true)) = tree::build::<Segwitv0>(w, false, &t) {
                        descs.extend(Descriptor::new_sh_wsh(m2).ok());
                    }
                }
                let mut g = Gen::new(w, seed.wrapping_add(round as u64 * 104729), leg);
                if let Some(m) = g.gen::<Legacy>(B::B, 1 + rng.below(2) as u32) {
                    descs.extend(Descriptor::new_sh(m).ok());
                }
                let k = rng.below(N_KEYS as u64) as usize;
                match round % 4 {
                    0 => descs.extend(Descriptor::new_pkh(w.key(k, false)).ok()),
                    1 => descs.extend(Descriptor::new_wpkh(w.key(k % 6, false)).ok()),
                    2 => descs.extend(Descriptor::new_sh_wpkh(w.key(k % 6, false)).ok()),
                    _ => {
                        let t = T { tg: Tg::Multi, num: 1, keys: vec![k % 6, (k + 1) % 6], kids: vec![] };
                        if let Some((m, true)) = tree::build::<BareCtx>(w, false, &t) {
                            descs.extend(Descriptor::new_bare(m).ok());
                        }
                        if let Some((m, true)) = tree::build::<BareCtx>(w, false, &T::pk(k)) {
                            descs.extend(Descriptor::new_bare(m).ok());
                        }
                    }
                }
            } else {
                let mut g = Gen::new(w, seed.wrapping_add(round as u64 * 15485863), tapi);
                let nl = rng.below(5) as usize;
                let mut leaves: Vec<Arc<Miniscript<Key, Tap>>> = Vec::new();
                for _ in 0..nl {
                    if let Some(m) = g.gen::<Tap>(B::B, 1 + rng.below(2) as u32) {
                        leaves.push(Arc::new(m));
                    }
                }
                // the same script in several branches (seeded change C20-11: a walker that skips a
                // leaf equal to one already visited): every third tree repeats one of its leaves,
                // alternately as the same Arc and as a separately built equal value
                if !leaves.is_empty() && round % 3 == 0 {
                    let i = rng.below(leaves.len() as u64) as usize;
                    let dup = if round % 2 == 0 { Arc::clone(&leaves[i]) } else { Arc::new((*leaves[i]).clone()) };
                    let at = rng.below(leaves.len() as u64 + 1) as usize;
                    leaves.insert(at, dup);
                }
                let ik = rng.below(6) as usize;
                descs.extend(Descriptor::new_tr(w.key(ik, true), tap_tree(&leaves, rng.below(27))).ok());
            }
        }
        let mut seen: HashMap<String, ()> = HashMap::new();
        let mut vid = 0;
        for d in &descs {
            let dump = ddump(d, &kn);
            if seen.insert(dump.clone(), ()).is_some() || dump.split(' ').count() > 150 {
                continue;
            }
            println!("V | {} | {} | {}", dom, vid, dump);
            let it: Vec<usize> = d.iter_pk().map(|k| ku.index(&k)).collect();
            let mut each: Vec<usize> = Vec::new();
            let all = d.for_each_key(|k| {
                each.push(ku.index(k));
                true
            });
            let strk = scan_keys(&d.to_string(), &ku);
            let any = if it.is_empty() { false } else { d.for_any_key(|k| ku.index(k) == it[0]) };
            let mut short = String::from("-");
            if !each.is_empty() {
                let j = each.len() / 2;
                let mut visited: Vec<usize> = Vec::new();
                let mut count = 0usize;
                let r = d.for_each_key(|k| {
                    visited.push(ku.index(k));
                    count += 1;
                    count - 1 != j
                });
                short = format!("{}:{}:{}", j, if r { 1 } else { 0 }, list(&visited));
            }
            println!(
                "I | {} | {} | {} | {}:{} | {} | {} | {}",
                dom,
                vid,
                list(&it),
                if all { 1 } else { 0 },
                list(&each),
                list(&strk),
                if any { 1 } else { 0 },
                short
            );
            // the translator's call order on success = rtl post-order per script, tr: leaves then internal key
            let mut probe = MapTr { m: &Mapping { name: "probe".into(), fp: (0..N_KEYS).map(Some).collect(), fail_at: None }, ku: &ku, calls: vec![] };
            let _ = catch_unwind(AssertUnwindSafe(|| d.translate_pk(&mut probe)));
            let krtl = probe.calls.clone();
            let mut kall = krtl.clone();
            kall.sort();
            kall.dedup();
            let scripts = desc_scripts(d);
            let has_sorted = dump.contains("sortedmulti");
            for mp in mappings(&mut rng, tap, !tap, &krtl, &kall) {
                *mapid += 1;
                println!(
                    "M | {} | {} | {} | {}",
                    mapid,
                    mp.name,
                    mp.fp.iter().map(|x| x.map(|v| v.to_string()).unwrap_or("-".into())).collect::<Vec<_>>().join(" "),
                    mp.fail_at.map(|v| v.to_string()).unwrap_or("-".into())
                );
                let mut tr = MapTr { m: &mp, ku: &ku, calls: vec![] };
                let r = catch_unwind(AssertUnwindSafe(|| d.translate_pk(&mut tr))).map_err(|_| ());
                let (mut script_ok, mut eq_orig) = ("-", "-");
                let slen = scripts
                    .iter()
                    .map(|s| subst_script(s, &ku, &mp).map(|x| x.len()))
                    .collect::<Option<Vec<usize>>>()
                    .and_then(|v| v.into_iter().max())
                    .map(|n| n.to_string())
                    .unwrap_or("-".into());
                if let Ok(Ok(ref x)) = r {
                    if mp.name == "identity" {
                        eq_orig = if x == d { "1" } else { "0" };
                    }
                    if has_sorted {
                        script_ok = "skip";
                    } else {
                        let got = desc_scripts(x);
                        let exp: Option<Vec<ScriptBuf>> = scripts.iter().map(|s| subst_script(s, &ku, &mp)).collect();
                        script_ok = match exp {
                            Some(e) if e == got => "1",
                            Some(_) => "0",
                            None => "skip",
                        };
                        // single-key descriptors: the output script is that of the mapped key (computed with rust-bitcoin)
                        let single = |k: usize| -> Option<bitcoin::PublicKey> { Some(ku.key(mp.fp.get(k).cloned()??).to_public_key()) };
                        match (d, x) {
                            (Descriptor::Pkh(p), _) => {
                                if let Some(pk) = single(ku.index(p.as_inner())) {
                                    script_ok = if ScriptBuf::new_p2pkh(&pk.pubkey_hash()) == x.script_pubkey() { "1" } else { "0" };
                                }
                            }
                            (Descriptor::Wpkh(p), _) => {
                                if let Some(pk) = single(ku.index(p.as_inner())) {
                                    if let Ok(c) = bitcoin::key::CompressedPublicKey::try_from(pk) {
                                        script_ok = if ScriptBuf::new_p2wpkh(&c.wpubkey_hash()) == x.script_pubkey() { "1" } else { "0" };
                                    }
                                }
                            }
                            _ => {}
                        }
                    }
                }
                println!(
                    "T | {} | {} | {} | {} | {} | - | {} | {} | {}",
                    dom,
                    vid,
                    mapid,
                    res_str(&r, &|x: &Descriptor<Key>| ddump(x, &kn)),
                    list(&tr.calls),
                    script_ok,
                    eq_orig,
                    slen
                );
            }
            if !dump_hashes(&dump).is_empty() {
                th_cases(dom, vid, &dump, seed, tap, &ku, false, mapid, &|tr: &mut HTr, ident: bool| {
                    let r = catch_unwind(AssertUnwindSafe(|| d.translate_pk(tr))).map_err(|_| ());
                    let eq = eq_flag(ident, matches!(&r, Ok(Ok(x)) if x == d));
                    (res_str(&r, &|x: &Descriptor<Key>| ddump(x, &kn)), eq)
                });
            }
            vid += 1;
        }
    }
}

// ---------------------------------------------------------------- policies
fn cdump(p: &Concrete<Key>, kn: &dyn Fn(&Key) -> String) -> String {
    match p {
        Concrete::Unsatisfiable => "unsat".into(),
        Concrete::Trivial => "triv".into(),
        Concrete::Key(k) => format!("key {}", kn(k)),
        Concrete::After(t) => format!("after {}", t.to_consensus_u32()),
        Concrete::Older(t) => format!("older {}", t.to_consensus_u32()),
        Concrete::Sha256(h) => format!("sha256 {}", hex(h.as_byte_array())),
        Concrete::Hash256(h) => format!("hash256 {}", hex(h.as_byte_array())),
        Concrete::Ripemd160(h) => format!("ripemd160 {}", hex(h.as_byte_array())),
        Concrete::Hash160(h) => format!("hash160 {}", hex(h.as_byte_array())),
        Concrete::And(v) => format!("and {} {}", v.len(), v.iter().map(|x| cdump(x, kn)).collect::<Vec<_>>().join(" ")),
        Concrete::Or(v) => format!("or {} {}", v.len(), v.iter().map(|(p, x)| format!("{}@ {}", p, cdump(x, kn))).collect::<Vec<_>>().join(" ")),
        Concrete::Thresh(th) => format!("thresh {} {} {}", th.k(), th.n(), th.iter().map(|x| cdump(x, kn)).collect::<Vec<_>>().join(" ")),
    }
}
fn sdump(p: &Semantic<Key>, kn: &dyn Fn(&Key) -> String) -> String {
    match p {
        Semantic::Unsatisfiable => "unsat".into(),
        Semantic::Trivial => "triv".into(),
        Semantic::Key(k) => format!("key {}", kn(k)),
        Semantic::After(t) => format!("after {}", t.to_consensus_u32()),
        Semantic::Older(t) => format!("older {}", t.to_consensus_u32()),
        Semantic::Sha256(h) => format!("sha256 {}", hex(h.as_byte_array())),
        Semantic::Hash256(h) => format!("hash256 {}", hex(h.as_byte_array())),
        Semantic::Ripemd160(h) => format!("ripemd160 {}", hex(h.as_byte_array())),
        Semantic::Hash160(h) => format!("hash160 {}", hex(h.as_byte_array())),
        Semantic::Thresh(th) => format!("thresh {} {} {}", th.k(), th.n(), th.iter().map(|x| sdump(x, kn)).collect::<Vec<_>>().join(" ")),
    }
}

fn gen_conc(w: &World, rng: &mut Rng, depth: u32, next_key: &mut usize) -> Concrete<Key> {
    let leaf = depth == 0 || rng.chance(1, 3);
    if leaf {
        match rng.below(11) {
            0 => Concrete::After(AbsLockTime::from_consensus(1 + rng.below(1000) as u32).unwrap()),
            1 => Concrete::Older(RelLockTime::from_consensus(1 + rng.below(1000) as u32).unwrap()),
            2 => Concrete::Sha256(w.sha256_img(rng.below(N_PRE as u64) as usize)),
            3 => Concrete::Hash160(w.hash160_img(rng.below(N_PRE as u64) as usize)),
            4 => Concrete::Hash256(w.hash256_img(rng.below(N_PRE as u64) as usize)),
            5 => Concrete::Ripemd160(w.ripemd160_img(rng.below(N_PRE as u64) as usize)),
            _ => {
                *next_key += 1;
                Concrete::Key(w.key((*next_key - 1) % 6, false))
            }
        }
    } else {
        match rng.below(3) {
            0 => Concrete::And(vec![Arc::new(gen_conc(w, rng, depth - 1, next_key)), Arc::new(gen_conc(w, rng, depth - 1, next_key))]),
            1 => Concrete::Or(vec![
                (1 + rng.below(3) as usize, Arc::new(gen_conc(w, rng, depth - 1, next_key))),
                (1 + rng.below(3) as usize, Arc::new(gen_conc(w, rng, depth - 1, next_key))),
            ]),
            _ => {
                let n = 2 + rng.below(3) as usize;
                let k = 1 + rng.below(n as u64) as usize;
                Concrete::Thresh(Threshold::new(k, (0..n).map(|_| Arc::new(gen_conc(w, rng, depth - 1, next_key))).collect()).unwrap())
            }
        }
    }
}

/// for_any_key(== first key) and for_each_key with the pure predicate `!= target` (target = the middle key):
/// "j:result:visited" with j the first position of the target
fn pol_iter_extra(
    each: &[usize],
    any: &dyn Fn(&dyn Fn(&Key) -> bool) -> bool,
    foreach: &dyn Fn(&mut dyn FnMut(&Key) -> bool) -> bool,
    ku: &KeyU,
) -> (String, String) {
    if each.is_empty() {
        return ("-".into(), "-".into());
    }
    let first = each[0];
    let a = any(&|k: &Key| ku.index(k) == first);
    let target = each[each.len() / 2];
    let j = each.iter().position(|x| *x == target).unwrap();
    let mut visited: Vec<usize> = Vec::new();
    let r = foreach(&mut |k: &Key| {
        let i = ku.index(k);
        visited.push(i);
        i != target
    });
    ((a as u8).to_string(), format!("{}:{}:{}", j, r as u8, list(&visited)))
}

fn run_pol(w: &World, seed: u64, n: usize, mapid: &mut usize) {
    let ku = KeyU::new(w, false);
    println!("KU | conc | {}", ku.keys.iter().map(|k| format!("{}:{}", k.0, k.2)).collect::<Vec<_>>().join(" "));
    println!("KU | sem | {}", ku.keys.iter().map(|k| format!("{}:{}", k.0, k.2)).collect::<Vec<_>>().join(" "));
    let kn = |k: &Key| ku.index(k).to_string();
    let mut rng = Rng(seed ^ 0x9011c720);
    let mut nk = 0usize;
    let mut seen: HashMap<String, ()> = HashMap::new();
    let (mut cv, mut sv) = (0usize, 0usize);
    for _ in 0..n {
        let pd = 1 + rng.below(3) as u32;
        let c = gen_conc(w, &mut rng, pd, &mut nk);
        let dump = cdump(&c, &kn);
        if seen.insert(format!("c{}", dump), ()).is_some() {
            continue;
        }
        println!("V | conc | {} | {}", cv, dump);
        let mut each: Vec<usize> = Vec::new();
        let all = c.for_each_key(|k| {
            each.push(ku.index(k));
            true
        });
        let keys: Vec<usize> = c.keys().iter().map(|k| ku.index(k)).collect();
        let strk = scan_keys(&c.to_string(), &ku);
        let (anyv, short) = pol_iter_extra(&each, &|p: &dyn Fn(&Key) -> bool| c.for_any_key(|k| p(k)), &|p: &mut dyn FnMut(&Key) -> bool| c.for_each_key(|k| p(k)), &ku);
        println!("I | conc | {} | {} | {}:{} | {} | {} | {}", cv, list(&keys), if all { 1 } else { 0 }, list(&each), list(&strk), anyv, short);
        let mut probe = MapTr { m: &Mapping { name: "probe".into(), fp: (0..N_KEYS).map(Some).collect(), fail_at: None }, ku: &ku, calls: vec![] };
        let _ = c.translate_pk(&mut probe);
        let krtl = probe.calls.clone();
        let mut kall = krtl.clone();
        kall.sort();
        kall.dedup();
        for mp in mappings(&mut rng, false, true, &krtl, &kall) {
            *mapid += 1;
            println!(
                "M | {} | {} | {} | {}",
                mapid,
                mp.name,
                mp.fp.iter().map(|x| x.map(|v| v.to_string()).unwrap_or("-".into())).collect::<Vec<_>>().join(" "),
                mp.fail_at.map(|v| v.to_string()).unwrap_or("-".into())
            );
            let mut tr = MapTr { m: &mp, ku: &ku, calls: vec![] };
            let r = catch_unwind(AssertUnwindSafe(|| c.translate_pk(&mut tr)));
            let res = match &r {
                Err(_) => "PANIC".to_string(),
                Ok(Ok(x)) => format!("OK {}", cdump(x, &kn)),
                Ok(Err(i)) => format!("ET {}", i),
            };
            let eq_orig = match (&r, mp.name.as_str()) {
                (Ok(Ok(x)), "identity") => {
                    if *x == c {
                        "1"
                    } else {
                        "0"
                    }
                }
                _ => "-",
            };
            println!("T | conc | {} | {} | {} | {} | - | - | {} | -", cv, mapid, res, list(&tr.calls), eq_orig);
        }
        th_cases("conc", cv, &dump, seed, false, &ku, true, mapid, &|tr: &mut HTr, ident: bool| {
            let r = catch_unwind(AssertUnwindSafe(|| c.translate_pk(tr)));
            match r {
                Err(_) => ("PANIC".to_string(), "-".to_string()),
                Ok(Ok(x)) => (format!("OK {}", cdump(&x, &kn)), eq_flag(ident, x == c)),
                Ok(Err(i)) => (format!("ET {}", i), "-".to_string()),
            }
        });
        cv += 1;
        // the lifted (semantic) policy of the same value
        if let Ok(s) = c.lift() {
            let dump = sdump(&s, &kn);
            if seen.insert(format!("s{}", dump), ()).is_some() {
                continue;
            }
            println!("V | sem | {} | {}", sv, dump);
            let mut each: Vec<usize> = Vec::new();
            let all = s.for_each_key(|k| {
                each.push(ku.index(k));
                true
            });
            let strk = scan_keys(&s.to_string(), &ku);
            let (anyv, short) = pol_iter_extra(&each, &|p: &dyn Fn(&Key) -> bool| s.for_any_key(|k| p(k)), &|p: &mut dyn FnMut(&Key) -> bool| s.for_each_key(|k| p(k)), &ku);
            println!("I | sem | {} | {} | {}:{} | {} | {} | {}", sv, list(&each), if all { 1 } else { 0 }, list(&each), list(&strk), anyv, short);
            let mut probe = MapTr { m: &Mapping { name: "probe".into(), fp: (0..N_KEYS).map(Some).collect(), fail_at: None }, ku: &ku, calls: vec![] };
            let _ = s.translate_pk(&mut probe);
            let krtl = probe.calls.clone();
            let mut kall = krtl.clone();
            kall.sort();
            kall.dedup();
            for mp in mappings(&mut rng, false, true, &krtl, &kall) {
                *mapid += 1;
                println!(
                    "M | {} | {} | {} | {}",
                    mapid,
                    mp.name,
                    mp.fp.iter().map(|x| x.map(|v| v.to_string()).unwrap_or("-".into())).collect::<Vec<_>>().join(" "),
                    mp.fail_at.map(|v| v.to_string()).unwrap_or("-".into())
                );
                let mut tr = MapTr { m: &mp, ku: &ku, calls: vec![] };
                let r = catch_unwind(AssertUnwindSafe(|| s.translate_pk(&mut tr)));
                let res = match &r {
                    Err(_) => "PANIC".to_string(),
                    Ok(Ok(x)) => format!("OK {}", sdump(x, &kn)),
                    Ok(Err(i)) => format!("ET {}", i),
                };
                let eq_orig = match (&r, mp.name.as_str()) {
                    (Ok(Ok(x)), "identity") => {
                        if *x == s {
                            "1"
                        } else {
                            "0"
                        }
                    }
                    _ => "-",
                };
                println!("T | sem | {} | {} | {} | {} | - | - | {} | -", sv, mapid, res, list(&tr.calls), eq_orig);
            }
            th_cases("sem", sv, &dump, seed, false, &ku, true, mapid, &|tr: &mut HTr, ident: bool| {
                let r = catch_unwind(AssertUnwindSafe(|| s.translate_pk(tr)));
                match r {
                    Err(_) => ("PANIC".to_string(), "-".to_string()),
                    Ok(Ok(x)) => (format!("OK {}", sdump(&x, &kn)), eq_flag(ident, x == s)),
                    Ok(Err(i)) => (format!("ET {}", i), "-".to_string()),
                }
            });
            sv += 1;
        }
    }
}

pub fn run(args: &[String]) {
    let r = catch_unwind(AssertUnwindSafe(|| run_inner(args)));
    if let Err(e) = r {
        let msg = e.downcast_ref::<String>().cloned().or_else(|| e.downcast_ref::<&str>().map(|s| s.to_string())).unwrap_or_default();
        eprintln!("translate: harness panic: {}", msg);
        std::process::exit(3);
    }
}

fn run_inner(args: &[String]) {
    let seed: u64 = args.first().and_then(|s| s.parse().ok()).unwrap_or(1);
    let thorough = std::env::var("VERIF_TIER").map(|t| t == "thorough").unwrap_or(false);
    let nvals = if thorough { 260 } else { 70 };
    let w = World::new();
    let mut mapid = 0usize;
    let doms: [(&str, bool, bool, usize); 4] =
        [("bare", false, true, N_KEYS), ("legacy", false, true, N_KEYS), ("segv0", false, false, 6), ("tap", true, false, 6)];
    for (ci_idx, (name, tap, legacy_like, n_keys)) in doms.iter().enumerate() {
        let ci = CtxInfo { tap: *tap, legacy_like: *legacy_like, n_keys: *n_keys };
        let s = seed.wrapping_mul(0x9E3779B97F4A7C15).wrapping_add(ci_idx as u64 * 2000003);
        match ci_idx {
            0 => run_ms::<BareCtx>(&w, s, ci, name, nvals, &mut mapid),
            1 => run_ms::<Legacy>(&w, s, ci, name, nvals, &mut mapid),
            2 => run_ms::<Segwitv0>(&w, s, ci, name, nvals, &mut mapid),
            _ => run_ms::<Tap>(&w, s, ci, name, nvals, &mut mapid),
        }
    }
    run_desc(&w, seed, if thorough { 80 } else { 24 }, &mut mapid);
    run_pol(&w, seed, if thorough { 160 } else { 50 }, &mut mapid);
    let _ = ast::N_KEYS;
}
