//! C12: the harness's own expression tree `G`, its printer, the INDEPENDENT analyses used as
//! oracle (specification typing, tree height, script size, time-lock mixing, key facts), and
//! the seeded grammar-based generator of well-formed and near-miss expressions.
//! Nothing here calls into `miniscript`.
use std::collections::BTreeMap;

// ------------------------------------------------------------------ PRNG
pub struct Rng(pub u64);
impl Rng {
    pub fn next(&mut self) -> u64 {
        self.0 = self.0.wrapping_add(0x9E3779B97F4A7C15);
        let mut z = self.0;
        z = (z ^ (z >> 30)).wrapping_mul(0xBF58476D1CE4E5B9);
        z = (z ^ (z >> 27)).wrapping_mul(0x94D049BB133111EB);
        z ^ (z >> 31)
    }
    pub fn below(&mut self, n: u64) -> u64 { if n == 0 { 0 } else { self.next() % n } }
    pub fn chance(&mut self, num: u64, den: u64) -> bool { self.below(den) < num }
    pub fn pick<'a, T>(&mut self, v: &'a [T]) -> &'a T { &v[self.below(v.len() as u64) as usize] }
}

// ------------------------------------------------------------------ contexts
#[derive(Clone, Copy, PartialEq, Eq, Debug, PartialOrd, Ord)]
pub enum Cx { Bare, Legacy, Segwitv0, Tap }
pub const ALL_CX: [Cx; 4] = [Cx::Bare, Cx::Legacy, Cx::Segwitv0, Cx::Tap];
impl Cx {
    pub fn name(self) -> &'static str {
        match self { Cx::Bare => "Bare", Cx::Legacy => "Legacy", Cx::Segwitv0 => "Segwitv0", Cx::Tap => "Tap" }
    }
    pub fn coq(self) -> &'static str {
        match self { Cx::Bare => "CBare", Cx::Legacy => "CLegacy", Cx::Segwitv0 => "CSegwitv0", Cx::Tap => "CTap" }
    }
}

// ------------------------------------------------------------------ keys
#[derive(Clone, Copy, PartialEq, Eq, Debug, PartialOrd, Ord)]
pub enum KeyKind { Compressed, Uncompressed, XOnly, Xpub(u32) } // Xpub(n): n derivation paths (1 = single path)

#[derive(Clone, PartialEq, Eq, Debug, PartialOrd, Ord)]
pub struct Key { pub s: String, pub kind: KeyKind }
impl Key {
    pub fn unc(&self) -> bool { self.kind == KeyKind::Uncompressed }
    pub fn xo(&self) -> bool { self.kind == KeyKind::XOnly }
    pub fn paths(&self) -> u64 { match self.kind { KeyKind::Xpub(n) if n >= 2 => n as u64, _ => 0 } }
    /// independent classification of a printed key (used on what the implementation holds)
    pub fn classify(s: &str) -> Key {
        let hexish = s.bytes().all(|b| b.is_ascii_hexdigit());
        let kind = if hexish && s.len() == 66 { KeyKind::Compressed }
            else if hexish && s.len() == 130 { KeyKind::Uncompressed }
            else if hexish && s.len() == 64 { KeyKind::XOnly }
            else if let (Some(a), Some(b)) = (s.find('<'), s.find('>')) { KeyKind::Xpub(s[a..b].split(';').count() as u32) }
            else { KeyKind::Xpub(1) };
        Key { s: s.to_string(), kind }
    }
}

pub struct KeyTable { pub comp: Vec<Key>, pub unc: Vec<Key>, pub xo: Vec<Key>, pub xpub: Vec<String> }

// ------------------------------------------------------------------ the tree
#[derive(Clone, Copy, PartialEq, Eq, Debug, PartialOrd, Ord, Hash)]
pub enum K {
    True, False, PkK, PkH, RawPkH, After, Older, Sha256, Hash256, Ripemd160, Hash160,
    Alt, Swap, Check, DupIf, Verify, NonZero, ZeroNotEqual,
    AndV, AndB, AndOr, OrB, OrC, OrD, OrI, Thresh, Multi, SortedMulti, MultiA, SortedMultiA,
}
pub const ALL_K: [K; 30] = [K::True, K::False, K::PkK, K::PkH, K::RawPkH, K::After, K::Older, K::Sha256, K::Hash256,
    K::Ripemd160, K::Hash160, K::Alt, K::Swap, K::Check, K::DupIf, K::Verify, K::NonZero, K::ZeroNotEqual, K::AndV,
    K::AndB, K::AndOr, K::OrB, K::OrC, K::OrD, K::OrI, K::Thresh, K::Multi, K::SortedMulti, K::MultiA, K::SortedMultiA];

#[derive(Clone, PartialEq, Eq, Debug)]
pub struct G { pub k: K, pub subs: Vec<G>, pub keys: Vec<Key>, pub num: u64, pub sugar: bool }

impl G {
    pub fn leaf(k: K) -> G { G { k, subs: vec![], keys: vec![], num: 0, sugar: false } }
    pub fn key(k: K, key: Key) -> G { G { k, subs: vec![], keys: vec![key], num: 0, sugar: false } }
    pub fn num(k: K, n: u64) -> G { G { k, subs: vec![], keys: vec![], num: n, sugar: false } }
    pub fn un(k: K, a: G) -> G { G { k, subs: vec![a], keys: vec![], num: 0, sugar: false } }
    pub fn bin(k: K, a: G, b: G) -> G { G { k, subs: vec![a, b], keys: vec![], num: 0, sugar: false } }
    pub fn tern(a: G, b: G, c: G) -> G { G { k: K::AndOr, subs: vec![a, b, c], keys: vec![], num: 0, sugar: false } }
    pub fn thresh(kk: u64, subs: Vec<G>) -> G { G { k: K::Thresh, subs, keys: vec![], num: kk, sugar: false } }
    pub fn multi(k: K, kk: u64, keys: Vec<Key>) -> G { G { k, subs: vec![], keys, num: kk, sugar: false } }
    pub fn pk(key: Key) -> G { let mut g = G::un(K::Check, G::key(K::PkK, key)); g.sugar = true; g }
    pub fn pkh(key: Key) -> G { let mut g = G::un(K::Check, G::key(K::PkH, key)); g.sugar = true; g }
    pub fn wrap(self, chars: &str) -> G {
        let mut g = self;
        for ch in chars.chars().rev() {
            g = match ch {
                'a' => G::un(K::Alt, g), 's' => G::un(K::Swap, g), 'c' => G::un(K::Check, g), 'd' => G::un(K::DupIf, g),
                'v' => G::un(K::Verify, g), 'j' => G::un(K::NonZero, g), 'n' => G::un(K::ZeroNotEqual, g),
                't' => { let mut x = G::bin(K::AndV, g, G::leaf(K::True)); x.sugar = true; x }
                'u' => { let mut x = G::bin(K::OrI, g, G::leaf(K::False)); x.sugar = true; x }
                'l' => { let mut x = G::bin(K::OrI, G::leaf(K::False), g); x.sugar = true; x }
                _ => panic!("bad wrapper"),
            };
        }
        g
    }

    /// Is this node printed as a wrapper character?
    fn wrapper_char(&self) -> Option<(char, &G)> {
        match self.k {
            K::Alt => Some(('a', &self.subs[0])), K::Swap => Some(('s', &self.subs[0])),
            K::Check if !(self.sugar && matches!(self.subs[0].k, K::PkK | K::PkH)) => Some(('c', &self.subs[0])),
            K::DupIf => Some(('d', &self.subs[0])), K::Verify => Some(('v', &self.subs[0])),
            K::NonZero => Some(('j', &self.subs[0])), K::ZeroNotEqual => Some(('n', &self.subs[0])),
            K::AndV if self.sugar && self.subs[1].k == K::True => Some(('t', &self.subs[0])),
            K::OrI if self.sugar && self.subs[1].k == K::False => Some(('u', &self.subs[0])),
            K::OrI if self.sugar && self.subs[0].k == K::False => Some(('l', &self.subs[1])),
            _ => None,
        }
    }

    pub fn show(&self) -> String {
        let mut prefix = String::new();
        let mut cur = self;
        while let Some((ch, inner)) = cur.wrapper_char() { prefix.push(ch); cur = inner; }
        let body = cur.show_body();
        if prefix.is_empty() { body } else { format!("{}:{}", prefix, body) }
    }
    fn show_body(&self) -> String {
        let args = |v: &Vec<G>| v.iter().map(|g| g.show()).collect::<Vec<_>>().join(",");
        let keys = |v: &Vec<Key>| v.iter().map(|k| k.s.clone()).collect::<Vec<_>>().join(",");
        match self.k {
            K::True => "1".into(), K::False => "0".into(),
            K::PkK => format!("pk_k({})", self.keys[0].s), K::PkH => format!("pk_h({})", self.keys[0].s),
            K::RawPkH => format!("expr_raw_pkh({:040x})", self.num as u128 + 0x1111_0000_0000_0000u128),
            K::After => format!("after({})", self.num), K::Older => format!("older({})", self.num),
            K::Sha256 => format!("sha256({:064x})", self.num as u128 + 7), K::Hash256 => format!("hash256({:064x})", self.num as u128 + 8),
            K::Ripemd160 => format!("ripemd160({:040x})", self.num as u128 + 9), K::Hash160 => format!("hash160({:040x})", self.num as u128 + 10),
            K::Check => { // sugar form pk(K) / pkh(K)
                let c = &self.subs[0];
                if c.k == K::PkK { format!("pk({})", c.keys[0].s) } else { format!("pkh({})", c.keys[0].s) }
            }
            K::AndV => format!("and_v({})", args(&self.subs)), K::AndB => format!("and_b({})", args(&self.subs)),
            K::AndOr => if self.sugar && self.subs[2].k == K::False { format!("and_n({},{})", self.subs[0].show(), self.subs[1].show()) }
                        else { format!("andor({})", args(&self.subs)) },
            K::OrB => format!("or_b({})", args(&self.subs)), K::OrC => format!("or_c({})", args(&self.subs)),
            K::OrD => format!("or_d({})", args(&self.subs)), K::OrI => format!("or_i({})", args(&self.subs)),
            K::Thresh => format!("thresh({},{})", self.num, args(&self.subs)),
            K::Multi => format!("multi({},{})", self.num, keys(&self.keys)),
            K::SortedMulti => format!("sortedmulti({},{})", self.num, keys(&self.keys)),
            K::MultiA => format!("multi_a({},{})", self.num, keys(&self.keys)),
            K::SortedMultiA => format!("sortedmulti_a({},{})", self.num, keys(&self.keys)),
            _ => unreachable!("wrapper printed as body"),
        }
    }

    pub fn preorder<'a>(&'a self, out: &mut Vec<&'a G>) { out.push(self); for s in &self.subs { s.preorder(out); } }
    pub fn nodes(&self) -> Vec<&G> { let mut v = vec![]; self.preorder(&mut v); v }
    pub fn count(&self) -> usize { 1 + self.subs.iter().map(|s| s.count()).sum::<usize>() }
    /// ext.tree_height: leaves 0, otherwise 1 + max over children
    pub fn height(&self) -> u64 { if self.subs.is_empty() { 0 } else { 1 + self.subs.iter().map(|s| s.height()).max().unwrap() } }
    /// all keys in pre-order (PkK, PkH and the multi kinds)
    pub fn all_keys(&self) -> Vec<&Key> { self.nodes().into_iter().flat_map(|n| n.keys.iter()).collect() }
    pub fn has_kind(&self, f: impl Fn(K) -> bool) -> bool { self.nodes().iter().any(|n| f(n.k)) }
}

// ------------------------------------------------------------------ specification typing (port of coq/Ms/Spec.v)
#[derive(Clone, Copy, PartialEq, Eq, Debug)]
pub enum Base { B, K, V, W }
#[derive(Clone, Copy, PartialEq, Eq, Debug)]
pub struct Ty { pub base: Base, pub z: bool, pub o: bool, pub n: bool, pub d: bool, pub u: bool, pub s: bool, pub f: bool, pub e: bool, pub m: bool }

fn tyc(base: Base, z: bool, o: bool, n: bool, d: bool, u: bool, m: (bool, bool, bool, bool)) -> Option<Ty> {
    Some(Ty { base, z, o, n, d, u, s: m.0, f: m.1, e: m.2, m: m.3 })
}
/// The specification's type of `g` (None: ill-typed, or a threshold outside 1 <= k <= n).
/// `d:` is typed without the tapscript-only `u` (the library's rule; DESIGN 5/C05 deviation).
pub fn spec_type(g: &G) -> Option<Ty> {
    const B: Base = Base::B; const KK: Base = Base::K; const V: Base = Base::V; const W: Base = Base::W;
    let key_m = (true, false, true, true);
    match g.k {
        K::False => tyc(B, true, false, false, true, true, (true, false, true, true)),
        K::True => tyc(B, true, false, false, false, true, (false, true, false, true)),
        K::PkK => tyc(KK, false, true, true, true, true, key_m),
        K::PkH | K::RawPkH => tyc(KK, false, false, true, true, true, key_m),
        K::After | K::Older => tyc(B, true, false, false, false, false, (false, true, false, true)),
        K::Sha256 | K::Hash256 | K::Ripemd160 | K::Hash160 => tyc(B, false, true, true, true, true, (false, false, false, true)),
        K::Multi | K::SortedMulti => tyc(B, false, false, true, true, true, key_m),
        K::MultiA | K::SortedMultiA => tyc(B, false, false, false, true, true, key_m),
        K::Alt => { let x = spec_type(&g.subs[0])?; if x.base != B { return None; } tyc(W, false, false, false, x.d, x.u, (x.s, x.f, x.e, x.m)) }
        K::Swap => { let x = spec_type(&g.subs[0])?; if x.base != B || !x.o { return None; } tyc(W, false, false, false, x.d, x.u, (x.s, x.f, x.e, x.m)) }
        K::Check => { let x = spec_type(&g.subs[0])?; if x.base != KK { return None; } tyc(B, false, x.o, x.n, x.d, true, (x.s, x.f, x.e, x.m)) }
        K::DupIf => { let x = spec_type(&g.subs[0])?; if x.base != V || !x.z { return None; } tyc(B, false, true, true, true, false, (x.s, false, x.f, x.m)) }
        K::Verify => { let x = spec_type(&g.subs[0])?; if x.base != B { return None; } tyc(V, x.z, x.o, x.n, false, false, (x.s, true, false, x.m)) }
        K::NonZero => { let x = spec_type(&g.subs[0])?; if x.base != B || !x.n { return None; } tyc(B, false, x.o, true, true, x.u, (x.s, false, x.f, x.m)) }
        K::ZeroNotEqual => { let x = spec_type(&g.subs[0])?; if x.base != B { return None; } tyc(B, x.z, x.o, x.n, x.d, true, (x.s, x.f, x.e, x.m)) }
        K::AndV => {
            let (x, y) = (spec_type(&g.subs[0])?, spec_type(&g.subs[1])?);
            if x.base != V || y.base == W { return None; }
            tyc(y.base, x.z && y.z, x.z && y.o || y.z && x.o, x.n || x.z && y.n, false, y.u, (x.s || y.s, x.s || y.f, false, x.m && y.m))
        }
        K::AndB => {
            let (x, y) = (spec_type(&g.subs[0])?, spec_type(&g.subs[1])?);
            if x.base != B || y.base != W { return None; }
            tyc(B, x.z && y.z, x.z && y.o || y.z && x.o, x.n || x.z && y.n, x.d && y.d, true,
                (x.s || y.s, x.f && y.f || x.s && x.f || y.s && y.f, x.e && y.e && x.s && y.s, x.m && y.m))
        }
        K::OrB => {
            let (x, z) = (spec_type(&g.subs[0])?, spec_type(&g.subs[1])?);
            if x.base != B || !x.d || z.base != W || !z.d { return None; }
            tyc(B, x.z && z.z, x.z && z.o || z.z && x.o, false, true, true, (x.s && z.s, false, true, x.m && z.m && x.e && z.e && (x.s || z.s)))
        }
        K::OrC => {
            let (x, z) = (spec_type(&g.subs[0])?, spec_type(&g.subs[1])?);
            if x.base != B || !x.d || !x.u || z.base != V { return None; }
            tyc(V, x.z && z.z, x.o && z.z, false, false, false, (x.s && z.s, true, false, x.m && z.m && x.e && (x.s || z.s)))
        }
        K::OrD => {
            let (x, z) = (spec_type(&g.subs[0])?, spec_type(&g.subs[1])?);
            if x.base != B || !x.d || !x.u || z.base != B { return None; }
            tyc(B, x.z && z.z, x.o && z.z, false, z.d, z.u, (x.s && z.s, z.f, z.e, x.m && z.m && x.e && (x.s || z.s)))
        }
        K::OrI => {
            let (x, z) = (spec_type(&g.subs[0])?, spec_type(&g.subs[1])?);
            if x.base != z.base || x.base == W { return None; }
            tyc(x.base, false, x.z && z.z, false, x.d || z.d, x.u && z.u, (x.s && z.s, x.f && z.f, x.e && z.f || x.f && z.e, x.m && z.m && (x.s || z.s)))
        }
        K::AndOr => {
            let (x, y, z) = (spec_type(&g.subs[0])?, spec_type(&g.subs[1])?, spec_type(&g.subs[2])?);
            if x.base != B || !x.d || !x.u || y.base != z.base || y.base == W { return None; }
            tyc(y.base, x.z && y.z && z.z, x.z && y.o && z.o || x.o && y.z && z.z, false, z.d, y.u && z.u,
                (z.s && (x.s || y.s), z.f && (x.s || y.f), z.e && (x.s || y.f), x.m && y.m && z.m && x.e && (x.s || y.s || z.s)))
        }
        K::Thresh => {
            let n = g.subs.len() as u64;
            if n == 0 || g.num < 1 || g.num > n { return None; }
            let mut ts = vec![];
            for (i, s) in g.subs.iter().enumerate() {
                let t = spec_type(s)?;
                if t.base != (if i == 0 { B } else { W }) || !t.d || !t.u { return None; }
                ts.push(t);
            }
            let nz = ts.iter().filter(|t| !t.z).count();
            let nons = ts.iter().filter(|t| !t.s).count() as u64;
            tyc(B, nz == 0, nz == 1 && ts.iter().all(|t| t.z || t.o), false, true, true,
                (nons < g.num, false, ts.iter().all(|t| t.e && t.s), ts.iter().all(|t| t.e && t.m) && nons <= g.num))
        }
    }
}

// ------------------------------------------------------------------ independent figures
pub fn script_num_size(n: u64) -> u64 {
    if n <= 16 { 1 } else if n < 0x80 { 2 } else if n < 0x8000 { 3 } else if n < 0x800000 { 4 } else if n < 0x80000000 { 5 } else { 6 }
}
/// bytes a key push takes in the script of context `cx` (what is really serialised)
pub fn key_push(cx: Cx, k: &Key) -> u64 {
    match cx { Cx::Tap => 33, _ => if k.unc() { 66 } else { 34 } }
}
/// Does the fragment end in an opcode with a *VERIFY twin (so that v: is free)?
fn free_verify(g: &G) -> bool {
    match g.k {
        K::Sha256 | K::Hash256 | K::Ripemd160 | K::Hash160 | K::Multi | K::SortedMulti | K::MultiA | K::SortedMultiA
        | K::Check | K::Thresh => true,
        K::Swap => free_verify(&g.subs[0]),
        K::AndV => free_verify(&g.subs[1]),
        _ => false,
    }
}
/// size in bytes of the script the fragment encodes to (independent of the library)
pub fn script_size(cx: Cx, g: &G) -> u64 {
    let sub: u64 = g.subs.iter().map(|s| script_size(cx, s)).sum();
    sub + match g.k {
        K::AndV => 0,
        K::True | K::False | K::Swap | K::Check | K::ZeroNotEqual | K::AndB | K::OrB => 1,
        K::Alt | K::OrC => 2,
        K::DupIf | K::AndOr | K::OrD | K::OrI => 3,
        K::NonZero => 4,
        K::PkH | K::RawPkH => 24,
        K::Ripemd160 | K::Hash160 => 27,
        K::Sha256 | K::Hash256 => 39,
        K::PkK => key_push(cx, &g.keys[0]),
        K::After | K::Older => script_num_size(g.num) + 1,
        K::Verify => if free_verify(&g.subs[0]) { 0 } else { 1 },
        K::Thresh => script_num_size(g.num) + 1 + (g.subs.len() as u64).saturating_sub(1),
        K::Multi | K::SortedMulti => script_num_size(g.num) + 1 + script_num_size(g.keys.len() as u64) + g.keys.iter().map(|k| key_push(cx, k)).sum::<u64>(),
        K::MultiA | K::SortedMultiA => script_num_size(g.num) + 1 + g.keys.iter().map(|k| key_push(cx, k)).sum::<u64>() + g.keys.len() as u64,
    }
}

/// (csv_height, csv_time, cltv_height, cltv_time, combination): a spending path that needs
/// both a height-based and a time-based lock of the same kind cannot be satisfied.
#[derive(Clone, Copy, Default, Debug, PartialEq, Eq)]
pub struct Tl { pub csv_h: bool, pub csv_t: bool, pub cltv_h: bool, pub cltv_t: bool, pub comb: bool }
fn tl_combine(k: u64, items: &[Tl]) -> Tl {
    let mut acc = Tl::default();
    for t in items {
        if k > 1 {
            acc.comb |= (acc.csv_h && t.csv_t) || (acc.csv_t && t.csv_h) || (acc.cltv_t && t.cltv_h) || (acc.cltv_h && t.cltv_t);
        }
        acc.csv_h |= t.csv_h; acc.csv_t |= t.csv_t; acc.cltv_h |= t.cltv_h; acc.cltv_t |= t.cltv_t; acc.comb |= t.comb;
    }
    acc
}
pub fn timelocks(g: &G) -> Tl {
    let c: Vec<Tl> = g.subs.iter().map(timelocks).collect();
    match g.k {
        K::After => { let h = g.num < 500_000_000; Tl { cltv_h: h, cltv_t: !h, ..Tl::default() } }
        K::Older => { let t = g.num & (1 << 22) != 0; Tl { csv_h: !t, csv_t: t, ..Tl::default() } }
        K::AndV | K::AndB => tl_combine(2, &c),
        K::AndOr => tl_combine(1, &[tl_combine(2, &c[0..2]), c[2]]),
        K::OrB | K::OrC | K::OrD | K::OrI => tl_combine(1, &c),
        K::Thresh => tl_combine(g.num, &c),
        _ => if c.is_empty() { Tl::default() } else { c[0] },
    }
}

/// does some satisfaction exist (ext.sat_data.is_some())?  (dissatisfactions of the other
/// thresh children exist by typing)
pub fn satisfiable(g: &G) -> bool {
    match g.k {
        K::False => false,
        K::AndV | K::AndB => satisfiable(&g.subs[0]) && satisfiable(&g.subs[1]),
        K::OrB | K::OrC | K::OrD | K::OrI => satisfiable(&g.subs[0]) || satisfiable(&g.subs[1]),
        K::AndOr => satisfiable(&g.subs[0]) && satisfiable(&g.subs[1]) || satisfiable(&g.subs[2]),
        K::Thresh => g.subs.iter().filter(|s| satisfiable(s)).count() as u64 >= g.num,
        _ => g.subs.first().map(satisfiable).unwrap_or(true),
    }
}

pub fn thresholds(g: &G) -> Vec<(u64, u64, u64)> {
    g.nodes().iter().filter_map(|n| match n.k {
        K::Thresh => Some((0, n.num, n.subs.len() as u64)),
        K::Multi | K::SortedMulti => Some((20, n.num, n.keys.len() as u64)),
        K::MultiA | K::SortedMultiA => Some((999, n.num, n.keys.len() as u64)),
        _ => None }).collect()
}
pub fn threshold_ok(t: (u64, u64, u64)) -> bool { t.1 >= 1 && t.1 <= t.2 && (t.0 == 0 || t.2 <= t.0) }
pub fn afters(g: &G) -> Vec<u64> { g.nodes().iter().filter(|n| n.k == K::After).map(|n| n.num).collect() }
pub fn olders(g: &G) -> Vec<u64> { g.nodes().iter().filter(|n| n.k == K::Older).map(|n| n.num).collect() }
pub fn after_ok(n: u64) -> bool { n >= 1 && n < (1 << 31) }
pub fn older_ok(n: u64) -> bool { n >= 1 && n < (1 << 31) }

// ------------------------------------------------------------------ context rules (specification side)
pub fn key_legal(cx: Cx, k: &Key) -> bool {
    match cx { Cx::Bare | Cx::Legacy => !k.xo(), Cx::Segwitv0 => !k.unc() && !k.xo(), Cx::Tap => !k.unc() }
}
/// the first context rule `g` breaks (None: obeys). `size`, `sat` come from the figures.
pub fn context_rule_broken(cx: Cx, g: &G, size: u64, sat: Option<(u64, u64, u64)>) -> Option<String> {
    let ty = match spec_type(g) { Some(t) => t, None => return Some("ill-typed".into()) };
    if ty.base != Base::B { return Some("nonB".into()); }
    for n in g.nodes() {
        match (n.k, cx) {
            (K::DupIf, Cx::Bare | Cx::Legacy) => return Some("presegwit-dupif".into()),
            (K::OrI, Cx::Bare | Cx::Legacy) => return Some("presegwit-or_i".into()),
            (K::MultiA | K::SortedMultiA, Cx::Bare | Cx::Legacy | Cx::Segwitv0) => return Some("multi_a-outside-tap".into()),
            (K::Multi | K::SortedMulti, Cx::Tap) => return Some("multi-in-tap".into()),
            _ => {}
        }
        for k in &n.keys {
            if !key_legal(cx, k) {
                let pos = match n.k { K::PkK => "pk_k", K::PkH => "pk_h", _ => "multi" };
                return Some(format!("keykind-{}", pos));
            }
        }
    }
    for t in thresholds(g) { if !threshold_ok(t) { return Some("threshold-range".into()); } }
    for n in afters(g) { if !after_ok(n) { return Some("after-range".into()); } }
    for n in olders(g) { if !older_ok(n) { return Some("older-range".into()); } }
    if g.height() > 402 { return Some("depth".into()); }
    let lim = match cx { Cx::Legacy => Some(520), Cx::Bare | Cx::Segwitv0 => Some(10_000), Cx::Tap => None };
    if let Some(l) = lim { if size > l { return Some("script-size".into()); } }
    if let Some((wit, ops, exec)) = sat {
        if cx != Cx::Tap && ops > 201 { return Some("opcount".into()); }
        if cx == Cx::Segwitv0 && wit + exec > 1000 { return Some("stack".into()); }
    }
    None
}

// ------------------------------------------------------------------ generator
pub struct Gen<'a> { pub rng: Rng, pub keys: &'a KeyTable, next_key: usize, next_hash: u64, variant: u64, sys: bool }

pub const RECIPES: [&str; 28] = ["sane", "dupkey", "mixed", "malleable", "sigless", "rawpkh", "multi-flavour",
    "presegwit-ifs", "keykind", "thresh-range", "lock-range", "deep-n", "deep-j", "deep-l", "deep-u", "deep-tv", "near-size", "near-ops", "near-wit", "near-stack",
    "multipath", "nonB", "unsat", "illtyped", "random", "legacy-size-edge", "bare-shape", "timelock-boundary"];

impl<'a> Gen<'a> {
    /// `round`: how many times this (context, recipe) pair was visited before; the first rounds walk
    /// through the recipe's variants systematically (mixed radix), later rounds choose at random
    pub fn new(seed: u64, round: u64, keys: &'a KeyTable) -> Self {
        let mut rng = Rng(seed);
        let next_key = rng.below(1000) as usize;
        Gen { rng, keys, next_key, next_hash: 1, variant: round, sys: round < 36 }
    }
    fn choose(&mut self, n: u64) -> u64 {
        if self.sys { let v = self.variant % n; self.variant /= n; v } else { self.rng.below(n) }
    }
    fn pick_sys<'b, T>(&mut self, v: &'b [T]) -> &'b T { let i = self.choose(v.len() as u64) as usize; &v[i] }

    /// a fresh key of the kind natural to the context
    pub fn fresh(&mut self, cx: Cx) -> Key {
        self.next_key += 1;
        let i = self.next_key;
        match cx {
            Cx::Tap => self.keys.xo[i % self.keys.xo.len()].clone(),
            Cx::Segwitv0 => self.keys.comp[i % self.keys.comp.len()].clone(),
            _ => if self.rng.chance(1, 5) { self.keys.unc[i % self.keys.unc.len()].clone() } else { self.keys.comp[i % self.keys.comp.len()].clone() },
        }
    }
    pub fn fresh_kind(&mut self, kind: KeyKind) -> Key {
        self.next_key += 1;
        let i = self.next_key;
        match kind {
            KeyKind::Compressed => self.keys.comp[i % self.keys.comp.len()].clone(),
            KeyKind::Uncompressed => self.keys.unc[i % self.keys.unc.len()].clone(),
            KeyKind::XOnly => self.keys.xo[i % self.keys.xo.len()].clone(),
            KeyKind::Xpub(n) => {
                let x = &self.keys.xpub[i % self.keys.xpub.len()];
                let s = match n { 0 | 1 => format!("{}/{}/*", x, i % 7), 2 => format!("{}/<0;1>/*", x), 3 => format!("{}/<0;1;2>/*", x), _ => format!("{}/<0;1;2;3>/*", x) };
                Key { s, kind: KeyKind::Xpub(n.max(1)) }
            }
        }
    }
    fn hash(&mut self, k: K) -> G { self.next_hash += 1; G::num(k, self.next_hash) }
    fn some_hash(&mut self) -> G { let k = *self.rng.pick(&[K::Sha256, K::Hash256, K::Ripemd160, K::Hash160]); self.hash(k) }
    fn height_lock(&mut self) -> u64 { 1 + self.rng.below(400_000) }
    fn time_lock(&mut self) -> u64 { 500_000_000 + self.rng.below(1_000_000) }
    fn older_h(&mut self) -> u64 { 1 + self.rng.below(60_000) }
    fn older_t(&mut self) -> u64 { (1 << 22) | (1 + self.rng.below(60_000)) }
    fn multi_for(&mut self, cx: Cx, k: u64, n: usize) -> G {
        let keys: Vec<Key> = (0..n).map(|_| self.fresh(cx)).collect();
        let kind = match cx { Cx::Tap => if self.rng.chance(1, 4) { K::SortedMultiA } else { K::MultiA },
                              _ => if self.rng.chance(1, 4) { K::SortedMulti } else { K::Multi } };
        G::multi(kind, k, keys)
    }

    // ---- type-directed random expressions (depth-bounded); mostly well typed
    pub fn gen_b(&mut self, cx: Cx, d: u32) -> G {
        let leafy = d == 0 || self.rng.chance(1, 4);
        if leafy {
            return match self.rng.below(10) {
                0..=4 => { let k = self.fresh(cx); if self.rng.chance(1, 4) { G::pkh(k) } else { G::pk(k) } }
                5 => self.some_hash(),
                6 => { let n = self.height_lock(); G::num(K::After, n) }
                7 => { let n = self.older_h(); G::num(K::Older, n) }
                8 => { let n = 1 + self.rng.below(3) as usize; let k = 1 + self.rng.below(n as u64); self.multi_for(cx, k, n) }
                _ => { let k = self.fresh(cx); G::pk(k) }
            };
        }
        match self.rng.below(14) {
            0 => { let a = self.gen_v(cx, d - 1); let b = self.gen_b(cx, d - 1); G::bin(K::AndV, a, b) }
            1 => { let a = self.gen_b(cx, d - 1); let b = self.gen_w(cx, d - 1); G::bin(K::AndB, a, b) }
            2 => { let a = self.gen_bdu(cx, d - 1); let b = self.gen_wd(cx, d - 1); G::bin(K::OrB, a, b) }
            3 => { let a = self.gen_bdu(cx, d - 1); let b = self.gen_b(cx, d - 1); G::bin(K::OrD, a, b) }
            4 if cx == Cx::Segwitv0 || cx == Cx::Tap => { let a = self.gen_b(cx, d - 1); let b = self.gen_b(cx, d - 1); G::bin(K::OrI, a, b) }
            5 => { let a = self.gen_bdu(cx, d - 1); let b = self.gen_b(cx, d - 1); let c = self.gen_b(cx, d - 1); G::tern(a, b, c) }
            6 => {
                let n = 1 + self.rng.below(4) as usize;
                let k = 1 + self.rng.below(n as u64);
                let mut subs = vec![self.gen_bdu(cx, d - 1)];
                for _ in 1..n { subs.push(self.gen_wdu(cx, d - 1)); }
                G::thresh(k, subs)
            }
            7 => { let a = self.gen_bdu(cx, d - 1); let b = self.gen_v(cx, d - 1); G::bin(K::AndV, G::bin(K::OrC, a, b), G::leaf(K::True)) }
            8 => self.gen_b(cx, d - 1).wrap("n"),
            9 => { let k = self.fresh(cx); G::pk(k).wrap("j") }
            10 if cx == Cx::Segwitv0 || cx == Cx::Tap => { let n = self.older_h(); G::num(K::Older, n).wrap("dv") }
            11 => self.gen_v(cx, d - 1).wrap("t"),
            12 if cx == Cx::Segwitv0 || cx == Cx::Tap => self.gen_b(cx, d - 1).wrap(if self.rng.chance(1, 2) { "u" } else { "l" }),
            _ => { let a = self.gen_v(cx, d - 1); let b = self.gen_b(cx, d - 1); G::bin(K::AndV, a, b) }
        }
    }
    /// B with d and u (pk, pkh, hashes, multi, thresh, j:pk ...)
    pub fn gen_bdu(&mut self, cx: Cx, d: u32) -> G {
        match self.rng.below(8) {
            0..=3 => { let k = self.fresh(cx); if self.rng.chance(1, 4) { G::pkh(k) } else { G::pk(k) } }
            4 => self.some_hash(),
            5 => { let n = 1 + self.rng.below(3) as usize; let k = 1 + self.rng.below(n as u64); self.multi_for(cx, k, n) }
            6 if d > 0 => {
                let n = 2 + self.rng.below(2) as usize;
                let k = 1 + self.rng.below(n as u64);
                let mut subs = vec![self.gen_bdu(cx, d - 1)];
                for _ in 1..n { subs.push(self.gen_wdu(cx, d - 1)); }
                G::thresh(k, subs)
            }
            _ => { let k = self.fresh(cx); G::pk(k) }
        }
    }
    pub fn gen_v(&mut self, cx: Cx, d: u32) -> G { self.gen_b(cx, d).wrap("v") }
    pub fn gen_w(&mut self, cx: Cx, d: u32) -> G {
        if self.rng.chance(1, 2) { let k = self.fresh(cx); G::pk(k).wrap("s") } else { self.gen_b(cx, d).wrap("a") }
    }
    pub fn gen_wd(&mut self, cx: Cx, d: u32) -> G { self.gen_wdu(cx, d) }
    pub fn gen_wdu(&mut self, cx: Cx, d: u32) -> G {
        if self.rng.chance(1, 2) { let k = self.fresh(cx); G::pk(k).wrap("s") } else { self.gen_bdu(cx, d).wrap("a") }
    }
    /// sane: B, every path signed, non-malleable, no repeated keys, no mixed locks
    pub fn gen_sane(&mut self, cx: Cx, d: u32) -> G {
        for _ in 0..40 {
            let g = self.gen_b(cx, d);
            if let Some(t) = spec_type(&g) {
                let mut ks: Vec<&Key> = g.all_keys(); let n = ks.len(); ks.sort(); ks.dedup();
                if t.base == Base::B && t.s && t.m && ks.len() == n && !timelocks(&g).comb && !g.has_kind(|k| k == K::RawPkH) && satisfiable(&g) { return g; }
            }
        }
        let k = self.fresh(cx); G::pk(k)
    }

    /// and_v(v:X, rest)
    fn and_chain(&mut self, items: Vec<G>) -> G {
        let mut it = items.into_iter().rev();
        let mut acc = it.next().unwrap();
        for x in it { acc = G::bin(K::AndV, x.wrap("v"), acc); }
        acc
    }

    /// One expression for the recipe; returns (tree, note)
    pub fn recipe(&mut self, cx: Cx, r: &str) -> G {
        let d = 1 + self.rng.below(3) as u32;
        let tapish = cx == Cx::Tap;
        match r {
            "sane" => self.gen_sane(cx, d),
            "random" => self.gen_b(cx, d + 1),
            "dupkey" => {
                let g = self.gen_sane(cx, d);
                let k = g.all_keys().first().map(|k| (*k).clone()).unwrap_or_else(|| self.fresh(cx));
                match self.choose(3) {
                    0 => G::bin(K::AndV, G::pk(k).wrap("v"), g),
                    1 => G::bin(K::OrB, G::pk(k), g.wrap("a")),
                    _ => G::bin(K::AndB, g, G::pkh(k).wrap("a")),
                }
            }
            "mixed" => {
                let k = self.fresh(cx);
                match self.choose(5) {
                    0 => { let (a, b) = (self.height_lock(), self.time_lock()); self.and_chain(vec![G::pk(k), G::num(K::After, a), G::num(K::After, b)]) }
                    1 => { let (a, b) = (self.older_h(), self.older_t()); self.and_chain(vec![G::pk(k), G::num(K::Older, a), G::num(K::Older, b)]) }
                    2 => { let (a, b) = (self.older_h(), self.older_t());
                           G::thresh(2, vec![G::pk(k), G::num(K::Older, a).wrap("sln"), G::num(K::Older, b).wrap("sln")]) }
                    3 => { // not mixed: cltv height with csv time, or both under an or
                           let (a, b) = (self.height_lock(), self.older_t()); self.and_chain(vec![G::pk(k), G::num(K::After, a), G::num(K::Older, b)]) }
                    _ => { let (a, b) = (self.height_lock(), self.time_lock()); let k2 = self.fresh(cx); let k3 = self.fresh(cx);
                           let inner = self.and_chain(vec![G::pk(k2), G::bin(K::OrD, G::pk(k3), G::num(K::After, a)), G::num(K::After, b)]);
                           G::bin(K::OrD, G::pk(k), inner) }
                }
            }
            "malleable" => {
                let (k1, k2) = (self.fresh(cx), self.fresh(cx));
                match self.choose(4) {
                    0 => G::bin(K::OrB, self.some_hash(), self.some_hash().wrap("a")),           // two non-s, non-e branches
                    1 => G::bin(K::OrD, self.some_hash(), G::pk(k1)),                            // left not e
                    2 => G::tern(self.some_hash(), G::pk(k1), G::pk(k2)),                        // andor with non-e X
                    _ => G::bin(K::AndV, G::bin(K::OrC, self.some_hash(), G::pk(k1).wrap("v")), G::pk(k2)),
                }
            }
            "sigless" => {
                let k = self.fresh(cx);
                match self.choose(4) {
                    0 => { let n = self.older_h(); G::bin(K::OrD, G::pk(k), G::num(K::Older, n)) }
                    1 => self.some_hash(),
                    2 => { let n = self.height_lock(); G::bin(K::AndV, self.some_hash().wrap("v"), G::num(K::After, n)) }
                    _ => { let n = self.older_h(); G::tern(G::pk(k), self.some_hash(), G::num(K::Older, n)) }
                }
            }
            "rawpkh" => {
                let k = self.fresh(cx); self.next_hash += 1;
                let raw = G::un(K::Check, G::num(K::RawPkH, self.next_hash));
                match self.choose(3) { 0 => raw, 1 => G::bin(K::AndV, G::pk(k).wrap("v"), raw), _ => G::bin(K::OrD, G::pk(k), raw) }
            }
            "multi-flavour" => {
                let n = 1 + self.rng.below(4) as usize; let kk = 1 + self.rng.below(n as u64);
                let keys: Vec<Key> = (0..n).map(|_| self.fresh(cx)).collect();
                let kind = *self.pick_sys(&[K::Multi, K::SortedMulti, K::MultiA, K::SortedMultiA]);
                let m = G::multi(kind, kk, keys);
                if self.rng.chance(1, 2) { m } else { let k = self.fresh(cx); G::bin(K::AndV, G::pk(k).wrap("v"), m) }
            }
            "presegwit-ifs" => {
                let (k1, k2) = (self.fresh(cx), self.fresh(cx));
                match self.choose(4) {
                    0 => G::bin(K::OrI, G::pk(k1), G::pk(k2)),
                    1 => { let n = self.older_h(); G::bin(K::OrD, G::pk(k1), G::bin(K::AndV, G::pk(k2).wrap("v"), G::num(K::Older, n)).wrap("dv")) }
                    2 => G::pk(k1).wrap("u"),
                    _ => { let n = self.older_h(); G::bin(K::AndB, G::pk(k1), G::num(K::Older, n).wrap("adv")) }
                }
            }
            "keykind" => {
                let kind = *self.pick_sys(&[KeyKind::Compressed, KeyKind::Uncompressed, KeyKind::XOnly]);
                let bad = self.fresh_kind(kind); let good = self.fresh(cx);
                match self.choose(6) {
                    0 => G::pk(bad),
                    1 => { let g2 = self.fresh(cx); G::multi(if tapish { K::MultiA } else { K::Multi }, 1, vec![g2, bad]) }
                    2 => G::pkh(bad),
                    3 => G::bin(K::OrB, G::pk(good), G::pk(bad).wrap("s")),
                    4 => G::bin(K::AndV, G::pk(good).wrap("v"), G::pkh(bad)),
                    _ => G::bin(K::AndV, G::pkh(bad).wrap("v"), G::pk(good)),
                }
            }
            "thresh-range" => {
                let k0 = self.fresh(cx);
                match self.choose(8) {
                    0 => G::thresh(0, vec![G::pk(k0), G::pk(self.fresh(cx)).wrap("s")]),
                    1 => G::thresh(3, vec![G::pk(k0), G::pk(self.fresh(cx)).wrap("s")]),
                    2 => G::thresh(2, vec![G::pk(k0), G::pk(self.fresh(cx)).wrap("s")]),
                    3 => self.multi_for(cx, 0, 2),
                    4 => self.multi_for(cx, 3, 2),
                    5 => { let n = if tapish { 20 + self.rng.below(3) as usize } else { 19 + self.rng.below(3) as usize }; self.multi_for(cx, 2, n) }
                    6 if tapish => { let n = 998 + self.rng.below(3) as usize; self.multi_for(cx, 2, n) }
                    _ => G::thresh(1, vec![G::pk(k0)]),
                }
            }
            "lock-range" | "timelock-boundary" => {
                let k = self.fresh(cx);
                let vals: [u64; 14] = [0, 1, (1 << 31) - 1, 1 << 31, 499_999_999, 500_000_000, 65535, 65536, 4194304, 4194305, (1 << 32) - 1, 2, 4194303, 500_000_001];
                let v = *self.pick_sys(&vals);
                let kind = if r == "lock-range" { K::After } else { K::Older };
                G::bin(K::AndV, G::pk(k).wrap("v"), G::num(kind, v))
            }
            "deep-n" | "deep-j" | "deep-l" | "deep-u" | "deep-tv" => {
                // A chain of one stackable wrapper kind (n:, j:, l:, u:, or the pair t:v:) around / inside a core
                // that uses one of the other wrappers (v:, a:, d:, s:, c:), with the total nesting depth
                // exactly 401, 402 or 403 (the library limit is 402), or a small depth for the limit rows.
                let filler = &r[5..];
                let target = *self.pick_sys(&[402u64, 403, 401, 7]);
                let core = self.choose(5);
                let (k1, k2) = (self.fresh(cx), self.fresh(cx));
                let build = |count: usize| -> G {
                    let base = match core { 3 => G::num(K::Older, 1).wrap("dv"), _ => G::pk(k1.clone()) };
                    let mut x = base;
                    for _ in 0..count { x = x.wrap(filler); }
                    match core {
                        1 => G::bin(K::AndV, x.wrap("v"), G::pk(k2.clone())),
                        2 => G::bin(K::AndB, G::pk(k2.clone()), x.wrap("a")),
                        4 if filler == "n" || filler == "j" || filler == "tv" => G::bin(K::AndB, G::pk(k2.clone()), x.wrap("s")),
                        _ => x,
                    }
                };
                let (h0, h1) = (build(0).height(), build(1).height());
                let step = (h1 - h0).max(1);
                let count = if target > h0 { ((target - h0) / step) as usize } else { 0 };
                build(count)
            }
            "near-size" => {
                // and_v chain of v:pk / hashes up to a target size around the context's limits
                let target = match cx { Cx::Legacy => *self.pick_sys(&[480u64, 515, 520, 521, 540]), Cx::Segwitv0 => *self.pick_sys(&[3550u64, 3599, 3600, 3601, 3650]),
                                        Cx::Bare => 300, Cx::Tap => *self.pick_sys(&[3600u64, 5000]) };
                let mut items = vec![];
                let mut sz = 0u64;
                loop {
                    let it = if self.rng.chance(2, 3) { let k = self.fresh(cx); G::pk(k) } else { self.some_hash() };
                    let add = script_size(cx, &it);
                    if sz + add + 36 > target { break; }
                    sz += add; items.push(it);
                }
                // pad with older(1) (3 bytes with v:) and finish with pk
                while sz + 35 + 3 <= target { items.push(G::num(K::Older, 1)); sz += 3; }
                let k = self.fresh(cx); items.push(G::pk(k));
                self.and_chain(items)
            }
            "legacy-size-edge" => {
                // uncompressed keys: ext.pk_cost counts 65 for a 66-byte push
                let nunc = 1 + self.rng.below(7) as usize;
                let target = 515 + self.rng.below(14);
                let mut items: Vec<G> = (0..nunc).map(|_| { let k = self.fresh_kind(KeyKind::Uncompressed); G::pk(k) }).collect();
                let mut sz: u64 = items.iter().map(|g| script_size(cx, g)).sum();
                while sz + 39 + 3 <= target { let h = self.some_hash(); sz += script_size(cx, &h); items.push(h); }
                while sz + 3 <= target { items.push(G::num(K::Older, 1)); sz += 3; }
                items.reverse(); // fillers first, the keys last (every item is B; v: goes on all but the last)
                self.and_chain(items)
            }
            "near-ops" => {
                // thresh(k, pk, s:pk ...) : 3 ops per extra key; around 201
                let n = *self.pick_sys(&[60usize, 65, 66, 67, 68, 70]);
                let k0 = self.fresh(cx);
                let mut subs = vec![G::pk(k0)];
                for _ in 1..n { let k = self.fresh(cx); subs.push(G::pk(k).wrap("s")); }
                G::thresh(1 + self.rng.below(n as u64), subs)
            }
            "near-wit" => {
                let n = *self.pick_sys(&[97usize, 98, 99, 100, 101]);
                let k0 = self.fresh(cx);
                let mut subs = vec![G::pk(k0)];
                for _ in 1..n { let k = self.fresh(cx); subs.push(G::pk(k).wrap("s")); }
                G::thresh(n as u64 / 2, subs)
            }
            "near-stack" => {
                if tapish { let n = *self.pick_sys(&[900usize, 990, 997, 998, 999]); let kk = 1 + self.rng.below(3); self.multi_for(cx, kk, n) }
                else { let n = 20; self.multi_for(cx, 10, n) }
            }
            "multipath" => {
                let a = self.fresh_kind(KeyKind::Xpub(2));
                let nb = *self.pick_sys(&[1u32, 2, 3]); let b = self.fresh_kind(KeyKind::Xpub(nb));
                let nc = *self.pick_sys(&[2u32, 3, 4]); let c = self.fresh_kind(KeyKind::Xpub(nc));
                match self.choose(3) {
                    0 => G::bin(K::AndV, G::pk(a).wrap("v"), G::pk(b)),
                    1 => G::bin(K::OrB, G::pk(a), G::pkh(c).wrap("a")),
                    _ => G::multi(if tapish { K::MultiA } else { K::Multi }, 2, vec![a, b, c]),
                }
            }
            "nonB" => {
                let k = self.fresh(cx);
                match self.choose(6) {
                    0 => G::key(K::PkK, k), 1 => G::key(K::PkH, k), 2 => G::pk(k).wrap("v"), 3 => G::pk(k).wrap("a"), 4 => G::pk(k).wrap("s"),
                    _ => { let g = self.gen_sane(cx, 1); g.wrap("v") }
                }
            }
            "unsat" => {
                let k = self.fresh(cx);
                match self.choose(4) {
                    0 => G::leaf(K::False),
                    1 => G::bin(K::AndV, G::pk(k).wrap("v"), G::leaf(K::False)),
                    2 => G::bin(K::AndB, G::pk(k), G::leaf(K::False).wrap("a")),
                    _ => G::bin(K::OrD, G::pk(k), G::leaf(K::False)),
                }
            }
            "bare-shape" => {
                let k = self.fresh(cx);
                match self.choose(6) {
                    0 => G::pk(k), 1 => G::pkh(k),
                    2 => { let n = 1 + self.rng.below(4) as usize; self.multi_for(cx, 1, n) }
                    3 => { self.next_hash += 1; G::un(K::Check, G::num(K::RawPkH, self.next_hash)) }
                    4 => G::bin(K::AndV, G::pk(k).wrap("v"), G::pk(self.fresh(cx))),
                    _ => G::pk(k).wrap("n"),
                }
            }
            _ /* illtyped */ => {
                let (k1, k2) = (self.fresh(cx), self.fresh(cx));
                match self.choose(8) {
                    0 => G::bin(K::AndV, G::pk(k1), G::pk(k2)),
                    1 => G::bin(K::AndB, G::pk(k1), G::pk(k2)),
                    2 => G::bin(K::OrB, G::pk(k1), G::num(K::Older, 3).wrap("a")),
                    3 => G::bin(K::OrD, G::num(K::Older, 3), G::pk(k1)),
                    4 => G::pk(k1).wrap("cc"),
                    5 => G::num(K::Older, 3).wrap("j"),
                    6 => G::thresh(1, vec![G::pk(k1), G::pk(k2)]),
                    _ => G::pk(k1).wrap("d"),
                }
            }
        }
    }
}

pub fn kind_hist(g: &G, h: &mut BTreeMap<String, u64>) {
    for n in g.nodes() { *h.entry(format!("{:?}", n.k)).or_insert(0) += 1; }
}
