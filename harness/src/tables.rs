//! Complete tabulation of the typing rules (finite domain) as a Coq file.
//! Every public rule function of `Correctness`, `Malleability` and `Type` is called on
//! every point of its domain; the graph is written as packed `Uint63` lists.
use miniscript::miniscript::types::{
    Base, Correctness, Dissat, ErrorKind, Input, Malleability, Type,
};
use std::fmt::Write as _;

pub const BASES: [Base; 4] = [Base::B, Base::K, Base::V, Base::W];
pub const INPUTS: [Input; 5] =
    [Input::Zero, Input::One, Input::Any, Input::OneNonZero, Input::AnyNonZero];
pub const DISSATS: [Dissat; 3] = [Dissat::None, Dissat::Unique, Dissat::Unknown];

pub fn all_corr() -> Vec<Correctness> {
    let mut v = Vec::new();
    for b in BASES {
        for i in INPUTS {
            for d in [false, true] {
                for u in [false, true] {
                    v.push(Correctness { base: b, input: i, dissatisfiable: d, unit: u });
                }
            }
        }
    }
    v
}
pub fn all_mall() -> Vec<Malleability> {
    let mut v = Vec::new();
    for d in DISSATS {
        for s in [false, true] {
            for m in [false, true] {
                v.push(Malleability { dissat: d, signed: s, non_malleable: m });
            }
        }
    }
    v
}
pub fn base_idx(b: Base) -> u64 {
    match b {
        Base::B => 0,
        Base::K => 1,
        Base::V => 2,
        Base::W => 3,
    }
}
pub fn input_idx(i: Input) -> u64 {
    match i {
        Input::Zero => 0,
        Input::One => 1,
        Input::Any => 2,
        Input::OneNonZero => 3,
        Input::AnyNonZero => 4,
    }
}
pub fn dissat_idx(d: Dissat) -> u64 {
    match d {
        Dissat::None => 0,
        Dissat::Unique => 1,
        Dissat::Unknown => 2,
    }
}
pub fn corr_idx(c: &Correctness) -> u64 {
    base_idx(c.base) * 20 + input_idx(c.input) * 4 + (c.dissatisfiable as u64) * 2 + c.unit as u64
}
pub fn mall_idx(m: &Malleability) -> u64 {
    dissat_idx(m.dissat) * 4 + (m.signed as u64) * 2 + m.non_malleable as u64
}
pub fn ty_idx(t: &Type) -> u64 { corr_idx(&t.corr) * 12 + mall_idx(&t.mall) }

pub fn err_code(e: &ErrorKind) -> u64 {
    match *e {
        ErrorKind::NonZeroDupIf => 0,
        ErrorKind::LeftNotDissatisfiable => 1,
        ErrorKind::RightNotDissatisfiable => 2,
        ErrorKind::SwapNonOne => 3,
        ErrorKind::NonZeroZero => 4,
        ErrorKind::LeftNotUnit => 5,
        ErrorKind::ChildBase1(a) => 10 + base_idx(a),
        ErrorKind::ChildBase2(a, b) => 20 + 4 * base_idx(a) + base_idx(b),
        ErrorKind::ChildBase3(a, b, c) => 40 + 16 * base_idx(a) + 4 * base_idx(b) + base_idx(c),
        ErrorKind::ThresholdBase(i, b) => 200 + 4 * (i as u64) + base_idx(b),
        ErrorKind::ThresholdDissat(i) => 400 + i as u64,
        ErrorKind::ThresholdNonUnit(i) => 500 + i as u64,
    }
}
pub fn corr_res_code(r: &Result<Correctness, ErrorKind>) -> u64 {
    match r {
        Ok(c) => corr_idx(c),
        Err(e) => 100 + err_code(e),
    }
}

/// pack 10-bit codes, 6 per 60-bit word, first code in the low bits
fn pack(codes: &[u64]) -> Vec<u64> {
    codes
        .chunks(6)
        .map(|ch| {
            let mut w = 0u64;
            for (i, c) in ch.iter().enumerate() {
                assert!(*c < 1024, "code out of range: {}", c);
                w |= c << (10 * i);
            }
            w
        })
        .collect()
}

fn emit(out: &mut String, name: &str, codes: &[u64]) {
    let words = pack(codes);
    // chunk definitions so that the parser's recursion stays shallow
    let mut parts = Vec::new();
    for (k, ch) in words.chunks(2000).enumerate() {
        let pname = format!("{}_p{}", name, k);
        write!(out, "Definition {} : list int := [", pname).unwrap();
        for (i, w) in ch.iter().enumerate() {
            if i > 0 {
                out.push(';');
            }
            write!(out, "{}", w).unwrap();
        }
        out.push_str("]%uint63.\n");
        parts.push(pname);
    }
    write!(out, "Definition {} : list int := ", name).unwrap();
    if parts.is_empty() {
        out.push_str("[].\n");
    } else {
        out.push_str(&parts.join(" ++ "));
        out.push_str(".\n");
    }
    writeln!(out, "Definition {}_len : N := {}%N.", name, codes.len()).unwrap();
}

struct Rng(u64);
impl Rng {
    fn next(&mut self) -> u64 {
        self.0 = self.0.wrapping_add(0x9E3779B97F4A7C15);
        let mut z = self.0;
        z = (z ^ (z >> 30)).wrapping_mul(0xBF58476D1CE4E5B9);
        z = (z ^ (z >> 27)).wrapping_mul(0x94D049BB133111EB);
        z ^ (z >> 31)
    }
    fn below(&mut self, n: u64) -> u64 { self.next() % n }
}

pub fn run(args: &[String]) {
    let seed: u64 = args.first().and_then(|s| s.parse().ok()).unwrap_or(1);
    let cs = all_corr();
    let ms = all_mall();
    let mut out = String::new();
    out.push_str("(* GENERATED on every run by `verif-harness tables` from /repo's compiled code. *)\n");
    out.push_str("From Coq Require Import List NArith Uint63.\nImport ListNotations.\n");

    // ---- correctness: leaves
    let leaves_c = [
        Correctness::TRUE,
        Correctness::FALSE,
        Correctness::pk_k(),
        Correctness::pk_h(),
        Correctness::multi(),
        Correctness::sortedmulti(),
        Correctness::multi_a(),
        Correctness::sortedmulti_a(),
        Correctness::hash(),
        Correctness::time(),
    ];
    emit(&mut out, "tbl_c_leaves", &leaves_c.iter().map(corr_idx).collect::<Vec<_>>());
    let leaves_m = [
        Malleability::TRUE,
        Malleability::FALSE,
        Malleability::pk_k(),
        Malleability::pk_h(),
        Malleability::multi(),
        Malleability::sortedmulti(),
        Malleability::multi_a(),
        Malleability::sortedmulti_a(),
        Malleability::hash(),
        Malleability::time(),
    ];
    emit(&mut out, "tbl_m_leaves", &leaves_m.iter().map(mall_idx).collect::<Vec<_>>());
    let leaves_t = [
        Type::TRUE,
        Type::FALSE,
        Type::pk_k(),
        Type::pk_h(),
        Type::multi(),
        Type::sortedmulti(),
        Type::multi_a(),
        Type::sortedmulti_a(),
        Type::hash(),
        Type::time(),
    ];
    // Type leaves: two codes each (corr, mall)
    let mut v = Vec::new();
    for t in leaves_t.iter() {
        v.push(corr_idx(&t.corr));
        v.push(mall_idx(&t.mall));
    }
    emit(&mut out, "tbl_t_leaves", &v);

    // ---- correctness: unary
    type C1 = fn(Correctness) -> Result<Correctness, ErrorKind>;
    let c1: [(&str, C1); 9] = [
        ("cast_alt", Correctness::cast_alt),
        ("cast_swap", Correctness::cast_swap),
        ("cast_check", Correctness::cast_check),
        ("cast_dupif", Correctness::cast_dupif),
        ("cast_verify", Correctness::cast_verify),
        ("cast_nonzero", Correctness::cast_nonzero),
        ("cast_zeronotequal", Correctness::cast_zeronotequal),
        ("cast_true", Correctness::cast_true),
        ("cast_or_i_false", Correctness::cast_or_i_false),
    ];
    for (n, f) in c1.iter() {
        let v: Vec<u64> = cs.iter().map(|c| corr_res_code(&f(*c))).collect();
        emit(&mut out, &format!("tbl_c_{}", n), &v);
    }
    type C2 = fn(Correctness, Correctness) -> Result<Correctness, ErrorKind>;
    let c2: [(&str, C2); 6] = [
        ("and_b", Correctness::and_b),
        ("and_v", Correctness::and_v),
        ("or_b", Correctness::or_b),
        ("or_d", Correctness::or_d),
        ("or_c", Correctness::or_c),
        ("or_i", Correctness::or_i),
    ];
    for (n, f) in c2.iter() {
        let mut v = Vec::with_capacity(6400);
        for a in cs.iter() {
            for b in cs.iter() {
                v.push(corr_res_code(&f(*a, *b)));
            }
        }
        emit(&mut out, &format!("tbl_c_{}", n), &v);
    }
    {
        let mut v = Vec::with_capacity(512000);
        for a in cs.iter() {
            for b in cs.iter() {
                for c in cs.iter() {
                    v.push(corr_res_code(&Correctness::and_or(*a, *b, *c)));
                }
            }
        }
        emit(&mut out, "tbl_c_and_or", &v);
    }
    // threshold, all lists of length 1..3 (k does not enter the correctness rule; k = 1 passed)
    {
        let mut v = Vec::new();
        for a in cs.iter() {
            v.push(corr_res_code(&Correctness::threshold(1, [a].into_iter())));
        }
        emit(&mut out, "tbl_c_thresh1", &v);
        let mut v = Vec::new();
        for a in cs.iter() {
            for b in cs.iter() {
                v.push(corr_res_code(&Correctness::threshold(1, [a, b].into_iter())));
            }
        }
        emit(&mut out, "tbl_c_thresh2", &v);
        let mut v = Vec::new();
        for a in cs.iter() {
            for b in cs.iter() {
                for c in cs.iter() {
                    v.push(corr_res_code(&Correctness::threshold(2, [a, b, c].into_iter())));
                }
            }
        }
        emit(&mut out, "tbl_c_thresh3", &v);
    }
    // is_subtype
    {
        let mut v = Vec::new();
        for a in cs.iter() {
            for b in cs.iter() {
                v.push(a.is_subtype(*b) as u64);
            }
        }
        emit(&mut out, "tbl_c_subtype", &v);
        let mut v = Vec::new();
        for a in ms.iter() {
            for b in ms.iter() {
                v.push(a.is_subtype(*b) as u64);
            }
        }
        emit(&mut out, "tbl_m_subtype", &v);
    }

    // ---- malleability
    type M1 = fn(Malleability) -> Malleability;
    let m1: [(&str, M1); 9] = [
        ("cast_alt", Malleability::cast_alt),
        ("cast_swap", Malleability::cast_swap),
        ("cast_check", Malleability::cast_check),
        ("cast_dupif", Malleability::cast_dupif),
        ("cast_verify", Malleability::cast_verify),
        ("cast_nonzero", Malleability::cast_nonzero),
        ("cast_zeronotequal", Malleability::cast_zeronotequal),
        ("cast_true", Malleability::cast_true),
        ("cast_or_i_false", Malleability::cast_or_i_false),
    ];
    for (n, f) in m1.iter() {
        let v: Vec<u64> = ms.iter().map(|m| mall_idx(&f(*m))).collect();
        emit(&mut out, &format!("tbl_m_{}", n), &v);
    }
    type M2 = fn(Malleability, Malleability) -> Malleability;
    let m2: [(&str, M2); 6] = [
        ("and_b", Malleability::and_b),
        ("and_v", Malleability::and_v),
        ("or_b", Malleability::or_b),
        ("or_d", Malleability::or_d),
        ("or_c", Malleability::or_c),
        ("or_i", Malleability::or_i),
    ];
    for (n, f) in m2.iter() {
        let mut v = Vec::new();
        for a in ms.iter() {
            for b in ms.iter() {
                v.push(mall_idx(&f(*a, *b)));
            }
        }
        emit(&mut out, &format!("tbl_m_{}", n), &v);
    }
    {
        let mut v = Vec::new();
        for a in ms.iter() {
            for b in ms.iter() {
                for c in ms.iter() {
                    v.push(mall_idx(&Malleability::and_or(*a, *b, *c)));
                }
            }
        }
        emit(&mut out, "tbl_m_and_or", &v);
    }
    // threshold: all lists of length 1..4, every k in 1..=n (order: list lexicographic, then k)
    for n in 1..=4usize {
        let mut v = Vec::new();
        let total = 12usize.pow(n as u32);
        for code in 0..total {
            let mut idxs = vec![0usize; n];
            let mut c = code;
            for j in (0..n).rev() {
                idxs[j] = c % 12;
                c /= 12;
            }
            let subs: Vec<Malleability> = idxs.iter().map(|i| ms[*i]).collect();
            for k in 1..=n {
                v.push(mall_idx(&Malleability::threshold(k, subs.iter())));
            }
        }
        emit(&mut out, &format!("tbl_m_thresh{}", n), &v);
    }

    // ---- random long threshold lists at the Type level: (k, [ty idx], result)
    {
        let mut rng = Rng(seed);
        out.push_str("Definition tbl_t_thresh_random : list (N * list N * (N * N)) := [\n");
        let n_cases = 2000;
        for case in 0..n_cases {
            let n = 1 + rng.below(20) as usize;
            let k = 1 + rng.below(n as u64) as usize;
            let mut subs = Vec::new();
            for j in 0..n {
                // bias toward acceptable children so that Ok results are frequent
                let c = if rng.below(4) != 0 {
                    Correctness {
                        base: if j == 0 { Base::B } else { Base::W },
                        input: INPUTS[rng.below(5) as usize],
                        dissatisfiable: rng.below(8) != 0,
                        unit: rng.below(8) != 0,
                    }
                } else {
                    cs[rng.below(80) as usize]
                };
                subs.push(Type { corr: c, mall: ms[rng.below(12) as usize] });
            }
            let r = Type::threshold(k, subs.iter());
            let (rc, rm) = match r {
                Ok(t) => (corr_idx(&t.corr), mall_idx(&t.mall)),
                Err(e) => (100 + err_code(&e), 0),
            };
            write!(out, "  ({}%N, [", k).unwrap();
            for (j, s) in subs.iter().enumerate() {
                if j > 0 {
                    out.push(';');
                }
                write!(out, "{}%N", ty_idx(s)).unwrap();
            }
            write!(out, "], ({}%N, {}%N))", rc, rm).unwrap();
            out.push_str(if case + 1 < n_cases { ";\n" } else { "\n" });
        }
        out.push_str("].\n");
    }

    // ---- pairing: Type::f = (Correctness::f, Malleability::f) on the whole domain,
    // checked here (960, 960^2 and, for and_or, 960^3 evaluations are too many rows for a table;
    // the two halves above are the complete graphs of the functions Type::f delegates to).
    let ts: Vec<Type> = cs
        .iter()
        .flat_map(|c| ms.iter().map(move |m| Type { corr: *c, mall: *m }))
        .collect();
    let mut pairing_mismatch: u64 = 0;
    let mut pairing_evals: u64 = 0;
    type T1 = fn(Type) -> Result<Type, ErrorKind>;
    let t1: [(T1, C1, M1); 10] = [
        (Type::cast_alt, Correctness::cast_alt, Malleability::cast_alt),
        (Type::cast_swap, Correctness::cast_swap, Malleability::cast_swap),
        (Type::cast_check, Correctness::cast_check, Malleability::cast_check),
        (Type::cast_dupif, Correctness::cast_dupif, Malleability::cast_dupif),
        (Type::cast_verify, Correctness::cast_verify, Malleability::cast_verify),
        (Type::cast_nonzero, Correctness::cast_nonzero, Malleability::cast_nonzero),
        (Type::cast_zeronotequal, Correctness::cast_zeronotequal, Malleability::cast_zeronotequal),
        (Type::cast_true, Correctness::cast_true, Malleability::cast_true),
        (Type::cast_unlikely, Correctness::cast_or_i_false, Malleability::cast_or_i_false),
        (Type::cast_likely, Correctness::cast_or_i_false, Malleability::cast_or_i_false),
    ];
    let mut first_bad: Option<String> = None;
    for (ft, fc, fm) in t1.iter() {
        for t in ts.iter() {
            pairing_evals += 1;
            let want = fc(t.corr).map(|c| Type { corr: c, mall: fm(t.mall) });
            if ft(*t) != want {
                pairing_mismatch += 1;
                first_bad.get_or_insert(format!("unary on {}", ty_idx(t)));
            }
        }
    }
    type T2 = fn(Type, Type) -> Result<Type, ErrorKind>;
    let t2: [(T2, C2, M2); 6] = [
        (Type::and_b, Correctness::and_b, Malleability::and_b),
        (Type::and_v, Correctness::and_v, Malleability::and_v),
        (Type::or_b, Correctness::or_b, Malleability::or_b),
        (Type::or_d, Correctness::or_d, Malleability::or_d),
        (Type::or_c, Correctness::or_c, Malleability::or_c),
        (Type::or_i, Correctness::or_i, Malleability::or_i),
    ];
    for (ft, fc, fm) in t2.iter() {
        for a in ts.iter() {
            for b in ts.iter() {
                pairing_evals += 1;
                let want = fc(a.corr, b.corr).map(|c| Type { corr: c, mall: fm(a.mall, b.mall) });
                if ft(*a, *b) != want {
                    pairing_mismatch += 1;
                    first_bad.get_or_insert(format!("binary on {} {}", ty_idx(a), ty_idx(b)));
                }
            }
        }
    }
    // and_or: full 80^3 x (12^3 on the diagonal-free sample is pointless: the halves are
    // independent functions); check all corr triples with all mall triples = 884M in thorough,
    // and all corr triples x 12 mall "diagonals" + all mall triples x 80 corr diagonals in quick.
    let thorough = std::env::var("VERIF_TIER").map(|t| t == "thorough").unwrap_or(false);
    if thorough {
        for a in ts.iter() {
            for b in ts.iter() {
                for c in ts.iter() {
                    pairing_evals += 1;
                    let want = Correctness::and_or(a.corr, b.corr, c.corr).map(|x| Type {
                        corr: x,
                        mall: Malleability::and_or(a.mall, b.mall, c.mall),
                    });
                    if Type::and_or(*a, *b, *c) != want {
                        pairing_mismatch += 1;
                        first_bad.get_or_insert(format!(
                            "and_or on {} {} {}",
                            ty_idx(a),
                            ty_idx(b),
                            ty_idx(c)
                        ));
                    }
                }
            }
        }
    } else {
        let mut rng = Rng(seed ^ 0xabcdef);
        for a in cs.iter() {
            for b in cs.iter() {
                for c in cs.iter() {
                    let (ma, mb, mc) = (
                        ms[rng.below(12) as usize],
                        ms[rng.below(12) as usize],
                        ms[rng.below(12) as usize],
                    );
                    pairing_evals += 1;
                    let want = Correctness::and_or(*a, *b, *c)
                        .map(|x| Type { corr: x, mall: Malleability::and_or(ma, mb, mc) });
                    let got = Type::and_or(
                        Type { corr: *a, mall: ma },
                        Type { corr: *b, mall: mb },
                        Type { corr: *c, mall: mc },
                    );
                    if got != want {
                        pairing_mismatch += 1;
                        first_bad.get_or_insert(format!(
                            "and_or on corr {} {} {}",
                            corr_idx(a),
                            corr_idx(b),
                            corr_idx(c)
                        ));
                    }
                }
            }
        }
        for ma in ms.iter() {
            for mb in ms.iter() {
                for mc in ms.iter() {
                    for _ in 0..40 {
                        let (a, b, c) = (
                            cs[rng.below(80) as usize],
                            cs[rng.below(80) as usize],
                            cs[rng.below(80) as usize],
                        );
                        pairing_evals += 1;
                        let want = Correctness::and_or(a, b, c)
                            .map(|x| Type { corr: x, mall: Malleability::and_or(*ma, *mb, *mc) });
                        let got = Type::and_or(
                            Type { corr: a, mall: *ma },
                            Type { corr: b, mall: *mb },
                            Type { corr: c, mall: *mc },
                        );
                        if got != want {
                            pairing_mismatch += 1;
                            first_bad.get_or_insert("and_or mall".to_string());
                        }
                    }
                }
            }
        }
    }
    // is_subtype pairing
    for a in ts.iter() {
        for b in ts.iter() {
            pairing_evals += 1;
            if a.is_subtype(*b) != (a.corr.is_subtype(b.corr) && a.mall.is_subtype(b.mall)) {
                pairing_mismatch += 1;
                first_bad.get_or_insert("is_subtype".to_string());
            }
        }
    }
    writeln!(out, "Definition pairing_evaluations : N := {}%N.", pairing_evals).unwrap();
    writeln!(out, "Definition pairing_mismatches : N := {}%N.", pairing_mismatch).unwrap();
    print!("{}", out);
    eprintln!(
        "PAIRING evaluations={} mismatches={} first={}",
        pairing_evals,
        pairing_mismatch,
        first_bad.unwrap_or_else(|| "-".to_string())
    );
}
