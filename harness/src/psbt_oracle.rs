//! Oracle of the `psbt` engine: judges scriptSig/witness pairs and updated PSBT fields with
//! `bitcoin` / `secp256k1` primitives only (hashes, signature verification against the
//! sighash computed by the harness, BIP341 commitment check, BIP65/68/112 arithmetic, and a
//! truth-table evaluation of the descriptor's spending condition), plus the miniscript
//! interpreter with real signature verification as an additional, weaker check.
use super::gen::{hash_of, Case, InputMat, Outer, Pol, Pool};
use bitcoin::hashes::{hash160, sha256, Hash};
use bitcoin::key::XOnlyPublicKey;
use bitcoin::secp256k1::{self, Message};
use bitcoin::sighash::Prevouts;
use bitcoin::taproot::{ControlBlock, LeafVersion, TapLeafHash};
use bitcoin::{psbt, ScriptBuf, TxOut, Witness};
use miniscript::interpreter::Interpreter;

fn pushes(script: &ScriptBuf) -> Result<Vec<Vec<u8>>, String> {
    let mut out = Vec::new();
    for ins in script.instructions() {
        match ins.map_err(|e| format!("scriptSig does not parse: {}", e))? {
            bitcoin::script::Instruction::PushBytes(b) => out.push(b.as_bytes().to_vec()),
            bitcoin::script::Instruction::Op(op) => {
                let c = op.to_u8();
                if c == 0x4f || (0x51..=0x60).contains(&c) {
                    out.push(vec![if c == 0x4f { 0x81 } else { c - 0x50 }]);
                } else {
                    return Err(format!("scriptSig contains the non-push opcode {}", op));
                }
            }
        }
    }
    Ok(out)
}

fn ecdsa_ok(pool: &Pool, msg: &Message, pk: &secp256k1::PublicKey, sig: &[u8]) -> bool {
    if sig.is_empty() || *sig.last().unwrap() != 0x01 {
        return false;
    }
    match secp256k1::ecdsa::Signature::from_der(&sig[..sig.len() - 1]) {
        Ok(s) => pool.secp.verify_ecdsa(msg, &s, pk).is_ok(),
        Err(_) => false,
    }
}

fn schnorr_ok(pool: &Pool, msg: &Message, pk: &XOnlyPublicKey, sig: &[u8]) -> bool {
    if sig.len() != 64 {
        return false;
    }
    match secp256k1::schnorr::Signature::from_slice(sig) {
        Ok(s) => pool.secp.verify_schnorr(&s, msg, pk).is_ok(),
        Err(_) => false,
    }
}

pub fn older_ok(tx_version: i32, seq: u32, n: u32) -> bool {
    tx_version >= 2
        && seq & (1 << 31) == 0
        && n & (1 << 31) == 0
        && (seq & (1 << 22)) == (n & (1 << 22))
        && (seq & 0xffff) >= (n & 0xffff)
}

pub fn after_ok(lock_time: u32, seq: u32, n: u32) -> bool {
    seq != 0xffff_ffff && ((lock_time < 500_000_000) == (n < 500_000_000)) && n <= lock_time
}

struct Env<'a> {
    pool: &'a Pool,
    m: &'a InputMat,
    items: &'a [Vec<u8>],
    msg: Message,
    taproot: bool,
    version: i32,
    lock_time: u32,
    seq: u32,
}

fn eval(e: &Env, p: &Pol) -> bool {
    match p {
        Pol::Key(i) => {
            let k = &e.pool.keys[e.m.keys[*i]];
            e.items.iter().any(|it| {
                if e.taproot {
                    schnorr_ok(e.pool, &e.msg, &k.xonly(), it)
                } else {
                    ecdsa_ok(e.pool, &e.msg, &k.pk, it)
                }
            })
        }
        Pol::Older(n) => older_ok(e.version, e.seq, *n),
        Pol::After(n) => after_ok(e.lock_time, e.seq, *n),
        Pol::Hash(kind) => {
            let target = hash_of(*kind, &e.pool.preimages[*kind]);
            e.items.iter().any(|it| it.len() == 32 && hash_of(*kind, it) == target)
        }
        Pol::And(v) => v.iter().all(|x| eval(e, x)),
        Pol::Or(v) => v.iter().any(|x| eval(e, x)),
        Pol::Thresh(k, v) => v.iter().filter(|x| eval(e, x)).count() >= *k,
    }
}

/// the injected wrong signatures of this input must never show up in a final field
fn junk_free(m: &InputMat, items: &[Vec<u8>]) -> Result<(), String> {
    for it in items {
        for (_, _, bad) in &m.ecdsa_sigs {
            if *it == bad.to_vec() {
                return Err("a deliberately wrong ECDSA signature was used".into());
            }
        }
        if let Some((_, bad)) = &m.tap_key_sig {
            if *it == bad.to_vec() {
                return Err("a deliberately wrong key-spend signature was used".into());
            }
        }
        for (_, _, _, bad) in &m.tap_script_sigs {
            if *it == bad.to_vec() {
                return Err("a deliberately wrong script-spend signature was used".into());
            }
        }
    }
    Ok(())
}

/// Judge (scriptSig, witness) as a spend of input `j` of the case's unsigned transaction.
pub fn verify_spend(pool: &Pool, case: &Case, j: usize, script_sig: &ScriptBuf, witness: &Witness) -> Result<(), String> {
    let m = &case.inputs[j];
    let version = case.tx.version.0;
    let lock_time = case.tx.lock_time.to_consensus_u32();
    let seq = case.tx.input[j].sequence.0;
    let wit: Vec<Vec<u8>> = witness.iter().map(|x| x.to_vec()).collect();
    let ssig = pushes(script_sig)?;
    let spk = m.spk.as_bytes();
    let mk_env = |items: &'_ [Vec<u8>], msg: Message, taproot: bool| -> bool {
        // evaluated through a closure so the borrow of `items` stays local
        let e = Env { pool, m, items, msg, taproot, version, lock_time, seq };
        eval(&e, &m.pol)
    };
    match m.outer {
        Outer::Pkh => {
            if !wit.is_empty() {
                return Err("P2PKH spend with a witness".into());
            }
            if ssig.len() != 2 {
                return Err(format!("P2PKH scriptSig has {} pushes", ssig.len()));
            }
            if hash160::Hash::hash(&ssig[1]).to_byte_array()[..] != spk[3..23] {
                return Err("P2PKH: pushed key does not hash to the output".into());
            }
            let pk = secp256k1::PublicKey::from_slice(&ssig[1]).map_err(|e| e.to_string())?;
            if !ecdsa_ok(pool, &m.ecdsa_msg.unwrap(), &pk, &ssig[0]) {
                return Err("P2PKH: signature does not verify against the legacy sighash".into());
            }
            junk_free(m, &ssig)
        }
        Outer::BarePk => {
            if !wit.is_empty() || ssig.len() != 1 {
                return Err("P2PK spend: wrong shape".into());
            }
            let pk = secp256k1::PublicKey::from_slice(&spk[1..34]).map_err(|e| e.to_string())?;
            if !ecdsa_ok(pool, &m.ecdsa_msg.unwrap(), &pk, &ssig[0]) {
                return Err("P2PK: signature does not verify against the legacy sighash".into());
            }
            junk_free(m, &ssig)
        }
        Outer::Wpkh | Outer::ShWpkh => {
            let program: Vec<u8> = if m.outer == Outer::Wpkh {
                if !script_sig.is_empty() {
                    return Err("P2WPKH spend with a scriptSig".into());
                }
                spk[2..22].to_vec()
            } else {
                if ssig.len() != 1 {
                    return Err("P2SH-P2WPKH scriptSig must be one push".into());
                }
                if hash160::Hash::hash(&ssig[0]).to_byte_array()[..] != spk[2..22] {
                    return Err("P2SH-P2WPKH: redeem script does not hash to the output".into());
                }
                if ssig[0].len() != 22 || ssig[0][0] != 0 || ssig[0][1] != 0x14 {
                    return Err("P2SH-P2WPKH: redeem script is not a v0 key-hash program".into());
                }
                ssig[0][2..22].to_vec()
            };
            if wit.len() != 2 {
                return Err(format!("P2WPKH witness has {} items", wit.len()));
            }
            if hash160::Hash::hash(&wit[1]).to_byte_array()[..] != program[..] {
                return Err("P2WPKH: witness key does not hash to the program".into());
            }
            let pk = secp256k1::PublicKey::from_slice(&wit[1]).map_err(|e| e.to_string())?;
            if !ecdsa_ok(pool, &m.ecdsa_msg.unwrap(), &pk, &wit[0]) {
                return Err("P2WPKH: signature does not verify against the segwit v0 sighash".into());
            }
            junk_free(m, &wit)
        }
        Outer::Wsh | Outer::ShWsh => {
            let program: Vec<u8> = if m.outer == Outer::Wsh {
                if !script_sig.is_empty() {
                    return Err("P2WSH spend with a scriptSig".into());
                }
                spk[2..34].to_vec()
            } else {
                if ssig.len() != 1 {
                    return Err("P2SH-P2WSH scriptSig must be one push".into());
                }
                if hash160::Hash::hash(&ssig[0]).to_byte_array()[..] != spk[2..22] {
                    return Err("P2SH-P2WSH: redeem script does not hash to the output".into());
                }
                if ssig[0].len() != 34 || ssig[0][0] != 0 || ssig[0][1] != 0x20 {
                    return Err("P2SH-P2WSH: redeem script is not a v0 script-hash program".into());
                }
                ssig[0][2..34].to_vec()
            };
            if wit.is_empty() {
                return Err("P2WSH: empty witness".into());
            }
            let script = wit.last().unwrap();
            if sha256::Hash::hash(script).to_byte_array()[..] != program[..] {
                return Err("P2WSH: witness script does not hash to the program".into());
            }
            if script[..] != m.witness_script.as_ref().unwrap().as_bytes()[..] {
                return Err("P2WSH: witness script is not the descriptor's script".into());
            }
            let items = &wit[..wit.len() - 1];
            junk_free(m, items)?;
            if !mk_env(items, m.ecdsa_msg.unwrap(), false) {
                return Err("P2WSH: the witness does not demonstrate the descriptor's spending condition (signatures over the real sighash / preimages / time locks of this transaction)".into());
            }
            Ok(())
        }
        Outer::Sh => {
            if !wit.is_empty() {
                return Err("P2SH spend with a witness".into());
            }
            if ssig.is_empty() {
                return Err("P2SH: empty scriptSig".into());
            }
            let script = ssig.last().unwrap();
            if hash160::Hash::hash(script).to_byte_array()[..] != spk[2..22] {
                return Err("P2SH: redeem script does not hash to the output".into());
            }
            if script[..] != m.redeem_script.as_ref().unwrap().as_bytes()[..] {
                return Err("P2SH: redeem script is not the descriptor's script".into());
            }
            let items = &ssig[..ssig.len() - 1];
            junk_free(m, items)?;
            if !mk_env(items, m.ecdsa_msg.unwrap(), false) {
                return Err("P2SH: the scriptSig does not demonstrate the descriptor's spending condition".into());
            }
            Ok(())
        }
        Outer::Tr => {
            if !script_sig.is_empty() {
                return Err("P2TR spend with a scriptSig".into());
            }
            let tap = m.tap.as_ref().unwrap();
            let out_key = XOnlyPublicKey::from_slice(&spk[2..34]).map_err(|e| e.to_string())?;
            if wit.len() == 1 {
                if !schnorr_ok(pool, &m.tap_key_msg.unwrap(), &out_key, &wit[0]) {
                    return Err("P2TR key path: signature does not verify against the output key and the key-spend sighash".into());
                }
                return junk_free(m, &wit);
            }
            if wit.len() < 2 {
                return Err("P2TR: empty witness".into());
            }
            let cb_bytes = &wit[wit.len() - 1];
            let script = ScriptBuf::from_bytes(wit[wit.len() - 2].clone());
            let cb = ControlBlock::decode(cb_bytes).map_err(|e| format!("control block: {}", e))?;
            if cb.leaf_version != LeafVersion::TapScript {
                return Err("P2TR: unexpected leaf version".into());
            }
            if !cb.verify_taproot_commitment(&pool.secp, out_key, &script) {
                return Err("P2TR script path: control block does not commit the script to the output key".into());
            }
            let lh = TapLeafHash::from_script(&script, LeafVersion::TapScript);
            let li = tap
                .leaves
                .iter()
                .position(|l| l.leaf_hash == lh)
                .ok_or_else(|| "P2TR script path: script is not a leaf of the descriptor".to_string())?;
            let items = &wit[..wit.len() - 2];
            junk_free(m, items)?;
            let e = Env { pool, m, items, msg: m.tap_leaf_msgs[li], taproot: true, version, lock_time, seq };
            if !eval(&e, &tap.leaves[li].pol) {
                return Err("P2TR script path: the witness does not demonstrate the leaf's spending condition".into());
            }
            Ok(())
        }
    }
}

/// The miniscript interpreter with real signature verification (weaker: shares code with the
/// finalizer's own check, but catches a finalizer that skips it).
pub fn interpreter_accepts(pool: &Pool, case: &Case, j: usize, script_sig: &ScriptBuf, witness: &Witness) -> Result<(), String> {
    let m = &case.inputs[j];
    let prevouts: Vec<TxOut> =
        case.inputs.iter().map(|x| TxOut { value: x.value, script_pubkey: x.spk.clone() }).collect();
    let interp = Interpreter::from_txdata(&m.spk, script_sig, witness, case.tx.input[j].sequence, case.tx.lock_time)
        .map_err(|e| format!("interpreter rejects the spend: {}", e))?;
    let pv = Prevouts::All(&prevouts);
    for r in interp.iter(&pool.secp, &case.tx, j, &pv) {
        r.map_err(|e| format!("interpreter rejects the spend: {}", e))?;
    }
    Ok(())
}

/// Check what `update_input_with_descriptor` recorded in `inp` against the descriptor of input
/// `j` as the harness knows it.  `fresh`: the input carried nothing but utxo data before.
pub fn check_update(pool: &Pool, case: &Case, j: usize, inp: &psbt::Input, fresh: bool, alt: bool) -> Vec<String> {
    // the origin the (last) descriptor states for a key
    let want_origin = |k: &super::gen::KeyInfo| if alt { (k.alt_fp, k.alt_path.clone()) } else { (k.fp, k.path.clone()) };
    let m = &case.inputs[j];
    let mut bad = Vec::new();
    let spk = m.spk.as_bytes();
    // scripts hash into the utxo's script_pubkey
    match m.outer {
        Outer::Wsh => match &inp.witness_script {
            None => bad.push("wsh: witness_script not recorded".to_string()),
            Some(ws) => {
                if sha256::Hash::hash(ws.as_bytes()).to_byte_array()[..] != spk[2..34] {
                    bad.push("wsh: recorded witness_script does not hash to the utxo's script_pubkey".to_string());
                }
            }
        },
        Outer::ShWsh => match (&inp.witness_script, &inp.redeem_script) {
            (Some(ws), Some(rs)) => {
                let h = sha256::Hash::hash(ws.as_bytes()).to_byte_array();
                let r = rs.as_bytes();
                if r.len() != 34 || r[0] != 0 || r[1] != 0x20 || r[2..34] != h[..] {
                    bad.push("sh(wsh): recorded redeem_script is not the P2WSH program of the witness_script".to_string());
                }
                if hash160::Hash::hash(r).to_byte_array()[..] != spk[2..22] {
                    bad.push("sh(wsh): recorded redeem_script does not hash to the utxo's script_pubkey".to_string());
                }
            }
            _ => bad.push("sh(wsh): witness_script or redeem_script not recorded".to_string()),
        },
        Outer::ShWpkh | Outer::Sh => match &inp.redeem_script {
            None => bad.push("sh: redeem_script not recorded".to_string()),
            Some(rs) => {
                if hash160::Hash::hash(rs.as_bytes()).to_byte_array()[..] != spk[2..22] {
                    bad.push("sh: recorded redeem_script does not hash to the utxo's script_pubkey".to_string());
                }
                if m.outer == Outer::ShWpkh {
                    let h = hash160::Hash::hash(&pool.keys[m.keys[0]].pk.serialize()).to_byte_array();
                    let r = rs.as_bytes();
                    if r.len() != 22 || r[0] != 0 || r[1] != 0x14 || r[2..22] != h[..] {
                        bad.push("sh(wpkh): recorded redeem_script is not the key's P2WPKH program".to_string());
                    }
                }
            }
        },
        _ => {}
    }
    if fresh {
        if !matches!(m.outer, Outer::Wsh | Outer::ShWsh) && inp.witness_script.is_some() {
            bad.push("witness_script recorded for an output type that has none".to_string());
        }
        if !matches!(m.outer, Outer::ShWsh | Outer::ShWpkh | Outer::Sh) && inp.redeem_script.is_some() {
            bad.push("redeem_script recorded for an output type that has none".to_string());
        }
    }
    if m.outer != Outer::Tr {
        for ki in &m.keys {
            let k = &pool.keys[*ki];
            match inp.bip32_derivation.get(&k.pk) {
                None => bad.push(format!("bip32_derivation lacks the descriptor key {}", k.pk)),
                Some((fp, path)) => {
                    let (wfp, wpath) = want_origin(k);
                    if *fp != wfp || *path != wpath {
                        bad.push(format!("bip32_derivation of {}: recorded [{}]/{} but the descriptor of this update says [{}]/{}", k.pk, fp, path, wfp, wpath));
                    }
                }
            }
        }
        if fresh && inp.bip32_derivation.len() != m.keys.len() {
            bad.push(format!("bip32_derivation has {} entries for {} descriptor keys", inp.bip32_derivation.len(), m.keys.len()));
        }
        if fresh && (inp.tap_internal_key.is_some() || !inp.tap_key_origins.is_empty() || !inp.tap_scripts.is_empty()) {
            bad.push("taproot fields recorded for a non-taproot descriptor".to_string());
        }
    } else {
        let tap = m.tap.as_ref().unwrap();
        let out_key = XOnlyPublicKey::from_slice(&spk[2..34]).unwrap();
        if inp.tap_internal_key != Some(tap.internal) {
            bad.push("tap_internal_key is not the descriptor's internal key".to_string());
        }
        if inp.tap_merkle_root != tap.spend_info.merkle_root() {
            bad.push("tap_merkle_root is not the root of the descriptor's tree".to_string());
        }
        for leaf in &tap.leaves {
            let hit = inp.tap_scripts.iter().find(|(_, (s, v))| *s == leaf.script && *v == LeafVersion::TapScript);
            match hit {
                None => bad.push("tap_scripts lacks a leaf of the descriptor".to_string()),
                Some((cb, (s, _))) => {
                    if !cb.verify_taproot_commitment(&pool.secp, out_key, s) {
                        bad.push("tap_scripts: control block does not commit its leaf to the output key".to_string());
                    }
                }
            }
        }
        for (cb, (s, _)) in &inp.tap_scripts {
            if fresh && !cb.verify_taproot_commitment(&pool.secp, out_key, s) {
                bad.push("tap_scripts: an entry does not verify against the output key".to_string());
            }
        }
        // one entry per (leaf script, merkle branch) of the tree (equal scripts at different
        // positions have different control blocks)
        let positions: usize = tap.spend_info.script_map().values().map(|set| set.len()).sum();
        if fresh && inp.tap_scripts.len() != positions {
            bad.push(format!("tap_scripts has {} entries for {} leaf positions", inp.tap_scripts.len(), positions));
        }
        // key origins: exactly the descriptor's keys, with the leaves each key occurs in
        let mut expected: std::collections::BTreeMap<XOnlyPublicKey, Vec<TapLeafHash>> = Default::default();
        expected.entry(tap.internal).or_default();
        for leaf in &tap.leaves {
            for ki in &leaf.keys {
                expected.entry(pool.keys[m.keys[*ki]].xonly()).or_default().push(leaf.leaf_hash);
            }
        }
        for (i, ki) in m.keys.iter().enumerate() {
            let k = &pool.keys[*ki];
            let x = k.xonly();
            match inp.tap_key_origins.get(&x) {
                None => bad.push(format!("tap_key_origins lacks the descriptor key #{}", i)),
                Some((lhs, (fp, path))) => {
                    let mut want = expected.get(&x).cloned().unwrap_or_default();
                    want.sort();
                    want.dedup();
                    let mut got = lhs.clone();
                    got.sort();
                    if got != want {
                        bad.push(format!("tap_key_origins of key #{}: {} leaf hashes recorded, {} expected", i, lhs.len(), want.len()));
                    }
                    let (wfp, wpath) = want_origin(k);
                    if *fp != wfp || *path != wpath {
                        bad.push(format!("tap_key_origins of key #{}: recorded [{}]/{} but the descriptor of this update says [{}]/{}", i, fp, path, wfp, wpath));
                    }
                }
            }
        }
        if fresh && inp.tap_key_origins.len() != expected.len() {
            bad.push(format!("tap_key_origins has {} entries for {} descriptor keys", inp.tap_key_origins.len(), expected.len()));
        }
        if fresh && (!inp.bip32_derivation.is_empty() || inp.witness_script.is_some() || inp.redeem_script.is_some()) {
            bad.push("pre-taproot fields recorded for a taproot descriptor".to_string());
        }
    }
    bad
}

/// Key origins recorded in a PSBT OUTPUT by update_output_with_descriptor, against the
/// descriptor of input `j` (original or alias origins).
pub fn check_output_origins(pool: &Pool, case: &Case, j: usize, out: &psbt::Output, alt: bool) -> Vec<String> {
    let m = &case.inputs[j];
    let mut bad = Vec::new();
    for (i, ki) in m.keys.iter().enumerate() {
        let k = &pool.keys[*ki];
        let (wfp, wpath) = if alt { (k.alt_fp, k.alt_path.clone()) } else { (k.fp, k.path.clone()) };
        if let Some(tap) = &m.tap {
            match out.tap_key_origins.get(&k.xonly()) {
                None => bad.push(format!("output tap_key_origins lacks key #{}", i)),
                Some((lhs, (fp, path))) => {
                    let mut want: Vec<TapLeafHash> = tap.leaves.iter().filter(|l| l.keys.contains(&i)).map(|l| l.leaf_hash).collect();
                    want.sort();
                    want.dedup();
                    let mut got = lhs.clone();
                    got.sort();
                    if got != want {
                        bad.push(format!("output tap_key_origins of key #{}: {} leaf hashes recorded, {} expected", i, lhs.len(), want.len()));
                    }
                    if *fp != wfp || *path != wpath {
                        bad.push(format!("output tap_key_origins of key #{}: recorded [{}]/{} but the descriptor of this update says [{}]/{}", i, fp, path, wfp, wpath));
                    }
                }
            }
        } else {
            match out.bip32_derivation.get(&k.pk) {
                Some((fp, path)) if *fp == wfp && *path == wpath => {}
                other => bad.push(format!("output bip32_derivation of key #{}: {:?}, the descriptor of this update says [{}]/{}", i, other, wfp, wpath)),
            }
        }
    }
    bad
}

/// Non-malleability proxy for a (non-malleable) satisfaction of a miniscript-carrying output:
/// is there a key whose valid signature is in the witness although the spending condition,
/// with the time locks of THIS transaction and the preimages in the witness, holds without it?
/// (A third party can then replace that signature by the empty vector.)
pub fn unneeded_signature(pool: &Pool, case: &Case, j: usize, script_sig: &ScriptBuf, witness: &Witness) -> Option<usize> {
    let m = &case.inputs[j];
    let items: Vec<Vec<u8>> = match m.outer {
        Outer::Wsh | Outer::ShWsh => {
            let w: Vec<Vec<u8>> = witness.iter().map(|x| x.to_vec()).collect();
            if w.is_empty() {
                return None;
            }
            w[..w.len() - 1].to_vec()
        }
        Outer::Sh => {
            let p = pushes(script_sig).ok()?;
            if p.is_empty() {
                return None;
            }
            p[..p.len() - 1].to_vec()
        }
        _ => return None,
    };
    let msg = m.ecdsa_msg?;
    let version = case.tx.version.0;
    let lock_time = case.tx.lock_time.to_consensus_u32();
    let seq = case.tx.input[j].sequence.0;
    let signed: Vec<usize> = (0..m.keys.len()).filter(|i| items.iter().any(|it| ecdsa_ok(pool, &msg, &pool.keys[m.keys[*i]].pk, it))).collect();
    fn ev(p: &Pol, have: &dyn Fn(usize) -> bool, hash: &dyn Fn(usize) -> bool, version: i32, lock_time: u32, seq: u32) -> bool {
        match p {
            Pol::Key(i) => have(*i),
            Pol::Older(n) => older_ok(version, seq, *n),
            Pol::After(n) => after_ok(lock_time, seq, *n),
            Pol::Hash(k) => hash(*k),
            Pol::And(v) => v.iter().all(|x| ev(x, have, hash, version, lock_time, seq)),
            Pol::Or(v) => v.iter().any(|x| ev(x, have, hash, version, lock_time, seq)),
            Pol::Thresh(k, v) => v.iter().filter(|x| ev(x, have, hash, version, lock_time, seq)).count() >= *k,
        }
    }
    let hash = |kind: usize| {
        let target = hash_of(kind, &pool.preimages[kind]);
        items.iter().any(|it| it.len() == 32 && hash_of(kind, it) == target)
    };
    for drop in &signed {
        let have = |i: usize| signed.contains(&i) && i != *drop;
        if ev(&m.pol, &have, &hash, version, lock_time, seq) {
            return Some(*drop);
        }
    }
    None
}
