//! C20 (extension round 2): translation of descriptors over `String` keys into `DescriptorPublicKey`s
//! with MULTIPATH keys of different lengths (`<0;1>` vs `<0;1;2>`), single-path xpubs, raw compressed,
//! uncompressed and x-only keys, and a mapping that fails on one key.
//!
//! Per (descriptor, assignment of target keys to the placeholders) one line
//!   MP <descriptor> | <kinds> | res=<ok|terr|outer:<class>|panic> | cause=<none|unmapped|illegal:<why>> |
//!      reparse=<n/a|ok|differs|err:<class>> | mismatch=<none|same-script|across-tr>
//! The judgement is done by tools/props/c20.py (stage `multipath`):
//!   * a failure must have a cause: an unmapped key of the descriptor (TranslatorErr) or a mapped key whose
//!     kind the wrapper's context forbids (OuterError)  -- the clause of C20;
//!   * an accepted result is printed and parsed again with `Descriptor::<DescriptorPublicKey>::from_str`;
//!     the parse must succeed and give an equal object with the same text -- unless the assignment mixes
//!     multipath lengths (then the outcome is reported as an observation, see notes/C20.md).
//! The oracle side (which kinds are illegal where, which assignments mix lengths) is computed here from the
//! assignment alone, never through miniscript.
use miniscript::{translate_hash_fail, Descriptor, DescriptorPublicKey, TranslateErr, Translator};
use std::collections::BTreeMap;
use std::panic::{catch_unwind, AssertUnwindSafe};
use std::str::FromStr;

const XPUB1: &str = "xpub661MyMwAqRbcFtXgS5sYJABqqG9YLmC4Q1Rdap9gSE8NqtwybGhePY2gZ29ESFjqJoCu1Rupje8YtGqsefD265TMg7usUDFdp6W1EGMcet8";
const XPUB2: &str = "xpub6BgBgsespWvERF3LHQu6CnqdvfEvtMcQjYrcRzx53QJjSxarj2afYWcLteoGVky7D3UKDP9QyrLprQ3VCECoY49yfdDEHGCtMMj92pReUsQ";
const XPUB3: &str = "xpub6ERApfZwUNrhLCkDtcHTcxd75RbzS1ed54G1LkBUHQVHQKqhMkhgbmJbZRkrgZw4koxb5JaHWkY4ALHY2grBGRjaDMzQLcgJvLJuZZvRcEL";
const COMPRESSED: &str = "02e493dbf1c10d80f3581e4904930b1404cc6c13900ee0758474fa94abe8c4cd13";
const UNCOMPRESSED: &str = "04a34b99f22c790c4e36b2b3c2c35a36db06226e41c692fc82b8b56ac1c540c5bd5b8dec5235a0fa8722476c7709c02559e3aa73aa03918ba2d492eea75abea235";
const XONLY: &str = "e493dbf1c10d80f3581e4904930b1404cc6c13900ee0758474fa94abe8c4cd13";

#[derive(Clone, Copy, PartialEq, Eq, Debug)]
enum Kind {
    Mp2a, // XPUB1/<0;1>/*
    Mp2b, // XPUB2/<0;1>/*
    Mp3,  // XPUB3/<0;1;2>/*
    Mp3b, // XPUB1/<2;3;4>/*
    Xpub, // XPUB2/0/*
    Comp,
    Uncomp,
    XOnly,
    Fail,
}

impl Kind {
    fn text(self) -> Option<String> {
        Some(match self {
            Kind::Mp2a => format!("{}/<0;1>/*", XPUB1),
            Kind::Mp2b => format!("{}/<0;1>/*", XPUB2),
            Kind::Mp3 => format!("{}/<0;1;2>/*", XPUB3),
            Kind::Mp3b => format!("{}/<2;3;4>/*", XPUB1),
            Kind::Xpub => format!("{}/0/*", XPUB2),
            Kind::Comp => COMPRESSED.to_string(),
            Kind::Uncomp => UNCOMPRESSED.to_string(),
            Kind::XOnly => XONLY.to_string(),
            Kind::Fail => return None,
        })
    }
    fn name(self) -> &'static str {
        match self {
            Kind::Mp2a => "mp2a",
            Kind::Mp2b => "mp2b",
            Kind::Mp3 => "mp3",
            Kind::Mp3b => "mp3b",
            Kind::Xpub => "xpub",
            Kind::Comp => "comp",
            Kind::Uncomp => "uncomp",
            Kind::XOnly => "xonly",
            Kind::Fail => "fail",
        }
    }
    fn paths(self) -> usize {
        match self {
            Kind::Mp2a | Kind::Mp2b => 2,
            Kind::Mp3 | Kind::Mp3b => 3,
            _ => 1,
        }
    }
}

struct MpTr<'a> {
    map: &'a BTreeMap<String, Kind>,
}
impl<'a> Translator<String> for MpTr<'a> {
    type TargetPk = DescriptorPublicKey;
    type Error = String;
    fn pk(&mut self, pk: &String) -> Result<DescriptorPublicKey, String> {
        match self.map.get(pk).and_then(|k| k.text()) {
            Some(t) => DescriptorPublicKey::from_str(&t).map_err(|e| format!("harness key does not parse: {}", e)),
            None => Err(format!("unmapped:{}", pk)),
        }
    }
    translate_hash_fail!(String, DescriptorPublicKey, String);
}

/// (text, placeholders in it, context class of each script-bearing part, groups of keys that share one miniscript)
struct Case {
    text: &'static str,
    keys: &'static [&'static str],
    /// context of each key: 'l' legacy/bare (no x-only), 's' segwit v0 (no uncompressed, no x-only), 't' tap (no uncompressed)
    ctx: &'static [char],
    /// groups of key positions that sit in ONE miniscript (the unit of the library's multipath-length check)
    groups: &'static [&'static [usize]],
}

const CASES: &[Case] = &[
    Case { text: "wsh(and_v(v:pk(A),pk(B)))", keys: &["A", "B"], ctx: &['s', 's'], groups: &[&[0, 1]] },
    Case { text: "wsh(multi(2,A,B,C))", keys: &["A", "B", "C"], ctx: &['s', 's', 's'], groups: &[&[0, 1, 2]] },
    Case { text: "wsh(or_d(pk(A),and_v(v:pkh(B),older(5))))", keys: &["A", "B"], ctx: &['s', 's'], groups: &[&[0, 1]] },
    Case { text: "sh(wsh(or_d(pk(A),pk(B))))", keys: &["A", "B"], ctx: &['s', 's'], groups: &[&[0, 1]] },
    Case { text: "sh(and_v(v:pk(A),pk(B)))", keys: &["A", "B"], ctx: &['l', 'l'], groups: &[&[0, 1]] },
    Case { text: "sh(multi(1,A,B))", keys: &["A", "B"], ctx: &['l', 'l'], groups: &[&[0, 1]] },
    Case { text: "sh(wpkh(A))", keys: &["A"], ctx: &['s'], groups: &[&[0]] },
    Case { text: "wpkh(A)", keys: &["A"], ctx: &['s'], groups: &[&[0]] },
    Case { text: "pkh(A)", keys: &["A"], ctx: &['l'], groups: &[&[0]] },
    Case { text: "pk(A)", keys: &["A"], ctx: &['l'], groups: &[&[0]] },
    Case { text: "tr(A)", keys: &["A"], ctx: &['t'], groups: &[&[0]] },
    Case { text: "tr(A,pk(B))", keys: &["A", "B"], ctx: &['t', 't'], groups: &[&[0], &[1]] },
    Case { text: "tr(A,and_v(v:pk(B),pk(C)))", keys: &["A", "B", "C"], ctx: &['t', 't', 't'], groups: &[&[0], &[1, 2]] },
    Case { text: "tr(A,{pk(B),pk(C)})", keys: &["A", "B", "C"], ctx: &['t', 't', 't'], groups: &[&[0], &[1], &[2]] },
    Case { text: "tr(A,multi_a(2,B,C))", keys: &["A", "B", "C"], ctx: &['t', 't', 't'], groups: &[&[0], &[1, 2]] },
];

fn err_class(e: &miniscript::Error) -> String {
    let d = format!("{:?}", e);
    let head: String = d.chars().take_while(|c| c.is_alphanumeric() || *c == '_').collect();
    let inner = d.find('(').map(|i| d[i + 1..].chars().take_while(|c| c.is_alphanumeric() || *c == '_').collect::<String>()).unwrap_or_default();
    if inner.is_empty() {
        head
    } else {
        format!("{}.{}", head, inner)
    }
}

fn multipath_lens(kinds: &[Kind], idx: &[usize]) -> Vec<usize> {
    let mut v: Vec<usize> = idx.iter().map(|i| kinds[*i].paths()).filter(|n| *n > 1).collect();
    v.sort();
    v.dedup();
    v
}

pub fn run(args: &[String]) {
    let _seed: u64 = args.first().and_then(|s| s.parse().ok()).unwrap_or(1); // the sweep is exhaustive: no random choice
    let pool = [Kind::Mp2a, Kind::Mp2b, Kind::Mp3, Kind::Mp3b, Kind::Xpub, Kind::Comp, Kind::Uncomp, Kind::XOnly, Kind::Fail];
    let mut n = 0usize;
    for (case_idx, case) in CASES.iter().enumerate() {
        let d = match Descriptor::<String>::from_str(case.text) {
            Ok(d) => d,
            Err(e) => {
                println!("MPBAD {} does not parse: {}", case.text, e);
                continue;
            }
        };
        let nk = case.keys.len();
        let total = pool.len().pow(nk as u32);
        for code in 0..total {
            let mut c = code;
            let mut kinds = Vec::new();
            for _ in 0..nk {
                kinds.push(pool[c % pool.len()]);
                c /= pool.len();
            }
            let map: BTreeMap<String, Kind> = case.keys.iter().zip(kinds.iter()).map(|(k, v)| (k.to_string(), *v)).collect();
            // ---- oracle side, from the assignment alone
            let unmapped = kinds.iter().any(|k| *k == Kind::Fail);
            let mut illegal = Vec::new();
            for (i, k) in kinds.iter().enumerate() {
                match (case.ctx[i], *k) {
                    ('s', Kind::Uncomp) | ('t', Kind::Uncomp) => illegal.push(format!("{}:uncompressed", case.keys[i])),
                    ('s', Kind::XOnly) | ('l', Kind::XOnly) => illegal.push(format!("{}:xonly", case.keys[i])),
                    _ => {}
                }
            }
            let same_script = case.groups.iter().any(|g| multipath_lens(&kinds, g).len() > 1);
            let all: Vec<usize> = (0..nk).collect();
            let across = !same_script && multipath_lens(&kinds, &all).len() > 1;
            let cause = if unmapped && !illegal.is_empty() {
                format!("unmapped+illegal:{}", illegal.join(","))
            } else if unmapped {
                "unmapped".to_string()
            } else if !illegal.is_empty() {
                format!("illegal:{}", illegal.join(","))
            } else {
                "none".to_string()
            };
            // ---- the library
            let r = catch_unwind(AssertUnwindSafe(|| {
                let mut t = MpTr { map: &map };
                d.translate_pk(&mut t)
            }));
            let (res, reparse) = match r {
                Err(_) => ("panic".to_string(), "n/a".to_string()),
                Ok(Err(TranslateErr::TranslatorErr(e))) => (format!("terr:{}", e.replace(' ', "_")), "n/a".to_string()),
                Ok(Err(TranslateErr::OuterError(e))) => (format!("outer:{}", err_class(&e)), "n/a".to_string()),
                Ok(Ok(d2)) => {
                    let s = d2.to_string();
                    let rp = match catch_unwind(AssertUnwindSafe(|| Descriptor::<DescriptorPublicKey>::from_str(&s))) {
                        Err(_) => "panic".to_string(),
                        Ok(Err(e)) => format!("err:{}", err_class(&e)),
                        Ok(Ok(d3)) => {
                            if d3 == d2 && d3.to_string() == s {
                                "ok".to_string()
                            } else {
                                "differs".to_string()
                            }
                        }
                    };
                    let singles = match catch_unwind(AssertUnwindSafe(|| d2.clone().into_single_descriptors())) {
                        Err(_) => "panic".to_string(),
                        Ok(Err(e)) => format!("err:{}", err_class(&e)),
                        Ok(Ok(v)) => format!("{}", v.len()),
                    };
                    (format!("ok singles={}", singles), rp)
                }
            };
            let kn: Vec<&str> = kinds.iter().map(|k| k.name()).collect();
            println!(
                "MP {} | {} | res={} | cause={} | reparse={} | mismatch={}",
                case.text,
                kn.join(","),
                res,
                cause,
                reparse,
                if same_script { "same-script" } else if across { "across-tr" } else { "none" }
            );
            let code = if res.starts_with("ok") { 0 } else if res.starts_with("terr") { 1 } else if res.contains("UncompressedKeysNotAllowed") { 2 } else if res.contains("XOnlyKeysNotAllowed") { 3 } else if res.contains("MultipathDescLenMismatch") { 4 } else { 9 };
            let ki: Vec<String> = kinds.iter().map(|k| pool.iter().position(|p| p == k).unwrap().to_string()).collect();
            println!("MPC {} {} {}", case_idx, ki.join(","), code);
            n += 1;
        }
    }
    println!("MPSUMMARY cases={}", n);
}
