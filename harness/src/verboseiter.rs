//! `robust verbose <seed>`: the FULL records yielded by the REAL `VerbosePreOrderIter` of
//! iter/tree.rs (public API `TreeLike::verbose_pre_order_iter()`, through Miniscript and the
//! concrete Policy), printed as a Coq file (coq/Tables/VerboseIterCasesGen.v) that
//! Tables/VerboseIterCasesCheck.v compares item by item with `verbose_order` of
//! Ms/VerboseIterModel.v inside Coq by vm_compute.
//!
//! Trees: the 73 trees of `robust iters` (same construction, same seeds), deep chains (wrapper
//! chains, and_v / or_i nested on either side, depth 50 / 150 / 300), wide thresholds
//! (20 / 60 children, multi with 20 keys, policy thresh of 60, policy and/or chains).
//!
//! The tree handed to Coq is obtained by the harness's OWN recursion over the enum (never through
//! TreeLike); labels are structural hashes of the subtree exactly as in robust/itermodels.rs (the
//! helpers are copied from there: that module is private to robust.rs), so a yielded node and its
//! parent identify themselves.  Per item: label of node, label of parent (or None), index,
//! n_children_yielded, is_complete.
use crate::ast::Rng;
use miniscript::iter::TreeLike;
use miniscript::policy::concrete::Policy;
use miniscript::{Miniscript, ScriptContext, Terminal, Threshold};
use std::fmt::Write;
use std::panic::{catch_unwind, AssertUnwindSafe};
use std::sync::Arc;

// ---------------------------------------------------------------- copied from robust/itermodels.rs
fn fnv(parts: &[u64], s: &str) -> u64 {
    let mut h: u64 = 0xcbf29ce484222325;
    let mut eat = |b: u8| {
        h ^= b as u64;
        h = h.wrapping_mul(0x100000001b3);
    };
    for p in parts {
        for b in p.to_le_bytes() {
            eat(b);
        }
    }
    for b in s.bytes() {
        eat(b);
    }
    h & 0xffff_ffff_ffff
}

fn mkids<Ctx: ScriptContext>(m: &Miniscript<String, Ctx>) -> (u64, Vec<&Miniscript<String, Ctx>>) {
    use Terminal as T;
    match &m.node {
        T::Alt(a) => (1, vec![a]),
        T::Swap(a) => (2, vec![a]),
        T::Check(a) => (3, vec![a]),
        T::DupIf(a) => (4, vec![a]),
        T::Verify(a) => (5, vec![a]),
        T::NonZero(a) => (6, vec![a]),
        T::ZeroNotEqual(a) => (7, vec![a]),
        T::AndV(a, b) => (8, vec![a, b]),
        T::AndB(a, b) => (9, vec![a, b]),
        T::OrB(a, b) => (10, vec![a, b]),
        T::OrD(a, b) => (11, vec![a, b]),
        T::OrC(a, b) => (12, vec![a, b]),
        T::OrI(a, b) => (13, vec![a, b]),
        T::AndOr(a, b, c) => (14, vec![a, b, c]),
        T::Thresh(th) => (15 + 100 * th.k() as u64, th.iter().map(|c| c.as_ref()).collect()),
        _ => (0, vec![]),
    }
}
fn pkids(p: &Policy<String>) -> (u64, Vec<&Policy<String>>) {
    match p {
        Policy::And(v) => (1, v.iter().map(|a| a.as_ref()).collect()),
        Policy::Or(v) => (2, v.iter().map(|a| a.1.as_ref()).collect()),
        Policy::Thresh(t) => (3 + 100 * t.k() as u64, t.iter().map(|a| a.as_ref()).collect()),
        _ => (0, vec![]),
    }
}
fn pdesc(p: &Policy<String>) -> String {
    let kids = |v: Vec<&Policy<String>>| v.iter().map(|k| pdesc(k)).collect::<Vec<_>>().join(",");
    match p {
        Policy::And(_) => format!("And[{}]", kids(pkids(p).1)),
        Policy::Or(_) => format!("Or[{}]", kids(pkids(p).1)),
        Policy::Thresh(t) => format!("Thresh{}[{}]", t.k(), kids(pkids(p).1)),
        Policy::Key(k) => k.clone(),
        Policy::Trivial => "1".into(),
        _ => "0".into(),
    }
}
fn gen_policy(r: &mut Rng, depth: u32, ctr: &mut u32) -> Policy<String> {
    if depth == 0 || r.chance(1, 4) {
        *ctr += 1;
        return match r.below(8) {
            0 => Policy::Trivial,
            1 => Policy::Unsatisfiable,
            _ => Policy::Key(format!("K{}", *ctr)),
        };
    }
    // arities 1..=9, with a bias to small ones
    let n = if r.chance(1, 5) { 5 + r.below(5) as usize } else { 1 + r.below(4) as usize };
    let kids: Vec<Arc<Policy<String>>> = (0..n).map(|_| Arc::new(gen_policy(r, depth - 1, ctr))).collect();
    match r.below(3) {
        0 => Policy::And(kids),
        1 => Policy::Or(kids.into_iter().map(|k| (1 + r.below(3) as usize, k)).collect()),
        _ => {
            let k = 1 + r.below(n as u64) as usize;
            Policy::Thresh(Threshold::new(k, kids).expect("1 <= k <= n"))
        }
    }
}

// ---------------------------------------------------------------- labels (same values as itermodels.rs),
// computed once per node (address -> label) so that deep chains stay linear
use std::collections::HashMap;

/// address -> label (of the current tree), and label -> number of its definition in the printed file
/// (a 48-bit literal costs Coq's parser about a millisecond, so every distinct label of the run is
/// written once, `Definition vL<k> : N := <label>.`, and the trees and the items use the names)
#[derive(Default)]
struct Labels {
    at: HashMap<usize, u64>,
    name: HashMap<u64, usize>,
    order: Vec<u64>,
}
impl Labels {
    fn insert(&mut self, addr: usize, l: u64) -> usize {
        self.at.insert(addr, l);
        let order = &mut self.order;
        *self.name.entry(l).or_insert_with(|| {
            order.push(l);
            order.len() - 1
        })
    }
}

/// returns the label of `m`; fills `tab` and appends the Coq text of the tree
fn mwalk<Ctx: ScriptContext>(m: &Miniscript<String, Ctx>, tab: &mut Labels, out: &mut String) -> u64 {
    let (tag, kids) = mkids(m);
    let mut sub = String::new();
    let l = if kids.is_empty() {
        fnv(&[tag], &m.to_string())
    } else {
        let mut parts = vec![tag];
        for (i, k) in kids.iter().enumerate() {
            if i > 0 {
                sub.push_str("; ");
            }
            parts.push(mwalk(*k, tab, &mut sub));
        }
        fnv(&parts, "")
    };
    let k = tab.insert(m as *const _ as usize, l);
    let _ = write!(out, "RNode vL{} [{}]", k, sub);
    l
}
fn pwalk(p: &Policy<String>, tab: &mut Labels, out: &mut String) -> u64 {
    let (tag, kids) = pkids(p);
    let mut sub = String::new();
    let l = match p {
        Policy::Key(k) => fnv(&[10], k),
        Policy::Trivial => fnv(&[11], ""),
        Policy::Unsatisfiable => fnv(&[12], ""),
        _ => {
            let mut parts = vec![tag];
            for (i, k) in kids.iter().enumerate() {
                if i > 0 {
                    sub.push_str("; ");
                }
                parts.push(pwalk(k, tab, &mut sub));
            }
            fnv(&parts, "")
        }
    };
    let k = tab.insert(p as *const _ as usize, l);
    let _ = write!(out, "RNode vL{} [{}]", k, sub);
    l
}

type Item = (u64, Option<u64>, usize, usize, bool);

struct Out {
    tab: Labels,
    rows: Vec<String>,
    texts: Vec<String>,
    n_ms: usize,
    n_pol: usize,
    n_items: usize,
}

impl Out {
    fn push(&mut self, name: &str, tab: &Labels, tree: String, items: Option<Vec<Item>>, text: Option<String>, is_ms: bool) {
        let i = self.rows.len();
        let name: String = name.chars().take(200).collect();
        eprintln!("VROW {} {}", i, name);
        let items = match items {
            Some(v) => v,
            None => {
                eprintln!("VPANIC {} {}", i, name);
                vec![]
            }
        };
        let show = |it: &Item, coq: bool| {
            let par = match (it.1, coq) {
                (Some(p), true) => format!("Some vL{}", tab.name[&p]),
                (None, true) => "None".to_string(),
                (Some(p), false) => p.to_string(),
                (None, false) => "none".to_string(),
            };
            if coq {
                format!("(vL{}, {}, {}, {}, {})", tab.name[&it.0], par, it.2, it.3, it.4)
            } else {
                format!("{},{},{},{},{}", it.0, par, it.2, it.3, it.4)
            }
        };
        eprintln!("VITEMS {} {}", i, items.iter().map(|it| show(it, false)).collect::<Vec<_>>().join(";"));
        self.n_items += items.len();
        self.rows.push(format!("({}, [{}])", tree, items.iter().map(|it| show(it, true)).collect::<Vec<_>>().join("; ")));
        self.texts.push(match text {
            Some(t) => format!("[{}]", t.bytes().map(|b| b.to_string()).collect::<Vec<_>>().join("; ")),
            None => "[]".to_string(),
        });
        if is_ms {
            self.n_ms += 1
        } else {
            self.n_pol += 1
        }
    }

    fn ms<Ctx: ScriptContext>(&mut self, m: &Miniscript<String, Ctx>) {
        let mut tab = std::mem::take(&mut self.tab);
        let mut tree = String::new();
        mwalk(m, &mut tab, &mut tree);
        let lab = |x: &Miniscript<String, Ctx>| *tab.at.get(&(x as *const _ as usize)).expect("yielded node is a node of the tree");
        let items = catch_unwind(AssertUnwindSafe(|| {
            m.verbose_pre_order_iter()
                .map(|it| (lab(it.node), it.parent.map(|p| lab(p)), it.index, it.n_children_yielded, it.is_complete))
                .collect::<Vec<Item>>()
        }))
        .ok();
        let text = format!("{}", m);
        let name = format!("Miniscript<String,{}> {}", Ctx::name_str(), text);
        self.push(&name, &tab, tree, items, Some(text), true);
        self.tab = tab;
    }

    /// parse under Segwitv0, else under Tap (no opcode / script size ceiling there); false if neither accepts
    fn ms_text(&mut self, t: &str) -> bool {
        if let Ok(m) = Miniscript::<String, miniscript::Segwitv0>::from_str_insane(t) {
            self.ms(&m);
            return true;
        }
        match Miniscript::<String, miniscript::Tap>::from_str_insane(t) {
            Ok(m) => {
                self.ms(&m);
                true
            }
            Err(e) => {
                eprintln!("VSKIP {} ({})", t.chars().take(120).collect::<String>(), e.to_string().chars().take(120).collect::<String>());
                false
            }
        }
    }

    fn pol(&mut self, p: &Policy<String>, name: Option<&str>) {
        let mut tab = std::mem::take(&mut self.tab);
        let mut tree = String::new();
        pwalk(p, &mut tab, &mut tree);
        let lab = |x: &Policy<String>| *tab.at.get(&(x as *const _ as usize)).expect("yielded node is a node of the tree");
        let items = catch_unwind(AssertUnwindSafe(|| {
            p.verbose_pre_order_iter()
                .map(|it| (lab(it.node), it.parent.map(|q| lab(q)), it.index, it.n_children_yielded, it.is_complete))
                .collect::<Vec<Item>>()
        }))
        .ok();
        let name = format!("concrete::Policy<String> {}", match name {
            Some(n) => n.to_string(),
            None => pdesc(p),
        });
        self.push(&name, &tab, tree, items, None, false);
        self.tab = tab;
    }
}

fn nest_right(d: usize, open: &str, leaf: &str) -> String {
    // open = "and_v(v:older(1)," : open^d leaf )^d
    let mut s = String::new();
    for _ in 0..d {
        s.push_str(open);
    }
    s.push_str(leaf);
    for _ in 0..d {
        s.push(')');
    }
    s
}
fn nest_left(d: usize, head: &str, leaf: &str, tail: &str) -> String {
    // head^d leaf tail^d, e.g. "and_v(" ^d "v:older(1)" (",v:older(1))")^d
    let mut s = String::new();
    for _ in 0..d {
        s.push_str(head);
    }
    s.push_str(leaf);
    for _ in 0..d {
        s.push_str(tail);
    }
    s
}

pub fn run(args: &[String]) {
    let seed: u64 = args.first().and_then(|s| s.parse().ok()).unwrap_or(1);
    // the panic message of a failing row goes to stderr through the default hook; keep it short
    std::panic::set_hook(Box::new(|info| eprintln!("VPANICMSG {}", info.to_string().chars().take(300).collect::<String>())));
    let mut out = Out { tab: Labels::default(), rows: vec![], texts: vec![], n_ms: 0, n_pol: 0, n_items: 0 };

    // ---- 1. the trees of `robust iters` (same texts, same generator seeds)
    let fixed = [
        "pk(A)",
        "and_v(v:pk(A),pk(B))",
        "andor(pk(A),pk(B),pk(C))",
        "andor(pk(A),or_i(and_v(v:pk(B),older(5)),pk(C)),and_v(v:pk(D),after(9)))",
        "thresh(2,pk(A),s:pk(B),s:pk(C),sdv:older(7),a:and_v(v:pk(D),older(3)))",
        "or_d(multi(2,A,B,C),and_v(v:thresh(1,pkh(D),a:pkh(E)),older(10)))",
        "thresh(3,c:pk_k(A),sc:pk_k(B),sc:pk_k(C),sc:pk_k(D),sc:pk_k(E),sc:pk_k(F),sc:pk_k(G))",
        "or_b(pk(A),a:or_b(pk(B),a:or_b(pk(C),a:thresh(1,pk(D),a:pk(E)))))",
    ];
    for t in fixed {
        if let Ok(m) = Miniscript::<String, miniscript::Segwitv0>::from_str_insane(t) {
            out.ms(&m);
        }
    }
    let w = crate::ast::World::new();
    for sd in 0..24u64 {
        let mut g = crate::ast::Gen::new(&w, seed.wrapping_mul(977) + 9000 + sd, crate::ast::CtxInfo { tap: false, legacy_like: false, n_keys: 6 });
        if let Some(m) = g.gen::<miniscript::Segwitv0>(crate::ast::B::B, 1 + (sd % 5) as u32) {
            if let Ok(ms) = Miniscript::<String, miniscript::Segwitv0>::from_str_insane(&m.to_string()) {
                out.ms(&ms);
            }
        }
    }
    let mut r = Rng(seed ^ 0x17e5_a11c);
    for i in 0..40u32 {
        let mut ctr = 0;
        let p = gen_policy(&mut r, 1 + i % 4, &mut ctr);
        out.pol(&p, None);
    }
    let mut ctr = 0;
    let wide = Policy::And((0..40).map(|_| Arc::new(gen_policy(&mut r, 1, &mut ctr))).collect());
    out.pol(&wide, Some("And of 40 generated children"));
    let mut deep = Policy::Key("Z".to_string());
    for i in 0..40 {
        deep = if i % 2 == 0 { Policy::And(vec![Arc::new(deep)]) } else { Policy::Or(vec![(1, Arc::new(deep)), (1, Arc::new(Policy::Trivial))]) };
    }
    out.pol(&deep, Some("And[Or[..]] chain 40 deep"));

    // ---- 2. deep miniscripts (the parser accepts nesting up to 402)
    // (every form at depth 50; a selection at 150 and 300: the generated file is parsed by Coq on every run)
    for d in [50usize, 150, 300] {
        let all = d == 50;
        // one-child chains: n:n:...:pk(A)   and   j: over n: (j wants Bn, n: gives it back)
        if all || d == 150 {
            out.ms_text(&format!("{}:pk(A)", "n".repeat(d)));
        }
        if all || d == 300 {
            out.ms_text(&format!("{}:pk(A)", "jn".repeat(d / 2)));
        }
        // or_i(0,or_i(0,...)) to the right (l:), or_i(or_i(...,0),0) to the left (u:), alternating
        if all || d == 300 {
            out.ms_text(&format!("{}:pk(A)", "l".repeat(d)));
            out.ms_text(&format!("{}:pk(A)", "u".repeat(d)));
        }
        if all || d == 150 {
            out.ms_text(&format!("{}:pk(A)", "lu".repeat(d / 2)));
        }
        // and_v nested in the second child, in the first child
        if all || d == 300 {
            out.ms_text(&nest_right(d, "and_v(v:older(1),", "older(2)"));
        }
        if all || d == 150 {
            out.ms_text(&format!("and_v({},1)", nest_left(d, "and_v(", "v:older(1)", ",v:older(2))")));
            // andor nested in the middle child; three children per level
            out.ms_text(&nest_left(d, "andor(pk(A),", "older(2)", ",older(3))"));
            // t:v: chains: and_v(v:and_v(v:...,1),1)
            out.ms_text(&format!("{}:older(1)", "tv".repeat(d / 2)));
        }
    }

    // ---- 3. wide miniscripts
    for n in [20usize, 60] {
        let kids: Vec<String> = (0..n).map(|i| if i == 0 { "pk(K0)".to_string() } else { format!("s:pk(K{})", i) }).collect();
        out.ms_text(&format!("thresh({},{})", n / 2, kids.join(",")));
        // every child a small subtree of its own
        let kids: Vec<String> = (0..n).map(|i| if i == 0 { "pk(K0)".to_string() } else { format!("a:or_b(pk(K{}),s:pk(L{}))", i, i) }).collect();
        out.ms_text(&format!("thresh(1,{})", kids.join(",")));
    }
    out.ms_text(&format!("multi(2,{})", (0..20).map(|i| format!("K{}", i)).collect::<Vec<_>>().join(",")));
    out.ms_text(&format!("or_d(multi(2,{}),pk(Z))", (0..20).map(|i| format!("K{}", i)).collect::<Vec<_>>().join(",")));

    // ---- 4. wide and deep policies, by value
    let keys = |n: usize| -> Vec<Arc<Policy<String>>> { (0..n).map(|i| Arc::new(Policy::Key(format!("K{}", i)))).collect() };
    out.pol(&Policy::Thresh(Threshold::new(3, keys(60)).expect("3 <= 60")), Some("Thresh3 of 60 keys"));
    out.pol(&Policy::And(keys(60)), Some("And of 60 keys"));
    out.pol(&Policy::Or(keys(60).into_iter().map(|k| (1, k)).collect()), Some("Or of 60 keys"));
    for d in [50usize, 150, 300] {
        // the deep child last / first / in the middle of three
        let mut a = Policy::Key("Z".to_string());
        let mut b = Policy::Key("Z".to_string());
        let mut c = Policy::Key("Z".to_string());
        for i in 0..d {
            let k = |s: &str| Arc::new(Policy::Key(format!("{}{}", s, i)));
            a = Policy::Or(vec![(1, k("L")), (2, Arc::new(a))]);
            b = Policy::And(vec![Arc::new(b), k("R")]);
            c = if i % 2 == 0 {
                Policy::Thresh(Threshold::new(2, vec![k("L"), Arc::new(c), k("R")]).expect("2 <= 3"))
            } else {
                Policy::And(vec![Arc::new(c)])
            };
        }
        if d != 150 {
            out.pol(&a, Some(&format!("Or[L,Or[L,..]] chain {} deep", d)));
            out.pol(&b, Some(&format!("And[And[..,R],R] chain {} deep", d)));
        }
        if d != 300 {
            out.pol(&c, Some(&format!("Thresh2[L,And[..],R] chain {} deep", d)));
        }
        // a deep tree must not be dropped recursively on a small stack: leak it (one process, a few MB)
        std::mem::forget((a, b, c));
    }

    // ---- print
    let mut o = String::new();
    o.push_str("(* generated by `verif-harness robust verbose` from the compiled library; do not edit *)\n");
    o.push_str("From Coq Require Import List NArith Bool.\nFrom Verif Require Import Bytes RobustModel.\nImport ListNotations.\nLocal Open Scope N_scope.\n");
    let chunk = |o: &mut String, name: &str, ty: &str, rows: &[String]| {
        let mut parts = Vec::new();
        for (ci, c) in rows.chunks(40).enumerate() {
            let _ = writeln!(o, "Definition {}_p{} : list {} := [{}].", name, ci, ty, c.join("; "));
            parts.push(format!("{}_p{}", name, ci));
        }
        if parts.is_empty() {
            let _ = writeln!(o, "Definition {} : list {} := [].", name, ty);
        } else {
            let _ = writeln!(o, "Definition {} : list {} := {}.", name, ty, parts.join(" ++ "));
        }
    };
    for (k, l) in out.tab.order.iter().enumerate() {
        let _ = writeln!(o, "Definition vL{} : N := 0x{:x}.", k, l);
    }
    chunk(&mut o, "verbose_rows", "(rtree * list (N * option N * N * N * bool))", &out.rows);
    chunk(&mut o, "verbose_texts", "(list N)", &out.texts);
    print!("{}", o);
    eprintln!("VERBOSE rows={} (miniscript {}, policy {}) items={}", out.rows.len(), out.n_ms, out.n_pol, out.n_items);
}
