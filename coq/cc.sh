#!/bin/bash
# scratch helper: compile one file with the project flags (removed before the final commit)
cd "$(dirname "$0")"
ulimit -s unlimited
timeout ${TMO:-900} coqc -Q Script Verif -Q Ms Verif -Q Proofs Verif -Q Properties Verif -w -notation-overridden,-deprecated-hint-without-locality,-deprecated-instance-without-locality "$@"
