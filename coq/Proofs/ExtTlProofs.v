(* C09: [tree_height] is the height of the AST, the recursion-depth checks reject exactly the
   ASTs above the limit; [timelock_info] is exact w.r.t. the syntactic specification of
   Ms/ExtTlSpec.v, sound w.r.t. the satisfying-path specification, and the converse of the
   latter is refuted (an unsatisfiable conjunct). *)
From Coq Require Import Lia List Bool.
From Verif Require Import TypeCheck ExtModel ExtTlSpec ExtBounds.
From Verif Require TheoremA.
Import ListNotations.
Local Open Scope N_scope.

Arguments N.add : simpl never. Arguments N.mul : simpl never. Arguments N.sub : simpl never.
Arguments N.max : simpl never. Arguments N.of_nat : simpl never. Arguments N.leb : simpl never.
Arguments N.ltb : simpl never. Arguments N.eqb : simpl never. Arguments N.modulo : simpl never.

(* ------------------------------------------------------------------ nested fixpoints *)
Lemma go_height xs :
  (fix go (l : list ms) : N := match l with [] => 0 | x :: r => N.max (ms_height x) (go r) end) xs
  = fold_right (fun x a => N.max (ms_height x) a) 0 xs.
Proof. induction xs as [|x r IH]; [reflexivity|]. cbn [fold_right]. rewrite <- IH. reflexivity. Qed.
Lemma go_leaves xs :
  (fix go (l : list ms) : list lleaf := match l with [] => [] | x :: r => lock_leaves x ++ go r end) xs
  = flat_map lock_leaves xs.
Proof. induction xs as [|x r IH]; [reflexivity|]. cbn [flat_map]. rewrite <- IH. reflexivity. Qed.
Lemma go_mixes xs :
  (fix go (l : list ms) : Prop := match l with [] => False | x :: r => tl_mixes x \/ go r end) xs
  <-> Exists tl_mixes xs.
Proof.
  induction xs as [|x r IH]; [split; [intros []|intros H; inversion H]|].
  rewrite Exists_cons, <- IH. reflexivity.
Qed.
Lemma go_built fx c xs :
  (fix go (l : list ms) : bool := match l with [] => true | x :: r => built_by_from_ast fx c x && go r end) xs
  = forallb (built_by_from_ast fx c) xs.
Proof. induction xs as [|x r IH]; [reflexivity|]. cbn [forallb]. rewrite <- IH. reflexivity. Qed.

(* ================================================================== tree_height *)
Lemma fold_height (f : ms -> ext) xs :
  Forall (fun x => tree_height (f x) = ms_height x) xs ->
  forall a, fold_left (fun a s => N.max a (tree_height s)) (map f xs) a
            = N.max a (fold_right (fun x a => N.max (ms_height x) a) 0 xs).
Proof.
  induction 1 as [|x r Hx _ IH]; intros a; cbn [map fold_left fold_right]; [lia|].
  rewrite IH, Hx. lia.
Qed.

Theorem tree_height_is_height fx c m : tree_height (ext_of_gen fx c m) = ms_height m.
Proof.
  induction m using TheoremA.ms_ind';
    try (cbn [ext_of_gen ms_height]; reflexivity);
    try (cbn [ext_of_gen ms_height]; unfold ext_pk_k, ext_pk_h_none, ext_pk_h;
         match goal with |- context [key_sig_bytes ?a ?b ?d] => destruct (key_sig_bytes a b d) end; reflexivity);
    try (cbn [ext_of_gen ms_height];
         unfold ext_cast_alt, ext_cast_swap, ext_cast_check, ext_cast_dupif, ext_cast_verify, ext_cast_nonzero,
           ext_cast_zeronotequal, ext_and_v, ext_and_b, ext_and_or, ext_or_b, ext_or_d, ext_or_c, ext_or_i;
         cbn [tree_height];
         repeat match goal with H : tree_height _ = _ |- _ => rewrite H; clear H end; lia).
  (* thresh *)
  rewrite ext_of_gen_thresh. unfold ext_threshold. cbn [tree_height ms_height].
  rewrite go_height, (fold_height (ext_of_gen fx c) xs H). lia.
Qed.

Lemma validate_depth_exact fx c m limit :
  validate_depth_ok limit (ext_of_gen fx c m) = true <-> ms_height m <= limit.
Proof.
  unfold validate_depth_ok. rewrite tree_height_is_height, negb_true_iff, N.ltb_ge. reflexivity.
Qed.

Lemma from_ast_depth_mod fx c m :
  from_ast_depth_ok (ext_of_gen fx c m) = true <-> ms_height m mod U32_MOD <= MAX_RECURSION_DEPTH.
Proof.
  unfold from_ast_depth_ok. rewrite tree_height_is_height, negb_true_iff, N.ltb_ge. reflexivity.
Qed.

Lemma from_ast_depth_exact fx c m :
  ms_height m < U32_MOD ->
  (from_ast_depth_ok (ext_of_gen fx c m) = true <-> ms_height m <= MAX_RECURSION_DEPTH).
Proof. intros H. rewrite from_ast_depth_mod, N.mod_small by exact H. reflexivity. Qed.

Lemma fold_max_le xs b :
  fold_right (fun x a => N.max (ms_height x) a) 0 xs <= b <-> Forall (fun x => ms_height x <= b) xs.
Proof.
  induction xs as [|x r IH]; cbn [fold_right]; [split; [constructor|lia]|].
  rewrite Forall_cons_iff, <- IH. lia.
Qed.

(* a tree all of whose sub-fragments went through from_ast: the check is exact with no side
   condition (the children are at most 402 high, so the u32 cast cannot wrap) *)
Theorem built_by_from_ast_exact fx c m :
  built_by_from_ast fx c m = true <-> ms_height m <= MAX_RECURSION_DEPTH.
Proof.
  unfold MAX_RECURSION_DEPTH.
  induction m using TheoremA.ms_ind'; cbn [built_by_from_ast];
    rewrite ?andb_true_iff, ?from_ast_depth_mod; cbn [ms_height]; unfold MAX_RECURSION_DEPTH, U32_MOD;
    try (rewrite N.mod_small by lia; intuition lia);
    try (rewrite ?IHm, ?IHm1, ?IHm2, ?IHm3; split;
         [intros; repeat match goal with H : _ /\ _ |- _ => destruct H end;
          match goal with H : _ mod _ <= _ |- _ => rewrite N.mod_small in H by lia end; lia
         | intros; rewrite N.mod_small by lia; lia]).
  (* thresh *)
  rewrite go_built, go_height, forallb_forall.
  assert (Hall : (forall x, In x xs -> built_by_from_ast fx c x = true) <-> Forall (fun x => ms_height x <= 402) xs).
  { rewrite Forall_forall. rewrite Forall_forall in H. split; intros Ha x Hx; apply (H x Hx), Ha, Hx. }
  rewrite Hall, <- fold_max_le. split.
  - intros [Hm Hc]. rewrite N.mod_small in Hm by lia. lia.
  - intros Hh. rewrite N.mod_small by lia. lia.
Qed.

(* ================================================================== timelock_info *)
Definition flags_ok (t : tlinfo) (L : list lleaf) : Prop := forall l, tl_flag t l = true <-> In l L.

Lemma conflict_sym a b : conflict a b = conflict b a.
Proof. destruct a as [[] []], b as [[] []]; reflexivity. Qed.
Lemma cross_conflict_sym L M : cross_conflict L M -> cross_conflict M L.
Proof. intros [a [b [Ha [Hb Hc]]]]. exists b, a. rewrite conflict_sym. auto. Qed.
Lemma cross_conflict_app_l L1 L2 M :
  cross_conflict (L1 ++ L2) M <-> cross_conflict L1 M \/ cross_conflict L2 M.
Proof.
  unfold cross_conflict. split.
  - intros [a [b [Ha [Hb Hc]]]]. apply in_app_iff in Ha. destruct Ha; [left|right]; exists a, b; auto.
  - intros [[a [b [Ha [Hb Hc]]]]|[a [b [Ha [Hb Hc]]]]]; exists a, b; rewrite in_app_iff; auto.
Qed.

Definition hat (acc t : tlinfo) : bool :=
  (tl_csv_h acc && tl_csv_t t) || (tl_csv_t acc && tl_csv_h t)
  || (tl_cltv_t acc && tl_cltv_h t) || (tl_cltv_h acc && tl_cltv_t t).

Lemma hat_iff acc t L M : flags_ok acc L -> flags_ok t M -> (hat acc t = true <-> cross_conflict L M).
Proof.
  intros HL HM. unfold hat, cross_conflict. split.
  - rewrite !orb_true_iff, !andb_true_iff. intros [[[[H1 H2]|[H1 H2]]|[H1 H2]]|[H1 H2]].
    + exists (LRel, UHeight), (LRel, UTime). (split; [apply HL; exact H1|split; [apply HM; exact H2|reflexivity]]).
    + exists (LRel, UTime), (LRel, UHeight). (split; [apply HL; exact H1|split; [apply HM; exact H2|reflexivity]]).
    + exists (LAbs, UTime), (LAbs, UHeight). (split; [apply HL; exact H1|split; [apply HM; exact H2|reflexivity]]).
    + exists (LAbs, UHeight), (LAbs, UTime). (split; [apply HL; exact H1|split; [apply HM; exact H2|reflexivity]]).
  - intros [a [b [Ha [Hb Hc]]]]. apply HL in Ha. apply HM in Hb.
    destruct a as [[] []], b as [[] []]; cbn in Hc; try discriminate Hc; cbn [tl_flag] in Ha, Hb;
      rewrite Ha, Hb; cbn; rewrite ?orb_true_r; reflexivity.
Qed.

Lemma step_flags k acc t L M : flags_ok acc L -> flags_ok t M -> flags_ok (tl_step k acc t) (L ++ M).
Proof.
  intros HL HM l. specialize (HL l). specialize (HM l). rewrite in_app_iff, <- HL, <- HM.
  destruct l as [[] []]; cbn [tl_flag tl_step tl_csv_h tl_csv_t tl_cltv_h tl_cltv_t];
    rewrite orb_true_iff; reflexivity.
Qed.

Lemma step_comb k acc t L M :
  flags_ok acc L -> flags_ok t M ->
  (tl_comb (tl_step k acc t) = true <->
   tl_comb acc = true \/ tl_comb t = true \/ (1 < k /\ cross_conflict L M)).
Proof.
  intros HL HM. rewrite <- (hat_iff acc t L M HL HM). unfold tl_step. cbn [tl_comb]. fold (hat acc t).
  destruct (1 <? k) eqn:Ek; [apply N.ltb_lt in Ek|apply N.ltb_ge in Ek];
    rewrite !orb_true_iff; intuition lia.
Qed.

Lemma tl_step_new k a : tl_step k tl_new a = a.
Proof. destruct a. unfold tl_step. cbn. destruct (1 <? k); reflexivity. Qed.
Lemma combine2 k a b : tl_combine_threshold k [a; b] = tl_step k a b.
Proof. unfold tl_combine_threshold. cbn [fold_left]. rewrite tl_step_new. reflexivity. Qed.

(* thresh: conflicts between the leaves seen so far and a later child / between two children *)
Definition later_conflict (L : list lleaf) (xs : list ms) : Prop :=
  exists j y, nth_error xs j = Some y /\ cross_conflict L (lock_leaves y).
Definition pair_conflict (xs : list ms) : Prop :=
  exists i j x y, (i < j)%nat /\ nth_error xs i = Some x /\ nth_error xs j = Some y
                  /\ cross_conflict (lock_leaves x) (lock_leaves y).

Lemma later_conflict_cons L x r :
  later_conflict L (x :: r) <-> cross_conflict L (lock_leaves x) \/ later_conflict L r.
Proof.
  unfold later_conflict. split.
  - intros [[|j] [y [Hj Hc]]]; cbn in Hj; [inversion Hj; subst; auto|right; exists j, y; auto].
  - intros [Hc|[j [y [Hj Hc]]]]; [exists O, x; auto|exists (S j), y; auto].
Qed.
Lemma later_conflict_nil L : later_conflict L [] <-> False.
Proof. split; [intros [[|j] [y [Hj _]]]; discriminate Hj|intros []]. Qed.
Lemma later_conflict_nil_l xs : later_conflict [] xs <-> False.
Proof. split; [intros [j [y [_ [a [b [[] _]]]]]]|intros []]. Qed.
Lemma later_conflict_app L1 L2 r :
  later_conflict (L1 ++ L2) r <-> later_conflict L1 r \/ later_conflict L2 r.
Proof.
  unfold later_conflict. split.
  - intros [j [y [Hj Hc]]]. apply cross_conflict_app_l in Hc. destruct Hc; [left|right]; exists j, y; auto.
  - intros [[j [y [Hj Hc]]]|[j [y [Hj Hc]]]]; exists j, y; rewrite cross_conflict_app_l; auto.
Qed.
Lemma pair_conflict_cons x r :
  pair_conflict (x :: r) <-> later_conflict (lock_leaves x) r \/ pair_conflict r.
Proof.
  unfold pair_conflict, later_conflict. split.
  - intros [i [j [a [b [Hij [Hi [Hj Hc]]]]]]]. destruct j as [|j]; [lia|]. cbn in Hj. destruct i as [|i].
    + cbn in Hi. inversion Hi; subst. left. exists j, b. auto.
    + cbn in Hi. right. exists i, j, a, b. repeat split; auto. lia.
  - intros [[j [y [Hj Hc]]]|[i [j [a [b [Hij [Hi [Hj Hc]]]]]]]].
    + exists O, (S j), x, y. repeat split; auto. lia.
    + exists (S i), (S j), a, b. repeat split; auto. lia.
Qed.
Lemma pair_conflict_nil : pair_conflict [] <-> False.
Proof. split; [intros [[|i] [j [a [b [_ [Hi _]]]]]]; discriminate Hi|intros []]. Qed.

Definition tl_inv (f : ms -> tlinfo) (m : ms) : Prop :=
  flags_ok (f m) (lock_leaves m) /\ (tl_comb (f m) = true <-> tl_mixes m).

Lemma fold_tl (f : ms -> tlinfo) k xs :
  Forall (tl_inv f) xs ->
  forall acc L, flags_ok acc L ->
    let res := fold_left (tl_step k) (map f xs) acc in
    flags_ok res (L ++ flat_map lock_leaves xs)
    /\ (tl_comb res = true <->
        tl_comb acc = true \/ Exists tl_mixes xs \/ (1 < k /\ (later_conflict L xs \/ pair_conflict xs))).
Proof.
  induction 1 as [|x r [Hfx Hcx] _ IH]; intros acc L HL; cbn [map fold_left flat_map].
  - rewrite app_nil_r, Exists_nil, later_conflict_nil, pair_conflict_nil. split; [exact HL|tauto].
  - pose proof (step_flags k acc (f x) L (lock_leaves x) HL Hfx) as HL'.
    pose proof (step_comb k acc (f x) L (lock_leaves x) HL Hfx) as HC'.
    destruct (IH _ _ HL') as [IHf IHc]. split.
    + rewrite app_assoc. exact IHf.
    + rewrite IHc, HC', Hcx, Exists_cons, later_conflict_cons, pair_conflict_cons, later_conflict_app.
      tauto.
Qed.

Lemma pair_conflict_neq xs :
  pair_conflict xs <->
  exists i j x y, i <> j /\ nth_error xs i = Some x /\ nth_error xs j = Some y
                  /\ cross_conflict (lock_leaves x) (lock_leaves y).
Proof.
  split.
  - intros [i [j [x [y [Hij H]]]]]. exists i, j, x, y. split; [lia|exact H].
  - intros [i [j [x [y [Hij [Hi [Hj Hc]]]]]]]. destruct (Nat.lt_ge_cases i j) as [Hlt|Hge].
    + exists i, j, x, y. auto.
    + exists j, i, y, x. repeat split; auto; [lia|apply cross_conflict_sym, Hc].
Qed.

Lemma flags_new : flags_ok tl_new [].
Proof. intros [[] []]; cbn; split; (discriminate || contradiction). Qed.

Lemma tl_inv_all fx c m : tl_inv (fun x => timelock_info (ext_of_gen fx c x)) m.
Proof.
  set (f := fun x => timelock_info (ext_of_gen fx c x)).
  assert (Hleaf : forall m', timelock_info (ext_of_gen fx c m') = tl_new -> lock_leaves m' = [] ->
                             (tl_mixes m' <-> False) -> tl_inv f m').
  { intros m' Ht Hl Hm. unfold tl_inv, f. rewrite Ht, Hl, Hm. split; [apply flags_new|cbn; split; [discriminate|tauto]]. }
  assert (Hun : forall x m', timelock_info (ext_of_gen fx c m') = timelock_info (ext_of_gen fx c x) ->
                             lock_leaves m' = lock_leaves x -> (tl_mixes m' <-> tl_mixes x) -> tl_inv f x -> tl_inv f m').
  { intros x m' Ht Hl Hm [H1 H2]. unfold tl_inv, f in *. rewrite Ht, Hl, Hm. auto. }
  assert (Hand : forall a b, tl_inv f a -> tl_inv f b ->
             flags_ok (tl_combine_and (f a) (f b)) (lock_leaves a ++ lock_leaves b)
             /\ (tl_comb (tl_combine_and (f a) (f b)) = true <->
                 tl_mixes a \/ tl_mixes b \/ cross_conflict (lock_leaves a) (lock_leaves b))).
  { intros a b [Ha1 Ha2] [Hb1 Hb2]. unfold tl_combine_and. rewrite combine2. split.
    - apply step_flags; assumption.
    - rewrite (step_comb 2 _ _ _ _ Ha1 Hb1), Ha2, Hb2. intuition lia. }
  assert (Hor : forall ta tb La Lb (Pa Pb : Prop), flags_ok ta La -> (tl_comb ta = true <-> Pa) ->
             flags_ok tb Lb -> (tl_comb tb = true <-> Pb) ->
             flags_ok (tl_combine_or ta tb) (La ++ Lb) /\ (tl_comb (tl_combine_or ta tb) = true <-> Pa \/ Pb)).
  { intros ta tb La Lb Pa Pb Ha1 Ha2 Hb1 Hb2. unfold tl_combine_or. rewrite combine2. split.
    - apply step_flags; assumption.
    - rewrite (step_comb 1 _ _ _ _ Ha1 Hb1), Ha2, Hb2. intuition lia. }
  induction m using TheoremA.ms_ind';
    try (apply Hleaf; [cbn [ext_of_gen]; unfold ext_pk_k, ext_pk_h_none, ext_pk_h;
                       try match goal with |- context [key_sig_bytes ?a ?b ?d] => destruct (key_sig_bytes a b d) end;
                       reflexivity | reflexivity | reflexivity]);
    try (apply (Hun m); [reflexivity | reflexivity | reflexivity | assumption]).
  - (* after *) unfold tl_inv, f. cbn. split; [|split; [discriminate|tauto]].
    intros [[] []]; cbn; unfold after_leaf; destruct (N.ltb_spec t 500000000); destruct (N.leb_spec 500000000 t); try lia; cbn;
      intuition (try discriminate; try congruence).
  - (* older *) unfold tl_inv, f. cbn. split; [|split; [discriminate|tauto]].
    intros [[] []]; cbn; unfold older_leaf; destruct (rel_is_time t); cbn;
      intuition (try discriminate; try congruence).
  - (* and_v *) destruct (Hand _ _ IHm1 IHm2) as [H1 H2]. split; [exact H1|exact H2].
  - (* and_b *) destruct (Hand _ _ IHm1 IHm2) as [H1 H2]. split; [exact H1|exact H2].
  - (* andor *) destruct (Hand _ _ IHm1 IHm2) as [H1 H2]. destruct IHm3 as [H3 H4].
    destruct (Hor _ _ _ _ _ _ H1 H2 H3 H4) as [H5 H6]. unfold tl_inv, f. cbn [ext_of_gen lock_leaves tl_mixes].
    unfold ext_and_or. cbn [timelock_info]. rewrite app_assoc. split; [exact H5|]. unfold f in H6. rewrite H6. tauto.
  - destruct IHm1 as [A1 A2], IHm2 as [B1 B2]. destruct (Hor _ _ _ _ _ _ A1 A2 B1 B2) as [H5 H6]. split; [exact H5|exact H6].
  - destruct IHm1 as [A1 A2], IHm2 as [B1 B2]. destruct (Hor _ _ _ _ _ _ A1 A2 B1 B2) as [H5 H6]. split; [exact H5|exact H6].
  - destruct IHm1 as [A1 A2], IHm2 as [B1 B2]. destruct (Hor _ _ _ _ _ _ A1 A2 B1 B2) as [H5 H6]. split; [exact H5|exact H6].
  - destruct IHm1 as [A1 A2], IHm2 as [B1 B2]. destruct (Hor _ _ _ _ _ _ A1 A2 B1 B2) as [H5 H6]. split; [exact H5|exact H6].
  - (* thresh *)
    unfold tl_inv, f. rewrite ext_of_gen_thresh. unfold ext_threshold. cbn [timelock_info lock_leaves tl_mixes].
    rewrite map_map, go_leaves, go_mixes, <- pair_conflict_neq.
    destruct (fold_tl f k xs H tl_new [] flags_new) as [F1 F2]. cbn [app] in F1.
    unfold tl_combine_threshold. fold f. split; [exact F1|]. rewrite F2, later_conflict_nil_l.
    cbn. intuition discriminate.
Qed.

(* ---- the theorems about the model's field ---- *)
Theorem timelock_flags_exact fx c m l :
  tl_flag (timelock_info (ext_of_gen fx c m)) l = true <-> In l (lock_leaves m).
Proof. apply (proj1 (tl_inv_all fx c m)). Qed.

Theorem timelock_comb_exact fx c m :
  tl_comb (timelock_info (ext_of_gen fx c m)) = true <-> tl_mixes m.
Proof. apply (proj2 (tl_inv_all fx c m)). Qed.

(* ------------------------------------------------------------------ satisfying paths: soundness *)
Lemma in_pcross a b p : In p (pcross a b) <-> exists p1 p2, In p1 a /\ In p2 b /\ p = p1 ++ p2.
Proof.
  unfold pcross. rewrite in_flat_map. split.
  - intros [p1 [H1 H2]]. apply in_map_iff in H2. destruct H2 as [p2 [E H2]]. exists p1, p2. auto.
  - intros [p1 [p2 [H1 [H2 E]]]]. exists p1. split; [exact H1|]. apply in_map_iff. exists p2. auto.
Qed.

Definition path_inv (m : ms) : Prop :=
  forall p, In p (sat_paths m) -> incl p (lock_leaves m) /\ (path_conflict p -> tl_mixes m).

Lemma path_conflict_app p1 p2 :
  path_conflict (p1 ++ p2) ->
  path_conflict p1 \/ path_conflict p2 \/ cross_conflict p1 p2.
Proof.
  intros [a [b [Ha [Hb Hc]]]]. apply in_app_iff in Ha. apply in_app_iff in Hb.
  destruct Ha as [Ha|Ha], Hb as [Hb|Hb].
  - left. exists a, b. auto.
  - right. right. exists a, b. auto.
  - right. right. exists b, a. rewrite conflict_sym. auto.
  - right. left. exists a, b. auto.
Qed.
Lemma cross_conflict_incl p1 p2 L M : incl p1 L -> incl p2 M -> cross_conflict p1 p2 -> cross_conflict L M.
Proof. intros H1 H2 [a [b [Ha [Hb Hc]]]]. exists a, b. auto. Qed.

Lemma in_flat_leaves b r :
  In b (flat_map lock_leaves r) -> exists j y, nth_error r j = Some y /\ In b (lock_leaves y).
Proof.
  induction r as [|x r IH]; cbn [flat_map]; [intros []|]. rewrite in_app_iff. intros [H|H].
  - exists O, x. auto.
  - destruct (IH H) as [j [y [Hj Hy]]]. exists (S j), y. auto.
Qed.
Lemma cross_flat_later L r : cross_conflict L (flat_map lock_leaves r) -> later_conflict L r.
Proof.
  intros [a [b [Ha [Hb Hc]]]]. destruct (in_flat_leaves b r Hb) as [j [y [Hj Hy]]].
  exists j, y. split; [exact Hj|]. exists a, b. auto.
Qed.

Lemma choose_inv xs :
  Forall path_inv xs ->
  forall k p, In p (choose_paths k (map sat_paths xs)) ->
    incl p (flat_map lock_leaves xs)
    /\ (p <> [] -> (1 <= k)%nat)
    /\ (path_conflict p -> Exists tl_mixes xs \/ ((2 <= k)%nat /\ pair_conflict xs)).
Proof.
  assert (Hnil : forall p, p = [] -> path_conflict p -> False).
  { intros p -> [a [b [[] _]]]. }
  induction 1 as [|x r Hx _ IH]; intros k p Hp.
  - destruct k; cbn in Hp; [|contradiction]. destruct Hp as [<-|[]].
    split; [intros a []|]. split; [congruence|]. intros Hc. exfalso. apply (Hnil [] eq_refl Hc).
  - destruct k as [|k]; cbn [map choose_paths] in Hp.
    + destruct Hp as [<-|[]]. split; [intros a []|]. split; [congruence|]. intros Hc. exfalso. apply (Hnil [] eq_refl Hc).
    + apply in_app_iff in Hp. destruct Hp as [Hp|Hp].
      * apply in_pcross in Hp. destruct Hp as [p1 [p2 [H1 [H2 ->]]]].
        destruct (Hx p1 H1) as [I1 M1]. destruct (IH k p2 H2) as [I2 [N2 M2]].
        cbn [flat_map]. split; [apply incl_app_app; assumption|]. split; [lia|].
        intros Hc. apply path_conflict_app in Hc. destruct Hc as [Hc|[Hc|Hc]].
        -- left. apply Exists_cons_hd. apply M1, Hc.
        -- destruct (M2 Hc) as [He|[Hk Hpc]]; [left; apply Exists_cons_tl, He|].
           right. split; [lia|]. apply pair_conflict_cons. right. exact Hpc.
        -- right. assert (p2 <> []) as Hne.
           { destruct Hc as [a [b [_ [Hb _]]]]. intros ->. destruct Hb. }
           specialize (N2 Hne). split; [lia|]. apply pair_conflict_cons. left.
           apply cross_flat_later. apply (cross_conflict_incl p1 p2); assumption.
      * destruct (IH (S k) p Hp) as [I2 [N2 M2]]. cbn [flat_map].
        split; [apply incl_appr, I2|]. split; [lia|]. intros Hc.
        destruct (M2 Hc) as [He|[Hk Hpc]]; [left; apply Exists_cons_tl, He|].
        right. split; [exact Hk|]. apply pair_conflict_cons. right. exact Hpc.
Qed.

Lemma path_inv_all m : path_inv m.
Proof.
  assert (Hnil : forall m', sat_paths m' = [[]] -> path_inv m').
  { intros m' E p Hp. rewrite E in Hp. destruct Hp as [<-|[]]. split; [intros a []|].
    intros [a [b [[] _]]]. }
  assert (Hone : forall m' l, sat_paths m' = [[l]] -> lock_leaves m' = [l] -> path_inv m').
  { intros m' l E El p Hp. rewrite E in Hp. destruct Hp as [<-|[]]. rewrite El. split; [apply incl_refl|].
    intros [a [b [[<-|[]] [[<-|[]] Hc]]]]. destruct l as [[] []]; discriminate Hc. }
  assert (Hand : forall a b, path_inv a -> path_inv b ->
            forall p, In p (pcross (sat_paths a) (sat_paths b)) ->
              incl p (lock_leaves a ++ lock_leaves b)
              /\ (path_conflict p -> tl_mixes a \/ tl_mixes b \/ cross_conflict (lock_leaves a) (lock_leaves b))).
  { intros a b Ha Hb p Hp. apply in_pcross in Hp. destruct Hp as [p1 [p2 [H1 [H2 ->]]]].
    destruct (Ha p1 H1) as [I1 M1]. destruct (Hb p2 H2) as [I2 M2]. split; [apply incl_app_app; assumption|].
    intros Hc. apply path_conflict_app in Hc. destruct Hc as [Hc|[Hc|Hc]]; [auto|auto|].
    right. right. apply (cross_conflict_incl p1 p2); assumption. }
  assert (Hor : forall a b, path_inv a -> path_inv b ->
            forall p, In p (sat_paths a ++ sat_paths b) ->
              incl p (lock_leaves a ++ lock_leaves b) /\ (path_conflict p -> tl_mixes a \/ tl_mixes b)).
  { intros a b Ha Hb p Hp. apply in_app_iff in Hp. destruct Hp as [Hp|Hp].
    - destruct (Ha p Hp) as [I1 M1]. split; [apply incl_appl, I1|auto].
    - destruct (Hb p Hp) as [I1 M1]. split; [apply incl_appr, I1|auto]. }
  induction m using TheoremA.ms_ind';
    try (apply Hnil; reflexivity);
    try (eapply Hone; reflexivity);
    try exact IHm;
    try (intros p Hp; cbn [sat_paths lock_leaves tl_mixes] in *; apply Hand; assumption);
    try (intros p Hp; cbn [sat_paths lock_leaves tl_mixes] in *; apply Hor; assumption).
  - (* 0 *) intros p [].
  - (* andor *) intros p Hp. cbn [sat_paths lock_leaves tl_mixes] in *. apply in_app_iff in Hp. destruct Hp as [Hp|Hp].
    + destruct (Hand _ _ IHm1 IHm2 p Hp) as [I M]. split.
      * rewrite app_assoc. apply incl_appl, I.
      * intros Hc. destruct (M Hc) as [?|[?|?]]; auto.
    + destruct (IHm3 p Hp) as [I M]. split; [apply incl_appr, incl_appr, I|auto].
  - (* thresh *) intros p Hp. cbn [sat_paths lock_leaves tl_mixes] in *.
    rewrite (go_map sat_paths) in Hp. rewrite go_leaves, go_mixes, <- pair_conflict_neq.
    destruct (choose_inv xs H _ p Hp) as [I [_ M]]. split; [exact I|].
    intros Hc. destruct (M Hc) as [He|[Hk Hpc]]; [left; exact He|]. right. split; [lia|exact Hpc].
Qed.

(* path-mixing => flag, for every AST *)
Theorem timelock_comb_sound_paths fx c m :
  path_mix m -> tl_comb (timelock_info (ext_of_gen fx c m)) = true.
Proof.
  intros [p [Hp Hc]]. apply timelock_comb_exact. apply (proj2 (path_inv_all m p Hp) Hc).
Qed.
(* every leaf a satisfying path needs is recorded in the four flags *)
Theorem timelock_flags_cover_paths fx c m p l :
  In p (sat_paths m) -> In l p -> tl_flag (timelock_info (ext_of_gen fx c m)) l = true.
Proof. intros Hp Hl. apply timelock_flags_exact. apply (proj1 (path_inv_all m p Hp)), Hl. Qed.

(* the converse fails: the flag is also raised by a conjunction that has no satisfaction at all.
   and_v(v:older(1), and_v(v:older(4194305), 0)) : well typed, flag set, no satisfying path *)
Definition tl_converse_witness : ms :=
  MAndV (MVerify (MOlder 1)) (MAndV (MVerify (MOlder 4194305)) MFalse).
Theorem timelock_comb_paths_converse_refuted :
  exists m t, type_of m = ROk t
              /\ (forall fx c, tl_comb (timelock_info (ext_of_gen fx c m)) = true)
              /\ ~ path_mix m.
Proof.
  exists tl_converse_witness. eexists. split; [vm_compute; reflexivity|]. split.
  - intros fx c. reflexivity.
  - intros [p [Hp _]]. vm_compute in Hp. exact Hp.
Qed.

(* ------------------------------------------------------------------ non-vacuity *)
Definition tl_cx0 : xctx := mkXctx false (fun _ => false) (fun _ => 34).
Definition tl_chain (n : nat) : ms := Nat.iter n MZeroNotEqual (MCheck (MPkK 0)).
Definition tl_and_mixed : ms := MAndV (MVerify (MOlder 1)) (MOlder 4194305).
Definition tl_or_mixed : ms := MOrI (MOlder 1) (MOlder 4194305).
Definition tl_thresh_mixed (k : N) : ms :=
  MThresh k [MCheck (MPkK 0); MSwap (MOrI MFalse (MZeroNotEqual (MOlder 1)));
             MSwap (MOrI MFalse (MZeroNotEqual (MOlder 4194305)))].
Lemma tl_nonvacuous :
  (* heights: 402 wrappers above c:pk_k are accepted, 403 are not; the check is the one of a tree built bottom-up *)
  ms_height (tl_chain 401) = 402 /\ built_by_from_ast as_written tl_cx0 (tl_chain 401) = true
  /\ ms_height (tl_chain 402) = 403 /\ built_by_from_ast as_written tl_cx0 (tl_chain 402) = false
  /\ from_ast_depth_ok (ext_of tl_cx0 (tl_chain 402)) = false
  (* a conjunction of a height lock and a time lock mixes on its only path; the flag is set *)
  /\ path_mix tl_and_mixed /\ tl_comb (timelock_info (ext_of tl_cx0 tl_and_mixed)) = true
  (* a disjunction of the same two does not *)
  /\ ~ path_mix tl_or_mixed /\ ~ tl_mixes tl_or_mixed /\ tl_comb (timelock_info (ext_of tl_cx0 tl_or_mixed)) = false
  /\ lock_leaves tl_or_mixed = [(LRel, UHeight); (LRel, UTime)]
  (* thresh: k = 1 behaves like a disjunction, k = 2 like a conjunction (well typed) *)
  /\ (exists t, type_of (tl_thresh_mixed 2) = ROk t)
  /\ tl_comb (timelock_info (ext_of tl_cx0 (tl_thresh_mixed 1))) = false
  /\ tl_comb (timelock_info (ext_of tl_cx0 (tl_thresh_mixed 2))) = true
  /\ path_mix (tl_thresh_mixed 2) /\ ~ path_mix (tl_thresh_mixed 1).
Proof.
  assert (Hno : ~ path_conflict [] /\ (forall l, ~ path_conflict [l])).
  { split; [intros [a [b [[] _]]]|].
    intros l [a [b [[<-|[]] [[<-|[]] Hc]]]]. destruct l as [[] []]; discriminate Hc. }
  repeat split; try (vm_compute; reflexivity).
  - exists [(LRel, UHeight); (LRel, UTime)]. split; [vm_compute; auto|].
    exists (LRel, UHeight), (LRel, UTime). cbn. auto.
  - intros [p [Hp Hc]]. vm_compute in Hp. destruct Hp as [<-|[<-|[]]]; apply (proj2 Hno _ Hc).
  - intros H. apply (timelock_comb_exact as_written tl_cx0) in H. vm_compute in H. discriminate H.
  - eexists. vm_compute. reflexivity.
  - exists [(LRel, UHeight); (LRel, UTime)]. split; [vm_compute; auto|].
    exists (LRel, UHeight), (LRel, UTime). cbn. auto.
  - intros [p [Hp Hc]]. vm_compute in Hp.
    repeat (destruct Hp as [<-|Hp]; [first [apply (proj2 Hno _ Hc) | apply (proj1 Hno Hc)]|]). exact Hp.
Qed.
