(* C20 (extension, second step) -- the named failure theorem for the hash machine (mirror of trec_err of TranslateProofs.v). *)
From Coq Require Import Lia Permutation.
From Verif Require Import TranslateHashModel TranslateProofs TranslateHashProofs TheoremA EqOrdProofs.

(* ------------------------------------------------------------------ failure, named: which atom / which sub-term and error *)
Section HFail.
  Variable fp : key -> option key.
  Variable fhp : hkind -> bytes -> option bytes.
  Variable chk : ms -> option cerr.

  Notation trec := (translate_rec_h (fun _ => fp) (fun _ => fhp) chk).
  Notation tlist := (trec_list_h (fun _ => fp) (fun _ => fhp) chk).
  Notation sub := (map_atoms (total fp) (total_h fhp)).
  Notation amapped := (amapped fp fhp).
  Notation aok := (atom_ok fp fhp).

  Definition fail_in_h (e : terr) (atoms : list atom) (S : list ms) : Prop :=
    (exists i a, e = TranslatorErr i /\ In a atoms /\ aok a = false) \/
    (exists c s, e = OuterErr c /\ In s S /\ amapped (matoms_rtl s) /\ chk (sub s) = Some c).

  Lemma fail_h_mono e ks S ks' S' : fail_in_h e ks S -> incl ks ks' -> incl S S' -> fail_in_h e ks' S'.
  Proof.
    intros [[i [k [-> [Hin Hf]]]]|[c [s [-> [Hin [Hm Hc]]]]]] Hk HS.
    - left. exists i, k. auto.
    - right. exists c, s. auto.
  Qed.

  Lemma fail_h_finish s n e ks S :
    finish chk (sub s) n = TErr e -> amapped (matoms_rtl s) -> In s S -> fail_in_h e ks S.
  Proof.
    unfold finish. destruct (chk (sub s)) as [c|] eqn:E; [|discriminate].
    intro H; injection H as <-. intros Hm Hin. right. exists c, s. auto.
  Qed.

  Lemma tlist_h_err xs :
    Forall (fun m => forall n e, trec n m = TErr e -> fail_in_h e (matoms_rtl m) (subterms m)) xs ->
    forall n e, tlist n xs = TErr e ->
                fail_in_h e (fold_right (fun x acc => acc ++ matoms_rtl x) [] xs) (flat_map subterms xs).
  Proof.
    induction 1 as [|x r Hx Hr IH]; intros n e E; cbn in E; [discriminate|].
    destruct (tlist n r) as [[r' n2]| |] eqn:E2; cbn [tbind fst snd] in E; try discriminate.
    - destruct (trec n2 x) as [[x' n3]| |] eqn:E3; cbn [tbind fst snd] in E; try discriminate.
      injection E as <-. apply (fail_h_mono _ _ _ _ _ (Hx _ _ E3)); cbn; [apply incl_appr | apply incl_appl]; apply incl_refl.
    - injection E as <-. apply (fail_h_mono _ _ _ _ _ (IH _ _ E2)); cbn; [apply incl_appl | apply incl_appr]; apply incl_refl.
  Qed.

  Ltac incl_tac := cbn; repeat first [apply incl_refl | apply incl_tl | apply incl_appl; apply incl_refl
                                      | apply incl_appr | apply incl_appl].
  Ltac okinv E := destruct (trec_h_ok_inv _ _ _ _ _ _ _ E) as [-> [? _]].

  Lemma trec_h_err : forall m n e, trec n m = TErr e -> fail_in_h e (matoms_rtl m) (subterms m).
  Proof.
    induction m using ms_ind'; intros n e HH; cbn [translate_rec_h] in HH.
    1-2, 5-7: (match goal with |- fail_in_h _ _ (subterms ?s) => apply (fail_h_finish s n) end; [exact HH | constructor | left; reflexivity]).
    1-2: (destruct (fp k) as [k'|] eqn:E;
          [ match goal with |- fail_in_h _ _ (subterms ?s) => refine (fail_h_finish s (n + 1)%N _ _ _ _ _ _) end;
            [cbn [map_atoms]; rewrite (total_some _ _ _ E); exact HH | constructor; [cbn; rewrite E; reflexivity | constructor] | left; reflexivity]
          | injection HH as <-; left; exists n, (AKey k); split; [reflexivity | split; [left; reflexivity | cbn; rewrite E; reflexivity]] ]).
    1-4: (unfold hleaf in HH;
          match type of HH with match fhp ?hk ?hh with _ => _ end = _ =>
            destruct (fhp hk hh) as [h1|] eqn:E;
            [ match goal with |- fail_in_h _ _ (subterms ?s) => refine (fail_h_finish s (n + 1)%N _ _ _ _ _ _) end;
              [cbn [map_atoms]; unfold total_h; rewrite E; exact HH | constructor; [cbn; rewrite E; reflexivity | constructor] | left; reflexivity]
            | injection HH as <-; left; exists n, (AHash hk hh); split; [reflexivity | split; [left; reflexivity | cbn; rewrite E; reflexivity]] ]
          end).
    1-7: (destruct (trec n m) as [[x' n1]| |] eqn:E; cbn [tbind fst snd] in HH; try discriminate;
          [ okinv E;
            match goal with |- fail_in_h _ _ (subterms ?s) => refine (fail_h_finish s n1 _ _ _ _ _ _) end; [exact HH | assumption | left; reflexivity]
          | injection HH as <-; apply (fail_h_mono _ _ _ _ _ (IHm _ _ E)); incl_tac ]).
    1-2: (destruct (trec n m2) as [[y' n1]| |] eqn:E2; cbn [tbind fst snd] in HH; try discriminate;
          [ destruct (trec n1 m1) as [[x' n2]| |] eqn:E1; cbn [tbind fst snd] in HH; try discriminate;
            [ okinv E2; okinv E1;
              match goal with |- fail_in_h _ _ (subterms ?s) => refine (fail_h_finish s n2 _ _ _ _ _ _) end; [exact HH | apply Forall_app; split; assumption | left; reflexivity]
            | injection HH as <-; apply (fail_h_mono _ _ _ _ _ (IHm1 _ _ E1)); incl_tac ]
          | injection HH as <-; apply (fail_h_mono _ _ _ _ _ (IHm2 _ _ E2)); incl_tac ]).
    1: (destruct (trec n m3) as [[c' n1]| |] eqn:E3; cbn [tbind fst snd] in HH; try discriminate;
        [ destruct (trec n1 m2) as [[b' n2]| |] eqn:E2; cbn [tbind fst snd] in HH; try discriminate;
          [ destruct (trec n2 m1) as [[a' n3]| |] eqn:E1; cbn [tbind fst snd] in HH; try discriminate;
            [ okinv E3; okinv E2; okinv E1;
              match goal with |- fail_in_h _ _ (subterms ?s) => refine (fail_h_finish s n3 _ _ _ _ _ _) end; [exact HH | repeat (apply Forall_app; split); assumption | left; reflexivity]
            | injection HH as <-; apply (fail_h_mono _ _ _ _ _ (IHm1 _ _ E1)); incl_tac ]
          | injection HH as <-; apply (fail_h_mono _ _ _ _ _ (IHm2 _ _ E2)); incl_tac ]
        | injection HH as <-; apply (fail_h_mono _ _ _ _ _ (IHm3 _ _ E3)); incl_tac ]).
    1-4: (destruct (trec n m2) as [[y' n1]| |] eqn:E2; cbn [tbind fst snd] in HH; try discriminate;
          [ destruct (trec n1 m1) as [[x' n2]| |] eqn:E1; cbn [tbind fst snd] in HH; try discriminate;
            [ okinv E2; okinv E1;
              match goal with |- fail_in_h _ _ (subterms ?s) => refine (fail_h_finish s n2 _ _ _ _ _ _) end; [exact HH | apply Forall_app; split; assumption | left; reflexivity]
            | injection HH as <-; apply (fail_h_mono _ _ _ _ _ (IHm1 _ _ E1)); incl_tac ]
          | injection HH as <-; apply (fail_h_mono _ _ _ _ _ (IHm2 _ _ E2)); incl_tac ]).
    1: { change (trec n (MThresh k xs) = TErr e) in HH. rewrite trec_h_thresh in HH.
         destruct (tlist n xs) as [[l' n1]| |] eqn:E; cbn [tbind fst snd] in HH; try discriminate.
         - assert (Hi : Forall (fun m => forall n m' n', trec n m = TOk (m', n') ->
                                m' = sub m /\ amapped (matoms_rtl m) /\ chk_ok chk m') xs).
           { clear. induction xs as [|x r IH]; constructor; [intros; eapply trec_h_ok_inv; eassumption | exact IH]. }
           destruct (tlist_h_ok_inv _ _ _ xs Hi _ _ _ E) as [-> [Hm _]].
           refine (fail_h_finish (MThresh k xs) n1 _ _ _ _ _ _); [exact HH | rewrite matoms_rtl_thresh; exact Hm | left; reflexivity].
         - injection HH as <-. rewrite matoms_rtl_thresh. apply (fail_h_mono _ _ _ _ _ (tlist_h_err xs H _ _ E)); [apply incl_refl|].
           rewrite subterms_thresh. apply incl_tl, incl_refl. }
    1-4: (destruct (tr_keys (fun _ => fp) n ks) as [[ks' n1]| |] eqn:E; cbn [tbind fst snd] in HH; try discriminate;
          [ destruct (tr_keys_inv _ _ _ _ _ E) as [-> Hm];
            match goal with |- fail_in_h _ _ (subterms ?s) => refine (fail_h_finish s n1 _ _ _ _ _ _) end;
            [exact HH | apply mapped_amapped; exact Hm | left; reflexivity]
          | injection HH as <-; destruct (tr_keys_err _ _ _ _ E) as [i [k0 [-> [Hin Hf]]]]; left; exists i, (AKey k0);
            split; [reflexivity | split; [apply in_map; exact Hin | cbn; rewrite Hf; reflexivity]] ]).
  Qed.
End HFail.

(* tr_fail_only for the hash machine: a failure is either `TranslatorErr` on a key or hash of the term that the mapping does
   not map, or `OuterErr c` for a sub-term all of whose keys and hashes are mapped and whose substitution from_ast rejects with c *)
Theorem iter_h_fail_only_named fp fhp chk m e :
  translate_iter_h (fun _ => fp) (fun _ => fhp) chk m = TErr e ->
  (exists i a, e = TranslatorErr i /\ In a (matoms_pre m) /\ atom_ok fp fhp a = false) \/
  (exists c s, e = OuterErr c /\ In s (subterms m) /\ (forall a, In a (matoms_pre s) -> atom_ok fp fhp a = true) /\
               chk (map_atoms (total fp) (total_h fhp) s) = Some c).
Proof.
  rewrite translate_iter_h_refines. unfold translate_h.
  destruct (translate_rec_h (fun _ => fp) (fun _ => fhp) chk 0 m) as [[x n']| |] eqn:E; cbn; try discriminate.
  intro H; injection H as <-. destruct (trec_h_err _ _ _ _ _ _ E) as [[i [a [-> [Hin Hf]]]]|[c [s [-> [Hin [Hm Hc]]]]]].
  - left. exists i, a. repeat split; [|exact Hf]. apply (Permutation_in a (matoms_perm m)). exact Hin.
  - right. exists c, s. repeat split; try assumption. unfold amapped in Hm. rewrite Forall_forall in Hm.
    intros a Ha. apply Hm. apply (Permutation_in a (Permutation_sym (matoms_perm s))). exact Ha.
Qed.
