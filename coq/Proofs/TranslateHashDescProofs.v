(* C20 (extension, second step) — the descriptor-level hash machine `translate_desc_h` reduced to the miniscript-level
   theorems; type and script preservation for the hash machine. *)
From Coq Require Import Lia Permutation.
From Verif Require Import TranslateHashModel TranslateProofs TranslateHashProofs TheoremA EqOrdProofs.

(* ------------------------------------------------------------------ type and script preservation *)
Theorem type_of_map_atoms g gh m : type_of (map_atoms g gh m) = type_of m.
Proof.
  induction m using ms_ind'; cbn [map_atoms type_of]; try reflexivity;
    rewrite ?IHm, ?IHm1, ?IHm2, ?IHm3, ?map_length; try reflexivity.
  f_equal. induction H as [|x r Hx Hr IH]; cbn; [reflexivity|]. rewrite Hx, IH. reflexivity.
Qed.

(* the substitution of keys and hashes is the key substitution of the hash substitution *)
Lemma map_atoms_split g gh m : map_atoms g gh m = map_keys g (map_atoms (fun k => k) gh m).
Proof.
  induction m using ms_ind'; cbn [map_atoms map_keys]; rewrite ?map_id; try congruence; try reflexivity.
  f_equal. rewrite map_map. induction H as [|x r Hx Hr IH]; cbn; [reflexivity | rewrite Hx, IH; reflexivity].
Qed.

(* the script of the translated term is the script of the original term with the hash images substituted (in the term:
   a hash fragment pushes its hash literally) and the mapped keys' bytes in place of the original keys' bytes *)
Theorem enc_map_atoms (ke ke' : keyenv) (g : key -> key) gh :
  (forall k, kb ke' (g k) = kb ke k) -> (forall k, kh ke' (g k) = kh ke k) ->
  (forall ks, map (kb ke') (ksort ke' (map g ks)) = map (kb ke) (ksort ke ks)) ->
  forall m, enc ke' (map_atoms g gh m) = enc ke (map_atoms (fun k => k) gh m) /\
            encode ke' (map_atoms g gh m) = encode ke (map_atoms (fun k => k) gh m).
Proof.
  intros H1 H2 H3 m. rewrite map_atoms_split. apply (iter_structure_script ke ke' g H1 H2 H3).
Qed.

(* the hash substitution alone: keys, shape and types untouched; every hash fragment carries the image *)
Theorem map_hashes_keys gh m : keys_pre (map_atoms (fun k => k) gh m) = keys_pre m.
Proof.
  induction m using ms_ind'; cbn [map_atoms keys_pre]; rewrite ?map_id; try congruence; try reflexivity.
  induction H as [|x r Hx Hr IH]; cbn; [reflexivity | rewrite Hx, IH; reflexivity].
Qed.

(* ------------------------------------------------------------------ descriptors: specification side *)
Definition dmap (g : key -> key) (gh : hkind -> bytes -> bytes) (d : desc) : desc :=
  match d with
  | DPkh k => DPkh (g k) | DWpkh k => DWpkh (g k) | DShWpkh k => DShWpkh (g k)
  | DBare m => DBare (map_atoms g gh m) | DSh m => DSh (map_atoms g gh m)
  | DWsh m => DWsh (map_atoms g gh m) | DShWsh m => DShWsh (map_atoms g gh m)
  | DTr ik ls => DTr (g ik) (map (fun l => (fst l, map_atoms g gh (snd l))) ls)
  end.

(* keys and hashes of a descriptor in the order of the text form (tr: internal key first) *)
Definition datoms (d : desc) : list atom :=
  match d with
  | DPkh k | DWpkh k | DShWpkh k => [AKey k]
  | DBare m | DShWsh m | DSh m | DWsh m => matoms_pre m
  | DTr ik ls => AKey ik :: flat_map (fun l => matoms_pre (snd l)) ls
  end.

(* what the constructors / from_ast accept: every node of every script in its context, every single key in its context *)
Definition desc_ok (chk : ctx -> ms -> option cerr) (kk : key -> kkind) (d : desc) : Prop :=
  match d with
  | DPkh k => check_pk Legacy (kk k) = None
  | DWpkh k | DShWpkh k => check_pk Segwitv0 (kk k) = None
  | DBare m => chk_ok (chk Bare) m
  | DSh m => chk_ok (chk Legacy) m
  | DWsh m | DShWsh m => chk_ok (chk Segwitv0) m
  | DTr ik ls => check_pk Tap (kk ik) = None /\ Forall (fun l => chk_ok (chk Tap) (snd l)) ls
  end.

Section DescPure.
  Variable fp : key -> option key.
  Variable fhp : hkind -> bytes -> option bytes.
  Variable chk : ctx -> ms -> option cerr.
  Variable kk : key -> kkind.

  Notation f := (fun _ : N => fp).
  Notation fh := (fun _ : N => fhp).
  Notation sub := (map_atoms (total fp) (total_h fhp)).
  Notation dsub := (dmap (total fp) (total_h fhp)).
  Notation aok := (atom_ok fp fhp).

  (* one leaf of a tap tree: the loop, then the pop, is the recursive translation *)
  Lemma leaf_h n m :
    tbind (run_steps_h f fh (chk Tap) ([], n) (rtl_post m)) (fun st => tbind (pop (fst st)) (fun p => TOk (fst p, snd st)))
    = translate_rec_h f fh (chk Tap) n m.
  Proof.
    rewrite run_steps_h_refines. destruct (translate_rec_h f fh (chk Tap) n m) as [[? ?]| |]; reflexivity.
  Qed.

  Lemma tr_leaves_h_cons n d m r :
    tr_leaves_h f fh chk n ((d, m) :: r) =
    tbind (translate_rec_h f fh (chk Tap) n m) (fun p => tbind (tr_leaves_h f fh chk (snd p) r) (fun q => TOk ((d, fst p) :: fst q, snd q))).
  Proof. cbn [tr_leaves_h]. rewrite leaf_h. reflexivity. Qed.

  Lemma tr_leaves_h_ok_inv : forall ls n ls' n', tr_leaves_h f fh chk n ls = TOk (ls', n') ->
    ls' = map (fun l => (fst l, sub (snd l))) ls /\
    (forall a, In a (flat_map (fun l => matoms_pre (snd l)) ls) -> aok a = true) /\
    Forall (fun l => chk_ok (chk Tap) (snd l)) ls'.
  Proof.
    induction ls as [|[d m] r IH]; intros n ls' n' E.
    - cbn in E. injection E as <- _. repeat split; [intros a []| constructor].
    - rewrite tr_leaves_h_cons in E.
      destruct (translate_rec_h f fh (chk Tap) n m) as [[m' n1]| |] eqn:E1; cbn [tbind fst snd] in E; try discriminate.
      destruct (tr_leaves_h f fh chk n1 r) as [[r' n2]| |] eqn:E2; cbn [tbind fst snd] in E; try discriminate.
      injection E as <- _. destruct (IH _ _ _ E2) as [-> [Ha Hk]].
      destruct (trec_h_ok_inv _ _ _ _ _ _ _ E1) as [-> [Hm Hc]]. split; [reflexivity|]. split.
      + intros a Hin. cbn in Hin. apply in_app_or in Hin. destruct Hin as [Hin|Hin]; [|apply Ha; exact Hin].
        unfold amapped in Hm. rewrite Forall_forall in Hm. apply Hm. apply (Permutation_in a (Permutation_sym (matoms_perm m))). exact Hin.
      + constructor; [exact Hc | exact Hk].
  Qed.

  Lemma tr_leaves_h_complete : forall ls n,
    (forall a, In a (flat_map (fun l => matoms_pre (snd l)) ls) -> aok a = true) ->
    Forall (fun l => chk_ok (chk Tap) (sub (snd l))) ls ->
    exists n', tr_leaves_h f fh chk n ls = TOk (map (fun l => (fst l, sub (snd l))) ls, n').
  Proof.
    induction ls as [|[d m] r IH]; intros n Ha Hk; [eexists; reflexivity|].
    rewrite tr_leaves_h_cons. inversion Hk as [|? ? Hk1 Hk2]; subst. cbn in Hk1.
    destruct (trec_h_complete fp fhp (chk Tap) m n) as [n1 ->]; [|exact Hk1|].
    - unfold amapped. rewrite Forall_forall. intros a Hin. apply Ha. cbn. apply in_or_app. left.
      apply (Permutation_in a (matoms_perm m)). exact Hin.
    - cbn [tbind fst snd]. destruct (IH n1) as [n2 ->]; [|exact Hk2|cbn; eexists; reflexivity].
      intros a Hin. apply Ha. cbn. apply in_or_app. right. exact Hin.
  Qed.

  (* success: the result is the substitution, every key and hash of the descriptor is mapped, the result is acceptable *)
  Theorem desc_h_structure d d' :
    translate_desc_h f fh chk kk d = TOk d' ->
    d' = dsub d /\ (forall a, In a (datoms d) -> aok a = true) /\ desc_ok chk kk d'.
  Proof.
    destruct d as [m|k|k|m|k|m|m|ik ls]; cbn [translate_desc_h datoms].
    1, 4, 6, 7: (unfold wrap_h; intro E;
      match type of E with tbind (translate_iter_h _ _ ?c ?mm) _ = _ => destruct (translate_iter_h f fh c mm) as [m1| |] eqn:E1 end;
      cbn in E; try discriminate; injection E as <-; destruct (iter_h_structure _ _ _ _ _ E1) as [-> [Ha Hc]];
      repeat split; assumption).
    1-3: (unfold single; destruct (fp k) as [k'|] eqn:E; [|discriminate];
          match goal with |- match check_pk ?c ?x with _ => _ end = _ -> _ => destruct (check_pk c x) eqn:C end; [discriminate|];
          intro H; injection H as <-; cbn [dmap desc_ok]; rewrite (total_some _ _ _ E); repeat split; try exact C;
          intros a [<-|[]]; cbn; rewrite E; reflexivity).
    destruct (tr_leaves_h f fh chk 0 ls) as [[ls' n1]| |] eqn:E1; cbn [tbind fst snd]; try discriminate.
    destruct (fp ik) as [ik'|] eqn:E; [|discriminate]. destruct (check_pk Tap (kk ik')) eqn:C; [discriminate|].
    intro H; injection H as <-. destruct (tr_leaves_h_ok_inv _ _ _ _ E1) as [-> [Ha Hk]].
    cbn [dmap desc_ok]. rewrite (total_some _ _ _ E). repeat split; try assumption.
    intros a [<-|Hin]; [cbn; rewrite E; reflexivity | apply Ha; exact Hin].
  Qed.

  Theorem desc_h_complete d :
    (forall a, In a (datoms d) -> aok a = true) -> desc_ok chk kk (dsub d) ->
    translate_desc_h f fh chk kk d = TOk (dsub d).
  Proof.
    destruct d as [m|k|k|m|k|m|m|ik ls]; cbn [translate_desc_h datoms dmap desc_ok]; intros Ha Hk.
    1, 4, 6, 7: (unfold wrap_h; rewrite (iter_h_complete _ _ _ _ Ha Hk); reflexivity).
    1-3: (unfold single; specialize (Ha _ (or_introl eq_refl)); cbn in Ha; destruct (fp k) as [k'|] eqn:E; [|discriminate];
          rewrite (total_some _ _ _ E) in Hk; rewrite Hk; rewrite (total_some _ _ _ E); reflexivity).
    destruct Hk as [C Hk]. destruct (tr_leaves_h_complete ls 0%N) as [n1 ->].
    - intros a Hin. apply Ha. right. exact Hin.
    - clear -Hk. induction ls as [|l r IH]; cbn in Hk; inversion Hk; subst; constructor; [assumption | apply IH; assumption].
    - cbn [tbind fst snd]. specialize (Ha _ (or_introl eq_refl)). cbn in Ha. destruct (fp ik) as [ik'|] eqn:E; [|discriminate].
      rewrite (total_some _ _ _ E) in *. rewrite C. reflexivity.
  Qed.

  (* a failure is caused by a key or hash of the descriptor on which the mapping fails, or (everything mapped) by the
     substituted descriptor being unacceptable (a script node rejected by from_ast, a key of a kind its context forbids) *)
  Theorem desc_h_fail_only d e :
    translate_desc_h f fh chk kk d = TErr e ->
    (exists a, In a (datoms d) /\ aok a = false) \/
    ((forall a, In a (datoms d) -> aok a = true) /\ ~ desc_ok chk kk (dsub d)).
  Proof.
    intro E. destruct (forallb aok (datoms d)) eqn:F.
    - right. rewrite forallb_forall in F. split; [exact F|]. intro Hk. rewrite (desc_h_complete _ F Hk) in E. discriminate.
    - left. clear E. induction (datoms d) as [|a r IH]; cbn in F; [discriminate|].
      destruct (aok a) eqn:A; cbn in F.
      + destruct (IH F) as [b [Hb Hf]]. exists b. split; [right; exact Hb | exact Hf].
      + exists a. split; [left; reflexivity | exact A].
  Qed.
End DescPure.

Lemma dmap_id g gh d : (forall k, g k = k) -> (forall hk h, gh hk h = h) -> dmap g gh d = d.
Proof.
  intros Hg Hh. destruct d as [m|k|k|m|k|m|m|ik ls]; cbn; rewrite ?Hg, ?(map_atoms_id g gh _ Hg Hh); try reflexivity.
  f_equal. induction ls as [|[d m] r IH]; cbn; [reflexivity|]. rewrite (map_atoms_id g gh _ Hg Hh), IH. reflexivity.
Qed.

Theorem desc_h_id chk kk d : desc_ok chk kk d -> translate_desc_h (fun _ k => Some k) (fun _ _ h => Some h) chk kk d = TOk d.
Proof.
  intro Hk.
  assert (E : dmap (total (fun k => Some k)) (total_h (fun _ h => Some h)) d = d) by (apply dmap_id; reflexivity).
  rewrite <- E at 2. apply desc_h_complete; [|rewrite E; exact Hk]. intros [k|hk h] _; reflexivity.
Qed.

Lemma datoms_dmap g gh d : datoms (dmap g gh d) = map (amap g gh) (datoms d).
Proof.
  destruct d as [m|k|k|m|k|m|m|ik ls]; cbn [dmap datoms map amap]; rewrite ?matoms_pre_map; try reflexivity.
  f_equal. induction ls as [|[d m] r IH]; cbn; [reflexivity|]. rewrite map_app, matoms_pre_map, IH. reflexivity.
Qed.

Lemma dmap_ext g gh g' gh' d :
  (forall a, In a (datoms d) -> amap g gh a = amap g' gh' a) -> dmap g gh d = dmap g' gh' d.
Proof.
  destruct d as [m|k|k|m|k|m|m|ik ls]; cbn [dmap datoms]; intro Ha.
  1, 4, 6, 7: (f_equal; apply map_atoms_ext; exact Ha).
  1-3: (specialize (Ha _ (or_introl eq_refl)); cbn in Ha; congruence).
  f_equal.
  - specialize (Ha _ (or_introl eq_refl)). cbn in Ha. congruence.
  - assert (Hl : forall a, In a (flat_map (fun l => matoms_pre (snd l)) ls) -> amap g gh a = amap g' gh' a) by (intros a Hin; apply Ha; right; exact Hin).
    clear Ha. induction ls as [|[d m] r IH]; cbn; [reflexivity|]. f_equal.
    + f_equal. apply map_atoms_ext. intros a Hin. apply Hl. cbn. apply in_or_app. auto.
    + apply IH. intros a Hin. apply Hl. cbn. apply in_or_app. auto.
Qed.

Lemma dmap_comp g gh g' gh' d :
  dmap g' gh' (dmap g gh d) = dmap (fun k => g' (g k)) (fun hk h => gh' hk (gh hk h)) d.
Proof.
  destruct d as [m|k|k|m|k|m|m|ik ls]; cbn [dmap]; rewrite ?map_atoms_comp; try reflexivity.
  f_equal. rewrite map_map. induction ls as [|[d m] r IH]; cbn [map fst snd]; [reflexivity|].
  f_equal; [rewrite map_atoms_comp; reflexivity | exact IH].
Qed.

(* success by (fp, fhp) and then by (gp, ghp) is success by the composition, with the same result *)
Theorem desc_h_comp chk kk fp fhp gp ghp d d1 d2 :
  translate_desc_h (fun _ => fp) (fun _ => fhp) chk kk d = TOk d1 ->
  translate_desc_h (fun _ => gp) (fun _ => ghp) chk kk d1 = TOk d2 ->
  translate_desc_h (fun _ => comp_k fp gp) (fun _ => comp_h fhp ghp) chk kk d = TOk d2.
Proof.
  intros E1 E2. destruct (desc_h_structure _ _ _ _ _ _ E1) as [-> [O1 _]]. destruct (desc_h_structure _ _ _ _ _ _ E2) as [-> [O2 K2]].
  rewrite datoms_dmap in O2.
  assert (A : forall a, In a (datoms d) ->
              amap (fun k => total gp (total fp k)) (fun hk h => total_h ghp hk (total_h fhp hk h)) a
              = amap (total (comp_k fp gp)) (total_h (comp_h fhp ghp)) a /\ atom_ok (comp_k fp gp) (comp_h fhp ghp) a = true).
  { intros a Ha. specialize (O1 a Ha). specialize (O2 _ (in_map _ _ _ Ha)).
    destruct a as [k|hk h]; cbn in *; unfold comp_k, comp_h, total, total_h in *.
    - destruct (fp k); [|discriminate]. destruct (gp k0); [split; reflexivity | discriminate].
    - destruct (fhp hk h); [|discriminate]. destruct (ghp hk b); [split; reflexivity | discriminate]. }
  assert (S : dmap (total gp) (total_h ghp) (dmap (total fp) (total_h fhp) d) = dmap (total (comp_k fp gp)) (total_h (comp_h fhp ghp)) d).
  { rewrite dmap_comp. apply dmap_ext. intros a Ha. apply (A a Ha). }
  rewrite S in *. apply desc_h_complete; [|exact K2]. intros a Ha. apply (A a Ha).
Qed.

Local Open Scope N_scope.
Lemma translate_desc_h_examples :
  let chk := fun c => from_ast_chk c (fun k => if N.eqb k 31 then KUncompressed else KXOnly) (fun _ => None) (fun _ => None) in
  let kk := fun k => if N.eqb k 31 then KUncompressed else KXOnly in
  let d := DTr 0 [(1, MAndV (MVerify (MSha256 [1])) (MCheck (MPkK 1))); (1, MCheck (MPkK 2))] in
  translate_desc_h (fun _ k => Some (k + 10)) (fun _ _ h => Some (5 :: h)) chk kk d
    = TOk (DTr 10 [(1, MAndV (MVerify (MSha256 [5; 1])) (MCheck (MPkK 11))); (1, MCheck (MPkK 12))]) /\
  translate_desc_h (fun _ k => Some k) (fun _ _ _ => None) chk kk d = TErr (TranslatorErr 1) /\
  translate_desc_h (fun _ k => if N.eqb k 0 then None else Some k) (fun _ _ h => Some h) chk kk d = TErr (TranslatorErr 3) /\
  translate_desc_h (fun _ k => Some (k + 31)) (fun _ _ h => Some h) chk kk d = TErr (OuterErr CUncompressed) /\
  desc_ok chk kk d.
Proof. vm_compute. repeat split; try reflexivity; repeat constructor. Qed.
