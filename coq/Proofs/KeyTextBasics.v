(* Basic lemmas for the key text model: split, decimal child numbers, hex fingerprints. *)
From Coq Require Import List Bool NArith Lia Arith.
From Verif Require Import MsTextModel MsTextProofs KeyTextModel.
Import ListNotations.
Local Open Scope N_scope.

(* ------------------------------------------------------------------ tb_eqb *)
Lemma tb_eqb_eq : forall a b, tb_eqb a b = true <-> a = b.
Proof.
  induction a as [|x a IH]; destruct b as [|y b]; cbn [tb_eqb]; split; intros H; try discriminate; try reflexivity.
  - apply andb_true_iff in H. destruct H as [H1 H2]. apply N.eqb_eq in H1. apply IH in H2. congruence.
  - injection H as -> ->. rewrite N.eqb_refl. cbn. apply IH. reflexivity.
Qed.
Lemma tb_eqb_refl : forall a, tb_eqb a a = true.
Proof. intros a. apply tb_eqb_eq. reflexivity. Qed.

(* ------------------------------------------------------------------ split *)
Definition free (c : N) (s : tbytes) : bool := forallb (fun x => negb (x =? c)) s.

Lemma split_on_ne : forall c s, split_on c s <> [].
Proof.
  intros c s. induction s as [|x r IH]; cbn [split_on]; [discriminate|].
  destruct (split_on c r); [contradiction|]. destruct (x =? c); discriminate.
Qed.

Lemma split_on_free : forall c a, free c a = true -> split_on c a = [a].
Proof.
  intros c a. induction a as [|x r IH]; intros H; [reflexivity|].
  cbn [free forallb] in H. apply andb_true_iff in H. destruct H as [H1 H2].
  cbn [split_on]. rewrite (IH H2). apply negb_true_iff in H1. rewrite H1. reflexivity.
Qed.

Lemma split_on_app : forall c a b, free c a = true -> split_on c (a ++ c :: b) = a :: split_on c b.
Proof.
  intros c a b. induction a as [|x r IH]; intros H.
  - cbn [app split_on]. rewrite N.eqb_refl. destruct (split_on c b) eqn:E; [exfalso; eapply split_on_ne; eauto|reflexivity].
  - cbn [free forallb] in H. apply andb_true_iff in H. destruct H as [H1 H2].
    cbn [app split_on]. rewrite (IH H2). apply negb_true_iff in H1. rewrite H1. reflexivity.
Qed.

Lemma split_tokens : forall c ts t0, free c t0 = true -> Forall (fun t => free c t = true) ts ->
  split_on c (t0 ++ flat_map (fun t => c :: t) ts) = t0 :: ts.
Proof.
  intros c ts. induction ts as [|t r IH]; intros t0 H0 HF.
  - cbn [flat_map]. rewrite app_nil_r. apply split_on_free. exact H0.
  - inversion HF as [|? ? Ht Hr]; subst. cbn [flat_map]. cbn [app].
    rewrite split_on_app by exact H0. f_equal. apply IH; assumption.
Qed.

Lemma free_app : forall c a b, free c (a ++ b) = free c a && free c b.
Proof. intros. unfold free. apply forallb_app. Qed.

(* ------------------------------------------------------------------ decimal *)
Lemma dec_aux_digits : forall f n acc, forallb is_digit acc = true -> forallb is_digit (dec_aux f n acc) = true.
Proof.
  induction f as [|f IH]; intros n acc H; [exact H|].
  cbn [dec_aux]. destruct (n / 10 =? 0).
  - cbn [forallb]. rewrite is_digit_d. exact H.
  - apply IH. cbn [forallb]. rewrite is_digit_d. exact H.
Qed.
Lemma dec_aux_keep : forall g m a, a <> [] -> dec_aux g m a <> [].
Proof.
  induction g as [|g IHg]; intros m a Ha; [exact Ha|]. cbn [dec_aux].
  destruct (m / 10 =? 0); [discriminate|]. apply IHg. discriminate.
Qed.
Lemma dec_digits : forall n, forallb is_digit (dec n) = true.
Proof. intros n. Transparent dec. unfold dec. Opaque dec. apply dec_aux_digits. reflexivity. Qed.
Lemma dec_ne : forall n, dec n <> [].
Proof.
  intros n. Transparent dec. unfold dec. Opaque dec. cbn [dec_aux].
  destruct (n / 10 =? 0); [discriminate|]. apply dec_aux_keep. discriminate.
Qed.

Lemma forallb_last : forall (P : N -> bool) l, forallb P l = true -> l <> [] -> P (last l 0) = true.
Proof.
  intros P l. induction l as [|x r IH]; intros H Hn; [contradiction|].
  cbn [forallb] in H. apply andb_true_iff in H. destruct H as [H1 H2].
  destruct r as [|y r']; [exact H1|]. apply IH; [exact H2|discriminate].
Qed.

Definition wfc (c : child) : Prop := match c with CNormal i | CHard i => i < TWO31 end.

Lemma u32_parse_dec : forall i, i <= U32_MAX -> u32_parse (dec i) = Some i.
Proof.
  intros i Hi. unfold u32_parse. pose proof (dec_digits i) as Hd. pose proof (dec_ne i) as Hn.
  pose proof (dval_dec i) as Hv.
  destruct (dec i) as [|c r] eqn:E; [contradiction|].
  cbn [forallb] in Hd. apply andb_true_iff in Hd. destruct Hd as [Hc _].
  assert (c =? CH_PLUS = false) as ->.
  { apply N.eqb_neq. unfold is_digit in Hc. apply andb_true_iff in Hc. destruct Hc as [Hc _].
    apply N.leb_le in Hc. unfold CH_PLUS. lia. }
  rewrite Hv. replace (i <=? U32_MAX) with true by (symmetry; apply N.leb_le; exact Hi). reflexivity.
Qed.

Lemma digit_not : forall c x, is_digit c = true -> (x < 48 \/ 57 < x) -> (c =? x) = false.
Proof.
  intros c x H Hx. apply N.eqb_neq. unfold is_digit in H. apply andb_true_iff in H.
  destruct H as [H1 H2]. apply N.leb_le in H1. apply N.leb_le in H2. lia.
Qed.

Lemma child_rt : forall c, wfc c -> child_from_str (print_child c) = Ok c.
Proof.
  intros [i|i] Hw; cbn [wfc] in Hw; cbn [print_child]; unfold TWO31 in Hw.
  - pose proof (dec_ne i) as Hn. pose proof (forallb_last _ _ (dec_digits i) Hn) as Hl.
    unfold child_from_str. destruct (dec i) as [|c r] eqn:E; [contradiction|].
    rewrite <- E in *. rewrite (digit_not _ CH_APOS Hl), (digit_not _ CH_h Hl) by (unfold CH_APOS, CH_h; lia).
    cbn [orb]. rewrite u32_parse_dec by (unfold U32_MAX; lia).
    replace (i <? TWO31) with true by (symmetry; apply N.ltb_lt; unfold TWO31; lia). reflexivity.
  - unfold child_from_str. destruct (dec i ++ [CH_APOS]) as [|c r] eqn:E.
    { destruct (dec i); discriminate. }
    rewrite <- E. rewrite last_last, removelast_last. rewrite N.eqb_refl. cbn [orb].
    rewrite u32_parse_dec by (unfold U32_MAX; lia).
    replace (i <? TWO31) with true by (symmetry; apply N.ltb_lt; unfold TWO31; lia). reflexivity.
Qed.

Lemma collect_rt : forall cs, Forall wfc cs -> collect_children (map print_child cs) = Ok cs.
Proof.
  induction cs as [|c r IH]; intros H; [reflexivity|].
  inversion H; subst. cbn [map collect_children]. rewrite child_rt by assumption. rewrite IH by assumption. reflexivity.
Qed.

(* characters of a printed child: digits and the apostrophe *)
Definition childch (c : N) : bool := is_digit c || (c =? CH_APOS).
Lemma print_child_chars : forall c, forallb childch (print_child c) = true.
Proof.
  intros [i|i]; cbn [print_child]; [|rewrite forallb_app; apply andb_true_iff; split].
  - apply forallb_forall. intros x Hx. unfold childch.
    rewrite (proj1 (forallb_forall _ _) (dec_digits i) x Hx). reflexivity.
  - apply forallb_forall. intros x Hx. unfold childch.
    rewrite (proj1 (forallb_forall _ _) (dec_digits i) x Hx). reflexivity.
  - reflexivity.
Qed.
Lemma print_child_head : forall c, exists d r, print_child c = d :: r /\ is_digit d = true.
Proof.
  intros c. assert (exists i t, print_child c = dec i ++ t) as [i [t E]].
  { destruct c as [i|i]; exists i; [exists []; cbn; rewrite app_nil_r|eexists]; reflexivity. }
  pose proof (dec_ne i) as Hn. pose proof (dec_digits i) as Hd. rewrite E.
  destruct (dec i) as [|d r]; [contradiction|]. exists d, (r ++ t). split; [reflexivity|].
  cbn [forallb] in Hd. apply andb_true_iff in Hd. apply Hd.
Qed.

Lemma forallb_imp : forall (P Q : N -> bool) l, (forall x, P x = true -> Q x = true) ->
  forallb P l = true -> forallb Q l = true.
Proof.
  intros P Q l H HP. apply forallb_forall. intros x Hx. apply H. eapply forallb_forall; eauto.
Qed.

Lemma childch_free : forall c x, childch c = true -> (x < 39 \/ (39 < x /\ x < 48) \/ 57 < x) -> negb (c =? x) = true.
Proof.
  intros c x H Hx. apply negb_true_iff. apply N.eqb_neq. unfold childch, is_digit, CH_APOS in H.
  apply orb_true_iff in H. destruct H as [H|H].
  - apply andb_true_iff in H. destruct H as [H1 H2]. apply N.leb_le in H1. apply N.leb_le in H2. lia.
  - apply N.eqb_eq in H. lia.
Qed.

(* ------------------------------------------------------------------ hex *)
Lemma hexval_hexdig : forall v, v < 16 -> hexval (hexdig v) = Some v.
Proof.
  intros v Hv. unfold hexdig. destruct (v <? 10) eqn:E.
  - apply N.ltb_lt in E. unfold hexval.
    replace ((48 <=? 48 + v) && (48 + v <=? 57)) with true
      by (symmetry; apply andb_true_iff; split; apply N.leb_le; lia).
    f_equal. lia.
  - apply N.ltb_ge in E. unfold hexval.
    replace ((48 <=? 87 + v) && (87 + v <=? 57)) with false
      by (symmetry; apply andb_false_iff; right; apply N.leb_gt; lia).
    replace ((97 <=? 87 + v) && (87 + v <=? 102)) with true
      by (symmetry; apply andb_true_iff; split; apply N.leb_le; lia).
    f_equal. lia.
Qed.
Lemma hex_rt : forall fp, Forall (fun b => b < 256) fp -> hex_decode (flat_map hex_byte fp) = Some fp.
Proof.
  induction fp as [|b r IH]; intros H; [reflexivity|]. inversion H; subst.
  cbn [flat_map hex_byte app hex_decode].
  assert (b / 16 < 16) by (apply N.div_lt_upper_bound; lia).
  assert (b mod 16 < 16) by (apply N.mod_lt; lia).
  rewrite !hexval_hexdig by assumption. rewrite IH by assumption.
  f_equal. f_equal. pose proof (N.div_mod b 16). lia.
Qed.
Definition hexch (c : N) : bool := is_digit c || ((97 <=? c) && (c <=? 102)).
Lemma hexdig_ch : forall v, v < 16 -> hexch (hexdig v) = true.
Proof.
  intros v Hv. unfold hexdig, hexch, is_digit. destruct (v <? 10) eqn:E.
  - apply N.ltb_lt in E. apply orb_true_iff. left. apply andb_true_iff; split; apply N.leb_le; lia.
  - apply N.ltb_ge in E. apply orb_true_iff. right. apply andb_true_iff; split; apply N.leb_le; lia.
Qed.
Lemma hex_chars : forall fp, Forall (fun b => b < 256) fp -> forallb hexch (flat_map hex_byte fp) = true.
Proof.
  induction fp as [|b r IH]; intros H; [reflexivity|]. inversion H; subst.
  cbn [flat_map hex_byte app forallb].
  rewrite !hexdig_ch, IH; try assumption; try reflexivity.
  - apply N.mod_lt; lia.
  - apply N.div_lt_upper_bound; lia.
Qed.
Lemma hex_len : forall fp, length (flat_map hex_byte fp) = (2 * length fp)%nat.
Proof. induction fp as [|b r IH]; [reflexivity|]. cbn [flat_map hex_byte app length]. rewrite IH. lia. Qed.
