(* C14: the state does not depend on the order in which signatures, preimages, unknown
   fields and descriptor updates were added (maps are canonical). *)
From Coq Require Import List Bool NArith Arith Lia Permutation.
Import ListNotations.
From Verif Require Import PsbtModel PsbtLemmas.

Fixpoint upd_nth {A : Type} (i : nat) (f : A -> A) (l : list A) : list A :=
  match l, i with
  | [], _ => []
  | x :: r, O => f x :: r
  | x :: r, S j => x :: upd_nth j f r
  end.

Lemma upd_nth_set {A} (l : list A) i f a : nth_error l i = Some a -> set_nth i (f a) l = upd_nth i f l.
Proof. revert i; induction l; intros [|i] H; simpl in *; try discriminate. congruence. f_equal; auto. Qed.

Lemma upd_nth_none {A} (l : list A) i f : nth_error l i = None -> upd_nth i f l = l.
Proof. revert i; induction l; intros [|i] H; simpl in *; try discriminate; auto. f_equal; auto. Qed.

Lemma upd_nth_id {A} (l : list A) i f : (forall a, f a = a) -> upd_nth i f l = l.
Proof. intros E. revert i; induction l; intros [|i]; simpl; auto. now rewrite E. f_equal; auto. Qed.

Lemma upd_nth_comm_neq {A} (l : list A) i j f g : i <> j ->
  upd_nth i f (upd_nth j g l) = upd_nth j g (upd_nth i f l).
Proof. revert i j; induction l; intros [|i] [|j] H; simpl; auto; try congruence. f_equal; auto. Qed.

Lemma upd_nth_comm_eq {A} (l : list A) i f g : (forall a, f (g a) = g (f a)) ->
  upd_nth i f (upd_nth i g l) = upd_nth i g (upd_nth i f l).
Proof. intros E. revert i; induction l; intros [|i]; simpl; auto. now rewrite E. f_equal; auto. Qed.

Lemma with_inputs_same st : with_inputs st (p_inputs st) = st.
Proof. destruct st; reflexivity. Qed.

(* the per-input effect of update_input_with_descriptor *)
Definition upd_fun (di : dinfo) (ntx i : nat) (a : pinput) : pinput :=
  if ntx <=? i then a
  else if match i_nwutxo a with Some nw => negb (nw_txid_ok nw) | None => false end then a
  else match expected_spk a (d_segwit di) with
       | None => a
       | Some spk => if negb (spk =? d_spk di)%N then a else apply_update a di
       end.

Inductive fld := FPsig | FTapKeySig | FTapSig | FPre (hk : hkind) | FUnknown | FUpdate.

(* which (input, field, key) an adding operation writes; None for the finalizer/extractor *)
Definition footprint (o : op) : option (nat * fld * option N) :=
  match o with
  | AddSig i k _ => Some (i, FPsig, Some k)
  | AddTapKeySig i _ => Some (i, FTapKeySig, None)
  | AddTapScriptSig i k _ => Some (i, FTapSig, Some k)
  | AddPreimage i hk h _ => Some (i, FPre hk, Some h)
  | AddUnknown i k _ => Some (i, FUnknown, Some k)
  | Update i _ => Some (i, FUpdate, None)
  (* scripts and key origins are what Update writes: never claimed to commute with it or with
     each other on the same input *)
  | AddScripts i _ | AddDeriv i _ _ | AddTapOrigin i _ _ => Some (i, FUpdate, None)
  | _ => None
  end.

(* two adding operations write different places *)
Definition compat (a b : op) : Prop :=
  match footprint a, footprint b with
  | Some (i, f, k), Some (j, g, l) =>
      i <> j \/ f <> g \/ match k, l with Some x, Some y => x <> y | _, _ => False end
  | _, _ => False
  end.

Lemma compat_sym a b : compat a b -> compat b a.
Proof.
  unfold compat. destruct (footprint a) as [[[i f] k]|], (footprint b) as [[[j g] l]|]; auto.
  intros [H|[H|H]]; auto. right; right. destruct k, l; auto.
Qed.

Section Order.
  Variable try_input : psbt -> nat -> bool -> tryres.
  Variable interp_check : psbt -> option (nat * N).
  Variable desc_info : N -> dinfo.
  Variable sig_flag : N -> option N.
  Variable sighash_ecdsa : N -> option N.
  Variable inp_mall : bool -> bool.

  Notation stepM := (step try_input interp_check desc_info sig_flag sighash_ecdsa inp_mall).
  Notation runM := (run try_input interp_check desc_info sig_flag sighash_ecdsa inp_mall).

  Definition op_idx (o : op) : nat :=
    match o with
    | AddSig i _ _ | AddTapKeySig i _ | AddTapScriptSig i _ _ | AddPreimage i _ _ _
    | AddUnknown i _ _ | Update i _ | FinalizeInp i _ | AddScripts i _ | AddDeriv i _ _ | AddTapOrigin i _ _ => i
    | _ => 0
    end.

  Definition inp_fun (ntx : nat) (o : op) (a : pinput) : pinput :=
    match o with
    | AddSig _ k s => set_psigs a (ins k s (i_psigs a))
    | AddTapKeySig _ s => set_tapkeysig a (Some s)
    | AddTapScriptSig _ k s => set_tapsigs a (ins k s (i_tapsigs a))
    | AddPreimage _ hk h p => add_preimage a hk h p
    | AddUnknown _ k v => set_unknown a (ins k v (i_unknown a))
    | Update i d => upd_fun (desc_info d) ntx i a
    | AddScripts _ d => apply_update a (strip_origins (desc_info d))
    | AddDeriv _ k v => set_bip32 a (ins k v (i_bip32 a))
    | AddTapOrigin _ k v => set_taporigins a (ins k v (i_taporigins a))
    | _ => a
    end.

  Lemma on_input_upd st i f : fst (on_input st i f) = with_inputs st (upd_nth i f (p_inputs st)).
  Proof.
    unfold on_input. destruct (nth_error (p_inputs st) i) as [a|] eqn:H; simpl.
    - now rewrite (upd_nth_set _ _ f _ H).
    - rewrite (upd_nth_none _ _ f H). now rewrite with_inputs_same.
  Qed.

  Lemma update_input_upd st i d :
    fst (update_input desc_info st i d) =
    with_inputs st (upd_nth i (upd_fun (desc_info d) (p_ntx st) i) (p_inputs st)).
  Proof.
    unfold update_input. destruct (nth_error (p_inputs st) i) as [a|] eqn:H.
    - rewrite <- (upd_nth_set _ _ _ _ H). unfold upd_fun.
      destruct (p_ntx st <=? i); simpl; [now rewrite (set_nth_same _ _ _ H), with_inputs_same|].
      destruct (match i_nwutxo a with Some nw => negb (nw_txid_ok nw) | None => false end); simpl;
        [now rewrite (set_nth_same _ _ _ H), with_inputs_same|].
      destruct (expected_spk a (d_segwit (desc_info d))); simpl;
        [|now rewrite (set_nth_same _ _ _ H), with_inputs_same].
      destruct (negb (n =? d_spk (desc_info d))%N); simpl; auto.
      now rewrite (set_nth_same _ _ _ H), with_inputs_same.
    - simpl. rewrite (upd_nth_none _ _ _ H). now rewrite with_inputs_same.
  Qed.

  Lemma step_adder st o : footprint o <> None ->
    fst (stepM st o) = with_inputs st (upd_nth (op_idx o) (inp_fun (p_ntx st) o) (p_inputs st)).
  Proof.
    destruct o; simpl; intros H; try congruence; try apply on_input_upd. apply update_input_upd.
  Qed.

  (* adding operations do not read what other adding operations write *)
  Lemma inp_fun_comm ntx a b x : compat a b -> op_idx a = op_idx b ->
    inp_fun ntx a (inp_fun ntx b x) = inp_fun ntx b (inp_fun ntx a x).
  Proof.
    unfold compat. intros C E.
    destruct a, b; simpl in *; try contradiction; subst;
      destruct C as [C|[C|C]]; try congruence; try contradiction;
      try reflexivity;
      try (unfold set_psigs, set_tapsigs, set_unknown; simpl; rewrite ins_comm by congruence; reflexivity);
      try (unfold upd_fun; simpl;
           repeat match goal with
                  | |- context [if ?c then _ else _] => destruct c; simpl; try reflexivity
                  | |- context [match expected_spk ?x ?y with _ => _ end] =>
                      destruct (expected_spk x y) eqn:?; simpl; try reflexivity
                  end;
           unfold apply_update; destruct (d_tr _); reflexivity).
    all: try (destruct hk; simpl; reflexivity).
    all: try (destruct hk; unfold upd_fun, expected_spk; simpl;
              repeat match goal with
                     | |- context [if ?c then _ else _] => destruct c; simpl; try reflexivity
                     | |- context [match ?x with Some _ => _ | None => _ end] => destruct x; simpl; try reflexivity
                     end; unfold apply_update; destruct (d_tr _); reflexivity).
    all: try (destruct hk, hk0; simpl; try congruence; try reflexivity;
              unfold set_ripemd, set_sha256, set_hash160, set_hash256; simpl;
              rewrite ins_comm by congruence; reflexivity).
    all: try (unfold upd_fun, expected_spk; simpl;
              repeat match goal with
                     | |- context [if ?c then _ else _] => destruct c; simpl; try reflexivity
                     | |- context [match ?x with Some _ => _ | None => _ end] => destruct x; simpl; try reflexivity
                     end; unfold apply_update; destruct (d_tr _); reflexivity).
  Qed.

  Lemma step_comm st a b : compat a b ->
    fst (stepM (fst (stepM st a)) b) = fst (stepM (fst (stepM st b)) a).
  Proof.
    intros C. assert (Fa : footprint a <> None /\ footprint b <> None).
    { unfold compat in C.
      destruct (footprint a) as [[[? ?] ?]|], (footprint b) as [[[? ?] ?]|]; try contradiction.
      split; discriminate. }
    destruct Fa as [Fa Fb].
    rewrite (step_adder st a Fa), (step_adder st b Fb).
    rewrite (step_adder _ b Fb), (step_adder _ a Fa). simpl. unfold with_inputs. simpl. f_equal.
    destruct (Nat.eq_dec (op_idx a) (op_idx b)) as [E|E].
    - rewrite E. apply upd_nth_comm_eq. intros x. symmetry. apply inp_fun_comm; auto.
    - apply upd_nth_comm_neq. auto.
  Qed.

  Lemma FOP_perm (l l' : list op) : Permutation l l' -> ForallOrdPairs compat l -> ForallOrdPairs compat l'.
  Proof.
    induction 1 as [|x l l' P IH|x y l|l l' l'' P1 IH1 P2 IH2]; intros F; auto.
    - inversion F; subst. constructor; auto. eapply Permutation_Forall; eauto.
    - inversion F as [|? ? Fy F1]; subst. inversion F1 as [|? ? Fx F2]; subst.
      inversion Fy; subst. constructor.
      + constructor; auto using compat_sym.
      + constructor; auto.
  Qed.

  (* ================= order_indep ================= *)
  Theorem order_indep : forall l1 l2, Permutation l1 l2 -> ForallOrdPairs compat l1 ->
    forall st, runM l1 st = runM l2 st.
  Proof.
    induction 1 as [|x l l' P IH|x y l|l l' l'' P1 IH1 P2 IH2]; intros F st; auto.
    - inversion F; subst. simpl. apply IH; auto.
    - simpl. inversion F as [|? ? Fy F1]; subst. inversion Fy; subst.
      rewrite (step_comm st y x); auto.
    - rewrite IH1; auto. apply IH2. eapply FOP_perm; eauto.
  Qed.

  (* hence the same try_input verdicts and the same finalization outcome *)
  Corollary order_indep_finalize : forall l1 l2, Permutation l1 l2 -> ForallOrdPairs compat l1 ->
    forall st o, stepM (runM l1 st) o = stepM (runM l2 st) o /\
                 forall i m, try_input (runM l1 st) i m = try_input (runM l2 st) i m.
  Proof. intros l1 l2 P F st o. rewrite (order_indep l1 l2 P F st). auto. Qed.
End Order.
