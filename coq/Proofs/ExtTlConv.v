(* C09: the converse of the satisfying-path soundness of contains_combination, on the class of
   scripts in which every operand of a conjunction (and_v, and_b, andor's X and Y, every child of a
   thresh) has a satisfying path and thresh has 1 <= k <= n ([tl_total], computable): there the
   flag is EXACT for the path specification, and every lock leaf lies on a satisfying path. *)
From Coq Require Import Lia List Bool.
From Verif Require Import TypeCheck ExtModel ExtTlSpec ExtBounds ExtTlProofs.
From Verif Require TheoremA.
Import ListNotations.
Local Open Scope N_scope.

Arguments N.of_nat : simpl never. Arguments N.leb : simpl never. Arguments N.ltb : simpl never.

Definition has_path (m : ms) : bool := match sat_paths m with [] => false | _ => true end.

Fixpoint tl_total (m : ms) : bool :=
  match m with
  | MAlt x | MSwap x | MCheck x | MDupIf x | MVerify x | MNonZero x | MZeroNotEqual x => tl_total x
  | MAndV x y | MAndB x y => tl_total x && tl_total y && has_path x && has_path y
  | MOrB x y | MOrD x y | MOrC x y | MOrI x y => tl_total x && tl_total y
  | MAndOr a b c => tl_total a && tl_total b && tl_total c && has_path a && has_path b
  | MThresh k xs =>
    (1 <=? k) && (k <=? N.of_nat (length xs))
    && (fix go (l : list ms) : bool := match l with [] => true | x :: r => tl_total x && has_path x && go r end) xs
  | _ => true
  end.

Lemma go_total xs :
  (fix go (l : list ms) : bool := match l with [] => true | x :: r => tl_total x && has_path x && go r end) xs
  = forallb (fun x => tl_total x && has_path x) xs.
Proof. induction xs as [|x r IH]; [reflexivity|]. cbn [forallb]. rewrite <- IH. reflexivity. Qed.

Lemma has_path_ex m : has_path m = true -> exists p, In p (sat_paths m).
Proof. unfold has_path. destruct (sat_paths m) as [|p r]; [discriminate|]. intros _. exists p. left. reflexivity. Qed.

Lemma path_conflict_incl p q : incl p q -> path_conflict p -> path_conflict q.
Proof. intros Hi [a [b [Ha [Hb Hc]]]]. exists a, b. auto. Qed.

(* ---- choosing k children ---- *)
Definition all_nonempty (ps : list (list (list lleaf))) : Prop := Forall (fun P => exists p, In p P) ps.

Lemma choose_nonempty ps : all_nonempty ps -> forall k, (k <= length ps)%nat -> exists q, In q (choose_paths k ps).
Proof.
  induction 1 as [|P r [p0 Hp0] _ IH]; intros k Hk.
  - destruct k; [|cbn in Hk; lia]. exists []. left. reflexivity.
  - destruct k as [|k]; [exists []; left; reflexivity|]. cbn [length] in Hk. cbn [choose_paths].
    destruct (IH k ltac:(lia)) as [q Hq]. exists (p0 ++ q). apply in_app_iff. left.
    apply in_pcross. exists p0, q. auto.
Qed.

Lemma choose_with ps : all_nonempty ps ->
  forall k i P p, (1 <= k <= length ps)%nat -> nth_error ps i = Some P -> In p P ->
    exists q, In q (choose_paths k ps) /\ incl p q.
Proof.
  induction 1 as [|P0 r [p0 Hp0] Hr IH]; intros k i P p Hk Hi Hp; [destruct i; discriminate Hi|].
  destruct k as [|k]; [lia|]. cbn [length] in Hk. cbn [choose_paths]. destruct i as [|i]; cbn in Hi.
  - inversion Hi; subst P0. destruct (choose_nonempty r Hr k ltac:(lia)) as [q Hq].
    exists (p ++ q). split; [|apply incl_appl, incl_refl]. apply in_app_iff. left. apply in_pcross. exists p, q. auto.
  - assert (Hlen : (i < length r)%nat) by (apply nth_error_Some; congruence).
    destruct (Nat.le_gt_cases (S k) (length r)) as [Hle|Hgt].
    + destruct (IH (S k) i P p ltac:(lia) Hi Hp) as [q [Hq Hin]]. exists q. split; [|exact Hin].
      apply in_app_iff. right. exact Hq.
    + destruct (IH k i P p ltac:(lia) Hi Hp) as [q [Hq Hin]]. exists (p0 ++ q). split; [|apply incl_appr, Hin].
      apply in_app_iff. left. apply in_pcross. exists p0, q. auto.
Qed.

Lemma choose_with2 ps : all_nonempty ps ->
  forall k i j P Q p q, (2 <= k <= length ps)%nat -> (i < j)%nat ->
    nth_error ps i = Some P -> nth_error ps j = Some Q -> In p P -> In q Q ->
    exists s, In s (choose_paths k ps) /\ incl p s /\ incl q s.
Proof.
  induction 1 as [|P0 r [p0 Hp0] Hr IH]; intros k i j P Q p q Hk Hij Hi Hj Hp Hq; [destruct i; discriminate Hi|].
  destruct k as [|k]; [lia|]. cbn [length] in Hk. cbn [choose_paths].
  destruct j as [|j]; [lia|]. cbn in Hj.
  assert (Hlen : (j < length r)%nat) by (apply nth_error_Some; congruence).
  destruct i as [|i]; cbn in Hi.
  - inversion Hi; subst P0. destruct (choose_with r Hr k j Q q ltac:(lia) Hj Hq) as [s [Hs Hin]].
    exists (p ++ s). split; [|split; [apply incl_appl, incl_refl|apply incl_appr, Hin]].
    apply in_app_iff. left. apply in_pcross. exists p, s. auto.
  - destruct (Nat.le_gt_cases (S k) (length r)) as [Hle|Hgt].
    + destruct (IH (S k) i j P Q p q ltac:(lia) ltac:(lia) Hi Hj Hp Hq) as [s [Hs [H1 H2]]]. exists s.
      split; [|split; assumption]. apply in_app_iff. right. exact Hs.
    + destruct (IH k i j P Q p q ltac:(lia) ltac:(lia) Hi Hj Hp Hq) as [s [Hs [H1 H2]]]. exists (p0 ++ s).
      split; [|split; apply incl_appr; assumption].
      apply in_app_iff. left. apply in_pcross. exists p0, s. auto.
Qed.

(* ---- the invariant ---- *)
Definition leaf_on_path (m : ms) : Prop :=
  forall a, In a (lock_leaves m) -> exists p, In p (sat_paths m) /\ In a p.
Definition conv_inv (m : ms) : Prop :=
  tl_total m = true -> leaf_on_path m /\ (tl_mixes m -> path_mix m).

Lemma conv_and x y :
  has_path x = true -> has_path y = true ->
  leaf_on_path x /\ (tl_mixes x -> path_mix x) -> leaf_on_path y /\ (tl_mixes y -> path_mix y) ->
  (forall a, In a (lock_leaves x ++ lock_leaves y) ->
     exists p, In p (pcross (sat_paths x) (sat_paths y)) /\ In a p)
  /\ (tl_mixes x \/ tl_mixes y \/ cross_conflict (lock_leaves x) (lock_leaves y) ->
      exists p, In p (pcross (sat_paths x) (sat_paths y)) /\ path_conflict p).
Proof.
  intros Hx Hy [Lx Mx] [Ly My]. destruct (has_path_ex x Hx) as [px Hpx]. destruct (has_path_ex y Hy) as [py Hpy]. split.
  - intros a Ha. apply in_app_iff in Ha. destruct Ha as [Ha|Ha].
    + destruct (Lx a Ha) as [p [Hp Hin]]. exists (p ++ py). split; [apply in_pcross; exists p, py; auto|apply in_app_iff; auto].
    + destruct (Ly a Ha) as [p [Hp Hin]]. exists (px ++ p). split; [apply in_pcross; exists px, p; auto|apply in_app_iff; auto].
  - intros [H|[H|H]].
    + destruct (Mx H) as [p [Hp Hc]]. exists (p ++ py). split; [apply in_pcross; exists p, py; auto|].
      apply (path_conflict_incl p); [apply incl_appl, incl_refl|exact Hc].
    + destruct (My H) as [p [Hp Hc]]. exists (px ++ p). split; [apply in_pcross; exists px, p; auto|].
      apply (path_conflict_incl p); [apply incl_appr, incl_refl|exact Hc].
    + destruct H as [a [b [Ha [Hb Hc]]]]. destruct (Lx a Ha) as [p [Hp Hin]]. destruct (Ly b Hb) as [q [Hq Hiq]].
      exists (p ++ q). split; [apply in_pcross; exists p, q; auto|]. exists a, b. rewrite !in_app_iff. auto.
Qed.

Lemma conv_or x y :
  leaf_on_path x /\ (tl_mixes x -> path_mix x) -> leaf_on_path y /\ (tl_mixes y -> path_mix y) ->
  (forall a, In a (lock_leaves x ++ lock_leaves y) -> exists p, In p (sat_paths x ++ sat_paths y) /\ In a p)
  /\ (tl_mixes x \/ tl_mixes y -> exists p, In p (sat_paths x ++ sat_paths y) /\ path_conflict p).
Proof.
  intros [Lx Mx] [Ly My]. split.
  - intros a Ha. apply in_app_iff in Ha. destruct Ha as [Ha|Ha].
    + destruct (Lx a Ha) as [p [Hp Hin]]. exists p. rewrite in_app_iff. auto.
    + destruct (Ly a Ha) as [p [Hp Hin]]. exists p. rewrite in_app_iff. auto.
  - intros [H|H].
    + destruct (Mx H) as [p [Hp Hc]]. exists p. rewrite in_app_iff. auto.
    + destruct (My H) as [p [Hp Hc]]. exists p. rewrite in_app_iff. auto.
Qed.

Lemma conv_inv_all m : conv_inv m.
Proof.
  induction m using TheoremA.ms_ind'; unfold conv_inv; cbn [tl_total];
    try (intros _; split; [intros a Ha; cbn in Ha; contradiction|intros Hm; cbn in Hm; contradiction]);
    try exact IHm.
  - (* after *) intros _. split; [|intros []]. intros a [<-|[]]. exists [after_leaf t]. cbn. auto.
  - (* older *) intros _. split; [|intros []]. intros a [<-|[]]. exists [older_leaf t]. cbn. auto.
  - (* and_v *) rewrite !andb_true_iff. intros [[[T1 T2] H1] H2].
    destruct (conv_and m1 m2 H1 H2 (IHm1 T1) (IHm2 T2)) as [A B]. split; [exact A|exact B].
  - (* and_b *) rewrite !andb_true_iff. intros [[[T1 T2] H1] H2].
    destruct (conv_and m1 m2 H1 H2 (IHm1 T1) (IHm2 T2)) as [A B]. split; [exact A|exact B].
  - (* andor *) rewrite !andb_true_iff. intros [[[[T1 T2] T3] H1] H2].
    destruct (conv_and m1 m2 H1 H2 (IHm1 T1) (IHm2 T2)) as [A B]. destruct (IHm3 T3) as [L3 M3].
    unfold leaf_on_path, path_mix. cbn [lock_leaves sat_paths tl_mixes]. split.
    + intros a Ha. rewrite app_assoc in Ha. apply in_app_iff in Ha. destruct Ha as [Ha|Ha].
      * destruct (A a Ha) as [p [Hp Hin]]. exists p. rewrite in_app_iff. auto.
      * destruct (L3 a Ha) as [p [Hp Hin]]. exists p. rewrite in_app_iff. auto.
    + intros [H|[H|[H|H]]].
      * destruct (B (or_introl H)) as [p [Hp Hc]]. exists p. rewrite in_app_iff. auto.
      * destruct (B (or_intror (or_introl H))) as [p [Hp Hc]]. exists p. rewrite in_app_iff. auto.
      * destruct (M3 H) as [p [Hp Hc]]. exists p. rewrite in_app_iff. auto.
      * destruct (B (or_intror (or_intror H))) as [p [Hp Hc]]. exists p. rewrite in_app_iff. auto.
  - rewrite andb_true_iff. intros [T1 T2]. destruct (conv_or m1 m2 (IHm1 T1) (IHm2 T2)) as [A B]. split; [exact A|exact B].
  - rewrite andb_true_iff. intros [T1 T2]. destruct (conv_or m1 m2 (IHm1 T1) (IHm2 T2)) as [A B]. split; [exact A|exact B].
  - rewrite andb_true_iff. intros [T1 T2]. destruct (conv_or m1 m2 (IHm1 T1) (IHm2 T2)) as [A B]. split; [exact A|exact B].
  - rewrite andb_true_iff. intros [T1 T2]. destruct (conv_or m1 m2 (IHm1 T1) (IHm2 T2)) as [A B]. split; [exact A|exact B].
  - (* thresh *)
    rewrite go_total, !andb_true_iff, forallb_forall. intros [[Hk1 Hk2] Hall].
    apply N.leb_le in Hk1. apply N.leb_le in Hk2.
    assert (Hkn : (1 <= N.to_nat k <= length (map sat_paths xs))%nat) by (rewrite map_length; lia).
    assert (Hne : all_nonempty (map sat_paths xs)).
    { apply Forall_forall. intros P HP. apply in_map_iff in HP. destruct HP as [x [<- Hx]].
      specialize (Hall x Hx). apply andb_true_iff in Hall. apply has_path_ex, Hall. }
    assert (Hch : forall x, In x xs -> leaf_on_path x /\ (tl_mixes x -> path_mix x)).
    { intros x Hx. rewrite Forall_forall in H. apply (H x Hx). specialize (Hall x Hx). apply andb_true_iff in Hall. apply Hall. }
    unfold leaf_on_path, path_mix. cbn [lock_leaves sat_paths tl_mixes]. rewrite (go_map sat_paths), go_leaves, go_mixes. split.
    + intros a Ha. destruct (in_flat_leaves a xs Ha) as [j [y [Hj Hy]]].
      destruct (proj1 (Hch y (nth_error_In _ _ Hj)) a Hy) as [p [Hp Hin]].
      destruct (choose_with _ Hne (N.to_nat k) j (sat_paths y) p Hkn (map_nth_error sat_paths j xs Hj) Hp) as [q [Hq Hi]].
      exists q. auto.
    + intros [He|[Hk Hpair]].
      * apply Exists_exists in He. destruct He as [x [Hx Hm]]. destruct (proj2 (Hch x Hx) Hm) as [p [Hp Hc]].
        destruct (In_nth_error xs x Hx) as [i Hi].
        destruct (choose_with _ Hne (N.to_nat k) i (sat_paths x) p Hkn (map_nth_error sat_paths i xs Hi) Hp) as [q [Hq Hin]].
        exists q. split; [exact Hq|apply (path_conflict_incl p); assumption].
      * apply pair_conflict_neq in Hpair. destruct Hpair as [i [j [x [y [Hij [Hi [Hj [a [b [Ha [Hb Hc]]]]]]]]]]].
        destruct (proj1 (Hch x (nth_error_In _ _ Hi)) a Ha) as [p [Hp Hpa]].
        destruct (proj1 (Hch y (nth_error_In _ _ Hj)) b Hb) as [q [Hq Hqb]].
        destruct (choose_with2 _ Hne (N.to_nat k) i j (sat_paths x) (sat_paths y) p q ltac:(lia) Hij
                    (map_nth_error sat_paths i xs Hi) (map_nth_error sat_paths j xs Hj) Hp Hq) as [s [Hs [H1 H2]]].
        exists s. split; [exact Hs|]. exists a, b. auto.
Qed.

(* on [tl_total] scripts the flag is exact for the satisfying-path specification *)
Theorem timelock_comb_exact_paths fx c m :
  tl_total m = true ->
  (tl_comb (timelock_info (ext_of_gen fx c m)) = true <-> path_mix m).
Proof.
  intros Ht. split; [|apply timelock_comb_sound_paths].
  intros Hc. apply timelock_comb_exact in Hc. apply (proj2 (conv_inv_all m Ht) Hc).
Qed.
(* and every lock leaf (hence every flag) is needed by some satisfying path *)
Theorem timelock_flags_exact_paths fx c m l :
  tl_total m = true ->
  (tl_flag (timelock_info (ext_of_gen fx c m)) l = true <-> exists p, In p (sat_paths m) /\ In l p).
Proof.
  intros Ht. rewrite timelock_flags_exact. split.
  - apply (proj1 (conv_inv_all m Ht)).
  - intros [p [Hp Hl]]. apply (proj1 (path_inv_all m p Hp)), Hl.
Qed.

Lemma tl_total_nonvacuous :
  tl_total tl_and_mixed = true /\ tl_total (tl_thresh_mixed 2) = true /\ tl_total tl_converse_witness = false
  /\ tl_total (MOrD (MCheck (MPkK 0)) (MAndV (MVerify (MCheck (MPkK 1))) (MOlder 10))) = true.
Proof. vm_compute. repeat split; reflexivity. Qed.
