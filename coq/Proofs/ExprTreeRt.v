(* tree_rt, first half: parsing the text of a well-formed tree gives back its node vector. *)
From Coq Require Import List Bool Arith NArith Lia.
From Verif Require Import ChecksumModel ChecksumSpec ChecksumVerify ChecksumTheorems
  ExprTreeModel ExprTreeTotal ExprTreePass2 ExprTreePass1.
Import ListNotations.
Local Open Scope N_scope.

Lemma name_char_nonstruct : forall c, name_char c = true -> nonstruct c = true.
Proof.
  intros c H. unfold name_char in H. unfold nonstruct.
  repeat (apply andb_true_iff in H; destruct H as [H ?]).
  repeat (apply andb_true_iff; split); assumption.
Qed.

Lemma name_char_valid : forall c, name_char c = true -> valid_char c = true /\ c <> HASH.
Proof.
  intros c H. unfold name_char in H.
  repeat (apply andb_true_iff in H; destruct H as [H ?]).
  split.
  - unfold valid_char. apply andb_true_iff. split; assumption.
  - apply negb_true_iff in H0. apply N.eqb_neq. assumption.
Qed.

Lemma wf_swf : forall t, well_formed t = true -> swf t = true.
Proof.
  intro t. induction t as [name p cs IH] using etree_ind'. intro H.
  cbn [well_formed] in H. cbn [swf]. apply andb_true_iff in H. destruct H as [Hn Hk].
  apply andb_true_iff. split.
  - rewrite forallb_forall in *. intros c Hc. apply name_char_nonstruct. apply Hn. assumption.
  - destruct p, cs as [|c r]; try assumption; try reflexivity;
      (rewrite forallb_forall in *; rewrite Forall_forall in IH; intros x Hx; apply IH; [assumption|apply Hk; assumption]).
Qed.

Definition okchar (c : N) : Prop := valid_char c = true /\ c <> HASH.

Lemma wf_chars : forall t, well_formed t = true -> Forall okchar (print t).
Proof.
  intro t. induction t as [name p cs IH] using etree_ind'. intro H.
  cbn [well_formed] in H. apply andb_true_iff in H. destruct H as [Hn Hk].
  rewrite print_eq.
  assert (Hname : Forall okchar name).
  { apply Forall_forall. intros c Hc. rewrite forallb_forall in Hn. apply name_char_valid. apply Hn. assumption. }
  assert (Hkids : cs <> [] -> forallb well_formed cs = true -> Forall okchar (commas cs)).
  { clear Hk. intros _ Hk. induction cs as [|c r IHr]; [constructor|].
    cbn [forallb] in Hk. apply andb_true_iff in Hk. destruct Hk as [Hc Hr].
    pose proof (Forall_inv IH) as Pc. pose proof (Forall_inv_tail IH) as Pr.
    destruct r as [|c2 r'].
    - change (commas [c]) with (print c). apply Pc. assumption.
    - change (commas (c :: c2 :: r')) with (print c ++ COMMA :: commas (c2 :: r')).
      apply Forall_app. split; [apply Pc; assumption|]. constructor; [split; [reflexivity|discriminate]|].
      apply IHr; assumption. }
  destruct p, cs as [|c r]; try discriminate; cbn [open_of close_of].
  - cbn [commas app]. rewrite app_nil_r. assumption.
  - apply Forall_app. split; [assumption|]. constructor; [split; [reflexivity|discriminate]|].
    apply Forall_app. split; [apply Hkids; [discriminate|assumption]|]. constructor; [split; [reflexivity|discriminate]|constructor].
  - apply Forall_app. split; [assumption|]. constructor; [split; [reflexivity|discriminate]|].
    apply Forall_app. split; [apply Hkids; [discriminate|assumption]|]. constructor; [split; [reflexivity|discriminate]|constructor].
Qed.

Lemma wf_verify : forall t, well_formed t = true -> verify_checksum (print t) = Ok (print t).
Proof.
  intros t H. pose proof (wf_chars t H) as C. apply verify_nohash.
  - unfold allvalid. eapply Forall_impl; [|exact C]. intros c [Hc _]. exact Hc.
  - intro I. rewrite Forall_forall in C. destruct (C _ I) as [_ Hn]. apply Hn. reflexivity.
Qed.

(* pass 1 accepts the text of a structurally well-formed tree *)
Lemma pre_loop_print : forall t, swf t = true ->
  pre_loop (blen (print t)) (mkPre 1 0 []) 0 (print t) = Ok (mkPre (size t) (depth t) []).
Proof.
  intros t H. pose proof (pass1_print t H (blen (print t)) (mkPre 1 0 []) 0 []) as P.
  rewrite app_nil_r in P. rewrite P.
  - cbn [pre_loop ps_nodes ps_depth ps_stack length N.of_nat]. f_equal. f_equal.
    + pose proof (size_pos t). lia.
    + lia.
  - unfold blen at 2. cbn [length N.of_nat]. lia.
  - cbn. lia.
  - destruct t as [n p [|]]; [exact I|]. reflexivity.
Qed.

Lemma p2_loop_print : forall t, swf t = true ->
  exists st1, p2_loop (print t) (mkP2 [] [] (Some (null_node 0)) 0) 0 (print t) = Ok st1 /\
              flush (print t) st1 (blen (print t)) = Ok (tree_nodes t).
Proof.
  intros t H. destruct (pass2_print t H [] [] [] [] 0) as (st1 & E1 & _ & E2).
  cbn [app] in E1, E2. rewrite app_nil_r in E1, E2. exists st1. split; [exact E1|exact E2].
Qed.

(* from_str_inner once both passes are known *)
Lemma from_str_inner_finish : forall s0 s st1 st2 nodes,
  verify_checksum s0 = Ok s ->
  pre_loop (blen s) (mkPre 1 0 []) 0 s = Ok st1 -> ps_stack st1 = [] ->
  (MAX_RECURSION_DEPTH <? ps_depth st1) = false ->
  p2_loop s (mkP2 [] [] (Some (null_node 0)) 0) 0 s = Ok st2 ->
  flush s st2 (blen s) = Ok nodes ->
  from_str_inner s0 = Ok nodes.
Proof.
  intros s0 s st1 st2 nodes Ev E1 Es Ed E2 Ef.
  pose proof (tree_total_lemma s0) as T. unfold from_str_inner, parse_pre_check in *.
  rewrite Ev, E1, Es, Ed in *. rewrite E2, Ef in *.
  destruct (ps_depth st1 <? p2_hwm st2); [contradiction|].
  destruct (ps_nodes st1 <? nlen nodes); [contradiction|].
  destruct (negb (nlen nodes =? ps_nodes st1)); [contradiction|]. reflexivity.
Qed.

Lemma tree_print_parse_lemma : forall t, well_formed t = true -> depth t <= MAX_RECURSION_DEPTH ->
  from_str_inner (print t) = Ok (tree_nodes t).
Proof.
  intros t H Hd. pose proof (wf_swf t H) as S.
  destruct (p2_loop_print t S) as (st2 & E2 & Ef).
  apply (from_str_inner_finish (print t) (print t) (mkPre (size t) (depth t) []) st2).
  - apply wf_verify. assumption.
  - apply pre_loop_print. assumption.
  - reflexivity.
  - cbn [ps_depth]. apply N.ltb_ge. assumption.
  - exact E2.
  - exact Ef.
Qed.
