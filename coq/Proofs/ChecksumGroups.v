(* Differences between two equally long payloads, group by group: the difference stream of a
   group of (up to) three characters, its local residue, and the shape of that residue when
   exactly one character of the group differs. *)
From Coq Require Import List Bool Arith NArith Lia Btauto.
From Verif Require Import ChecksumModel ChecksumSpec ChecksumBits ChecksumStream ChecksumVerify.
Import ListNotations.
Local Open Scope N_scope.

Arguments N.shiftl : simpl never.
Arguments N.shiftr : simpl never.
Arguments N.land : simpl never.
Arguments N.lor : simpl never.
Arguments N.lxor : simpl never.
Arguments N.testbit : simpl never.
Arguments N.pow : simpl never.
Arguments N.mul : simpl never.
Arguments N.add : simpl never.
Arguments N.sub : simpl never.

Definition D (p p' : bytes) : list N := zipxor (stream p) (stream p').

Lemma D_length : forall p p', length p = length p' -> length (D p p') = length (stream p).
Proof. intros. unfold D. apply zipxor_length. apply stream_length. assumption. Qed.

Lemma D_sym32 : forall p p', allvalid p -> allvalid p' -> Forall sym32 (D p p').
Proof. intros. unfold D. apply zipxor_sym32; apply stream_sym32; assumption. Qed.

Lemma D_same : forall p, D p p = repeat 0 (length (stream p)).
Proof. intro. unfold D. apply zipxor_same. Qed.

(* the residue of an edited payload = residue of the original xor the syndrome of the difference *)
Lemma resid_diff : forall p p', length p = length p' ->
  F 1 (stream p' ++ TARGET) = N.lxor (F 1 (stream p ++ TARGET)) (Tn 8 (F 0 (D p p'))).
Proof.
  intros p p' HL. rewrite <- F_zeros_suffix.
  rewrite <- F_lxor.
  - f_equal. rewrite zipxor_app by (symmetry; apply D_length; assumption).
    change (zipxor TARGET (repeat 0 8)) with TARGET.
    unfold D.
    assert (E : length (stream p) = length (stream p')) by (apply stream_length; assumption).
    rewrite (zipxor_cancel (stream p) (stream p') E). reflexivity.
  - rewrite !app_length, D_length by assumption. reflexivity.
Qed.

Lemma stream_group : forall a b c r, stream (a :: b :: c :: r) = stream [a; b; c] ++ stream r.
Proof. reflexivity. Qed.

Lemma D_group : forall a b c r a' b' c' r',
  D (a :: b :: c :: r) (a' :: b' :: c' :: r') = D [a; b; c] [a'; b'; c'] ++ D r r'.
Proof.
  intros. unfold D. rewrite (stream_group a b c r), (stream_group a' b' c' r').
  apply zipxor_app. reflexivity.
Qed.

(* ---------------------------------------------------------------- short streams: no reduction happens *)
Definition shl5 (acc x : N) : N := N.lxor (N.shiftl acc 5) x.

Lemma F_small : forall l st a, st < 2 ^ (5 * a) -> a + N.of_nat (length l) <= 7 -> Forall sym32 l ->
  F st l = fold_left shl5 l st /\ F st l < 2 ^ (5 * (a + N.of_nat (length l))).
Proof.
  induction l as [|x l IH]; intros st a Hst Ha Hx.
  - cbn [length N.of_nat]. rewrite N.add_0_r. split; [reflexivity|exact Hst].
  - inversion Hx as [|? ? Hx0 Hl]; subst. rewrite F_cons. cbn [fold_left].
    assert (Hlen : N.of_nat (length (x :: l)) = N.of_nat (length l) + 1) by (cbn [length]; lia).
    rewrite Hlen in *.
    assert (E : step st x = shl5 st x).
    { apply step_small. eapply N.lt_le_trans; [exact Hst|]. apply N.pow_le_mono_r; [discriminate|lia]. }
    rewrite E.
    assert (B : shl5 st x < 2 ^ (5 * (a + 1))).
    { unfold shl5. apply lxor_lt.
      - replace (5 * (a + 1)) with (5 * a + 5) by lia. apply shiftl_lt. assumption.
      - eapply N.lt_le_trans; [exact Hx0|]. change 32 with (2 ^ 5). apply N.pow_le_mono_r; [discriminate|lia]. }
    destruct (IH (shl5 st x) (a + 1) B ltac:(lia) Hl) as [E1 E2].
    split; [exact E1|]. replace (a + (N.of_nat (length l) + 1)) with (a + 1 + N.of_nat (length l)) by lia. exact E2.
Qed.

Lemma F0_small : forall l, (length l <= 7)%nat -> Forall sym32 l -> F 0 l = fold_left shl5 l 0.
Proof. intros l H Hx. apply (F_small l 0 0); [reflexivity|lia|assumption]. Qed.

Lemma shl5_zero_inv : forall acc x, x < 32 -> shl5 acc x = 0 -> acc = 0 /\ x = 0.
Proof.
  intros acc x Hx H. unfold shl5 in H. apply N.lxor_eq in H.
  assert (A : acc = 0).
  { destruct (N.eq_dec acc 0) as [|Hn]; [assumption|]. exfalso. rewrite <- H in Hx.
    rewrite N.shiftl_mul_pow2 in Hx. change (2 ^ 5) with 32 in Hx. nia. }
  subst acc. rewrite N.shiftl_0_l in H. split; [reflexivity|symmetry; exact H].
Qed.

Lemma fold_shl5_zero : forall l st, Forall sym32 l -> fold_left shl5 l st = 0 -> st = 0 /\ Forall (fun x => x = 0) l.
Proof.
  induction l as [|x l IH]; intros st Hx H; [split; [exact H|constructor]|].
  inversion Hx as [|? ? Hx0 Hl]; subst. cbn [fold_left] in H. apply IH in H; [|assumption]. destruct H as [G1 G2].
  apply shl5_zero_inv in G1; [|assumption]. destruct G1. split; [assumption|]. constructor; assumption.
Qed.

(* ---------------------------------------------------------------- characters that differ *)
Lemma char_diff : forall a a', valid_char a = true -> valid_char a' = true -> a <> a' ->
  lo a <> lo a' \/ hi a <> hi a'.
Proof.
  intros a a' Ha Ha' Hn.
  destruct (N.eq_dec (lo a) (lo a')) as [El|]; [|left; assumption].
  destruct (N.eq_dec (hi a) (hi a')) as [Eh|]; [|right; assumption].
  exfalso. apply Hn. apply sym_inj; try assumption. rewrite (sym_split a), (sym_split a'), El, Eh. reflexivity.
Qed.

Lemma lxor_neq : forall a b, a <> b -> N.lxor a b <> 0.
Proof. intros a b H E. apply H. apply N.lxor_eq. exact E. Qed.

(* ---------------------------------------------------------------- one group *)
(* shape of the local residue when one character changed: one symbol field x at offset f
   and the group field y *)
Definition Rform (l : nat) (r : N) : Prop :=
  exists (f : nat) (x y : N), (1 <= f < l)%nat /\ x < 32 /\ y < 32 /\ (x <> 0 \/ y <> 0) /\
                              r = N.lxor (N.shiftl x (5 * N.of_nat f)) y.

Definition group_ok (g g' : bytes) : Prop :=
  allvalid g /\ allvalid g' /\ length g = length g' /\ (1 <= length g <= 3)%nat.

Ltac valid3 :=
  repeat match goal with
  | H : allvalid (_ :: _) |- _ => inversion H; clear H; subst
  | H : allvalid [] |- _ => clear H
  | H : Forall _ (_ :: _) |- _ => inversion H; clear H; subst
  | H : Forall _ [] |- _ => clear H
  end.

Lemma group_F0 : forall g g', group_ok g g' -> F 0 (D g g') = fold_left shl5 (D g g') 0.
Proof.
  intros g g' (V & V' & L & B). apply F0_small; [|apply D_sym32; assumption].
  rewrite D_length by assumption.
  destruct g as [|a [|b [|c [|]]]]; cbn [length] in *; try lia; cbn [stream length]; lia.
Qed.

Lemma group_nonzero : forall g g', group_ok g g' -> g <> g' -> F 0 (D g g') <> 0.
Proof.
  intros g g' OK Hne E. rewrite group_F0 in E by assumption. destruct OK as (V & V' & L & B).
  apply fold_shl5_zero in E; [|apply D_sym32; assumption]. destruct E as [_ E]. apply Hne. clear Hne.
  destruct g as [|a [|b [|c [|]]]]; destruct g' as [|a' [|b' [|c' [|]]]]; cbn [length] in *; try lia; clear L B;
    unfold D in E; cbn [stream] in E; rewrite ?zipxor_cons in E; valid3;
    repeat match goal with H : Forall _ (_ :: _) |- _ => inversion H; clear H; subst end;
    repeat match goal with H : N.lxor _ _ = 0 |- _ => apply N.lxor_eq in H end;
    repeat match goal with H : valid_char ?c = true |- _ => pose proof (hi_le c H); revert H end; intros.
  - f_equal. apply sym_inj; try assumption. rewrite (sym_split a), (sym_split a'). congruence.
  - assert (hi a = hi a' /\ hi b = hi b') as [X1 X2] by lia.
    f_equal; [|f_equal]; apply sym_inj; try assumption.
    + rewrite (sym_split a), (sym_split a'). congruence.
    + rewrite (sym_split b), (sym_split b'). congruence.
  - assert (hi a = hi a' /\ hi b = hi b' /\ hi c = hi c') as (X1 & X2 & X3) by lia.
    f_equal; [|f_equal; [|f_equal]]; apply sym_inj; try assumption.
    + rewrite (sym_split a), (sym_split a'). congruence.
    + rewrite (sym_split b), (sym_split b'). congruence.
    + rewrite (sym_split c), (sym_split c'). congruence.
Qed.

Lemma group_lt : forall g g', group_ok g g' -> F 0 (D g g') < 2 ^ 40.
Proof. intros g g' (V & V' & _). apply F_lt; [reflexivity|apply D_sym32; assumption]. Qed.

Lemma hi_lxor_lt : forall u v, u <= 26 -> v <= 26 -> N.lxor u v < 32.
Proof. intros. apply (lxor_lt u v 5); change (2 ^ 5) with 32; lia. Qed.

Ltac simp_pack :=
  cbn [fold_left]; unfold shl5;
  rewrite ?N.lxor_nilpotent, ?N.shiftl_0_l, ?N.lxor_0_l, ?N.lxor_0_r, ?N.shiftl_shiftl.

(* one changed character in a group *)
Lemma group_one : forall g g', group_ok g g' -> hamming g g' = 1%nat ->
  Rform (S (length g)) (F 0 (D g g')).
Proof.
  intros g g' OK H. rewrite group_F0 by assumption. destruct OK as (V & V' & L & B).
  destruct g as [|a [|b [|c [|]]]]; destruct g' as [|a' [|b' [|c' [|]]]]; cbn [length] in *; try lia; clear L B;
    valid3; unfold D; cbn [stream]; rewrite ?zipxor_cons; cbn [zipxor combine map];
    cbn [hamming] in H;
    repeat match goal with H : valid_char ?c = true |- _ => pose proof (hi_le c H); revert H end; intros.
  - (* [a] *)
    destruct (N.eqb_spec a a') as [|Na]; [lia|].
    exists 1%nat, (N.lxor (lo a) (lo a')), (N.lxor (hi a) (hi a')).
    split; [lia|]. split; [apply (lxor_lt _ _ 5); apply lo_lt|]. split; [apply hi_lxor_lt; lia|].
    split; [destruct (char_diff a a') as [X|X]; try assumption; [left|right]; apply lxor_neq; assumption|].
    simp_pack. reflexivity.
  - (* [a; b] *)
    destruct (N.eqb_spec a a') as [Ea|Na]; destruct (N.eqb_spec b b') as [Eb|Nb]; try lia; subst.
    + exists 1%nat, (N.lxor (lo b) (lo b')), (N.lxor (hi a' * 3 + hi b) (hi a' * 3 + hi b')).
      split; [lia|]. split; [apply (lxor_lt _ _ 5); apply lo_lt|]. split; [apply hi_lxor_lt; lia|].
      split; [destruct (char_diff b b') as [X|X]; try assumption; [left|right]; apply lxor_neq; [assumption|lia]|].
      simp_pack. reflexivity.
    + exists 2%nat, (N.lxor (lo a) (lo a')), (N.lxor (hi a * 3 + hi b') (hi a' * 3 + hi b')).
      split; [lia|]. split; [apply (lxor_lt _ _ 5); apply lo_lt|]. split; [apply hi_lxor_lt; lia|].
      split; [destruct (char_diff a a') as [X|X]; try assumption; [left|right]; apply lxor_neq; [assumption|lia]|].
      simp_pack. reflexivity.
  - (* [a; b; c] *)
    destruct (N.eqb_spec a a') as [Ea|Na]; destruct (N.eqb_spec b b') as [Eb|Nb];
      destruct (N.eqb_spec c c') as [Ec|Nc]; try lia; subst.
    + exists 1%nat, (N.lxor (lo c) (lo c')), (N.lxor ((hi a' * 3 + hi b') * 3 + hi c) ((hi a' * 3 + hi b') * 3 + hi c')).
      split; [lia|]. split; [apply (lxor_lt _ _ 5); apply lo_lt|]. split; [apply hi_lxor_lt; lia|].
      split; [destruct (char_diff c c') as [X|X]; try assumption; [left|right]; apply lxor_neq; [assumption|lia]|].
      simp_pack. reflexivity.
    + exists 2%nat, (N.lxor (lo b) (lo b')), (N.lxor ((hi a' * 3 + hi b) * 3 + hi c') ((hi a' * 3 + hi b') * 3 + hi c')).
      split; [lia|]. split; [apply (lxor_lt _ _ 5); apply lo_lt|]. split; [apply hi_lxor_lt; lia|].
      split; [destruct (char_diff b b') as [X|X]; try assumption; [left|right]; apply lxor_neq; [assumption|lia]|].
      simp_pack. reflexivity.
    + exists 3%nat, (N.lxor (lo a) (lo a')), (N.lxor ((hi a * 3 + hi b') * 3 + hi c') ((hi a' * 3 + hi b') * 3 + hi c')).
      split; [lia|]. split; [apply (lxor_lt _ _ 5); apply lo_lt|]. split; [apply hi_lxor_lt; lia|].
      split; [destruct (char_diff a a') as [X|X]; try assumption; [left|right]; apply lxor_neq; [assumption|lia]|].
      simp_pack. reflexivity.
Qed.
