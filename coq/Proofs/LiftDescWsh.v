(* C07 at DESCRIPTOR level, P2WSH: the lifted policy against the OUTPUT-TYPE validation
   [Spend.verify_wsh] (script hash, standardness limits, byte-level parse, Script semantics), not
   only against the script part.

     wsh_hides_no_path                  (<=)  any witness [items ++ [sb']] over the world's material that
                                              verify_wsh accepts for the program sha256(encode m) makes
                                              the policy true.  sb' is ANY last item (the validator only
                                              sees its hash): collision-freeness of sha256 on the pair
                                              (sb', encode m) is an explicit hypothesis.  C04's
                                              parse_encode recovers the script from the bytes.
     lift_ctx_within                          lift_ctx c unc m = LOk p  =>  within_resource_limits c unc m = true
     lx_ext_eq                                the ExtData of LiftLimits' context record [lx_ctx c unc]
                                              is the ExtData of C01/C09's [xctx_of c ke] (the two
                                              records differ as functions, not on the keys of a
                                              well-formed script)
     wsh_invents_no_path_within_limits  (=>)  policy true for the caller's assets and the lift with the
                                              COMPUTED verdict succeeded => the satisfier model returns
                                              a witness that verify_wsh accepts, ALL its limits included:
                                              3600 bytes (pk_cost = encoded length), 100 items
                                              (max_sat_witness_elements, incl. its +1), 201 non-push
                                              ops (static_ops <= sat_op_count), 80-byte items (from the
                                              element sizes of the assets).
     wsh_spending_condition                   the equivalence for a world W. *)
From Verif Require Import Exec Ser Spend Ast Types TypeCheck SatSpec Sat LiftModel LiftLimits TheoremA SatProofs FrameDissat
  CompleteProofs CompleteThresh CompleteNonMall CompleteScript DenotSpec DenotMain DenotTable
  LiftProofs LiftNormProofs LiftMainProofs LiftFullProofs.
From Verif Require Import CodecSpec SerProofs EncProofs DescSpendModel DescSpendPush DescSpendProofs.
From Verif Require CodecExt DescSpendLimits ExtModel ExtProofs ExtBounds ExtSize ExtTyped ExtCodec ExtLemmas.
From Coq Require Import Lia Permutation.
Local Open Scope N_scope.

Arguments N.add : simpl never. Arguments N.mul : simpl never. Arguments N.sub : simpl never.
Arguments N.leb : simpl never. Arguments N.ltb : simpl never. Arguments N.eqb : simpl never.
Arguments N.of_nat : simpl never.

(* ------------------------------------------------------------------ the lift and its verdict *)
Lemma lift_ctx_within (c : ctx) (unc : key -> bool) (m : ms) (p : lpolicy) :
  lift_ctx c unc m = LOk p -> within_resource_limits c unc m = true.
Proof.
  intros H. destruct (within_resource_limits c unc m) eqn:E; [reflexivity|].
  rewrite (lift_ctx_refuses c unc m E) in H. discriminate.
Qed.

(* ------------------------------------------------------------------ the two context records *)
Definition unc_agrees (ke : keyenv) (unc : key -> bool) : Prop :=
  forall k, unc k = CodecExt.is_uncompressed ke k.

Lemma lx_unc_key c unc ke k : unc_agrees ke unc -> key_ok c ke k ->
  negb (is_tap c) && unc k = CodecExt.is_uncompressed ke k.
Proof.
  intros Hu. rewrite (Hu k). unfold CodecExt.is_uncompressed.
  destruct c; intros [Hk _]; cbn [is_tap negb andb]; try reflexivity.
  rewrite Hk. reflexivity.
Qed.
Lemma lx_unc_keys c unc ke ks : unc_agrees ke unc -> CodecSpec.keys_ok c ke ks ->
  map (fun k => negb (is_tap c) && unc k) ks = map (CodecExt.is_uncompressed ke) ks.
Proof.
  intros Hu. induction ks as [|k r IH]; intros H; [reflexivity|]. destruct H as [Hk Hr].
  cbn [map]. rewrite (lx_unc_key c unc ke k Hu Hk), (IH Hr). reflexivity.
Qed.

Lemma lx_ext_eq fx c unc ke m : unc_agrees ke unc -> ms_wf c ke m ->
  ExtModel.ext_of_gen fx (lx_ctx c unc) m = ExtModel.ext_of_gen fx (ExtCodec.xctx_of c ke) m.
Proof.
  intros Hu. induction m using ExtLemmas.ms_ind_ext; cbn [ExtModel.ext_of_gen ms_wf]; intros Hw; try reflexivity.
  all: try (rewrite (IHm Hw); reflexivity).
  all: try (destruct Hw as [H1 H2]; rewrite (IHm1 H1), (IHm2 H2); reflexivity).
  all: try (destruct Hw as (H1 & H2 & H3); rewrite (IHm1 H1), (IHm2 H2), (IHm3 H3); reflexivity).
  - unfold lx_ctx, ExtCodec.xctx_of; cbn [ExtModel.xc_schnorr ExtModel.xc_unc].
    rewrite (lx_unc_key c unc ke k Hu Hw). reflexivity.
  - unfold lx_ctx, ExtCodec.xctx_of; cbn [ExtModel.xc_schnorr ExtModel.xc_unc].
    rewrite (lx_unc_key c unc ke k Hu Hw). reflexivity.
  - f_equal. destruct Hw as (_ & _ & Hw). induction H as [|x r Hx _ IH]; [reflexivity|].
    destruct Hw as [W1 W2]. rewrite (Hx W1), (IH W2). reflexivity.
  - unfold lx_ctx, ExtCodec.xctx_of; cbn [ExtModel.xc_schnorr ExtModel.xc_unc].
    destruct Hw as (_ & _ & Hk). rewrite (lx_unc_keys c unc ke ks Hu Hk). reflexivity.
  - unfold lx_ctx, ExtCodec.xctx_of; cbn [ExtModel.xc_schnorr ExtModel.xc_unc].
    destruct Hw as (_ & _ & Hk). rewrite (lx_unc_keys c unc ke ks Hu Hk). reflexivity.
Qed.

(* what the constructors and the context rules guarantee: k <= n, multi_a only in Tap *)
Lemma ms_wf_struct_ok c ke m : ms_wf c ke m -> ExtCodec.ctx_frag_ok c m = true ->
  ExtModel.ext_struct_ok (ExtCodec.xctx_of c ke) m = true.
Proof.
  induction m using ExtLemmas.ms_ind_ext; cbn [ms_wf ExtCodec.ctx_frag_ok ExtModel.ext_struct_ok]; intros Hw Hc; try reflexivity; auto.
  all: try (destruct Hw as [H1 H2]; apply andb_prop in Hc; destruct Hc as [C1 C2]; rewrite (IHm1 H1 C1), (IHm2 H2 C2); reflexivity).
  - destruct Hw as (H1 & H2 & H3). apply andb_prop in Hc. destruct Hc as [C12 C3]. apply andb_prop in C12. destruct C12 as [C1 C2].
    rewrite (IHm1 H1 C1), (IHm2 H2 C2), (IHm3 H3 C3). reflexivity.
  - destruct Hw as ([_ Hkn] & _ & Hw). unfold CodecExt.nlen in Hkn. apply andb_true_intro. split; [apply N.leb_le; exact Hkn|]. clear Hkn.
    induction H as [|x r Hx _ IH]; [reflexivity|].
    destruct Hw as [W1 W2]. apply andb_prop in Hc. destruct Hc as [C1 C2]. rewrite (Hx W1 C1), (IH W2 C2). reflexivity.
Qed.

(* in the contexts with an opcode limit multi_a does not occur *)
Lemma frag_ok_no_multi_a c m : is_tap c = false -> ExtCodec.ctx_frag_ok c m = true -> ExtSize.no_multi_a m = true.
Proof.
  intros Ht. induction m using ExtLemmas.ms_ind_ext; cbn [ExtCodec.ctx_frag_ok ExtSize.no_multi_a]; intros Hc; try reflexivity; auto.
  all: try (apply andb_prop in Hc; destruct Hc as [C1 C2]; rewrite (IHm1 C1), (IHm2 C2); reflexivity).
  - apply andb_prop in Hc. destruct Hc as [C12 C3]. apply andb_prop in C12. destruct C12 as [C1 C2].
    rewrite (IHm1 C1), (IHm2 C2), (IHm3 C3). reflexivity.
  - induction H as [|x r Hx _ IH]; [reflexivity|].
    apply andb_prop in Hc. destruct Hc as [C1 C2]. rewrite (Hx C1), (IH C2). reflexivity.
  - rewrite Ht in Hc. discriminate.
  - rewrite Ht in Hc. discriminate.
Qed.

(* ------------------------------------------------------------------ element sizes *)
(* what the caller's material weighs: every key of the table and every signature held is at most
   [n] bytes (preimages are 32 bytes by assets_ok) *)
Definition small_material (ke : keyenv) (A : assets) (n : N) : Prop :=
  (forall k, blen (kb ke k) <= n) /\ (forall k s, a_sig A k = Some s -> blen s <= n).

Lemma fill_all_small e ke A se f n : linked ke A se f -> assets_ok e ke A -> small_material ke A n -> 32 <= n ->
  forall l bs, fill_all f l = Some bs -> forallb (fun it => N.leb (blen it) n) bs = true.
Proof.
  intros HL HA [Hk Hs] Hn. induction l as [|p r IH]; intros bs H; cbn [fill_all] in H.
  - inversion H. reflexivity.
  - destruct (fill_ph f p) as [b|] eqn:Ep; [|discriminate]. destruct (fill_all f r) as [bs'|] eqn:E; [|discriminate].
    inversion H; subst. cbn [forallb]. rewrite (IH bs' eq_refl), andb_true_r. apply N.leb_le.
    destruct p as [k|k|kd h| | |]; cbn [fill_ph] in Ep.
    + inversion Ep; subst. rewrite (lk_kb _ _ _ _ HL). apply Hk.
    + rewrite (lk_sig _ _ _ _ HL) in Ep. exact (Hs k b Ep).
    + rewrite (lk_pre _ _ _ _ HL) in Ep.
      assert (blen b = 32) as ->; [|exact Hn].
      destruct kd; cbn [look] in Ep;
        [exact (proj2 (ok_sha256 _ _ _ HA h b Ep)) | exact (proj2 (ok_hash256 _ _ _ HA h b Ep))
        | exact (proj2 (ok_ripemd160 _ _ _ HA h b Ep)) | exact (proj2 (ok_hash160 _ _ _ HA h b Ep))].
    + inversion Ep; subst. change (blen (repeat 0 32)) with 32. exact Hn.
    + inversion Ep; subst. change (blen [1]) with 1. lia.
    + inversion Ep; subst. change (blen []) with 0. lia.
Qed.

Lemma forallb_rev {X} (g : X -> bool) l : forallb g (rev l) = forallb g l.
Proof.
  induction l as [|x r IH]; [reflexivity|]. cbn [rev forallb]. rewrite forallb_app, IH. cbn [forallb].
  rewrite andb_true_r. apply andb_comm.
Qed.

(* ------------------------------------------------------------------ (<=) *)
Section Wsh.
  Variable e : env.
  Variable ke : keyenv.
  Hypothesis Hks : ksort_ok ke.
  Hypothesis Hse : forall kbs, e_sigok e kbs [] = false.
  Notation e0 := (with_sv e SvWitnessV0).

  Lemma verify_wsh_inv prog items sb : verify_wsh e prog (items ++ [sb]) = true ->
    e_sha256 e sb = prog /\ blen sb <= 3600 /\ N.of_nat (length items) <= 100 /\
    forallb (fun it => N.leb (blen it) 80) (rev items) = true /\
    exists s, parse_script sb = Some s /\ count_nonpush_ops s <= 201 /\ accepts e0 s (rev items) = true.
  Proof.
    unfold verify_wsh. rewrite rev_app_distr. cbn [rev app]. intros H.
    destruct (parse_script sb) as [s|] eqn:Ep; [|rewrite andb_false_r in H; discriminate].
    apply andb_prop in H. destruct H as [H Hm]. apply andb_prop in H. destruct H as [H H4].
    apply andb_prop in H. destruct H as [H H3]. apply andb_prop in H. destruct H as [H1 H2].
    apply andb_prop in Hm. destruct Hm as [Hm H7]. apply andb_prop in Hm. destruct Hm as [_ H6].
    rewrite rev_length in H3.
    split; [apply bytes_eqb_eq; exact H1|]. split; [apply N.leb_le; exact H2|].
    split; [apply N.leb_le; exact H3|]. split; [exact H4|].
    exists s. split; [reflexivity|]. split; [apply N.leb_le; exact H6|].
    unfold accepts. unfold final_ok in H7.
    destruct (exec e0 s {| stk := rev items; alt := [] |}); [exact H7 | discriminate].
  Qed.

  Theorem wsh_hides_no_path (W : wit) (rl : bool) (m : ms) (t : ty) (p : lpolicy) :
    kh_binds e0 ke W ->
    type_of m = ROk t -> c_base (t_corr t) = BB -> wf e0 ke m -> ms_wf Segwitv0 ke m -> lift rl m = Some p ->
    forall (items : list bytes) (sb' : bytes),
      (e_sha256 e sb' = e_sha256 e (encode ke m) -> sb' = encode ke m) ->
      incl items W ->
      verify_wsh e (e_sha256 e (encode ke m)) (items ++ [sb']) = true ->
      leval (assets_of e0 ke W) p = true.
  Proof.
    intros Hb Ht Hbb Hwf Hmw Hl items sb' Hcol Hin Hv.
    destruct (verify_wsh_inv _ _ _ Hv) as (Hh & _ & _ & _ & s & Hp & _ & Hacc).
    rewrite (Hcol Hh), (parse_encode Segwitv0 ke Hks m Hmw) in Hp. inversion Hp; subst s.
    apply (lift_hides_no_path e0 ke Hks Hse W rl m t p Hb Ht Hbb Hwf Hl (rev items)); [|exact Hacc].
    intros x Hx. apply Hin, in_rev, Hx.
  Qed.

  (* ---------------------------------------------------------------- (=>) with every limit *)
  Lemma wrl_segwit_inv unc m : within_resource_limits Segwitv0 unc m = true ->
    let x := ExtModel.ext_of (lx_ctx Segwitv0 unc) m in
    ExtModel.pk_cost x <= 3600 /\
    exists d, ExtModel.sat_data x = Some d /\ ExtModel.static_ops x + ExtModel.sd_eops d <= 201
              /\ ExtModel.sd_wcount d + 1 <= 100.
  Proof.
    unfold within_resource_limits. cbv zeta. intros H.
    repeat (apply andb_prop in H; let H' := fresh "G" in destruct H as [H H']).
    split; [apply N.leb_le; assumption|].
    unfold ExtModel.sat_op_count, ExtModel.max_sat_witness_elements, ole_n in *.
    destruct (ExtModel.sat_data (ExtModel.ext_of (lx_ctx Segwitv0 unc) m)) as [d|]; cbn [option_map] in *; [|discriminate].
    exists d. split; [reflexivity|]. split; apply N.leb_le; assumption.
  Qed.

  Theorem wsh_invents_no_path_within_limits (A : assets) (se : senv) (f : fill) :
    linked ke A se f -> locks_compatible se ->
    forall (unc : key -> bool) (rhs : bool) (m : ms) (t : ty) (p : lpolicy),
      type_of m = ROk t -> c_base (t_corr t) = BB ->
      assets_ok e0 ke A -> wf e0 ke m -> ms_wf Segwitv0 ke m ->
      ExtCodec.ctx_frag_ok Segwitv0 m = true ->
      unc_agrees ke unc -> ExtProofs.senv_ok (ExtCodec.xctx_of Segwitv0 ke) se ->
      thresh_fit ke se rhs m -> small_material ke A 80 ->
      lift_ctx Segwitv0 unc m = LOk p ->
      leval A p = true ->
      exists bs, satisfy ke se f true rhs m = Some bs /\
                 verify_wsh e (e_sha256 e (encode ke m)) (bs ++ [encode ke m]) = true.
  Proof.
    intros HL HC unc rhs m t p Ht Hbb HA Hwf Hmw Hfr Hu Hsenv Hfit Hsm Hl Hev.
    pose proof (lift_ctx_within _ _ _ _ Hl) as Hrl.
    unfold lift_ctx in Hl. apply lift_iter_some in Hl.
    pose proof (lift_no_raw _ _ _ Hl) as Hnm.
    destruct (proj1 (lift_policy_iff_satisfier ke A se f Hks HL HC rhs _ m t p Ht (wf_thresh_ok e0 ke m Hwf) Hfit Hl) Hev)
      as [bs Hsat].
    exists bs. split; [exact Hsat|].
    destruct (wrl_segwit_inv unc m Hrl) as (Hpk & d & Hd & Hops & Hcnt).
    unfold ExtModel.ext_of in Hpk, Hd, Hops. rewrite (lx_ext_eq ExtModel.as_written Segwitv0 unc ke m Hu Hmw) in Hpk, Hd, Hops.
    fold (ExtModel.ext_of (ExtCodec.xctx_of Segwitv0 ke) m) in Hpk, Hd, Hops.
    apply (DescSpendLimits.wsh_spends_computable e ke A se f HL Hks Hse true rhs m t Ht Hbb Hnm bs Hsat HA Hwf Hmw
             (ExtCodec.xctx_of Segwitv0 ke) Hsenv).
    - apply (ExtTyped.typed_ext_safe _ m t Ht). apply ms_wf_struct_ok; assumption.
    - apply (frag_ok_no_multi_a Segwitv0); [reflexivity | exact Hfr].
    - rewrite <- (script_size_ok Segwitv0 ke Hks m Hmw), <- (ExtCodec.ext_pk_cost_is_len Segwitv0 ke m Hks Hmw Hfr). exact Hpk.
    - lia.
    - intros d' Hd'. rewrite Hd in Hd'. inversion Hd'; subst. lia.
    - rewrite forallb_rev. unfold satisfy in Hsat.
      destruct (s_stack (snd (sat_dissat ke se true rhs m))) as [l| |]; try discriminate.
      apply (fill_all_small e0 ke A se f 80 HL HA Hsm ltac:(lia) l bs Hsat).
  Qed.
End Wsh.

(* ------------------------------------------------------------------ witnesses over a world *)
(* the asset record's material lies in the world *)
Definition material_in (W : wit) (A : assets) : Prop :=
  (forall k s, a_sig A k = Some s -> In s W) /\
  (forall h x, a_sha256 A h = Some x -> In x W) /\ (forall h x, a_hash256 A h = Some x -> In x W) /\
  (forall h x, a_ripemd160 A h = Some x -> In x W) /\ (forall h x, a_hash160 A h = Some x -> In x W).

(* what the satisfier model returns is built from the world's material *)
Lemma satisfy_over_world (e : env) (ke : keyenv) (W : wit) (A : assets) (se : senv) (f : fill) :
  linked ke A se f -> (forall ks, length (ksort ke ks) = length ks) -> material_in W A ->
  forall mall rhs m bs, wf e ke m -> pub_in ke m W ->
    satisfy ke se f mall rhs m = Some bs -> incl bs W.
Proof.
  intros HL Hlen (M1 & M2 & M3 & M4 & M5) mall rhs m bs Hwf [P0 [P1 [Pz Pk]]] Hsat. unfold satisfy in Hsat.
  destruct (s_stack (snd (sat_dissat ke se mall rhs m))) as [l| |] eqn:Es; try discriminate.
  destruct (sat_in_table ke A se f HL Hlen mall rhs m (wf_kwf e ke m Hwf)) as [_ Hs].
  pose proof (Hs l bs Es Hsat) as Hin.
  pose proof (proj1 (table_material ke W A M1 M2 M3 M4 M5 P0 P1 Pz m Pk)) as Hall.
  intros x Hx. apply (Hall _ Hin). apply in_rev in Hx. exact Hx.
Qed.
