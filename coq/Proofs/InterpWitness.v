(* C13: closed examples evaluated by vm_compute.  The two environments on which the interpreter
   used to accept a spend that the Script semantics rejects (findings after-final-sequence and
   older-tx-version-1, repaired in /repo by 1fe09c47 and 9d1ff3e4): the model of the repaired
   code rejects them, in agreement with the Script semantics; one step away (non-final sequence,
   version 2) both accept.  Also the toy environment used for the non-vacuity example. *)
From Verif Require Import Exec Ser Ast Types TypeCheck InterpModel.
Local Open Scope N_scope.

(* a toy environment: every non-empty signature verifies for every key *)
Definition toy_env (locktime sequence version : N) : env :=
  mkEnv SvWitnessV0 locktime sequence version
        (fun _ s => match s with [] => false | _ => true end) (fun _ => true)
        (fun b => 1 :: b) (fun b => 2 :: b) (fun b => 3 :: b) (fun b => 4 :: b).
Definition toy_ke : keyenv := mkKeyEnv (fun k => [2; k]) (fun k => [9; k]) (fun l => l).
Definition toy_kp : bytes -> bool := fun _ => true.

(* wsh(and_v(v:pk(A),after(10))) *)
Definition m_after : ms := MAndV (MVerify (MCheck (MPkK 0))) (MAfter 10).
(* wsh(and_v(v:pk(A),older(5))) *)
Definition m_older : ms := MAndV (MVerify (MCheck (MPkK 0))) (MOlder 5).
Definition toy_sig : bytes := [48; 1].        (* stands for a signature *)

(* nLockTime 100 >= 10 but the input is final: BIP65 makes CHECKLOCKTIMEVERIFY fail *)
Lemma after_final_sequence_rejected :
  interp (toy_env 100 4294967295 2) toy_ke toy_kp m_after (astack_of_items [toy_sig])
    = IReject EAbsNotMet [CsPk [2; 0] toy_sig]
  /\ accepts (toy_env 100 4294967295 2) (enc toy_ke m_after) (rev [toy_sig]) = false
  /\ interp (toy_env 100 4294967294 2) toy_ke toy_kp m_after (astack_of_items [toy_sig])
    = IAccept [CsPk [2; 0] toy_sig; CsAfter 10]
  /\ accepts (toy_env 100 4294967294 2) (enc toy_ke m_after) (rev [toy_sig]) = true.
Proof. repeat split; vm_compute; reflexivity. Qed.

(* nSequence 5 >= 5 but the transaction has version 1: BIP112 makes CHECKSEQUENCEVERIFY fail *)
Lemma older_tx_version_1_rejected :
  interp (toy_env 0 5 1) toy_ke toy_kp m_older (astack_of_items [toy_sig])
    = IReject ERelDisabled [CsPk [2; 0] toy_sig]
  /\ accepts (toy_env 0 5 1) (enc toy_ke m_older) (rev [toy_sig]) = false
  /\ interp (toy_env 0 5 2) toy_ke toy_kp m_older (astack_of_items [toy_sig])
    = IAccept [CsPk [2; 0] toy_sig; CsOlder 5]
  /\ accepts (toy_env 0 5 2) (enc toy_ke m_older) (rev [toy_sig]) = true.
Proof. repeat split; vm_compute; reflexivity. Qed.

Lemma m_after_typed : exists t, type_of m_after = ROk t /\ c_base (t_corr t) = BB.
Proof. eexists. split; vm_compute; reflexivity. Qed.
Lemma m_older_typed : exists t, type_of m_older = ROk t /\ c_base (t_corr t) = BB.
Proof. eexists. split; vm_compute; reflexivity. Qed.

(* ---- round 3: an environment in which keys and signatures have a shape (a key starts with the
   byte 02 and has at least two bytes, a signature starts with the byte 0x30), so that neither the
   empty string nor the byte 01 is one of them *)
Definition shape_key (b : bytes) : bool := match b with 2 :: _ :: _ => true | _ => false end.
Definition shape_sig (s : bytes) : bool := match s with 48 :: _ => true | _ => false end.
Definition fit_env (sv : sigversion) (locktime sequence version : N) : env :=
  mkEnv sv locktime sequence version (fun _ s => shape_sig s) shape_key
        (fun b => 1 :: b) (fun b => 2 :: b) (fun b => 3 :: b) (fun b => 4 :: b).

(* or_i(pk(0),pk(1)), or_b(pk(0),s:pk(1)), multi(1,0,1) *)
Definition m_ori : ms := MOrI (MCheck (MPkK 0)) (MCheck (MPkK 1)).
Definition m_orb : ms := MOrB (MCheck (MPkK 0)) (MSwap (MCheck (MPkK 1))).
Definition m_multi : ms := MMulti 1 [0; 1].

(* sh(or_i(pk,pk)) -- the base signature version has no MINIMALIF: the script takes the selector
   02 for "true", the interpreter only the byte 01 *)
Lemma base_selector_witness :
  accepts (fit_env SvBase 0 0 2) (enc toy_ke m_ori) (rev [toy_sig; [2]]) = true
  /\ interp (fit_env SvBase 0 0 2) toy_ke shape_key m_ori (astack_of_items [toy_sig; [2]]) = IReject EElemPush []
  /\ accepts (fit_env SvWitnessV0 0 0 2) (enc toy_ke m_ori) (rev [toy_sig; [2]]) = false
  /\ interp (fit_env SvBase 0 0 2) toy_ke shape_key m_ori (astack_of_items [toy_sig; [1]]) = IAccept [CsPk [2; 0] toy_sig].
Proof. repeat split; vm_compute; reflexivity. Qed.

(* non-canonical satisfactions the script accepts and the interpreter accepts as well:
   or_b with both sides satisfied; multi *)
Lemma noncanonical_witness :
  accepts (fit_env SvWitnessV0 0 0 2) (enc toy_ke m_orb) (rev [toy_sig; toy_sig]) = true
  /\ interp (fit_env SvWitnessV0 0 0 2) toy_ke shape_key m_orb (astack_of_items [toy_sig; toy_sig])
     = IAccept [CsPk [2; 0] toy_sig; CsPk [2; 1] toy_sig]
  /\ accepts (fit_env SvWitnessV0 0 0 2) (enc toy_ke m_multi) (rev [[]; toy_sig]) = true
  /\ interp (fit_env SvWitnessV0 0 0 2) toy_ke shape_key m_multi (astack_of_items [[]; toy_sig])
     = IAccept [CsPk [2; 1] toy_sig].
Proof. repeat split; vm_compute; reflexivity. Qed.

Lemma m_ori_typed : exists t, type_of m_ori = ROk t /\ c_base (t_corr t) = BB.
Proof. eexists. split; vm_compute; reflexivity. Qed.
Lemma m_orb_typed : exists t, type_of m_orb = ROk t /\ c_base (t_corr t) = BB.
Proof. eexists. split; vm_compute; reflexivity. Qed.
