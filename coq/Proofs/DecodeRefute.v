(* C04: the former counter-example to decode_canonical (DESIGN section 10, row b).  Until /repo
   22fc180a the lexer turned `OP_NUMEQUAL OP_VERIFY` (9c 69) into the same tokens as
   `OP_NUMEQUALVERIFY` (9d); the script below was accepted and re-encoded differently.  With the
   repair mirrored in LexModel it is refused as NonMinimalVerify; the lemmas keep the witness as a
   regression example and as non-vacuity examples for the hypotheses of the C04 theorems. *)
From Coq Require Import Lia.
From Verif Require Import DecodeModel.
Local Open Scope N_scope.

(* two 32-byte strings standing for x-only keys A and B *)
Definition wkA : bytes := repeat 161 32.
Definition wkB : bytes := repeat 178 32.
Definition wit_ke : keyenv :=
  mkKeyEnv (fun k => if k =? 0 then wkA else wkB) (fun _ => repeat 0 20) (fun ks => ks).
Definition wit_env : denv :=
  mkDenv Tap wit_ke (fun b => if bytes_eqb b wkA then Some 0 else if bytes_eqb b wkB then Some 1 else None).

(* and_v(v:multi_a(1,A,B),pk(A)) *)
Definition wit_ms : ms := MAndV (MVerify (MMultiA 1 [0; 1])) (MCheck (MPkK 0)).
(* its encoding with the byte 9d replaced by 9c 69 *)
Definition wit_bytes : bytes :=
  [32] ++ wkA ++ [172] ++ [32] ++ wkB ++ [186] ++ [81; 156; 105] ++ [32] ++ wkA ++ [172].

Lemma wit_env_consistent : forall k, k < 2 -> d_key wit_env (kb (d_ke wit_env) k) = Some k.
Proof.
  intros k Hk. assert (k = 0 \/ k = 1) as [-> | ->] by lia; vm_compute; reflexivity.
Qed.

(* the split form is refused by the lexer ... *)
Lemma wit_split_rejected : decode_max wit_env wit_bytes = OErr (DeLex LeNonMinimalVerify).
Proof. vm_compute. reflexivity. Qed.

Lemma wit_reencodes_differently : encode wit_ke wit_ms <> wit_bytes.
Proof. vm_compute. discriminate. Qed.

Lemma wit_well_typed : exists t, type_of wit_ms = ROk t /\ c_base (t_corr t) = BB.
Proof. eexists. split; vm_compute; reflexivity. Qed.

(* ... while the canonical encoding decodes to the miniscript *)
Lemma wit_canonical_also : decode_max wit_env (encode wit_ke wit_ms) = OOk wit_ms.
Proof. vm_compute. reflexivity. Qed.

Lemma numequal_split_rejected_lemma :
  (forall k, k < 2 -> d_key wit_env (kb (d_ke wit_env) k) = Some k) /\
  decode_max wit_env wit_bytes = OErr (DeLex LeNonMinimalVerify) /\
  decode_max wit_env (encode wit_ke wit_ms) = OOk wit_ms /\ encode wit_ke wit_ms <> wit_bytes.
Proof.
  split; [exact wit_env_consistent|]. split; [exact wit_split_rejected|].
  split; [exact wit_canonical_also|exact wit_reencodes_differently].
Qed.

(* the witness miniscript is well formed and its key environment sorts by permutation:
   the hypotheses of script_size_ok / lex_enc are satisfiable *)
From Verif Require Import CodecSpec.
Lemma wit_wf : ms_wf Tap wit_ke wit_ms /\ ksort_ok wit_ke.
Proof.
  split.
  - cbn. unfold key_ok, nlen. cbn. repeat split; try lia; try reflexivity.
  - intros ks. apply Permutation_refl.
Qed.

(* ... and it is in decoder normal form with every decoder-side check passing: the hypotheses of
   decode_dnf are satisfiable *)
From Verif Require Import DecodeEnc.
Lemma wit_dnf : dnf KChain wit_ms = true /\ dec_ok wit_env wit_ms /\ gv Tap wit_ke wit_ms = None.
Proof.
  split; [reflexivity|]. split; [|vm_compute; reflexivity].
  cbn [dec_ok wit_ms]. unfold fa_ok, key_any, key_xonly.
  repeat split; try (vm_compute; reflexivity); try (vm_compute; congruence).
  - repeat constructor; vm_compute; reflexivity.
  - left. vm_compute. reflexivity.
Qed.

(* c:and_v(v:pk(A),pk_k(B)): well typed, not in normal form *)
From Verif Require Import DecodeNf.
Definition wit_ms2 : ms := MCheck (MAndV (MVerify (MCheck (MPkK 0))) (MPkK 1)).
Lemma wit2_ok :
  ms_wf Tap wit_ke wit_ms2 /\ (exists t, type_of wit_ms2 = ROk t /\ c_base (t_corr t) <> BW) /\
  lim_ok wit_env (nf wit_ke wit_ms2) /\ gv Tap wit_ke (nf wit_ke wit_ms2) = None /\
  nf wit_ke wit_ms2 <> wit_ms2.
Proof.
  split; [cbn; unfold key_ok; cbn; repeat split; reflexivity|].
  split; [eexists; split; [vm_compute; reflexivity|vm_compute; discriminate]|].
  split; [|split; [vm_compute; reflexivity|vm_compute; discriminate]].
  cbn [nf spine map_last chain_of andv_from app lim_ok]. unfold node_lim, key_any.
  repeat split; try (vm_compute; reflexivity); left; vm_compute; reflexivity.
Qed.
