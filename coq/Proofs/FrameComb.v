(* Frame soundness, part 4: and_v and_b or_b or_c or_d or_i andor thresh (every successful execution). *)
From Verif Require Import Exec Ser Ast Types TypeCheck SatSpec ExecLemmas Spec TypesSpec ScriptNumProofs TheoremA FrameBase.
From Coq Require Import Lia.

Section Comb.
  Variable e : env.

  (* ---------- and_v ---------- *)
  Lemma C_andv_B sx sy ix iy u : invV e sx ix -> invB e sy iy u -> invB e (sx ++ sy) (and_input ix iy) u.
  Proof.
    intros IHx IHy st al r H. apply exec_app_inv in H. destruct H as [r1 [H1 H2]].
    destruct (IHx _ _ _ H1) as [cx [rest1 [-> [-> [Hfx [Hcx Hnx]]]]]].
    destruct (IHy _ _ _ H2) as [cy [rest [v [-> [-> [Hfy [Hcy [Hu Hny]]]]]]]].
    exists (cx ++ cy), rest, v. split; [apply app_assoc|]. split; [reflexivity|].
    split. { intros rest' al'. rewrite exec_app, <- app_assoc, Hfx. cbn [bind app]. apply Hfy. }
    split; [rewrite app_length; apply cnt_and; assumption|]. split; [exact Hu|].
    intros Hnh Hi Ht. destruct (isn_and _ _ Hi) as [Hx|[Hz Hy]].
    - apply top_ne_app. apply Hnx; auto.
    - rewrite (cnt_zero_nil ix cx Hz Hcx). cbn [app]. apply Hny; auto.
  Qed.
  Lemma C_andv_V sx sy ix iy : invV e sx ix -> invV e sy iy -> invV e (sx ++ sy) (and_input ix iy).
  Proof.
    intros IHx IHy st al r H. apply exec_app_inv in H. destruct H as [r1 [H1 H2]].
    destruct (IHx _ _ _ H1) as [cx [rest1 [-> [-> [Hfx [Hcx Hnx]]]]]].
    destruct (IHy _ _ _ H2) as [cy [rest [-> [-> [Hfy [Hcy Hny]]]]]].
    exists (cx ++ cy), rest. split; [apply app_assoc|]. split; [reflexivity|].
    split. { intros rest' al'. rewrite exec_app, <- app_assoc, Hfx. cbn [bind app]. apply Hfy. }
    split; [rewrite app_length; apply cnt_and; assumption|].
    intros Hnh Hi. destruct (isn_and _ _ Hi) as [Hx|[Hz Hy]].
    - apply top_ne_app. apply Hnx; auto.
    - rewrite (cnt_zero_nil ix cx Hz Hcx). cbn [app]. apply Hny; auto.
  Qed.
  Lemma C_andv_K sx sy ix iy : invV e sx ix -> invK e sy iy -> invK e (sx ++ sy) (and_input ix iy).
  Proof.
    intros IHx IHy st al r H. apply exec_app_inv in H. destruct H as [r1 [H1 H2]].
    destruct (IHx _ _ _ H1) as [cx [rest1 [-> [-> [Hfx [Hcx Hnx]]]]]].
    destruct (IHy _ _ _ H2) as [cy [rest [k [-> [-> [Hfy [Hcy Hny]]]]]]].
    exists (cx ++ cy), rest, k. split; [apply app_assoc|]. split; [reflexivity|].
    split. { intros rest' al'. rewrite exec_app, <- app_assoc, Hfx. cbn [bind app]. apply Hfy. }
    split; [rewrite app_length, <- Nat.add_succ_r; apply cnt_and; assumption|].
    intros Hnh Hi Hk. destruct (isn_and _ _ Hi) as [Hx|[Hz Hy]].
    - rewrite <- app_assoc. apply top_ne_app. apply Hnx; auto.
    - rewrite (cnt_zero_nil ix cx Hz Hcx). cbn [app]. apply Hny; auto.
  Qed.

  (* ---------- and_b / or_b ---------- *)
  Lemma C_andb sx sy ix iy ux uy : invB e sx ix ux -> invW e sy iy uy ->
    invB e (sx ++ sy ++ [IOp OP_BOOLAND]) (and_input ix iy) true.
  Proof.
    intros IHx [Hiy IHy] st al r H. subst iy.
    apply exec_app_inv in H. destruct H as [r1 [H1 H]]. apply exec_app_inv in H. destruct H as [r2 [H2 H3]].
    destruct (IHx _ _ _ H1) as [cx [rest1 [vx [-> [-> [Hfx [Hcx [_ Hnx]]]]]]]].
    destruct (IHy _ _ _ H2) as [c0 [w [rest [vy [sw [Hs [-> [Hfy _]]]]]]]]. inversion Hs; subst c0 rest1; clear Hs.
    rewrite exec_single in H3. cbn [exec_instr] in H3.
    assert (Hop : exists b, (b = true -> truthy vx = true) /\
       forall X al', exec_op e OP_BOOLAND (mkSt (wout sw vy vx ++ X) al') = Ok (mkSt (bool_bytes b :: X) al')).
    { destruct sw; cbn [wout app exec_op stk alt] in H3 |- *;
      destruct (num_operand 4 vy) as [n1|] eqn:E1; destruct (num_operand 4 vx) as [n2|] eqn:E2; try discriminate.
      - exists (negb (n1 =? 0)%Z && negb (n2 =? 0)%Z). split; [|intros; reflexivity].
        intros Hb. apply andb_prop in Hb. rewrite (num_truthy_iff 4 vx n2 E2). tauto.
      - exists (negb (n2 =? 0)%Z && negb (n1 =? 0)%Z). split; [|intros; reflexivity].
        intros Hb. apply andb_prop in Hb. rewrite (num_truthy_iff 4 vx n2 E2). tauto. }
    destruct Hop as [b [Hbt Hop]]. rewrite Hop in H3. inversion H3; subst; clear H3.
    exists (cx ++ w), rest, (bool_bytes b). split; [apply app_assoc|]. split; [reflexivity|].
    split. { intros rest' al'. rewrite exec_app, <- app_assoc, Hfx. cbn [bind app]. rewrite exec_app.
             pose proof (Hfy vx rest' al') as Hy; cbn [app] in Hy; rewrite Hy. cbn [bind]. rewrite exec_single. cbn [exec_instr]. apply Hop. }
    split; [rewrite app_length; apply cnt_and; [assumption | exact I]|]. split; [apply uval_bool|].
    intros Hnh Hi Ht. rewrite truthy_bool in Ht. destruct (isn_and _ _ Hi) as [Hx|[_ Hy]]; [|discriminate].
    apply top_ne_app. apply Hnx; auto.
  Qed.

  Lemma C_orb sx sy ix iy ux uy : invB e sx ix ux -> invW e sy iy uy ->
    invB e (sx ++ sy ++ [IOp OP_BOOLOR]) IAny true.
  Proof.
    intros IHx [Hiy IHy] st al r H. subst iy.
    apply exec_app_inv in H. destruct H as [r1 [H1 H]]. apply exec_app_inv in H. destruct H as [r2 [H2 H3]].
    destruct (IHx _ _ _ H1) as [cx [rest1 [vx [-> [-> [Hfx _]]]]]].
    destruct (IHy _ _ _ H2) as [c0 [w [rest [vy [sw [Hs [-> [Hfy _]]]]]]]]. inversion Hs; subst c0 rest1; clear Hs.
    rewrite exec_single in H3. cbn [exec_instr] in H3.
    assert (Hop : exists b,
       forall X al', exec_op e OP_BOOLOR (mkSt (wout sw vy vx ++ X) al') = Ok (mkSt (bool_bytes b :: X) al')).
    { destruct sw; cbn [wout app exec_op stk alt] in H3 |- *;
      destruct (num_operand 4 vy) as [n1|] eqn:E1; destruct (num_operand 4 vx) as [n2|] eqn:E2; try discriminate;
      eexists; intros; reflexivity. }
    destruct Hop as [b Hop]. rewrite Hop in H3. inversion H3; subst; clear H3.
    exists (cx ++ w), rest, (bool_bytes b). split; [apply app_assoc|]. split; [reflexivity|].
    split. { intros rest' al'. rewrite exec_app, <- app_assoc, Hfx. cbn [bind app]. rewrite exec_app.
             pose proof (Hfy vx rest' al') as Hy; cbn [app] in Hy; rewrite Hy. cbn [bind]. rewrite exec_single. cbn [exec_instr]. apply Hop. }
    split; [exact I|]. split; [apply uval_bool | intros _; discriminate].
  Qed.

  (* ---------- or_d / or_c ---------- *)
  Lemma isn_or_dc ix iz : isn (or_dc_input ix iz) = false.
  Proof. destruct ix, iz; reflexivity. Qed.

  Lemma C_ord sx sz ix iz uz : invB e sx ix true -> invB e sz iz uz ->
    invB e (sx ++ [IOp OP_IFDUP; IIf true sz None]) (or_dc_input ix iz) uz.
  Proof.
    intros IHx IHz st al r H. apply exec_app_inv in H. destruct H as [r1 [H1 H2]].
    destruct (IHx _ _ _ H1) as [cx [rest1 [vx [-> [-> [Hfx [Hcx [Hux _]]]]]]]].
    rewrite exec_op_cons in H2. cbn [exec_op stk alt] in H2.
    destruct (truthy vx) eqn:Ht; cbn [bind] in H2; rewrite exec_single in H2; apply exec_if_inv in H2;
      destruct H2 as [v' [rs [cnd [Hst [Hc H2]]]]]; cbn [stk alt] in *; inversion Hst; subst v' rs; clear Hst.
    - (* X satisfied: its value stays *)
      destruct cnd; [|apply if_cond_false_falsy in Hc; congruence]. cbn [xorb] in H2. inversion H2; subst; clear H2.
      exists cx, rest1, vx. split; [reflexivity|]. split; [reflexivity|].
      split. { intros rest' al'. rewrite exec_app, Hfx. cbn [bind app]. rewrite exec_op_cons. cbn [exec_op stk alt].
               rewrite Ht. cbn [bind]. rewrite exec_single, exec_if. cbn [stk alt]. rewrite Hc. reflexivity. }
      split. { destruct ix, iz; cbn [or_dc_input cnt] in *; auto. }
      split; [intros _ _; apply Hux; auto|]. rewrite isn_or_dc. discriminate.
    - (* X dissatisfied: Z runs *)
      destruct cnd; [apply if_cond_true_truthy in Hc; congruence|]. cbn [xorb] in H2.
      destruct (IHz _ _ _ H2) as [cz [rest [vz [-> [-> [Hfz [Hcz [Huz _]]]]]]]].
      exists (cx ++ cz), rest, vz. split; [apply app_assoc|]. split; [reflexivity|].
      split. { intros rest' al'. rewrite exec_app, <- app_assoc, Hfx. cbn [bind app]. rewrite exec_op_cons. cbn [exec_op stk alt].
               rewrite Ht. cbn [bind]. rewrite exec_single, exec_if. cbn [stk alt]. rewrite Hc. cbn [xorb]. apply Hfz. }
      split. { rewrite app_length. destruct ix, iz; cbn [or_dc_input cnt] in *; auto; lia. }
      split; [exact Huz|]. rewrite isn_or_dc. discriminate.
  Qed.

  Lemma C_orc sx sz ix iz ux : invB e sx ix ux -> invV e sz iz ->
    invV e (sx ++ [IIf true sz None]) (or_dc_input ix iz).
  Proof.
    intros IHx IHz st al r H. apply exec_app_inv in H. destruct H as [r1 [H1 H2]].
    destruct (IHx _ _ _ H1) as [cx [rest1 [vx [-> [-> [Hfx [Hcx _]]]]]]].
    rewrite exec_single in H2. apply exec_if_inv in H2.
    destruct H2 as [v' [rs [cnd [Hst [Hc H2]]]]]; cbn [stk alt] in *; inversion Hst; subst v' rs; clear Hst.
    destruct cnd; cbn [xorb] in H2.
    - inversion H2; subst; clear H2. exists cx, rest1. split; [reflexivity|]. split; [reflexivity|].
      split. { intros rest' al'. rewrite exec_app, Hfx. cbn [bind app]. rewrite exec_single, exec_if. cbn [stk alt]. rewrite Hc. reflexivity. }
      split. { destruct ix, iz; cbn [or_dc_input cnt] in *; auto. }
      rewrite isn_or_dc. discriminate.
    - destruct (IHz _ _ _ H2) as [cz [rest [-> [-> [Hfz [Hcz _]]]]]].
      exists (cx ++ cz), rest. split; [apply app_assoc|]. split; [reflexivity|].
      split. { intros rest' al'. rewrite exec_app, <- app_assoc, Hfx. cbn [bind app]. rewrite exec_single, exec_if. cbn [stk alt].
               rewrite Hc. cbn [xorb]. apply Hfz. }
      split. { rewrite app_length. destruct ix, iz; cbn [or_dc_input cnt] in *; auto; lia. }
      rewrite isn_or_dc. discriminate.
  Qed.

  (* ---------- or_i ---------- *)
  Definition ori_input (ix iz : input) : input := match ix, iz with IZero, IZero => IOne | _, _ => IAny end.
  Lemma isn_ori ix iz : isn (ori_input ix iz) = false.
  Proof. destruct ix, iz; reflexivity. Qed.

  Lemma ori_run sx sz st al r : exec e [IIf false sx (Some sz)] (mkSt st al) = Ok r ->
    exists sel st1 cnd, st = sel :: st1 /\ if_cond e sel = Some cnd /\
      exec e (if cnd then sx else sz) (mkSt st1 al) = Ok r /\
      forall X al', exec e [IIf false sx (Some sz)] (mkSt (sel :: X) al') = exec e (if cnd then sx else sz) (mkSt X al').
  Proof.
    intros H. rewrite exec_single in H. apply exec_if_inv in H. destruct H as [sel [rs [cnd [Hst [Hc H]]]]].
    cbn [stk alt] in *. subst st. exists sel, rs, cnd. split; [reflexivity|]. split; [exact Hc|].
    split; [destruct cnd; exact H|]. intros X al'. rewrite exec_single, exec_if. cbn [stk alt]. rewrite Hc. destruct cnd; reflexivity.
  Qed.

  Lemma C_ori_B sx sz ix iz ux uz : invB e sx ix ux -> invB e sz iz uz ->
    invB e [IIf false sx (Some sz)] (ori_input ix iz) (ux && uz).
  Proof.
    intros IHx IHz st al r H. destruct (ori_run _ _ _ _ _ H) as [sel [st1 [cnd [-> [Hc [H1 Hf]]]]]].
    destruct cnd.
    - destruct (IHx _ _ _ H1) as [c [rest [v [-> [-> [Hfr [Hcn [Hu _]]]]]]]].
      exists (sel :: c), rest, v. split; [reflexivity|]. split; [reflexivity|].
      split; [intros rest' al'; cbn [app]; rewrite Hf; apply Hfr|].
      split. { destruct ix, iz; cbn [ori_input cnt length] in *; auto; lia. }
      split. { eapply uval_weaken; [|exact Hu]. intros Hb. apply andb_prop in Hb. tauto. }
      rewrite isn_ori. discriminate.
    - destruct (IHz _ _ _ H1) as [c [rest [v [-> [-> [Hfr [Hcn [Hu _]]]]]]]].
      exists (sel :: c), rest, v. split; [reflexivity|]. split; [reflexivity|].
      split; [intros rest' al'; cbn [app]; rewrite Hf; apply Hfr|].
      split. { destruct ix, iz; cbn [ori_input cnt length] in *; auto; lia. }
      split. { eapply uval_weaken; [|exact Hu]. intros Hb. apply andb_prop in Hb. tauto. }
      rewrite isn_ori. discriminate.
  Qed.
  Lemma C_ori_V sx sz ix iz : invV e sx ix -> invV e sz iz -> invV e [IIf false sx (Some sz)] (ori_input ix iz).
  Proof.
    intros IHx IHz st al r H. destruct (ori_run _ _ _ _ _ H) as [sel [st1 [cnd [-> [Hc [H1 Hf]]]]]].
    destruct cnd.
    - destruct (IHx _ _ _ H1) as [c [rest [-> [-> [Hfr [Hcn _]]]]]].
      exists (sel :: c), rest. split; [reflexivity|]. split; [reflexivity|].
      split; [intros rest' al'; cbn [app]; rewrite Hf; apply Hfr|].
      split. { destruct ix, iz; cbn [ori_input cnt length] in *; auto; lia. }
      rewrite isn_ori. discriminate.
    - destruct (IHz _ _ _ H1) as [c [rest [-> [-> [Hfr [Hcn _]]]]]].
      exists (sel :: c), rest. split; [reflexivity|]. split; [reflexivity|].
      split; [intros rest' al'; cbn [app]; rewrite Hf; apply Hfr|].
      split. { destruct ix, iz; cbn [ori_input cnt length] in *; auto; lia. }
      rewrite isn_ori. discriminate.
  Qed.
  Lemma C_ori_K sx sz ix iz : invK e sx ix -> invK e sz iz -> invK e [IIf false sx (Some sz)] (ori_input ix iz).
  Proof.
    intros IHx IHz st al r H. destruct (ori_run _ _ _ _ _ H) as [sel [st1 [cnd [-> [Hc [H1 Hf]]]]]].
    destruct cnd.
    - destruct (IHx _ _ _ H1) as [c [rest [k [-> [-> [Hfr [Hcn _]]]]]]].
      exists (sel :: c), rest, k. split; [reflexivity|]. split; [reflexivity|].
      split; [intros rest' al'; cbn [app]; rewrite Hf; apply Hfr|].
      split. { destruct ix, iz; cbn [ori_input cnt length] in *; auto; lia. }
      rewrite isn_ori. discriminate.
    - destruct (IHz _ _ _ H1) as [c [rest [k [-> [-> [Hfr [Hcn _]]]]]]].
      exists (sel :: c), rest, k. split; [reflexivity|]. split; [reflexivity|].
      split; [intros rest' al'; cbn [app]; rewrite Hf; apply Hfr|].
      split. { destruct ix, iz; cbn [ori_input cnt length] in *; auto; lia. }
      rewrite isn_ori. discriminate.
  Qed.

  (* ---------- andor ---------- *)
  Definition andor_input (ia ib ic : input) : input :=
    match ia, ib, ic with
    | IZero, IZero, IZero => IZero
    | IZero, IOne, IOne | IZero, IOne, IOneNonZero | IZero, IOneNonZero, IOne
    | IZero, IOneNonZero, IOneNonZero | IOne, IZero, IZero | IOneNonZero, IZero, IZero => IOne
    | _, _, _ => IAny end.
  Lemma isn_andor ia ib ic : isn (andor_input ia ib ic) = false.
  Proof. destruct ia, ib, ic; reflexivity. Qed.

  (* after A: NOTIF c ELSE b ENDIF picks b when A left a true value, c otherwise *)
  Lemma andor_run sa sb sc ia ua st al r : invB e sa ia ua ->
    exec e (sa ++ [IIf true sc (Some sb)]) (mkSt st al) = Ok r ->
    exists ca rest1 (cnd : bool), st = ca ++ rest1 /\ cnt ia (length ca) /\
      exec e (if cnd then sb else sc) (mkSt rest1 al) = Ok r /\
      forall X al', exec e (sa ++ [IIf true sc (Some sb)]) (mkSt (ca ++ X) al') = exec e (if cnd then sb else sc) (mkSt X al').
  Proof.
    intros IHa H. apply exec_app_inv in H. destruct H as [r1 [H1 H2]].
    destruct (IHa _ _ _ H1) as [ca [rest1 [va [-> [-> [Hfa [Hca _]]]]]]].
    rewrite exec_single in H2. apply exec_if_inv in H2.
    destruct H2 as [v' [rs [cnd [Hst [Hc H2]]]]]; cbn [stk alt] in *; inversion Hst; subst v' rs; clear Hst.
    exists ca, rest1, cnd. split; [reflexivity|]. split; [exact Hca|].
    split; [destruct cnd; exact H2|].
    intros X al'. rewrite exec_app, Hfa. cbn [bind app]. rewrite exec_single, exec_if. cbn [stk alt]. rewrite Hc.
    destruct cnd; reflexivity.
  Qed.

  Lemma C_andor_B sa sb sc ia ib ic ua ub uc : invB e sa ia ua -> invB e sb ib ub -> invB e sc ic uc ->
    invB e (sa ++ [IIf true sc (Some sb)]) (andor_input ia ib ic) (ub && uc).
  Proof.
    intros IHa IHb IHc st al r H. destruct (andor_run _ _ _ _ _ _ _ _ IHa H) as [ca [rest1 [cnd [-> [Hca [H1 Hf]]]]]].
    destruct cnd.
    - destruct (IHb _ _ _ H1) as [c [rest [v [-> [-> [Hfr [Hcn [Hu _]]]]]]]].
      exists (ca ++ c), rest, v. split; [apply app_assoc|]. split; [reflexivity|].
      split; [intros rest' al'; rewrite <- app_assoc, Hf; apply Hfr|].
      split. { rewrite app_length. destruct ia, ib, ic; cbn [andor_input cnt] in *; auto; lia. }
      split. { eapply uval_weaken; [|exact Hu]. intros Hb. apply andb_prop in Hb. tauto. }
      rewrite isn_andor. discriminate.
    - destruct (IHc _ _ _ H1) as [c [rest [v [-> [-> [Hfr [Hcn [Hu _]]]]]]]].
      exists (ca ++ c), rest, v. split; [apply app_assoc|]. split; [reflexivity|].
      split; [intros rest' al'; rewrite <- app_assoc, Hf; apply Hfr|].
      split. { rewrite app_length. destruct ia, ib, ic; cbn [andor_input cnt] in *; auto; lia. }
      split. { eapply uval_weaken; [|exact Hu]. intros Hb. apply andb_prop in Hb. tauto. }
      rewrite isn_andor. discriminate.
  Qed.
  Lemma C_andor_V sa sb sc ia ib ic ua : invB e sa ia ua -> invV e sb ib -> invV e sc ic ->
    invV e (sa ++ [IIf true sc (Some sb)]) (andor_input ia ib ic).
  Proof.
    intros IHa IHb IHc st al r H. destruct (andor_run _ _ _ _ _ _ _ _ IHa H) as [ca [rest1 [cnd [-> [Hca [H1 Hf]]]]]].
    destruct cnd.
    - destruct (IHb _ _ _ H1) as [c [rest [-> [-> [Hfr [Hcn _]]]]]].
      exists (ca ++ c), rest. split; [apply app_assoc|]. split; [reflexivity|].
      split; [intros rest' al'; rewrite <- app_assoc, Hf; apply Hfr|].
      split. { rewrite app_length. destruct ia, ib, ic; cbn [andor_input cnt] in *; auto; lia. }
      rewrite isn_andor. discriminate.
    - destruct (IHc _ _ _ H1) as [c [rest [-> [-> [Hfr [Hcn _]]]]]].
      exists (ca ++ c), rest. split; [apply app_assoc|]. split; [reflexivity|].
      split; [intros rest' al'; rewrite <- app_assoc, Hf; apply Hfr|].
      split. { rewrite app_length. destruct ia, ib, ic; cbn [andor_input cnt] in *; auto; lia. }
      rewrite isn_andor. discriminate.
  Qed.
  Lemma C_andor_K sa sb sc ia ib ic ua : invB e sa ia ua -> invK e sb ib -> invK e sc ic ->
    invK e (sa ++ [IIf true sc (Some sb)]) (andor_input ia ib ic).
  Proof.
    intros IHa IHb IHc st al r H. destruct (andor_run _ _ _ _ _ _ _ _ IHa H) as [ca [rest1 [cnd [-> [Hca [H1 Hf]]]]]].
    destruct cnd.
    - destruct (IHb _ _ _ H1) as [c [rest [k [-> [-> [Hfr [Hcn _]]]]]]].
      exists (ca ++ c), rest, k. split; [apply app_assoc|]. split; [reflexivity|].
      split; [intros rest' al'; rewrite <- app_assoc, Hf; apply Hfr|].
      split. { rewrite app_length. destruct ia, ib, ic; cbn [andor_input cnt] in *; auto; lia. }
      rewrite isn_andor. discriminate.
    - destruct (IHc _ _ _ H1) as [c [rest [k [-> [-> [Hfr [Hcn _]]]]]]].
      exists (ca ++ c), rest, k. split; [apply app_assoc|]. split; [reflexivity|].
      split; [intros rest' al'; rewrite <- app_assoc, Hf; apply Hfr|].
      split. { rewrite app_length. destruct ia, ib, ic; cbn [andor_input cnt] in *; auto; lia. }
      rewrite isn_andor. discriminate.
  Qed.

  (* ---------- thresh ---------- *)
  Fixpoint stail (l : list script) : script :=
    match l with [] => [] | s :: r => s ++ [IOp OP_ADD] ++ stail r end.

  Lemma stail_fwd ss : Forall (fun s => exists i u, invW e s i u) ss ->
    forall acc st al r s, exec e (stail ss ++ s) (mkSt (acc :: st) al) = Ok r ->
    exists w rest acc', st = w ++ rest /\ exec e s (mkSt (acc' :: rest) al) = Ok r /\
      forall s' rest' al', exec e (stail ss ++ s') (mkSt (acc :: w ++ rest') al') = exec e s' (mkSt (acc' :: rest') al').
  Proof.
    induction 1 as [|s0 ss [i0 [u0 [_ IH0]]] _ IH]; intros acc st al r s H.
    - exists [], st, acc. split; [reflexivity|]. split; [exact H|]. intros; reflexivity.
    - cbn [stail] in H. rewrite <- !app_assoc in H. apply exec_app_inv in H. destruct H as [r1 [H1 H2]].
      destruct (IH0 _ _ _ H1) as [c0 [w [rest1 [v [sw [Hs [-> [Hf0 _]]]]]]]]. inversion Hs; subst c0 st; clear Hs.
      cbn [app] in H2. rewrite exec_op_cons in H2.
      assert (Hop : exists acc1,
         forall X al', exec_op e OP_ADD (mkSt (wout sw v acc ++ X) al') = Ok (mkSt (acc1 :: X) al')).
      { destruct sw; cbn [wout app exec_op stk alt] in H2 |- *;
        destruct (num_operand 4 v) as [n1|] eqn:E1; destruct (num_operand 4 acc) as [n2|] eqn:E2; try discriminate;
        eexists; intros; reflexivity. }
      destruct Hop as [acc1 Hop]. rewrite Hop in H2. cbn [bind] in H2.
      destruct (IH _ _ _ _ _ H2) as [w' [rest [acc' [-> [Hs' Hf']]]]].
      exists (w ++ w'), rest, acc'. split; [apply app_assoc|]. split; [exact Hs'|].
      intros s' rest' al'. cbn [stail]. rewrite <- !app_assoc. rewrite exec_app.
      pose proof (Hf0 acc (w' ++ rest') al') as Hy; cbn [app] in Hy; rewrite Hy. cbn [bind app]. rewrite exec_op_cons, Hop. cbn [bind]. apply Hf'.
  Qed.

  Lemma C_thresh s0 ss i0 u0 i k : invB e s0 i0 u0 -> Forall (fun s => exists i u, invW e s i u) ss ->
    (ss = [] /\ forall n, cnt i0 n -> cnt i n) \/ i = IAny -> isn i = false ->
    invB e (s0 ++ stail ss ++ [push_int (Z.of_N k); IOp OP_EQUAL]) i true.
  Proof.
    intros IH0 IHs Hi Hni st al r H. apply exec_app_inv in H. destruct H as [r1 [H1 H2]].
    destruct (IH0 _ _ _ H1) as [c0 [rest1 [v0 [-> [-> [Hf0 [Hc0 _]]]]]]].
    destruct (stail_fwd ss IHs _ _ _ _ _ H2) as [w [rest [acc' [-> [Hs Hf]]]]].
    rewrite exec_cons, exec_push_int in Hs. cbn [bind stk alt] in Hs. rewrite exec_single in Hs.
    cbn [exec_instr exec_op stk alt] in Hs. inversion Hs; subst; clear Hs.
    exists (c0 ++ w), rest, (bool_bytes (bytes_eqb (num_encode (Z.of_N k)) acc')).
    split; [apply app_assoc|]. split; [reflexivity|].
    split. { intros rest' al'. rewrite exec_app, <- app_assoc, Hf0. cbn [bind app]. rewrite Hf.
             rewrite exec_cons, exec_push_int. cbn [bind stk alt]. rewrite exec_single. reflexivity. }
    split.
    { destruct Hi as [[-> Hi]| ->]; [|exact I]. apply Hi.
      assert (w = []) as ->.
      { cbn [stail app] in Hf. specialize (Hf [] [] []). cbn [exec] in Hf. rewrite app_nil_r in Hf.
        inversion Hf. destruct w; [reflexivity|discriminate]. }
      rewrite app_nil_r. exact Hc0. }
    split; [apply uval_bool|]. rewrite Hni. discriminate.
  Qed.
End Comb.
