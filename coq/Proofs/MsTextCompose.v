(* Composition of the miniscript text layer (MsTextProofs.v) with the expression-tree layer
   (ExprTreeRt.v): text -> node vector -> tree -> AST. *)
From Coq Require Import List Bool Arith NArith Lia.
From Verif Require Import ChecksumModel ExprTreeModel ExprTreeTotal ExprTreePass2 ExprTreeRt MsTextModel MsTextProofs.
Import ListNotations.
Local Open Scope N_scope.

(* ------------------------------------------------------------------ (1) node vector -> tree *)
Lemma size_list_ge : forall c cs, In c cs -> size c <= size_list cs.
Proof.
  intros c cs. induction cs as [|x r IH]; intros H; [contradiction|].
  cbn [size_list fold_right]. fold (size_list r). destruct H as [->|H]; [lia|]. specialize (IH H). lia.
Qed.

Lemma build_flatten : forall t fuel start pos par sib rest,
  (N.to_nat (size t) <= fuel)%nat ->
  build fuel (flatten t start pos par sib ++ rest) = Some (t, rest).
Proof.
  intro t. induction t as [name p cs IH] using etree_ind'. intros fuel start pos par sib rest Hf.
  rewrite size_eq in Hf. destruct fuel as [|f]; [lia|].
  rewrite flatten_eq. cbn [app build nd_n_children nd_name nd_parens]. rewrite Nat2N.id.
  assert (K : forall st ps, build_kids (build f) (length cs) (flat_kids start cs st ps ++ rest) = Some (cs, rest)).
  { assert (Hs : forall c, In c cs -> (N.to_nat (size c) <= f)%nat).
    { intros c Hc. pose proof (size_list_ge c cs Hc). lia. }
    clear Hf. induction cs as [|c r IHr]; intros st ps; [reflexivity|].
    inversion IH as [|? ? Hc Hr]; subst. rewrite flat_kids_cons, <- app_assoc. cbn [length build_kids].
    rewrite (Hc f st ps (Some start) _ _ (Hs c (or_introl eq_refl))).
    rewrite (IHr Hr (fun x Hx => Hs x (or_intror Hx))). reflexivity. }
  rewrite K. reflexivity.
Qed.

Theorem tree_of_nodes_flatten : forall t, tree_of_nodes (tree_nodes t) = Some t.
Proof.
  intro t. unfold tree_of_nodes, tree_nodes.
  pose proof (flatten_length t 0 0 None None) as Hl. unfold nlen in Hl.
  rewrite <- (app_nil_r (flatten t 0 0 None None)) at 2.
  rewrite build_flatten; [reflexivity|]. rewrite <- Hl, Nat2N.id. lia.
Qed.

(* ------------------------------------------------------------------ (2) printed names *)
Lemma name_char_digit : forall r, r < 10 -> name_char (48 + r) = true.
Proof.
  intros r H.
  assert (r = 0 \/ r = 1 \/ r = 2 \/ r = 3 \/ r = 4 \/ r = 5 \/ r = 6 \/ r = 7 \/ r = 8 \/ r = 9) as C by lia.
  repeat (destruct C as [->|C]; [reflexivity|]). subst. reflexivity.
Qed.

Lemma dec_aux_chars : forall f n acc, forallb name_char acc = true -> forallb name_char (dec_aux f n acc) = true.
Proof.
  induction f as [|f IH]; intros n acc H; [exact H|].
  cbn [dec_aux]. pose proof (N.mod_lt n 10 ten_nz) as Hm.
  assert (H2 : forallb name_char ((48 + n mod 10) :: acc) = true).
  { cbn [forallb]. rewrite H. rewrite name_char_digit; [reflexivity|exact Hm]. }
  destruct (n / 10 =? 0); [exact H2|]. apply IH. exact H2.
Qed.

Section Compose.
Variable print_key : key -> tbytes.
Variable parse_key : tbytes -> option key.
Variable print_hash : hkind -> tbytes -> tbytes.
Variable parse_hash : hkind -> tbytes -> option tbytes.
Variable chk : ms -> bool.
Hypothesis key_rt : forall k, parse_key (print_key k) = Some k.
Hypothesis hash_rt : forall h b, parse_hash h (print_hash h b) = Some b.
(* printed keys and hashes use the descriptor alphabet without ( ) { } , # *)
Hypothesis key_chars : forall k, forallb name_char (print_key k) = true.
Hypothesis hash_chars : forall h b, forallb name_char (print_hash h b) = true.

Notation tw := (tw print_key print_hash).
Notation to_tree := (to_tree print_key print_hash).

Lemma dec_chars : forall n, forallb name_char (dec n) = true.
Proof. intros n. Transparent dec. unfold dec. Opaque dec. apply dec_aux_chars. reflexivity. Qed.

Lemma wf_wrap : forall c wb, name_char c = true -> well_formed (mk_node wb) = true ->
  well_formed (mk_node (wrap c wb)) = true.
Proof.
  intros c [w [name kids]] Hc H. unfold wrap, mk_node in *. cbn [fst snd] in *.
  cbn [well_formed] in *. apply andb_prop in H. destruct H as [H1 H2].
  apply andb_true_intro. split; [|exact H2].
  destruct w as [|d w]; cbn [full_name app forallb] in *.
  - rewrite Hc, H1. reflexivity.
  - rewrite Hc. exact H1.
Qed.

Lemma wf_node : forall name kids, forallb name_char name = true -> forallb well_formed kids = true ->
  well_formed (mk_node ([], (name, kids))) = true.
Proof.
  intros name kids H1 H2. unfold mk_node. cbn [full_name well_formed]. rewrite H1.
  destruct kids; [reflexivity|exact H2].
Qed.

Lemma wf_leaf : forall s, forallb name_char s = true -> well_formed (leaf s) = true.
Proof. intros s H. unfold leaf. cbn [well_formed]. rewrite H. reflexivity. Qed.

Lemma wf_keys : forall ks, forallb well_formed (map (fun k => leaf (print_key k)) ks) = true.
Proof. induction ks as [|k r IH]; [reflexivity|]. cbn [map forallb]. rewrite wf_leaf by apply key_chars. exact IH. Qed.

Ltac wfn := apply wf_node; [reflexivity|];
  cbn [forallb]; rewrite ?wf_keys, ?wf_leaf by (apply key_chars || apply hash_chars || apply dec_chars);
  repeat match goal with H : well_formed _ = true |- _ => rewrite H end; try reflexivity.
Ltac wfw := apply wf_wrap; [reflexivity | assumption].

Theorem to_tree_well_formed : forall m, well_formed (to_tree m) = true.
Proof.
  unfold MsTextModel.to_tree.
  induction m using mst_ind; cbn [MsTextModel.tw];
    repeat match goal with |- context [if ?b then _ else _] => destruct b end;
    try wfw; try (wfn; fail).
  - (* c *) destruct m; cbv iota beta;
      first [ exact (wf_wrap ch_c _ eq_refl IHm) | wfn ].
  - (* thresh *) apply wf_node; [reflexivity|]. cbn [forallb]. rewrite wf_leaf by apply dec_chars.
    induction H as [|x r Hx HF IH]; [reflexivity|]. cbn [map forallb]. rewrite Hx. exact IH.
Qed.

(* ------------------------------------------------------------------ (3) text round trip *)
Notation from_str_model := (from_str_model parse_key parse_hash chk).
Notation ms_to_text := (ms_to_text print_key print_hash).

Theorem text_roundtrip : forall m, ms_text_ok chk m = true -> depth (to_tree m) <= MAX_RECURSION_DEPTH ->
  from_str_model (ms_to_text m) = Ok m.
Proof.
  intros m Hok Hd. unfold MsTextModel.from_str_model, MsTextModel.ms_to_text.
  rewrite (tree_print_parse_lemma _ (to_tree_well_formed m) Hd).
  rewrite tree_of_nodes_flatten.
  rewrite (print_parse print_key parse_key print_hash parse_hash chk key_rt hash_rt m Hok). reflexivity.
Qed.

Theorem text_fixpoint : forall s m, from_str_model s = Ok m -> depth (to_tree m) <= MAX_RECURSION_DEPTH ->
  from_str_model (ms_to_text m) = Ok m /\
  (forall m', from_str_model (ms_to_text m) = Ok m' -> ms_to_text m' = ms_to_text m).
Proof.
  intros s m H Hd.
  assert (Hok : ms_text_ok chk m = true).
  { unfold MsTextModel.from_str_model in H. destruct (from_str_inner s); try discriminate.
    destruct (tree_of_nodes a) as [t|]; try discriminate.
    destruct (from_tree parse_key parse_hash chk t) eqn:E; try discriminate. inversion H; subst.
    eapply parse_valid; exact E. }
  pose proof (text_roundtrip m Hok Hd) as Hp. split; [exact Hp|].
  intros m' H'. rewrite Hp in H'. inversion H'. reflexivity.
Qed.

End Compose.

(* ------------------------------------------------------------------ an instance of the parameters
   (non-vacuity of the hypotheses): keys in decimal, hash bytes in unary ("1"^x "0" per byte) *)
Definition inst_parse_key (s : tbytes) : option key := dval s 0.
Definition inst_print_hash (_ : hkind) (b : tbytes) : tbytes :=
  flat_map (fun x => repeat 49 (N.to_nat x) ++ [48]) b.
Fixpoint unary_parse (s : tbytes) (cur : N) : option tbytes :=
  match s with
  | [] => if cur =? 0 then Some [] else None
  | c :: r => if c =? 49 then unary_parse r (cur + 1)
              else if c =? 48 then option_map (cons cur) (unary_parse r 0) else None
  end.
Definition inst_parse_hash (_ : hkind) (s : tbytes) : option tbytes := unary_parse s 0.

Lemma unary_ones : forall n r cur, unary_parse (repeat 49 n ++ r) cur = unary_parse r (cur + N.of_nat n).
Proof.
  induction n as [|n IH]; intros r cur.
  - cbn [repeat app]. f_equal. cbn. lia.
  - cbn [repeat app unary_parse]. change (49 =? 49) with true. cbv iota. rewrite IH. f_equal. lia.
Qed.

Lemma inst_hash_rt : forall h b, inst_parse_hash h (inst_print_hash h b) = Some b.
Proof.
  intros h b. unfold inst_parse_hash, inst_print_hash. induction b as [|x b IH]; [reflexivity|].
  cbn [flat_map]. rewrite <- app_assoc, unary_ones. cbn [app unary_parse].
  change (48 =? 49) with false. change (48 =? 48) with true. cbv iota. rewrite IH. cbn [option_map].
  rewrite N2Nat.id. reflexivity.
Qed.

Lemma inst_hash_chars : forall h b, forallb name_char (inst_print_hash h b) = true.
Proof.
  intros h b. unfold inst_print_hash. induction b as [|x b IH]; [reflexivity|].
  cbn [flat_map]. rewrite !forallb_app, IH.
  assert (R : forall n, forallb name_char (repeat 49 n) = true) by (induction n; [reflexivity|exact IHn]).
  rewrite R. reflexivity.
Qed.

Lemma inst_key_rt : forall k, inst_parse_key (dec k) = Some k.
Proof. exact dval_dec. Qed.
