(* C14: atomicity of finalization (fail_untouched), preservation of final inputs,
   what a successful finalization stores (success_valid), extract. *)
From Coq Require Import List Bool NArith Arith Lia.
Import ListNotations.
From Verif Require Import PsbtModel PsbtLemmas PsbtReach.

Section Atomic.
  Variable try_input : psbt -> nat -> bool -> tryres.
  Variable interp_check : psbt -> option (nat * N).
  Variable desc_info : N -> dinfo.
  Variable sig_flag : N -> option N.
  Variable sighash_ecdsa : N -> option N.
  Variable inp_mall : bool -> bool.

  Notation stepM := (step try_input interp_check desc_info sig_flag sighash_ecdsa inp_mall).
  Notation runM := (run try_input interp_check desc_info sig_flag sighash_ecdsa inp_mall).
  Notation finalize_inputM := (finalize_input try_input).
  Notation specM := (finalize_input_spec try_input).

  (* ---- finalize_input touches only its own index, and nothing if that input is final *)
  Lemma finalize_input_other st i m st' j :
    finalize_inputM st i m = FOk st' -> j <> i ->
    nth_error (p_inputs st') j = nth_error (p_inputs st) j.
  Proof.
    intros H Hne. pose proof (specM st i m) as S. rewrite H in S.
    destruct S as (a & Hn & [[_ ->]|(Hf & s & w & _ & ->)] & _); auto.
    simpl. apply nth_set_nth_neq. auto.
  Qed.

  Lemma finalize_input_keeps_final st i m st' j a :
    finalize_inputM st i m = FOk st' ->
    nth_error (p_inputs st) j = Some a -> is_final a = true ->
    nth_error (p_inputs st') j = Some a.
  Proof.
    intros H Hn Hf. destruct (Nat.eq_dec j i) as [->|Hne].
    - pose proof (specM st i m) as S. rewrite H in S.
      destruct S as (a0 & Hn0 & [[_ ->]|(Hf0 & _)] & _); auto. congruence.
    - rewrite (finalize_input_other _ _ _ _ _ H Hne). exact Hn.
  Qed.

  Lemma fin_mut_loop_keeps_final m idxs : forall st errs j a,
    nth_error (p_inputs st) j = Some a -> is_final a = true ->
    nth_error (p_inputs (fst (fst (fin_mut_loop try_input m idxs st errs)))) j = Some a.
  Proof.
    induction idxs as [|i r IH]; intros st errs j a Hn Hf; simpl; auto.
    destruct (finalize_inputM st i m) as [st1|k e|] eqn:H; simpl; auto.
    apply IH; auto. eapply finalize_input_keeps_final; eauto.
  Qed.

  Lemma fin_old_loop_keeps_final m idxs : forall st j a,
    nth_error (p_inputs st) j = Some a -> is_final a = true ->
    nth_error (p_inputs (fst (fin_old_loop try_input m idxs st))) j = Some a.
  Proof.
    induction idxs as [|i r IH]; intros st j a Hn Hf; simpl; auto.
    destruct (finalize_inputM st i m) as [st1|k e|] eqn:H; simpl; auto.
    apply IH; auto. eapply finalize_input_keeps_final; eauto.
  Qed.

  Definition is_finalize_op (o : op) : bool :=
    match o with Finalize _ | FinalizeOld _ | FinalizeInp _ _ | Extract => true | _ => false end.

  (* ================= finalization never alters inputs that are already final =================
     (the WHOLE input, all 21 fields, not only the final fields) *)
  Theorem finalize_preserves_final_inputs : forall st o j a,
    is_finalize_op o = true ->
    nth_error (p_inputs st) j = Some a -> is_final a = true ->
    nth_error (p_inputs (fst (stepM st o))) j = Some a.
  Proof.
    intros st o j a Ho Hn Hf. destruct o; try discriminate; simpl.
    - unfold finalize_mut.
      pose proof (fin_mut_loop_keeps_final mall (seq 0 (length (p_inputs st))) st [] j a Hn Hf) as H.
      destruct (fin_mut_loop try_input mall (seq 0 (length (p_inputs st))) st []) as [[st' es] p].
      simpl in H. destruct p; destruct es; exact H.
    - unfold finalize_old. destruct (sanity_check sig_flag sighash_ecdsa st); simpl; auto.
      apply fin_old_loop_keeps_final; auto.
    - unfold finalize_inp. destruct (length (p_inputs st) <=? i); simpl; auto.
      destruct (finalize_inputM st i (inp_mall mall)) eqn:H; simpl; auto.
      eapply finalize_input_keeps_final; eauto.
    - exact Hn.
  Qed.

  (* ================= fail_untouched (single input API) =================
     a FinalizeInp that does not return Ok leaves the whole PSBT identical *)
  Theorem fail_untouched : forall st i m st' r,
    stepM st (FinalizeInp i m) = (st', r) -> r <> ROk -> st' = st.
  Proof.
    intros st i m st' r H Hr. simpl in H. unfold finalize_inp in H.
    destruct (length (p_inputs st) <=? i); [inversion H; auto|].
    destruct (finalize_inputM st i (inp_mall m)); inversion H; subst; auto. congruence.
  Qed.

  (* and the error it reports is either MissingUtxo for this input (get_utxo: no previous
     output can be found - e.g. a non_witness_utxo of another transaction) or try_input's,
     evaluated on the untouched state; the reported index [k] is the one the code puts into
     Error::InputError, which for `prevouts` is the first input without a findable utxo *)
  Theorem fail_reports_try : forall st i m st' k e,
    stepM st (FinalizeInp i m) = (st', RInputErr k e) ->
    exists a, nth_error (p_inputs st) i = Some a /\ is_final a = false /\
              ((get_utxo a = None /\ k = i /\ e = e_missing_utxo) \/
               (get_utxo a <> None /\ try_input st i (inp_mall m) = TErr k e)).
  Proof.
    intros st i m st' k e H. simpl in H. unfold finalize_inp in H.
    destruct (length (p_inputs st) <=? i); [inversion H|].
    pose proof (specM st i (inp_mall m)) as S.
    destruct (finalize_inputM st i (inp_mall m)); inversion H; subst. exact S.
  Qed.

  (* ================= an input whose spent output cannot be found is never finalized ========
     get_utxo a = None: no utxo field, or a non_witness_utxo that is not the transaction the
     outpoint names, or an outpoint beyond its outputs - whatever witness_utxo says *)
  Theorem bad_utxo_fails : forall st i m a,
    nth_error (p_inputs st) i = Some a -> is_final a = false -> get_utxo a = None ->
    stepM st (FinalizeInp i m) = (st, RInputErr i e_missing_utxo).
  Proof.
    intros st i m a Hn Hf Hu. simpl. unfold finalize_inp.
    destruct (Nat.leb_spec (length (p_inputs st)) i) as [Hle|Hlt].
    - apply nth_error_None in Hle. congruence.
    - unfold finalize_input. rewrite Hn, Hf, Hu. reflexivity.
  Qed.

  Lemma fin_mut_loop_no_panic_aux m idxs : forall st errs,
    (forall i, In i idxs -> i < length (p_inputs st)) ->
    snd (fin_mut_loop try_input m idxs st errs) = false.
  Proof.
    induction idxs as [|i r IH]; intros st errs Hlt; simpl; auto.
    pose proof (specM st i m) as S.
    destruct (finalize_inputM st i m) as [st1|k e|] eqn:Hfi.
    - apply IH. intros j Hj. rewrite (sreach_length _ _ (finalize_input_sreach _ _ _ _ _ Hfi)).
      apply Hlt; right; auto.
    - apply IH. intros j Hj. apply Hlt; right; auto.
    - specialize (Hlt i (or_introl eq_refl)). lia.
  Qed.

  (* ---- finalize_mut: exact account of one pass.  Every input is afterwards either identical
     or the finalized form of what it was; inputs outside [idxs] are identical. *)
  Definition fin_or_same (a a' : pinput) : Prop :=
    a' = a \/ (is_final a = false /\ get_utxo a <> None /\ exists s w, a' = cleared a s w).

  Lemma fin_mut_loop_spec m idxs : NoDup idxs -> forall st errs st' es p,
    fin_mut_loop try_input m idxs st errs = (st', es, p) -> p = false ->
    (forall i a, nth_error (p_inputs st) i = Some a ->
       exists a', nth_error (p_inputs st') i = Some a' /\ fin_or_same a a') /\
    (forall i, ~ In i idxs -> nth_error (p_inputs st') i = nth_error (p_inputs st) i).
  Proof.
    induction 1 as [|i r Hni Hnd IH]; intros st errs st' es p H Hp; simpl in H.
    - inversion H; subst. split; auto. intros i a Ha. exists a. split; auto. left; auto.
    - pose proof (specM st i m) as S.
      destruct (finalize_inputM st i m) as [st1|k e|] eqn:Hfi.
      + destruct (IH _ _ _ _ _ H Hp) as (Hall & Hout). split.
        * intros j a Ha. destruct (Nat.eq_dec j i) as [->|Hji].
          -- rewrite (Hout i Hni).
             destruct S as (a0 & Ha0 & [[_ ->]|(Hf & s & w & _ & ->)] & Hu).
             ++ exists a. split; auto. left; auto.
             ++ assert (a0 = a) by congruence. subst a0. exists (cleared a s w). split.
                ** simpl. eapply nth_set_nth_eq; eauto.
                ** right. split; auto. split; auto. eauto.
          -- rewrite <- (finalize_input_other _ _ _ _ j Hfi Hji) in Ha. apply Hall; auto.
        * intros j Hj. assert (j <> i) by (intro; subst; apply Hj; left; auto).
          rewrite Hout by (intro; apply Hj; right; auto).
          apply (finalize_input_other _ _ _ _ _ Hfi H0).
      + destruct (IH _ _ _ _ _ H Hp) as (Hall & Hout). split; auto.
        intros j Hj. apply Hout. intro; apply Hj; right; auto.
      + inversion H; subst. discriminate.
  Qed.

  (* ================= fail_untouched for finalize_mut / finalize_mall_mut =================
     whatever the call returns, every input is afterwards bit-identical or has been finalized
     (it was not final, its spent output could be found, and it now is `cleared a s w`): an
     input that could not be finalized is untouched; the call is atomic per input, not per PSBT.
     (The indices in the error vector are the code's: `prevouts` blames the first input whose
     utxo is missing, so they do not always name the input whose attempt failed.) *)
  Theorem finalize_mut_failed_untouched : forall st m st' r,
    stepM st (Finalize m) = (st', r) ->
    forall i a, nth_error (p_inputs st) i = Some a ->
      exists a', nth_error (p_inputs st') i = Some a' /\ fin_or_same a a'.
  Proof.
    intros st m st' r H i a Ha. simpl in H. unfold finalize_mut in H.
    destruct (fin_mut_loop try_input m (seq 0 (length (p_inputs st))) st []) as [[st1 es1] p] eqn:L.
    destruct p.
    - exfalso. pose proof (fin_mut_loop_no_panic_aux m (seq 0 (length (p_inputs st))) st []) as N.
      rewrite L in N. simpl in N. assert (true = false); [|discriminate]. apply N.
      intros k Hk. apply in_seq in Hk. lia.
    - assert (st1 = st') by (destruct es1; inversion H; auto). subst st1.
      destruct (fin_mut_loop_spec m _ (seq_NoDup _ _) _ _ _ _ _ L eq_refl) as (Hall & _). auto.
  Qed.

  (* psbt::finalize / finalize_mall (finalize_helper) stop at the first failure: the failing
     input is untouched, inputs before it that could be finalized stay finalized *)
  Lemma fin_old_loop_fail m idxs : NoDup idxs -> forall st st' k e,
    fin_old_loop try_input m idxs st = (st', RInputErr k e) ->
    exists i a, In i idxs /\ nth_error (p_inputs st') i = Some a /\ is_final a = false /\
      ((get_utxo a = None /\ k = i /\ e = e_missing_utxo) \/
       (get_utxo a <> None /\ try_input st' i m = TErr k e)).
  Proof.
    induction 1 as [|j r Hni Hnd IH]; intros st st' k e H; simpl in H; [discriminate|].
    pose proof (specM st j m) as S.
    destruct (finalize_inputM st j m) as [st1|k1 e1|] eqn:Hfi.
    - destruct (IH _ _ _ _ H) as (i & a & Hin & Hex). exists i, a. split; [right; auto|auto].
    - inversion H; subst. destruct S as (a & Ha & Hf & Hc). exists j, a. split; [left; auto|auto].
    - discriminate.
  Qed.

  (* ================= success_valid (single input) =================
     success stores exactly what try_input returned, keeps the two utxo fields, clears
     every other field, and leaves every other input untouched *)
  Theorem success_valid : forall st i m st' a,
    stepM st (FinalizeInp i m) = (st', ROk) ->
    nth_error (p_inputs st) i = Some a -> is_final a = false ->
    exists s w, get_utxo a <> None /\ try_input st i (inp_mall m) = TOk s w /\
      st' = with_inputs st (set_nth i (cleared a s w) (p_inputs st)) /\
      nth_error (p_inputs st') i = Some (cleared a s w) /\
      (forall j, j <> i -> nth_error (p_inputs st') j = nth_error (p_inputs st) j).
  Proof.
    intros st i m st' a H Hn Hf. simpl in H. unfold finalize_inp in H.
    destruct (length (p_inputs st) <=? i); [inversion H|].
    pose proof (specM st i (inp_mall m)) as S.
    destruct (finalize_inputM st i (inp_mall m)) as [st1|k e|]; inversion H; subst.
    destruct S as (a0 & Hn0 & [[Hf0 _]|(_ & s & w & Ht & ->)] & Hu); [congruence|].
    assert (a0 = a) by congruence. subst. exists s, w. split; [auto|]. repeat split; auto.
    - simpl. eapply nth_set_nth_eq; eauto.
    - intros j Hj. simpl. apply nth_set_nth_neq. auto.
  Qed.

  (* the fields of a freshly finalized input, one by one *)
  Theorem cleared_fields : forall a s w,
    let c := cleared a s w in
    i_fsig c = nz s /\ i_fwit c = nz w /\
    i_nwutxo c = i_nwutxo a /\ i_wutxo c = i_wutxo a /\
    i_psigs c = [] /\ i_sighash c = None /\ i_redeem c = None /\ i_witscript c = None /\
    i_bip32 c = [] /\ i_ripemd c = [] /\ i_sha256 c = [] /\ i_hash160 c = [] /\ i_hash256 c = [] /\
    i_tapkeysig c = None /\ i_tapsigs c = [] /\ i_tapscripts c = [] /\ i_taporigins c = [] /\
    i_tapik c = None /\ i_tapmerkle c = None /\ i_prop c = [] /\
    i_unknown c = i_unknown a.
  Proof. intros. repeat split. Qed.

  (* BIP174 (Input Finalizer): "All other data except the UTXO and unknown fields in the
     input key-value map should be cleared": the unknown pairs survive finalization.
     (Refuted with a witness until /repo commit 2847ba9c; `proprietary` pairs are still
     dropped, which BIP174 does not regulate.) *)
  Theorem finalize_keeps_unknown : forall a s w, i_unknown (cleared a s w) = i_unknown a.
  Proof. reflexivity. Qed.

  (* ---- extract *)
  Lemma first_nonfinal_none l : forall i, first_nonfinal i l = None -> forall a, In a l -> is_final a = true.
  Proof.
    induction l as [|x r IH]; intros i H a Hin; [destruct Hin|]. simpl in H.
    destruct (is_final x) eqn:Hx; [|discriminate]. destruct Hin as [->|Hin]; eauto.
  Qed.

  Theorem extract_spec : forall st l,
    extract interp_check sig_flag sighash_ecdsa st = RExtracted l ->
    l = finals st /\ (forall a, In a (p_inputs st) -> is_final a = true) /\
    interp_check st = None /\ sanity_check sig_flag sighash_ecdsa st = None.
  Proof.
    intros st l H. unfold extract in H.
    destruct (sanity_check sig_flag sighash_ecdsa st) eqn:Hs.
    - unfold sanity_check in Hs. destruct (negb (p_ntx st =? length (p_inputs st))); [inversion Hs; subst; discriminate|].
      destruct (sanity_inputs sig_flag sighash_ecdsa 0 (p_inputs st)) as [[? ?]|]; inversion Hs; subst; discriminate.
    - destruct (first_nonfinal 0 (p_inputs st)) eqn:Hf; [discriminate|].
      destruct (interp_check st) as [[? ?]|] eqn:Hi; [discriminate|].
      inversion H; subst. repeat split; auto. eapply first_nonfinal_none; eauto.
  Qed.

  Theorem extract_pure : forall st, fst (stepM st Extract) = st.
  Proof. reflexivity. Qed.

  (* ---- no reachable panic site: finalize_input's `psbt.inputs[index]` is guarded by every caller *)
  Lemma fin_mut_loop_no_panic m idxs : forall st errs,
    (forall i, In i idxs -> i < length (p_inputs st)) ->
    snd (fin_mut_loop try_input m idxs st errs) = false.
  Proof.
    induction idxs as [|i r IH]; intros st errs Hlt; simpl; auto.
    pose proof (specM st i m) as S.
    destruct (finalize_inputM st i m) as [st1|k e|] eqn:Hfi.
    - apply IH. intros j Hj. rewrite (sreach_length _ _ (finalize_input_sreach _ _ _ _ _ Hfi)).
      apply Hlt; right; auto.
    - apply IH. intros j Hj. apply Hlt; right; auto.
    - specialize (Hlt i (or_introl eq_refl)). lia.
  Qed.

  Lemma fin_old_loop_no_panic m idxs : forall st,
    (forall i, In i idxs -> i < length (p_inputs st)) ->
    forall s, snd (fin_old_loop try_input m idxs st) <> RPanic s.
  Proof.
    induction idxs as [|i r IH]; intros st Hlt s; simpl; [discriminate|].
    pose proof (specM st i m) as S.
    destruct (finalize_inputM st i m) as [st1|k e|] eqn:Hfi; simpl.
    - apply IH. intros j Hj. rewrite (sreach_length _ _ (finalize_input_sreach _ _ _ _ _ Hfi)).
      apply Hlt; right; auto.
    - discriminate.
    - specialize (Hlt i (or_introl eq_refl)). lia.
  Qed.

  Theorem step_no_panic : forall st o s, snd (stepM st o) <> RPanic s.
  Proof.
    intros st o s. destruct o; simpl;
      try (unfold on_input; destruct (nth_error (p_inputs st) i); simpl; discriminate).
    - unfold update_input. destruct (nth_error (p_inputs st) i); simpl; try discriminate.
      destruct (p_ntx st <=? i); simpl; try discriminate.
      destruct (match i_nwutxo p with Some nw => negb (nw_txid_ok nw) | None => false end); simpl; try discriminate.
      destruct (expected_spk p (d_segwit (desc_info d))); simpl; try discriminate.
      destruct (negb (n =? d_spk (desc_info d))%N); simpl; discriminate.
    - unfold finalize_mut.
      pose proof (fin_mut_loop_no_panic mall (seq 0 (length (p_inputs st))) st []) as H.
      destruct (fin_mut_loop try_input mall (seq 0 (length (p_inputs st))) st []) as [[st' es] p].
      simpl in H. rewrite H. destruct es; simpl; discriminate.
      intros i Hi. apply in_seq in Hi. lia.
    - unfold finalize_old. destruct (sanity_check sig_flag sighash_ecdsa st) eqn:Hs; simpl.
      + unfold sanity_check in Hs. destruct (negb (p_ntx st =? length (p_inputs st))); [inversion Hs; discriminate|].
        destruct (sanity_inputs sig_flag sighash_ecdsa 0 (p_inputs st)) as [[? ?]|]; inversion Hs; discriminate.
      + apply fin_old_loop_no_panic. intros i Hi. apply in_seq in Hi. lia.
    - unfold finalize_inp. destruct (Nat.leb_spec (length (p_inputs st)) i); simpl; [discriminate|].
      pose proof (specM st i (inp_mall mall)) as S.
      destruct (finalize_inputM st i (inp_mall mall)); simpl; try discriminate. lia.
    - unfold extract. destruct (sanity_check sig_flag sighash_ecdsa st) eqn:Hs.
      + unfold sanity_check in Hs. destruct (negb (p_ntx st =? length (p_inputs st))); [inversion Hs; discriminate|].
        destruct (sanity_inputs sig_flag sighash_ecdsa 0 (p_inputs st)) as [[? ?]|]; inversion Hs; discriminate.
      + destruct (first_nonfinal 0 (p_inputs st)); try discriminate.
        destruct (interp_check st) as [[? ?]|]; discriminate.
  Qed.
End Atomic.
