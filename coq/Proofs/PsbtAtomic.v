(* C14: atomicity of finalization (fail_untouched), preservation of final inputs,
   what a successful finalization stores (success_valid), extract. *)
From Coq Require Import List Bool NArith Arith Lia.
Import ListNotations.
From Verif Require Import PsbtModel PsbtLemmas PsbtReach.

Section Atomic.
  Variable try_input : psbt -> nat -> bool -> tryres.
  Variable interp_check : psbt -> option (nat * N).
  Variable desc_info : N -> dinfo.
  Variable sig_flag : N -> option N.
  Variable sighash_ecdsa : N -> option N.
  Variable inp_mall : bool -> bool.

  Notation stepM := (step try_input interp_check desc_info sig_flag sighash_ecdsa inp_mall).
  Notation runM := (run try_input interp_check desc_info sig_flag sighash_ecdsa inp_mall).
  Notation finalize_inputM := (finalize_input try_input).
  Notation specM := (finalize_input_spec try_input).

  (* ---- finalize_input touches only its own index, and nothing if that input is final *)
  Lemma finalize_input_other st i m st' j :
    finalize_inputM st i m = FOk st' -> j <> i ->
    nth_error (p_inputs st') j = nth_error (p_inputs st) j.
  Proof.
    intros H Hne. pose proof (specM st i m) as S. rewrite H in S.
    destruct S as (a & Hn & [[_ ->]|(Hf & s & w & _ & ->)]); auto.
    simpl. apply nth_set_nth_neq. auto.
  Qed.

  Lemma finalize_input_keeps_final st i m st' j a :
    finalize_inputM st i m = FOk st' ->
    nth_error (p_inputs st) j = Some a -> is_final a = true ->
    nth_error (p_inputs st') j = Some a.
  Proof.
    intros H Hn Hf. destruct (Nat.eq_dec j i) as [->|Hne].
    - pose proof (specM st i m) as S. rewrite H in S.
      destruct S as (a0 & Hn0 & [[_ ->]|(Hf0 & _)]); auto. congruence.
    - rewrite (finalize_input_other _ _ _ _ _ H Hne). exact Hn.
  Qed.

  Lemma fin_mut_loop_keeps_final m idxs : forall st errs j a,
    nth_error (p_inputs st) j = Some a -> is_final a = true ->
    nth_error (p_inputs (fst (fst (fin_mut_loop try_input m idxs st errs)))) j = Some a.
  Proof.
    induction idxs as [|i r IH]; intros st errs j a Hn Hf; simpl; auto.
    destruct (finalize_inputM st i m) as [st1|e|] eqn:H; simpl; auto.
    apply IH; auto. eapply finalize_input_keeps_final; eauto.
  Qed.

  Lemma fin_old_loop_keeps_final m idxs : forall st j a,
    nth_error (p_inputs st) j = Some a -> is_final a = true ->
    nth_error (p_inputs (fst (fin_old_loop try_input m idxs st))) j = Some a.
  Proof.
    induction idxs as [|i r IH]; intros st j a Hn Hf; simpl; auto.
    destruct (finalize_inputM st i m) as [st1|e|] eqn:H; simpl; auto.
    apply IH; auto. eapply finalize_input_keeps_final; eauto.
  Qed.

  Definition is_finalize_op (o : op) : bool :=
    match o with Finalize _ | FinalizeOld _ | FinalizeInp _ _ | Extract => true | _ => false end.

  (* ================= finalization never alters inputs that are already final =================
     (the WHOLE input, all 21 fields, not only the final fields) *)
  Theorem finalize_preserves_final_inputs : forall st o j a,
    is_finalize_op o = true ->
    nth_error (p_inputs st) j = Some a -> is_final a = true ->
    nth_error (p_inputs (fst (stepM st o))) j = Some a.
  Proof.
    intros st o j a Ho Hn Hf. destruct o; try discriminate; simpl.
    - unfold finalize_mut.
      pose proof (fin_mut_loop_keeps_final mall (seq 0 (length (p_inputs st))) st [] j a Hn Hf) as H.
      destruct (fin_mut_loop try_input mall (seq 0 (length (p_inputs st))) st []) as [[st' es] p].
      simpl in H. destruct p; destruct es; exact H.
    - unfold finalize_old. destruct (sanity_check sig_flag sighash_ecdsa st); simpl; auto.
      apply fin_old_loop_keeps_final; auto.
    - unfold finalize_inp. destruct (length (p_inputs st) <=? i); simpl; auto.
      destruct (finalize_inputM st i (inp_mall mall)) eqn:H; simpl; auto.
      eapply finalize_input_keeps_final; eauto.
    - exact Hn.
  Qed.

  (* ================= fail_untouched (single input API) =================
     a FinalizeInp that does not return Ok leaves the whole PSBT identical *)
  Theorem fail_untouched : forall st i m st' r,
    stepM st (FinalizeInp i m) = (st', r) -> r <> ROk -> st' = st.
  Proof.
    intros st i m st' r H Hr. simpl in H. unfold finalize_inp in H.
    destruct (length (p_inputs st) <=? i); [inversion H; auto|].
    destruct (finalize_inputM st i (inp_mall m)); inversion H; subst; auto. congruence.
  Qed.

  (* and the error it reports is try_input's, evaluated on the untouched state *)
  Theorem fail_reports_try : forall st i m st' e,
    stepM st (FinalizeInp i m) = (st', RInputErr i e) ->
    exists a, nth_error (p_inputs st) i = Some a /\ is_final a = false /\
              try_input st i (inp_mall m) = TErr e.
  Proof.
    intros st i m st' e H. simpl in H. unfold finalize_inp in H.
    destruct (length (p_inputs st) <=? i); [inversion H|].
    pose proof (specM st i (inp_mall m)) as S.
    destruct (finalize_inputM st i (inp_mall m)); inversion H; subst. exact S.
  Qed.

  (* ---- finalize_mut: exact account of one pass *)
  Lemma fin_mut_loop_spec m idxs : NoDup idxs -> forall st errs st' es p,
    fin_mut_loop try_input m idxs st errs = (st', es, p) -> p = false ->
    exists new, es = errs ++ new /\
      (forall i e, In (i, e) new ->
         In i idxs /\ nth_error (p_inputs st') i = nth_error (p_inputs st) i /\
         exists a, nth_error (p_inputs st) i = Some a /\ is_final a = false) /\
      (forall i, ~ In i idxs -> nth_error (p_inputs st') i = nth_error (p_inputs st) i).
  Proof.
    induction 1 as [|i r Hni Hnd IH]; intros st errs st' es p H Hp; simpl in H.
    - inversion H; subst. exists []. rewrite app_nil_r. split; [reflexivity|].
      split; [intros i e Hin; destruct Hin|auto].
    - pose proof (specM st i m) as S.
      destruct (finalize_inputM st i m) as [st1|e|] eqn:Hfi.
      + destruct (IH _ _ _ _ _ H Hp) as (new & -> & Hnew & Hout).
        exists new. split; auto. split.
        * intros j e Hin. destruct (Hnew j e Hin) as (Hjr & Hj & a & Ha & Hfa).
          assert (j <> i) by (intro; subst; auto).
          rewrite (finalize_input_other _ _ _ _ _ Hfi H0) in Hj, Ha.
          split; [right; auto|]. split; auto. eauto.
        * intros j Hj. assert (j <> i) by (intro; subst; apply Hj; left; auto).
          rewrite Hout by (intro; apply Hj; right; auto).
          apply (finalize_input_other _ _ _ _ _ Hfi H0).
      + destruct (IH _ _ _ _ _ H Hp) as (new & -> & Hnew & Hout).
        exists ((i, e) :: new). split. now rewrite <- app_assoc. split.
        * intros j e' [Heq|Hin].
          -- inversion Heq; subst. destruct S as (a & Ha & Hfa & _).
             split; [left; auto|]. split; [apply Hout; auto|]. eauto.
          -- destruct (Hnew j e' Hin) as (Hjr & Hj & Hex). split; [right; auto|]. auto.
        * intros j Hj. apply Hout. intro; apply Hj; right; auto.
      + inversion H; subst. discriminate.
  Qed.

  (* ================= fail_untouched for finalize_mut / finalize_mall_mut =================
     every input reported as failed is bit-identical afterwards (other inputs may have been
     finalized by the same call: the call is atomic per input, not per PSBT) *)
  Theorem finalize_mut_failed_untouched : forall st m st' es,
    stepM st (Finalize m) = (st', RFinErrs es) ->
    forall i e, In (i, e) es ->
      nth_error (p_inputs st') i = nth_error (p_inputs st) i /\
      exists a, nth_error (p_inputs st) i = Some a /\ is_final a = false.
  Proof.
    intros st m st' es H i e Hin. simpl in H. unfold finalize_mut in H.
    destruct (fin_mut_loop try_input m (seq 0 (length (p_inputs st))) st []) as [[st1 es1] p] eqn:L.
    destruct p; [destruct es1; inversion H|].
    assert (st1 = st' /\ es1 = es) as [-> ->] by (destruct es1; inversion H; auto).
    destruct (fin_mut_loop_spec m _ (seq_NoDup _ _) _ _ _ _ _ L eq_refl) as (new & E & Hnew & _).
    simpl in E. subst. destruct (Hnew i e Hin) as (_ & Hn & Hex). auto.
  Qed.

  (* psbt::finalize / finalize_mall (finalize_helper) stop at the first failure: the failing
     input is untouched, inputs before it that could be finalized stay finalized *)
  Lemma fin_old_loop_fail m idxs : NoDup idxs -> forall st st' i e,
    fin_old_loop try_input m idxs st = (st', RInputErr i e) ->
    In i idxs /\ exists a, nth_error (p_inputs st') i = Some a /\ is_final a = false /\
                           try_input st' i m = TErr e.
  Proof.
    induction 1 as [|k r Hni Hnd IH]; intros st st' i e H; simpl in H; [discriminate|].
    pose proof (specM st k m) as S.
    destruct (finalize_inputM st k m) as [st1|e1|] eqn:Hfi.
    - destruct (IH _ _ _ _ H) as (Hin & Hex). split; [right; auto|auto].
    - inversion H; subst. split; [left; auto|]. destruct S as (a & Ha & Hf & Ht). eauto.
    - discriminate.
  Qed.

  (* ================= success_valid (single input) =================
     success stores exactly what try_input returned, keeps the two utxo fields, clears
     every other field, and leaves every other input untouched *)
  Theorem success_valid : forall st i m st' a,
    stepM st (FinalizeInp i m) = (st', ROk) ->
    nth_error (p_inputs st) i = Some a -> is_final a = false ->
    exists s w, try_input st i (inp_mall m) = TOk s w /\
      st' = with_inputs st (set_nth i (cleared a s w) (p_inputs st)) /\
      nth_error (p_inputs st') i = Some (cleared a s w) /\
      (forall j, j <> i -> nth_error (p_inputs st') j = nth_error (p_inputs st) j).
  Proof.
    intros st i m st' a H Hn Hf. simpl in H. unfold finalize_inp in H.
    destruct (length (p_inputs st) <=? i); [inversion H|].
    pose proof (specM st i (inp_mall m)) as S.
    destruct (finalize_inputM st i (inp_mall m)) as [st1|e|]; inversion H; subst.
    destruct S as (a0 & Hn0 & [[Hf0 _]|(_ & s & w & Ht & ->)]); [congruence|].
    assert (a0 = a) by congruence. subst. exists s, w. repeat split; auto.
    - simpl. eapply nth_set_nth_eq; eauto.
    - intros j Hj. simpl. apply nth_set_nth_neq. auto.
  Qed.

  (* the fields of a freshly finalized input, one by one *)
  Theorem cleared_fields : forall a s w,
    let c := cleared a s w in
    i_fsig c = nz s /\ i_fwit c = nz w /\
    i_nwutxo c = i_nwutxo a /\ i_wutxo c = i_wutxo a /\
    i_psigs c = [] /\ i_sighash c = None /\ i_redeem c = None /\ i_witscript c = None /\
    i_bip32 c = [] /\ i_ripemd c = [] /\ i_sha256 c = [] /\ i_hash160 c = [] /\ i_hash256 c = [] /\
    i_tapkeysig c = None /\ i_tapsigs c = [] /\ i_tapscripts c = [] /\ i_taporigins c = [] /\
    i_tapik c = None /\ i_tapmerkle c = None /\ i_prop c = [] /\
    i_unknown c = i_unknown a.
  Proof. intros. repeat split. Qed.

  (* BIP174 (Input Finalizer): "All other data except the UTXO and unknown fields in the
     input key-value map should be cleared": the unknown pairs survive finalization.
     (Refuted with a witness until /repo commit 2847ba9c; `proprietary` pairs are still
     dropped, which BIP174 does not regulate.) *)
  Theorem finalize_keeps_unknown : forall a s w, i_unknown (cleared a s w) = i_unknown a.
  Proof. reflexivity. Qed.

  (* ---- extract *)
  Lemma first_nonfinal_none l : forall i, first_nonfinal i l = None -> forall a, In a l -> is_final a = true.
  Proof.
    induction l as [|x r IH]; intros i H a Hin; [destruct Hin|]. simpl in H.
    destruct (is_final x) eqn:Hx; [|discriminate]. destruct Hin as [->|Hin]; eauto.
  Qed.

  Theorem extract_spec : forall st l,
    extract interp_check sig_flag sighash_ecdsa st = RExtracted l ->
    l = finals st /\ (forall a, In a (p_inputs st) -> is_final a = true) /\
    interp_check st = None /\ sanity_check sig_flag sighash_ecdsa st = None.
  Proof.
    intros st l H. unfold extract in H.
    destruct (sanity_check sig_flag sighash_ecdsa st) eqn:Hs.
    - unfold sanity_check in Hs. destruct (negb (p_ntx st =? length (p_inputs st))); [inversion Hs; subst; discriminate|].
      destruct (sanity_inputs sig_flag sighash_ecdsa 0 (p_inputs st)) as [[? ?]|]; inversion Hs; subst; discriminate.
    - destruct (first_nonfinal 0 (p_inputs st)) eqn:Hf; [discriminate|].
      destruct (interp_check st) as [[? ?]|] eqn:Hi; [discriminate|].
      inversion H; subst. repeat split; auto. eapply first_nonfinal_none; eauto.
  Qed.

  Theorem extract_pure : forall st, fst (stepM st Extract) = st.
  Proof. reflexivity. Qed.

  (* ---- no reachable panic site: finalize_input's `psbt.inputs[index]` is guarded by every caller *)
  Lemma fin_mut_loop_no_panic m idxs : forall st errs,
    (forall i, In i idxs -> i < length (p_inputs st)) ->
    snd (fin_mut_loop try_input m idxs st errs) = false.
  Proof.
    induction idxs as [|i r IH]; intros st errs Hlt; simpl; auto.
    pose proof (specM st i m) as S.
    destruct (finalize_inputM st i m) as [st1|e|] eqn:Hfi.
    - apply IH. intros j Hj. rewrite (sreach_length _ _ (finalize_input_sreach _ _ _ _ _ Hfi)).
      apply Hlt; right; auto.
    - apply IH. intros j Hj. apply Hlt; right; auto.
    - specialize (Hlt i (or_introl eq_refl)). lia.
  Qed.

  Lemma fin_old_loop_no_panic m idxs : forall st,
    (forall i, In i idxs -> i < length (p_inputs st)) ->
    forall s, snd (fin_old_loop try_input m idxs st) <> RPanic s.
  Proof.
    induction idxs as [|i r IH]; intros st Hlt s; simpl; [discriminate|].
    pose proof (specM st i m) as S.
    destruct (finalize_inputM st i m) as [st1|e|] eqn:Hfi; simpl.
    - apply IH. intros j Hj. rewrite (sreach_length _ _ (finalize_input_sreach _ _ _ _ _ Hfi)).
      apply Hlt; right; auto.
    - discriminate.
    - specialize (Hlt i (or_introl eq_refl)). lia.
  Qed.

  Theorem step_no_panic : forall st o s, snd (stepM st o) <> RPanic s.
  Proof.
    intros st o s. destruct o; simpl;
      try (unfold on_input; destruct (nth_error (p_inputs st) i); simpl; discriminate).
    - unfold update_input. destruct (nth_error (p_inputs st) i); simpl; try discriminate.
      destruct (p_ntx st <=? i); simpl; try discriminate.
      destruct (match i_nwutxo p with Some nw => negb (nw_txid_ok nw) | None => false end); simpl; try discriminate.
      destruct (expected_spk p (d_segwit (desc_info d))); simpl; try discriminate.
      destruct (negb (n =? d_spk (desc_info d))%N); simpl; discriminate.
    - unfold finalize_mut.
      pose proof (fin_mut_loop_no_panic mall (seq 0 (length (p_inputs st))) st []) as H.
      destruct (fin_mut_loop try_input mall (seq 0 (length (p_inputs st))) st []) as [[st' es] p].
      simpl in H. rewrite H. destruct es; simpl; discriminate.
      intros i Hi. apply in_seq in Hi. lia.
    - unfold finalize_old. destruct (sanity_check sig_flag sighash_ecdsa st) eqn:Hs; simpl.
      + unfold sanity_check in Hs. destruct (negb (p_ntx st =? length (p_inputs st))); [inversion Hs; discriminate|].
        destruct (sanity_inputs sig_flag sighash_ecdsa 0 (p_inputs st)) as [[? ?]|]; inversion Hs; discriminate.
      + apply fin_old_loop_no_panic. intros i Hi. apply in_seq in Hi. lia.
    - unfold finalize_inp. destruct (Nat.leb_spec (length (p_inputs st)) i); simpl; [discriminate|].
      pose proof (specM st i (inp_mall mall)) as S.
      destruct (finalize_inputM st i (inp_mall mall)); simpl; try discriminate. lia.
    - unfold extract. destruct (sanity_check sig_flag sighash_ecdsa st) eqn:Hs.
      + unfold sanity_check in Hs. destruct (negb (p_ntx st =? length (p_inputs st))); [inversion Hs; discriminate|].
        destruct (sanity_inputs sig_flag sighash_ecdsa 0 (p_inputs st)) as [[? ?]|]; inversion Hs; discriminate.
      + destruct (first_nonfinal 0 (p_inputs st)); try discriminate.
        destruct (interp_check st) as [[? ?]|]; discriminate.
  Qed.
End Atomic.
