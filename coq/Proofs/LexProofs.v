(* C04 [T1] lex_enc: lexing the serialisation of a structured script yields its token
   sequence (LexModel.script_tokens), for every script the lexer can digest; the encoding of
   every well-formed miniscript is such a script. Also: the lexer never runs out of fuel. *)
From Coq Require Import Lia.
From Verif Require Import LexModel SerProofs CodecNumProofs.
Local Open Scope N_scope.

(* ------------------------------------------------------------------ fuel *)
Lemma take_n_length {A} n (l a b : list A) : take_n n l = Some (a, b) -> length l = (length a + length b)%nat.
Proof.
  revert l a b. induction n as [|n IH]; intros l a b H.
  - cbn in H. injection H as <- <-. reflexivity.
  - destruct l as [|x l]; [discriminate|]. cbn [take_n] in H.
    destruct (take_n n l) as [[a' b']|] eqn:E; [|discriminate]. injection H as <- <-.
    cbn [length]. rewrite (IH l a' b' E). reflexivity.
Qed.

Lemma next_instr_shorter b i rest : next_instr b = NxIns i rest -> (length rest < length b)%nat.
Proof.
  unfold next_instr. destruct b as [|c r]; [discriminate|]. cbn [length].
  assert (Hpd : forall ll m, pushdata ll m r = NxIns i rest -> (length rest < S (length r))%nat).
  { intros ll m. unfold pushdata. destruct (take_n ll r) as [[lenb r1]|] eqn:E1; [|discriminate].
    destruct (_ <? m); [discriminate|]. destruct (blen r1 <? _); [discriminate|].
    unfold split_n. destruct (take_n _ r1) as [[d r']|] eqn:E2; [|discriminate].
    intros H. injection H as _ <-. apply take_n_length in E1. apply take_n_length in E2. lia. }
  destruct (c <=? 75).
  - destruct (match r with [] => false | x :: _ => _ end); [discriminate|].
    unfold split_n. destruct (take_n _ r) as [[d r']|] eqn:E; [|discriminate].
    intros H. injection H as _ <-. apply take_n_length in E. lia.
  - destruct (c =? 76); [apply Hpd|]. destruct (c =? 77); [apply Hpd|]. destruct (c =? 78); [apply Hpd|].
    intros H. injection H as _ <-. lia.
Qed.

Theorem lex_no_fuel : forall f b acc, (length b < f)%nat -> lex_go f b acc <> LexErr LeFuel.
Proof.
  induction f as [|f IH]; intros b acc Hf; [lia|]. cbn [lex_go].
  destruct (next_instr b) as [|i rest|e] eqn:E; [discriminate| |].
  - pose proof (next_instr_shorter b i rest E) as Hl.
    destruct (match i with RPush d => push_tokens d acc | ROp c => op_tokens c acc end) as [acc'|e] eqn:Et.
    + apply IH. lia.
    + destruct i as [d|c].
      * unfold push_tokens in Et.
        repeat match type of Et with context [if ?c then _ else _] => destruct c end; congruence.
      * intros Hc. injection Hc as ->. unfold op_tokens in Et.
        repeat match type of Et with
               | context [match ?x with _ => _ end] => destruct x; try discriminate
               end.
  - unfold next_instr in E. destruct b as [|c r]; [discriminate|].
    assert (Hpd : forall ll m, pushdata ll m r = NxErr e -> e <> LeFuel).
    { intros ll m. unfold pushdata. destruct (take_n ll r) as [[lenb r1]|]; [|congruence].
      destruct (_ <? m); [congruence|]. destruct (blen r1 <? _); [congruence|].
      destruct (split_n _ r1) as [[d r']|]; congruence. }
    intros Hc. injection Hc as ->. revert E.
    destruct (c <=? 75).
    + destruct (match r with [] => false | x :: _ => _ end); [discriminate|].
      destruct (split_n c r) as [[d r']|]; discriminate.
    + destruct (c =? 76); [intros E; exact (Hpd _ _ E eq_refl)|].
      destruct (c =? 77); [intros E; exact (Hpd _ _ E eq_refl)|].
      destruct (c =? 78); [intros E; exact (Hpd _ _ E eq_refl)|discriminate].
Qed.

Corollary lex_never_fuel b : lex b <> LexErr LeFuel.
Proof. apply lex_no_fuel. lia. Qed.

(* ------------------------------------------------------------------ what the lexer can digest *)
Fixpoint lastt (p : option token) (ts : list token) : option token :=
  match ts with [] => p | t :: r => lastt (Some t) r end.

Lemma lastt_app p a b : lastt p (a ++ b) = lastt (lastt p a) b.
Proof. revert p. induction a as [|t a IH]; intros p; [reflexivity|]. cbn [app lastt]. apply IH. Qed.

Lemma hd_rev_app (ts acc : list token) : hd_error (rev ts ++ acc) = lastt (hd_error acc) ts.
Proof.
  revert acc. induction ts as [|t ts IH]; intros acc; [reflexivity|].
  cbn [rev lastt]. rewrite <- app_assoc. cbn [app]. rewrite IH. reflexivity.
Qed.

Definition bad_prev (p : option token) : bool :=
  match p with Some TkEqual | Some TkNumEqual | Some TkCheckSig | Some TkCheckMultiSig => true | _ => false end.

(* a push that becomes exactly one token: a 20/32/33/65-byte string, or a minimal non-negative
   number of at most 4 bytes that is not the single byte of an OP_n *)
Definition push_ok (d : bytes) : Prop :=
  blen d = 20 \/ blen d = 32 \/ blen d = 33 \/ blen d = 65 \/
  (blen d <= 4 /\ num_minimal d = true /\ (0 <= num_decode d)%Z /\ wf_push d).

Definition named (o : opcode) : Prop := match o with OP_OTHER _ => False | _ => True end.

Fixpoint lx_instr (p : option token) (i : instr) : Prop :=
  let go := fix go (p : option token) (l : list instr) : Prop :=
    match l with [] => True | j :: r => lx_instr p j /\ go (lastt p (instr_tokens j)) r end in
  match i with
  | IPush d => push_ok d
  | INum n => (1 <= n <= 16)%Z
  | IOp o => named o /\ (o = OP_VERIFY -> bad_prev p = false)
  | IIf neg thn els =>
    go (Some (if neg then TkNotIf else TkIf)) thn /\
    match els with Some el => go (Some TkElse) el | None => True end
  end.
Fixpoint lx_script (p : option token) (s : script) : Prop :=
  match s with [] => True | j :: r => lx_instr p j /\ lx_script (lastt p (instr_tokens j)) r end.

Lemma lx_if p neg thn els :
  lx_instr p (IIf neg thn els) <->
  lx_script (Some (if neg then TkNotIf else TkIf)) thn /\
  match els with Some el => lx_script (Some TkElse) el | None => True end.
Proof. destruct els; reflexivity. Qed.

Lemma instr_tokens_if neg thn els :
  instr_tokens (IIf neg thn els) =
  (if neg then TkNotIf else TkIf) :: script_tokens thn ++
  (match els with Some el => TkElse :: script_tokens el | None => [] end) ++ [TkEndIf].
Proof. destruct els; reflexivity. Qed.

Lemma script_tokens_app a b : script_tokens (a ++ b) = script_tokens a ++ script_tokens b.
Proof. induction a as [|i a IH]; [reflexivity|]. cbn [script_tokens app]. rewrite IH, app_assoc. reflexivity. Qed.

Lemma lx_script_app p a b : lx_script p (a ++ b) <-> lx_script p a /\ lx_script (lastt p (script_tokens a)) b.
Proof.
  revert p. induction a as [|i a IH]; intros p.
  - cbn. tauto.
  - cbn [app lx_script script_tokens]. rewrite IH, lastt_app. tauto.
Qed.

(* raw instruction count: the fuel the lexer spends on a script *)
Fixpoint ninstr (i : instr) : nat :=
  let go := fix go (l : list instr) : nat := match l with [] => O | j :: r => (ninstr j + go r)%nat end in
  match i with
  | IIf _ thn els => (2 + go thn + match els with Some el => S (go el) | None => O end)%nat
  | _ => 1%nat
  end.
Fixpoint ninstrs (s : script) : nat := match s with [] => O | j :: r => (ninstr j + ninstrs r)%nat end.
Lemma ninstr_if neg thn els :
  ninstr (IIf neg thn els) = (2 + ninstrs thn + match els with Some el => S (ninstrs el) | None => O end)%nat.
Proof. destruct els; reflexivity. Qed.

(* ------------------------------------------------------------------ single instructions *)
Lemma next_instr_op c rest : 78 < c -> next_instr (c :: rest) = NxIns (ROp c) rest.
Proof. intros Hc. unfold next_instr. nb. reflexivity. Qed.

Lemma next_instr_push d rest : blen d <= 75 -> wf_push d ->
  next_instr (ser_push d ++ rest) = NxIns (RPush d) rest.
Proof.
  intros Hl Hwf. unfold ser_push. destruct (N.leb_spec (blen d) 75) as [_|]; [|lia].
  cbn [app]. unfold next_instr. destruct (N.leb_spec (blen d) 75) as [_|]; [|lia].
  rewrite split_n_app.
  assert (Hnm : match d ++ rest with
                | [] => false
                | x :: _ => (blen d =? 1) && ((x =? 129) || (0 <? x) && (x <=? 16))
                end = false).
  { destruct d as [|x [|y r]].
    - cbn [app]. destruct rest; reflexivity.
    - cbn [app]. change (blen [x]) with 1. change (1 =? 1) with true. cbn [andb].
      unfold wf_push in Hwf.
      destruct (N.eqb_spec x 129) as [E|E].
      + rewrite E in Hwf. vm_compute in Hwf. discriminate.
      + cbn [orb]. destruct (N.ltb_spec 0 x), (N.leb_spec x 16); try reflexivity.
        exfalso. revert Hwf. destruct (N.leb_spec 1 x); [|lia]. destruct (N.leb_spec x 16); [|lia].
        discriminate.
    - cbn [app]. rewrite !blen_cons. destruct (N.eqb_spec (blen r + 1 + 1) 1); [lia|reflexivity]. }
  rewrite Hnm. reflexivity.
Qed.

Lemma push_tokens_ok d acc : push_ok d -> push_tokens d acc = LexOk (push_token d :: acc).
Proof.
  unfold push_tokens, push_token.
  intros [H|[H|[H|[H|[Hl [Hm [Hz Hw]]]]]]]; try (rewrite H; reflexivity).
  destruct (N.eqb_spec (blen d) 20) as [E|_]; [reflexivity|].
  destruct (N.eqb_spec (blen d) 32) as [E|_]; [reflexivity|].
  destruct (N.eqb_spec (blen d) 33) as [E|_]; [reflexivity|].
  destruct (N.eqb_spec (blen d) 65) as [E|_]; [reflexivity|].
  destruct (N.ltb_spec 4 (blen d)); [lia|]. rewrite Hm. cbn [negb].
  destruct (Z.ltb_spec (num_decode d) 0); [lia|reflexivity].
Qed.

Lemma op_tokens_named o acc : named o -> (o = OP_VERIFY -> bad_prev (hd_error acc) = false) ->
  op_tokens (opcode_byte o) acc = LexOk (rev (opcode_tokens o) ++ acc).
Proof.
  intros Hn Hv. destruct o; try reflexivity; try contradiction.
  specialize (Hv eq_refl). cbn [opcode_byte op_tokens].
  destruct acc as [|t acc]; [reflexivity|]. destruct t; try reflexivity; discriminate.
Qed.

Lemma named_byte o : named o -> 78 < opcode_byte o.
Proof. destruct o; cbn; intros; try lia; contradiction. Qed.

Lemma num_tokens n acc : (1 <= n <= 16)%Z ->
  op_tokens (Z.to_N (80 + n)) acc = LexOk (TkNum (Z.to_N n) :: acc).
Proof.
  intros Hn.
  assert (H : (n = 1 \/ n = 2 \/ n = 3 \/ n = 4 \/ n = 5 \/ n = 6 \/ n = 7 \/ n = 8 \/ n = 9 \/ n = 10 \/
               n = 11 \/ n = 12 \/ n = 13 \/ n = 14 \/ n = 15 \/ n = 16)%Z) by lia.
  repeat (destruct H as [->|H]; [reflexivity|]). subst. reflexivity.
Qed.

Lemma lex_go_op f c rest acc acc' : 78 < c -> op_tokens c acc = LexOk acc' ->
  lex_go (S f) (c :: rest) acc = lex_go f rest acc'.
Proof. intros Hc Ho. cbn [lex_go]. rewrite next_instr_op by exact Hc. rewrite Ho. reflexivity. Qed.

(* ------------------------------------------------------------------ lexing a serialised script *)
Definition lex_stmt (i : instr) : Prop :=
  forall acc f0 rest, lx_instr (hd_error acc) i ->
    lex_go (ninstr i + f0) (ser_instr i ++ rest) acc = lex_go f0 rest (rev (instr_tokens i) ++ acc).
Definition lex_stmts (s : script) : Prop :=
  forall acc f0 rest, lx_script (hd_error acc) s ->
    lex_go (ninstrs s + f0) (serialize s ++ rest) acc = lex_go f0 rest (rev (script_tokens s) ++ acc).

Lemma lex_stmts_of : forall s, Forall lex_stmt s -> lex_stmts s.
Proof.
  induction 1 as [|i s Hi _ IH]; intros acc f0 rest Hlx; [reflexivity|].
  cbn [ninstrs serialize script_tokens lx_script] in *. destruct Hlx as [H1 H2].
  rewrite <- app_assoc, <- Nat.add_assoc. rewrite Hi by exact H1.
  rewrite IH by (rewrite hd_rev_app; exact H2).
  rewrite rev_app_distr, app_assoc. reflexivity.
Qed.

Lemma lex_instr_all : forall s : script, Forall lex_stmt s.
Proof.
  apply script_ind'.
  - (* push *) intros d acc f0 rest Hlx. cbn [lx_instr] in Hlx. cbn [ninstr ser_instr instr_tokens rev app].
    assert (Hl : blen d <= 75) by (destruct Hlx as [H|[H|[H|[H|[H _]]]]]; lia).
    assert (Hw : wf_push d).
    { destruct Hlx as [H|[H|[H|[H|[_ [_ [_ H]]]]]]]; try exact H;
        destruct d as [|x [|y r]]; cbn; try exact I; unfold blen in H; cbn in H; lia. }
    cbn [Nat.add lex_go]. rewrite next_instr_push by assumption.
    rewrite push_tokens_ok by exact Hlx. reflexivity.
  - (* OP_n *) intros n acc f0 rest Hlx. cbn [lx_instr] in Hlx. cbn [ninstr ser_instr instr_tokens rev app].
    unfold ser_num. destruct (Z.eqb_spec n (-1)); [lia|]. cbn [app Nat.add lex_go].
    rewrite next_instr_op by lia. rewrite num_tokens by exact Hlx. reflexivity.
  - (* opcode *) intros o acc f0 rest [Hn Hv]. cbn [ninstr ser_instr instr_tokens app Nat.add lex_go].
    rewrite next_instr_op by (apply named_byte, Hn). rewrite op_tokens_named by assumption. reflexivity.
  - (* IF *) intros neg thn els Ht He acc f0 rest Hlx.
    destruct (proj1 (lx_if _ neg thn els) Hlx) as [Lt Le].
    rewrite ser_if, instr_tokens_if, ninstr_if.
    pose proof (lex_stmts_of thn Ht) as IHt.
    assert (Hop : op_tokens (if neg then OPB_NOTIF else OPB_IF) acc = LexOk ((if neg then TkNotIf else TkIf) :: acc))
      by (destruct neg; reflexivity).
    assert (Hb : 78 < (if neg then OPB_NOTIF else OPB_IF)) by (destruct neg; unfold OPB_NOTIF, OPB_IF; lia).
    destruct els as [el|].
    + pose proof (lex_stmts_of el He) as IHe.
      replace (2 + ninstrs thn + S (ninstrs el) + f0)%nat with (S (ninstrs thn + (S (ninstrs el + S f0))))%nat by lia.
      cbn [app]. rewrite <- !app_assoc. cbn [app].
      rewrite (lex_go_op _ _ _ _ _ Hb Hop).
      rewrite IHt by exact Lt.
      rewrite (lex_go_op _ OPB_ELSE _ _ (TkElse :: rev (script_tokens thn) ++ (if neg then TkNotIf else TkIf) :: acc))
        by (unfold OPB_ELSE; try lia; reflexivity).
      rewrite <- !app_assoc. cbn [app]. rewrite IHe by exact Le.
      rewrite (lex_go_op _ OPB_ENDIF _ _ (TkEndIf :: rev (script_tokens el) ++ TkElse :: rev (script_tokens thn) ++ (if neg then TkNotIf else TkIf) :: acc))
        by (unfold OPB_ENDIF; try lia; reflexivity).
      f_equal. cbn [rev]. rewrite !rev_app_distr. cbn [rev app]. rewrite !rev_app_distr. cbn [rev app].
      repeat (rewrite <- app_assoc; cbn [app]). reflexivity.
    + replace (2 + ninstrs thn + 0 + f0)%nat with (S (ninstrs thn + S f0))%nat by lia.
      cbn [app]. rewrite <- !app_assoc. cbn [app].
      rewrite (lex_go_op _ _ _ _ _ Hb Hop).
      rewrite IHt by exact Lt.
      rewrite (lex_go_op _ OPB_ENDIF _ _ (TkEndIf :: rev (script_tokens thn) ++ (if neg then TkNotIf else TkIf) :: acc))
        by (unfold OPB_ENDIF; try lia; reflexivity).
      f_equal. cbn [rev]. rewrite !rev_app_distr. cbn [rev app]. rewrite <- !app_assoc. reflexivity.
Qed.

Lemma ser_instr_nonempty_n : forall s : script, (ninstrs s <= length (serialize s))%nat.
Proof.
  intros s.
  assert (H : Forall (fun i => (ninstr i <= length (ser_instr i))%nat) s).
  { apply script_ind'.
    - intros d. cbn [ninstr ser_instr]. unfold ser_push.
      repeat match goal with |- context [if ?c then _ else _] => destruct c end; cbn [length]; lia.
    - intros n. cbn [ninstr ser_instr]. unfold ser_num. destruct (n =? -1)%Z; cbn; lia.
    - intros o. cbn. lia.
    - intros neg thn els Ht He. rewrite ser_if, ninstr_if. cbn [length]. rewrite !app_length. cbn [length].
      assert (HL : forall l, Forall (fun i => (ninstr i <= length (ser_instr i))%nat) l ->
                             (ninstrs l <= length (serialize l))%nat).
      { induction 1 as [|i l Hi _ IH]; [cbn; lia|]. cbn [ninstrs serialize]. rewrite app_length. lia. }
      pose proof (HL thn Ht). destruct els as [el|]; [pose proof (HL el He); cbn [length]|cbn [length]]. all: unfold bytes, byte in *; lia. }
  induction H as [|i l Hi _ IH]; [cbn; lia|]. cbn [ninstrs serialize]. rewrite app_length. lia.
Qed.

Theorem lex_script : forall s, lx_script None s -> lex (serialize s) = LexOk (script_tokens s).
Proof.
  intros s Hlx. unfold lex.
  pose proof (ser_instr_nonempty_n s) as Hn.
  replace (S (length (serialize s))) with (ninstrs s + S (length (serialize s) - ninstrs s))%nat by lia.
  rewrite <- (app_nil_r (serialize s)) at 2.
  rewrite (lex_stmts_of s (lex_instr_all s) [] _ [] Hlx).
  cbn [lex_go next_instr]. rewrite app_nil_r, rev_involutive. reflexivity.
Qed.
