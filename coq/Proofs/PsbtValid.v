(* C14: provenance of final fields over whole histories.  Every final field that appears
   during a history was either there from the start or is the result of a successful
   try_input on a state with the same transaction and the same utxos; with the soundness of
   try_input (C01/C13) every final input is a valid spend, and so is every extracted tx. *)
From Coq Require Import List Bool NArith Arith Lia.
Import ListNotations.
From Verif Require Import PsbtModel PsbtLemmas PsbtReach PsbtAtomic.

Section Valid.
  Variable try_input : psbt -> nat -> bool -> tryres.
  Variable interp_check : psbt -> option (nat * N).
  Variable desc_info : N -> dinfo.
  Variable sig_flag : N -> option N.
  Variable sighash_ecdsa : N -> option N.
  Variable inp_mall : bool -> bool.

  Notation stepM := (step try_input interp_check desc_info sig_flag sighash_ecdsa inp_mall).
  Notation runM := (run try_input interp_check desc_info sig_flag sighash_ecdsa inp_mall).
  Notation finalize_inputM := (finalize_input try_input).
  Notation specM := (finalize_input_spec try_input).

  Definition istepT (st : psbt) (i : nat) (a a' : pinput) : Prop :=
    utxos_of a' = utxos_of a /\
    (finals_of a' = finals_of a \/
     (is_final a = false /\ get_utxo a <> None /\ exists st1 m s w,
        sreach st st1 /\ try_input st1 i m = TOk s w /\ finals_of a' = (nz s, nz w))).

  Lemma get_utxo_utxos a b : utxos_of a = utxos_of b -> get_utxo a = get_utxo b.
  Proof. unfold utxos_of, get_utxo. intros H; inversion H. now rewrite H1, H2. Qed.

  Definition sstepT (st st' : psbt) : Prop :=
    sreach st st' /\
    forall i a', nth_error (p_inputs st') i = Some a' ->
                 exists a, nth_error (p_inputs st) i = Some a /\ istepT st i a a'.

  Lemma sstepT_refl st : sstepT st st.
  Proof. split. apply sreach_refl. intros i a H. exists a. split; auto. split; auto. Qed.

  Lemma sstepT_trans a b c : sstepT a b -> sstepT b c -> sstepT a c.
  Proof.
    intros [R1 P1] [R2 P2]. split. eapply sreach_trans; eauto.
    intros i z Hz. destruct (P2 i z Hz) as (y & Hy & U2 & S2). destruct (P1 i y Hy) as (x & Hx & U1 & S1).
    exists x. split; auto. split; [congruence|].
    destruct S2 as [E2|(F2 & G2 & st1 & m & s & w & Rb & T & E2)].
    - destruct S1 as [E1|(F1 & G1 & st1 & m & s & w & Ra & T & E1)].
      + left. congruence.
      + right. split; auto. split; auto. exists st1, m, s, w. split; auto. split; auto.
        rewrite E2. exact E1.
    - right. split; [|split].
      + destruct S1 as [E1|(F1 & _)]; auto. rewrite <- (is_final_finals _ _ E1). exact F2.
      + rewrite <- (get_utxo_utxos _ _ U1). exact G2.
      + exists st1, m, s, w. split; [eapply sreach_trans; eauto|]. split; auto.
  Qed.

  Lemma sstepT_set st i a x :
    nth_error (p_inputs st) i = Some a -> ireach a x -> istepT st i a x ->
    sstepT st (with_inputs st (set_nth i x (p_inputs st))).
  Proof.
    intros Hn Hr Hs. split. eapply sreach_set; eauto.
    intros k a' Hk. simpl in Hk. destruct (Nat.eq_dec k i) as [->|Hne].
    - rewrite (nth_set_nth_eq _ _ _ _ Hn) in Hk. inversion Hk; subst. eauto.
    - rewrite nth_set_nth_neq in Hk by auto. exists a'. split; auto. split; auto.
  Qed.

  Lemma finalize_input_sstepT st i m st' : finalize_inputM st i m = FOk st' -> sstepT st st'.
  Proof.
    intros H. pose proof (specM st i m) as S. rewrite H in S.
    destruct S as (a & Hn & [[_ ->]|(Hf & s & w & Ht & ->)] & Hu).
    - apply sstepT_refl.
    - eapply sstepT_set; eauto using ireach_cleared.
      split; [reflexivity|]. right. split; auto. split; auto. exists st, m, s, w. split; [apply sreach_refl|]. split; auto.
  Qed.

  Lemma on_input_sstepT st i f :
    (forall a, finals_of (f a) = finals_of a /\ utxos_of (f a) = utxos_of a) ->
    sstepT st (fst (on_input st i f)).
  Proof.
    intros Hf. unfold on_input. destruct (nth_error (p_inputs st) i) as [a|] eqn:Hn; simpl.
    - destruct (Hf a). eapply sstepT_set; eauto. apply ireach_frame; auto. split; auto.
    - apply sstepT_refl.
  Qed.

  Lemma fin_mut_loop_sstepT m idxs : forall st errs,
    sstepT st (fst (fst (fin_mut_loop try_input m idxs st errs))).
  Proof.
    induction idxs as [|i r IH]; intros st errs; simpl.
    - apply sstepT_refl.
    - destruct (finalize_inputM st i m) as [st'|e|] eqn:H.
      + eapply sstepT_trans. eapply finalize_input_sstepT; eauto. apply IH.
      + apply IH.
      + apply sstepT_refl.
  Qed.

  Lemma fin_old_loop_sstepT m idxs : forall st, sstepT st (fst (fin_old_loop try_input m idxs st)).
  Proof.
    induction idxs as [|i r IH]; intros st; simpl.
    - apply sstepT_refl.
    - destruct (finalize_inputM st i m) as [st'|e|] eqn:H; simpl.
      + eapply sstepT_trans. eapply finalize_input_sstepT; eauto. apply IH.
      + apply sstepT_refl.
      + apply sstepT_refl.
  Qed.

  Lemma step_sstepT st o : sstepT st (fst (stepM st o)).
  Proof.
    destruct o; simpl.
    - apply on_input_sstepT. intros a; split; reflexivity.
    - apply on_input_sstepT. intros a; split; reflexivity.
    - apply on_input_sstepT. intros a; split; reflexivity.
    - apply on_input_sstepT. intros a; destruct hk; split; reflexivity.
    - apply on_input_sstepT. intros a; split; reflexivity.
    - apply on_input_sstepT. intros a; apply apply_update_frame.
    - apply on_input_sstepT. intros a; split; reflexivity.
    - apply on_input_sstepT. intros a; split; reflexivity.
    - unfold update_input. destruct (nth_error (p_inputs st) i) as [a|] eqn:Hn; [|apply sstepT_refl].
      destruct (p_ntx st <=? i); [apply sstepT_refl|].
      destruct (match i_nwutxo a with Some nw => negb (nw_txid_ok nw) | None => false end); [apply sstepT_refl|].
      destruct (expected_spk a (d_segwit (desc_info d))); [|apply sstepT_refl].
      destruct (negb (n =? d_spk (desc_info d))%N); [apply sstepT_refl|]. simpl.
      destruct (apply_update_frame a (desc_info d)).
      eapply sstepT_set; eauto. apply ireach_frame; auto. split; auto.
    - unfold finalize_mut.
      pose proof (fin_mut_loop_sstepT mall (seq 0 (length (p_inputs st))) st []) as H.
      destruct (fin_mut_loop try_input mall (seq 0 (length (p_inputs st))) st []) as [[st' es] p].
      simpl in H. destruct p; destruct es; exact H.
    - unfold finalize_old. destruct (sanity_check sig_flag sighash_ecdsa st); [apply sstepT_refl|].
      apply fin_old_loop_sstepT.
    - unfold finalize_inp. destruct (length (p_inputs st) <=? i); [apply sstepT_refl|].
      destruct (finalize_inputM st i (inp_mall mall)) eqn:H; simpl; try apply sstepT_refl.
      eapply finalize_input_sstepT; eauto.
    - apply sstepT_refl.
  Qed.

  Lemma run_sstepT ops : forall st, sstepT st (runM ops st).
  Proof.
    induction ops as [|o r IH]; intros st; simpl.
    - apply sstepT_refl.
    - eapply sstepT_trans. apply step_sstepT. apply IH.
  Qed.

  (* ================= provenance =================
     a final field seen after any history is the initial one, or a try_input success *)
  Theorem finals_provenance : forall ops st i a',
    nth_error (p_inputs (runM ops st)) i = Some a' -> is_final a' = true ->
    exists a, nth_error (p_inputs st) i = Some a /\
      ((is_final a = true /\ finals_of a' = finals_of a) \/
       (is_final a = false /\ exists st1 m s w,
          p_tx st1 = p_tx st /\ map utxos_of (p_inputs st1) = map utxos_of (p_inputs st) /\
          try_input st1 i m = TOk s w /\ i_fsig a' = nz s /\ i_fwit a' = nz w)).
  Proof.
    intros ops st i a' Hn Hf. destruct (run_sstepT ops st) as [_ P].
    destruct (P i a' Hn) as (a & Ha & _ & [E|(Fa & _ & st1 & m & s & w & R & T & E)]); exists a; split; auto.
    - left. split; auto. rewrite <- (is_final_finals _ _ E). exact Hf.
    - right. split; auto. exists st1, m, s, w. pose proof (sreach_utxos _ _ R) as U.
      destruct R as (Tx & _ & F). inversion E.
      split; [exact Tx|]. split; [exact U|]. split; [exact T|]. split; reflexivity.
  Qed.

  (* ================= an input whose spent output cannot be found is never finalized ========
     get_utxo a = None covers: no utxo field; a non_witness_utxo that is not the transaction the
     outpoint names; an outpoint beyond its outputs - whatever a witness_utxo next to it says.
     Over ANY history such an input stays non-final (and its utxo fields stay as they are). *)
  Theorem bad_utxo_never_final : forall ops st i a,
    nth_error (p_inputs st) i = Some a -> is_final a = false -> get_utxo a = None ->
    exists a', nth_error (p_inputs (runM ops st)) i = Some a' /\ is_final a' = false /\ get_utxo a' = None.
  Proof.
    intros ops st i a Hn Hf Hu. destruct (run_sstepT ops st) as [R P].
    destruct R as (_ & _ & F). destruct (Forall2_nth _ _ _ _ _ F Hn) as (a' & Hn' & _).
    exists a'. split; auto. destruct (P i a' Hn') as (a0 & Ha0 & U & S).
    assert (a0 = a) by congruence. subst a0. split.
    - destruct S as [E|(_ & G & _)]; [|congruence]. rewrite (is_final_finals _ _ E). exact Hf.
    - rewrite (get_utxo_utxos _ _ U). exact Hu.
  Qed.

  (* ---- with the soundness of try_input *)
  Variable spends : N -> list (option nwutxo * option txout) -> nat -> option N -> option N -> Prop.

  Definition try_sound : Prop :=
    forall st i m s w, try_input st i m = TOk s w ->
      spends (p_tx st) (map utxos_of (p_inputs st)) i (nz s) (nz w).

  Definition valid (st : psbt) : Prop :=
    forall i a, nth_error (p_inputs st) i = Some a -> is_final a = true ->
      spends (p_tx st) (map utxos_of (p_inputs st)) i (i_fsig a) (i_fwit a).

  Hypothesis Hsound : try_sound.

  (* ================= success_valid over whole histories ================= *)
  Theorem all_finals_valid : forall ops st, valid st -> valid (runM ops st).
  Proof.
    intros ops st V i a' Hn Hf.
    destruct (utxos_invariant try_input interp_check desc_info sig_flag sighash_ecdsa inp_mall ops st)
      as (Tx & _ & U).
    rewrite Tx, U.
    destruct (finals_provenance ops st i a' Hn Hf) as (a & Ha & [[Fa E]|(Fa & st1 & m & s & w & T1 & U1 & T & Es & Ew)]).
    - inversion E. rewrite H0, H1. apply V; auto.
    - rewrite Es, Ew, <- T1, <- U1. apply Hsound with (m := m). exact T.
  Qed.

  Theorem extracted_valid : forall ops st l,
    valid st ->
    extract interp_check sig_flag sighash_ecdsa (runM ops st) = RExtracted l ->
    length l = length (p_inputs st) /\
    forall i s w, nth_error l i = Some (s, w) ->
      spends (p_tx st) (map utxos_of (p_inputs st)) i s w.
  Proof.
    intros ops st l V H.
    destruct (extract_spec interp_check sig_flag sighash_ecdsa _ _ H) as (-> & Hall & _ & _).
    pose proof (all_finals_valid ops st V) as V'.
    destruct (utxos_invariant try_input interp_check desc_info sig_flag sighash_ecdsa inp_mall ops st)
      as (Tx & _ & U).
    split.
    - unfold finals. rewrite map_length. apply sreach_length. apply run_sreach.
    - intros i s w Hi. unfold finals in Hi. rewrite nth_error_map in Hi.
      destruct (nth_error (p_inputs (runM ops st)) i) as [a|] eqn:Ha; [|discriminate].
      inversion Hi; subst. rewrite <- Tx, <- U. apply V'; auto. apply Hall. eapply nth_error_In; eauto.
  Qed.
End Valid.
