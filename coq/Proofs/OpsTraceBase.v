(* C09, executed-opcode count of TABLE witnesses: infrastructure.
   [bnd e s st n]: every successful instrumented run of [s] from [st] counts at most [n] multisig keys
   (the CHECKMULTISIG part of the consensus opcode count; the static part is exact, ExtSize.static_ops_exact).
   Composition along a run whose intermediate states are known (from Theorem A), the IF decision read off
   the state, and the fall-back to the all-paths bound [cbl] of ExtOps.v. *)
From Coq Require Import Lia.
From Verif Require Import ExecTr ExecLemmas TheoremA ExtExec ExtDepthBase ExtModel ExtOps.
Local Open Scope N_scope.

Arguments N.add : simpl never. Arguments N.max : simpl never.

Definition bnd (e : env) (s : script) (st : state) (n : N) : Prop :=
  forall t st' t', exec_tr e s st t = Ok (st', t') -> tr_cms t' <= tr_cms t + n.

Lemma bnd_any e s st : bnd e s st (cbl None s).
Proof. intros t st' t' H. exact (exec_tr_cms_bound e s st t st' t' H). Qed.
Lemma bnd_le e s st n n' : bnd e s st n -> n <= n' -> bnd e s st n'.
Proof. intros H Hl t st' t' X. specialize (H _ _ _ X). lia. Qed.
Lemma bnd_nil e st : bnd e [] st 0.
Proof. intros t st' t' X. cbn [exec_tr] in X. inversion X; subst. lia. Qed.

(* sequence with a known intermediate state *)
Lemma bnd_app e a b st st1 n1 n2 :
  exec e a st = Ok st1 -> bnd e a st n1 -> bnd e b st1 n2 -> bnd e (a ++ b) st (n1 + n2).
Proof.
  intros Ha H1 H2 t st' t' H. apply exec_tr_app_inv in H. destruct H as (s1 & t1 & X1 & X2).
  pose proof (exec_tr_state _ _ _ _ _ _ X1) as E. rewrite Ha in E. inversion E; subst s1.
  specialize (H1 _ _ _ X1). specialize (H2 _ _ _ X2). lia.
Qed.
(* sequence, the second part bounded over all its paths and states *)
Lemma bnd_app_any e a b st n1 : bnd e a st n1 -> bnd e (a ++ b) st (n1 + cbl None b).
Proof.
  intros H1 t st' t' H. apply exec_tr_app_inv in H. destruct H as (s1 & t1 & X1 & X2).
  specialize (H1 _ _ _ X1). pose proof (exec_tr_cms_bound _ _ _ _ _ _ X2). lia.
Qed.
(* a failing prefix: nothing to bound *)
Lemma bnd_app_fail e a b st n : exec e a st = Fail -> bnd e (a ++ b) st n.
Proof.
  intros Ha t st' t' H. apply exec_tr_app_inv in H. destruct H as (s1 & t1 & X1 & _).
  pose proof (exec_tr_state _ _ _ _ _ _ X1) as E. rewrite Ha in E. discriminate.
Qed.

(* one opcode that is not a CHECKMULTISIG *)
Lemma bnd_op e o s st n :
  is_cms o = false -> (forall st1, exec_op e o st = Ok st1 -> bnd e s st1 n) -> bnd e (IOp o :: s) st n.
Proof.
  intros Hc H t st' t' X. apply exec_tr_cons_inv in X. destruct X as (s1 & t1 & X1 & X2). cbn [exec_instr_tr] in X1.
  destruct (exec_instr e (IOp o) st) as [s0|] eqn:E; [|discriminate]. rewrite cms_of_op, Hc in X1. inversion X1; subst.
  cbn [exec_instr] in E. specialize (H _ E _ _ _ X2). cbn [tr_step tr_cms] in H. lia.
Qed.
Lemma bnd_push_int e z s st n :
  bnd e s (mkSt (num_encode z :: stk st) (alt st)) n -> bnd e (push_int z :: s) st n.
Proof.
  intros H t st' t' X. apply exec_tr_cons_inv in X. destruct X as (s1 & t1 & X1 & X2).
  assert (E : s1 = mkSt (num_encode z :: stk st) (alt st) /\ tr_cms t1 = tr_cms t).
  { unfold push_int in X1. destruct (z =? 0)%Z eqn:E0.
    - apply Z.eqb_eq in E0. subst z. cbn in X1. inversion X1; subst. split; [reflexivity|cbn [tr_step tr_cms]; lia].
    - destruct ((z =? -1)%Z || ((1 <=? z)%Z && (z <=? 16)%Z)); cbn in X1; inversion X1; subst; (split; [reflexivity|cbn [tr_step tr_cms]; lia]). }
  destruct E as [-> E]. specialize (H _ _ _ X2). lia.
Qed.

(* IF / NOTIF: the branch is decided by the top element *)
Definition if_branch (c neg : bool) (thn : list instr) (els : option (list instr)) : list instr :=
  if xorb c neg then thn else match els with Some el => el | None => [] end.
Lemma bnd_if e neg thn els s st v r c n :
  stk st = v :: r -> if_cond e v = Some c ->
  bnd e (if_branch c neg thn els ++ s) (mkSt r (alt st)) n -> bnd e (IIf neg thn els :: s) st n.
Proof.
  intros Hs Hc H t st' t' X. apply exec_tr_cons_inv in X. destruct X as (s1 & t1 & X1 & X2).
  rewrite exec_if_tr, Hs, Hc in X1. cbv zeta in X1.
  assert (Y : exec_tr e (if_branch c neg thn els) (mkSt r (alt st)) (tr_step t 0 (mkSt r (alt st))) = Ok (s1, t1)).
  { unfold if_branch. destruct (xorb c neg); [exact X1|]. destruct els; [exact X1|]. cbn [exec_tr]. exact X1. }
  assert (Z : exec_tr e (if_branch c neg thn els ++ s) (mkSt r (alt st)) (tr_step t 0 (mkSt r (alt st))) = Ok (st', t')).
  { rewrite exec_tr_app, Y. exact X2. }
  specialize (H _ _ _ Z). cbn [tr_step tr_cms] in H. lia.
Qed.

(* trailing glue without CHECKMULTISIG: no state needed *)
Lemma bnd_app_glue e a g st n : cbl None g = 0 -> bnd e a st n -> bnd e (a ++ g) st n.
Proof. intros Hg H. eapply bnd_le; [apply bnd_app_any; exact H | lia]. Qed.

(* the VERIFY-folded form counts what op ; VERIFY counts *)
Lemma pv_cms e s : forall st t st' t',
  exec_tr e (push_verify s) st t = Ok (st', t') ->
  exists t'', exec_tr e (s ++ [IOp OP_VERIFY]) st t = Ok (st', t'') /\ tr_cms t' = tr_cms t''.
Proof.
  induction s as [|i r IH]; intros st t st' t' H.
  - cbn [push_verify app] in *. exists t'. split; [exact H|reflexivity].
  - destruct r as [|j r'].
    + destruct i as [b|n|o|ng th el]; cbn [push_verify app] in *; try (exists t'; split; [exact H|reflexivity]).
      destruct (verify_form o) as [o'|] eqn:Ev; [|exists t'; split; [exact H|reflexivity]].
      rewrite exec_tr_single in H. cbn [exec_instr_tr exec_instr] in H.
      rewrite (verify_form_sound e o o' st Ev) in H.
      destruct (exec_op e o st) as [s1|] eqn:E1; cbn [bind] in H; [|discriminate].
      destruct (exec_op e OP_VERIFY s1) as [s2|] eqn:E2; [|discriminate]. inversion H; subst.
      cbn [exec_tr exec_instr_tr exec_instr]. rewrite E1, E2. eexists. split; [reflexivity|].
      unfold tr_step. cbn [tr_cms]. clear - Ev. destruct o; cbn [verify_form] in Ev; inversion Ev; subst; cbn [cms_of]; lia.
    + assert (Hpv : push_verify (i :: j :: r') = i :: push_verify (j :: r')) by (destruct i; reflexivity).
      rewrite Hpv in H. apply exec_tr_cons_inv in H. destruct H as (s1 & t1 & Hi & Hr).
      destruct (IH _ _ _ _ Hr) as (t'' & E & Hle). exists t''. split; [|exact Hle].
      change ((i :: j :: r') ++ [IOp OP_VERIFY]) with (i :: ((j :: r') ++ [IOp OP_VERIFY])). cbn [exec_tr]. rewrite Hi. exact E.
Qed.
Lemma bnd_pv e s st n : bnd e s st n -> bnd e (push_verify s) st n.
Proof.
  intros H t st' t' X. destruct (pv_cms e s _ _ _ _ X) as (t'' & E & Heq).
  pose proof (bnd_app_glue e s [IOp OP_VERIFY] st n eq_refl H _ _ _ E). lia.
Qed.
