(* C12: switch_exact and limit_exact, from the lemmas of ValidateSwitch.v. *)
From Coq Require Import List Bool NArith Lia.
Import ListNotations.
From Verif Require Import ValidateModel ValidateSpec ValidateProofs ValidateAccept ValidateSwitch.
Local Open Scope N_scope.

Lemma all_on_fields p : all_on p ->
  allow_compressed_keys p = true /\ allow_duplicate_keys p = true /\ allow_dup_if p = true /\
  allow_malleability p = true /\ allow_multi p = true /\ allow_multi_a p = true /\
  allow_mixed_time_locks p = true /\ allow_or_i p = true /\ allow_raw_pkh p = true /\
  allow_sigless_branch p = true /\ allow_non_b p = true /\ allow_uncompressed_keys p = true /\
  allow_unsatisfiable p = true /\ allow_x_only_keys p = true /\
  allow_inconsistent_multipath_keys p = true.
Proof.
  intros H.
  repeat split; [apply (H SwCompressed)|apply (H SwDup)|apply (H SwDupIf)|apply (H SwMall)|
    apply (H SwMulti)|apply (H SwMultiA)|apply (H SwMixed)|apply (H SwOrI)|apply (H SwRawPkh)|
    apply (H SwSigless)|apply (H SwNonB)|apply (H SwUncompressed)|apply (H SwUnsat)|
    apply (H SwXOnly)|apply (H SwMultipath)].
Qed.

(* the limit part of validate, once every boolean check passes *)
Definition limit_verdict (p : vparams) (s : summary) : vres :=
  if max_recursive_depth p <? s_tree_height s then VErr EMaxRecursiveDepth
  else if (max_script_size p <? USIZE_MAX) && (max_script_size p <? s_script_size s)
  then VErr EMaxScriptSize
  else match s_sat s with
       | None => VOk
       | Some d =>
           if max_witness_items p <? sf_wit_count d + 1 then VErr EMaxWitnessItems
           else if max_opcode_count p <? sf_op_count d then VErr EMaxOpCount
           else if max_exec_stack_size p <? sf_wit_count d + sf_exec_stack d then VErr EMaxExecStack
           else VOk
       end.

Lemma limit_verdict_within p s : (forall l, within l p s) -> limit_verdict p s = VOk.
Proof.
  intros W. unfold limit_verdict.
  pose proof (W LDepth) as W1. pose proof (W LSize) as W2. pose proof (W LWit) as W3.
  pose proof (W LOps) as W4. pose proof (W LStack) as W5.
  unfold within, lim_fig, lim_get in *.
  replace (max_recursive_depth p <? s_tree_height s) with false by (symmetry; apply N.ltb_ge; lia).
  replace (max_script_size p <? s_script_size s) with false by (symmetry; apply N.ltb_ge; lia).
  rewrite andb_false_r.
  destruct (s_sat s) as [d|]; auto.
  replace (max_witness_items p <? sf_wit_count d + 1) with false by (symmetry; apply N.ltb_ge; lia).
  replace (max_opcode_count p <? sf_op_count d) with false by (symmetry; apply N.ltb_ge; lia).
  replace (max_exec_stack_size p <? sf_wit_count d + sf_exec_stack d) with false
    by (symmetry; apply N.ltb_ge; lia).
  reflexivity.
Qed.

(* validate, when the node loop's verdict is known and is not an error before the limits *)
Lemma validate_shape p s :
  validate p s =
  if max_recursive_depth p <? s_tree_height s then VErr EMaxRecursiveDepth
  else if negb (allow_duplicate_keys p) && has_repeated_keys s then VErr EDuplicateKeys
  else if negb (allow_mixed_time_locks p) && s_mixed_locks s then VErr EMixedTimeLocks
  else match check_nodes p None (s_nodes s) with
  | VErr e => VErr e
  | VOk =>
    match (if (max_script_size p <? USIZE_MAX) && (max_script_size p <? s_script_size s)
           then VErr EMaxScriptSize
           else match s_sat s with
                | None => VOk
                | Some d =>
                    if max_witness_items p <? sf_wit_count d + 1 then VErr EMaxWitnessItems
                    else if max_opcode_count p <? sf_op_count d then VErr EMaxOpCount
                    else if max_exec_stack_size p <? sf_wit_count d + sf_exec_stack d
                         then VErr EMaxExecStack else VOk
                end) with
    | VErr e => VErr e
    | VOk =>
      if negb (allow_malleability p) && negb (s_nonmall s) then VErr EMalleable
      else if negb (allow_non_b p) && negb (is_B (s_base s)) then VErr (ENonBase (s_base s))
      else if negb (allow_sigless_branch p) && negb (s_signed s) then VErr ESiglessBranch
      else if negb (allow_unsatisfiable p) && negb (is_some (s_sat s)) then VErr EUnsatisfiable
      else VOk
    end
  end.
Proof.
  unfold validate, validate_non_top_level.
  destruct (max_recursive_depth p <? s_tree_height s); auto.
  destruct (negb (allow_duplicate_keys p) && has_repeated_keys s); auto.
  destruct (negb (allow_mixed_time_locks p) && s_mixed_locks s); auto.
  destruct (check_nodes p None (s_nodes s)); auto.
Qed.

Lemma existsb_false {A} (l : list A) : existsb (fun _ => false) l = false.
Proof. induction l; auto. Qed.

(* all fragment and key switches permissive: the node loop accepts *)
Lemma check_nodes_permissive p ns st :
  allow_inconsistent_multipath_keys p = true -> allow_uncompressed_keys p = true ->
  allow_x_only_keys p = true -> (forall k, kind_allowed p k = true) ->
  check_nodes p st ns = VOk.
Proof.
  intros Hm Hu Hx Hk.
  rewrite (check_nodes_kind p (fun _ => false) EIllegalRawPkh Hm); auto.
  - rewrite existsb_false. reflexivity.
  - intros; apply validate_pk_perm; auto.
  - discriminate.
Qed.

(* with every boolean switch on, validate is its limit part *)
Theorem validate_all_on p s : all_on p -> validate p s = limit_verdict p s.
Proof.
  intros H. destruct (all_on_fields p H) as
    [H1 [H2 [H3 [H4 [H5 [H6 [H7 [H8 [H9 [H10 [H11 [H12 [H13 [H14 H15]]]]]]]]]]]]]].
  rewrite validate_shape. unfold limit_verdict.
  rewrite H2, H7, H4, H11, H10, H13. simpl.
  rewrite check_nodes_permissive; auto.
  2:{ intros k; destruct k; simpl; auto. }
  destruct (max_recursive_depth p <? s_tree_height s); auto.
  destruct ((max_script_size p <? USIZE_MAX) && (max_script_size p <? s_script_size s)); auto.
  destruct (s_sat s) as [d|]; auto.
  destruct (max_witness_items p <? sf_wit_count d + 1); auto.
  destruct (max_opcode_count p <? sf_op_count d); auto.
  destruct (max_exec_stack_size p <? sf_wit_count d + sf_exec_stack d); auto.
Qed.

(* ------------------------------------------------------------------ switch exactness *)
(* One switch off, all others on, limits not exceeded: validate rejects with the switch's
   error class iff the defect is present, and accepts otherwise.  SwCompressed is excluded:
   see switch_compressed_inert / switch_compressed_refuted below. *)
Theorem switch_value b p s : b <> SwCompressed -> all_on p -> (forall l, within l p s) ->
  validate (sw_set b false p) s = if defectb b s then VErr (sw_err b s) else VOk.
Proof.
  intros Hb H W. destruct (all_on_fields p H) as
    [H1 [H2 [H3 [H4 [H5 [H6 [H7 [H8 [H9 [H10 [H11 [H12 [H13 [H14 H15]]]]]]]]]]]]]].
  pose proof (limit_verdict_within p s W) as LV. unfold limit_verdict in LV.
  rewrite validate_shape.
  destruct b; try congruence;
    cbn [sw_set sw_eqb sw_get allow_compressed_keys allow_duplicate_keys allow_dup_if
         allow_malleability allow_multi allow_multi_a allow_mixed_time_locks allow_or_i
         allow_raw_pkh allow_sigless_branch allow_non_b allow_uncompressed_keys
         allow_unsatisfiable allow_x_only_keys allow_inconsistent_multipath_keys
         max_opcode_count max_script_size max_witness_items max_exec_stack_size
         max_recursive_depth defectb sw_err];
    rewrite ?H1, ?H2, ?H3, ?H4, ?H5, ?H6, ?H7, ?H8, ?H9, ?H10, ?H11, ?H12, ?H13, ?H14, ?H15;
    cbn [negb andb];
    destruct (max_recursive_depth p <? s_tree_height s); try discriminate.
  (* SwDup *)
  - destruct (has_repeated_keys s); auto.
    rewrite check_nodes_permissive; auto; [|intros k; destruct k; simpl; auto]. rewrite LV. reflexivity.
  (* SwDupIf *)
  - rewrite (check_nodes_kind _ is_dupif EIllegalDupIf); auto.
    + unfold has_kind. destruct (existsb (fun n => is_dupif (n_kind n)) (s_nodes s)); auto.
      rewrite LV. reflexivity.
    + intros; apply validate_pk_perm; auto.
    + intros k; destruct k; simpl; auto.
    + intros k; destruct k; simpl; congruence.
  (* SwMall *)
  - rewrite check_nodes_permissive; auto; [|intros k; destruct k; simpl; auto]. rewrite LV.
    destruct (s_nonmall s); auto.
  (* SwMulti *)
  - rewrite (check_nodes_kind _ is_multi EIllegalMulti); auto.
    + unfold has_kind. destruct (existsb (fun n => is_multi (n_kind n)) (s_nodes s)); auto.
      rewrite LV. reflexivity.
    + intros; apply validate_pk_perm; auto.
    + intros k; destruct k; simpl; auto.
    + intros k; destruct k; simpl; congruence.
  (* SwMultiA *)
  - rewrite (check_nodes_kind _ is_multi_a EIllegalMultiA); auto.
    + unfold has_kind. destruct (existsb (fun n => is_multi_a (n_kind n)) (s_nodes s)); auto.
      rewrite LV. reflexivity.
    + intros; apply validate_pk_perm; auto.
    + intros k; destruct k; simpl; auto.
    + intros k; destruct k; simpl; congruence.
  (* SwMixed *)
  - destruct (s_mixed_locks s); auto.
    rewrite check_nodes_permissive; auto; [|intros k; destruct k; simpl; auto]. rewrite LV. reflexivity.
  (* SwOrI *)
  - rewrite (check_nodes_kind _ is_ori EIllegalOrI); auto.
    + unfold has_kind. destruct (existsb (fun n => is_ori (n_kind n)) (s_nodes s)); auto.
      rewrite LV. reflexivity.
    + intros; apply validate_pk_perm; auto.
    + intros k; destruct k; simpl; auto.
    + intros k; destruct k; simpl; congruence.
  (* SwRawPkh *)
  - rewrite (check_nodes_kind _ is_rawpkh EIllegalRawPkh); auto.
    + unfold has_kind. destruct (existsb (fun n => is_rawpkh (n_kind n)) (s_nodes s)); auto.
      rewrite LV. reflexivity.
    + intros; apply validate_pk_perm; auto.
    + intros k; destruct k; simpl; auto.
    + intros k; destruct k; simpl; congruence.
  (* SwSigless *)
  - rewrite check_nodes_permissive; auto; [|intros k; destruct k; simpl; auto]. rewrite LV.
    destruct (s_signed s); auto.
  (* SwNonB *)
  - rewrite check_nodes_permissive; auto; [|intros k; destruct k; simpl; auto]. rewrite LV.
    destruct (is_B (s_base s)); auto.
  (* SwUncompressed *)
  - rewrite (check_nodes_keypred _ k_uncompressed EKeyUncompressed); auto.
    + destruct (existsb k_uncompressed (all_keys (s_nodes s))); auto. rewrite LV. reflexivity.
    + intros k; destruct k; simpl; auto.
    + intros; apply validate_pk_unc; auto.
  (* SwUnsat *)
  - rewrite check_nodes_permissive; auto; [|intros k; destruct k; simpl; auto]. rewrite LV.
    destruct (s_sat s); auto.
  (* SwXOnly *)
  - rewrite (check_nodes_keypred _ k_xonly EKeyXOnly); auto.
    + destruct (existsb k_xonly (all_keys (s_nodes s))); auto. rewrite LV. reflexivity.
    + intros k; destruct k; simpl; auto.
    + intros; apply validate_pk_xo; auto.
  (* SwMultipath *)
  - rewrite check_nodes_mp; auto.
    + destruct (mp_run None (all_keys (s_nodes s))); auto. rewrite LV. reflexivity.
    + intros k; destruct k; simpl; auto.
    + intros; apply validate_pk_perm; auto.
Qed.

Theorem switch_exact b p s : b <> SwCompressed -> all_on p -> (forall l, within l p s) ->
  (validate (sw_set b false p) s = VErr (sw_err b s) <-> defect b s) /\
  (validate (sw_set b false p) s = VOk <-> ~ defect b s).
Proof.
  intros Hb H W. rewrite (switch_value b p s Hb H W), <- defectb_iff.
  destruct (defectb b s); split; split; try congruence; try discriminate; auto.
Qed.

(* allow_compressed_keys alone rejects nothing: validate_pk treats a compressed key as an
   x-only one whenever x-only keys are allowed *)
Theorem switch_compressed_inert p s : allow_x_only_keys p = true ->
  validate (sw_set SwCompressed false p) s = validate (sw_set SwCompressed true p) s.
Proof.
  intros Hx.
  assert (K : forall st ks, check_keys (sw_set SwCompressed false p) st ks =
                            check_keys (sw_set SwCompressed true p) st ks).
  { intros st ks; revert st. induction ks as [|k r IH]; intros st; simpl; auto.
    replace (validate_pk (sw_set SwCompressed false p) k) with (validate_pk (sw_set SwCompressed true p) k).
    2:{ unfold validate_pk; simpl. rewrite Hx. simpl. reflexivity. }
    destruct (validate_pk (sw_set SwCompressed true p) k); auto.
    replace (multipath_check (sw_set SwCompressed false p) st k)
      with (multipath_check (sw_set SwCompressed true p) st k) by reflexivity.
    destruct (multipath_check (sw_set SwCompressed true p) st k) as [s1 []]; auto. }
  assert (Nn : forall ns st, check_nodes (sw_set SwCompressed false p) st ns =
                             check_nodes (sw_set SwCompressed true p) st ns).
  { induction ns as [|n r IH]; intros st; simpl; auto.
    replace (check_node (sw_set SwCompressed false p) st n)
      with (check_node (sw_set SwCompressed true p) st n).
    - destruct (check_node (sw_set SwCompressed true p) st n) as [s1 []]; auto.
    - unfold check_node; simpl. destruct (n_kind n); auto; rewrite K; reflexivity. }
  rewrite !validate_shape, Nn. reflexivity.
Qed.

Definition sum_one_compressed_key : summary :=
  mkSum BB true true 1 false
        [mkNode KCheck [] 35; mkNode KPkK [mkKey 1 false false 0] 34] 35 (Some (mkSat 1 1 1)).

(* hence "allow_compressed_keys = false rejects exactly the scripts with a compressed key" is false *)
Theorem switch_compressed_refuted :
  exists p s, all_on p /\ (forall l, within l p s) /\ defect SwCompressed s /\
              validate (sw_set SwCompressed false p) s = VOk.
Proof.
  exists VP_MAX, sum_one_compressed_key. split; [intros b; destruct b; reflexivity|].
  split; [intros l; destruct l; vm_compute; discriminate|].
  split; [|vm_compute; reflexivity].
  exists (mkKey 1 false false 0). simpl. auto.
Qed.

(* the strongest true variant for the compressed-key switch: with x-only keys forbidden too,
   exactly the scripts whose keys are all uncompressed pass *)
Definition key_uncompressed_only (k : keyinfo) : Prop := k_uncompressed k = true /\ k_xonly k = false.

Theorem switch_compressed_with_xonly_off p s : all_on p -> (forall l, within l p s) ->
  (validate (sw_set SwXOnly false (sw_set SwCompressed false p)) s = VOk <->
   forall k, In k (all_keys (s_nodes s)) -> key_uncompressed_only k).
Proof.
  intros H W. destruct (all_on_fields p H) as
    [H1 [H2 [H3 [H4 [H5 [H6 [H7 [H8 [H9 [H10 [H11 [H12 [H13 [H14 H15]]]]]]]]]]]]]].
  pose proof (limit_verdict_within p s W) as LV. unfold limit_verdict in LV.
  rewrite validate_shape.
  cbn [sw_set sw_eqb sw_get allow_compressed_keys allow_duplicate_keys allow_dup_if
       allow_malleability allow_multi allow_multi_a allow_mixed_time_locks allow_or_i
       allow_raw_pkh allow_sigless_branch allow_non_b allow_uncompressed_keys
       allow_unsatisfiable allow_x_only_keys allow_inconsistent_multipath_keys
       max_opcode_count max_script_size max_witness_items max_exec_stack_size max_recursive_depth].
  rewrite ?H1, ?H2, ?H3, ?H4, ?H5, ?H6, ?H7, ?H8, ?H9, ?H10, ?H11, ?H12, ?H13, ?H14, ?H15.
  cbn [negb andb].
  destruct (max_recursive_depth p <? s_tree_height s); try discriminate.
  set (q := sw_set SwXOnly false (sw_set SwCompressed false p)).
  assert (Q : forall ns st,
    check_nodes q st ns = VOk <-> forall k, In k (all_keys ns) -> key_uncompressed_only k).
  { assert (Qm : allow_inconsistent_multipath_keys q = true) by (unfold q; simpl; auto).
    assert (Qk : forall k, kind_allowed q k = true)
      by (intros k; unfold q; destruct k; simpl; auto).
    assert (Qv : forall k, validate_pk q k = VOk <-> key_uncompressed_only k).
    { intros k. rewrite validate_pk_ok. unfold q, key_uncompressed_only; simpl. rewrite H12.
      destruct (k_uncompressed k), (k_xonly k); intuition congruence. }
    assert (Qc : forall ks st, (exists st', check_keys q st ks = (st', VOk)) <->
                               forall k, In k ks -> key_uncompressed_only k).
    { induction ks as [|k r IH]; intros st; simpl.
      - split; [tauto|]. intros _; eexists; reflexivity.
      - rewrite (multipath_check_off _ _ _ Qm). specialize (Qv k).
        destruct (validate_pk q k).
        + rewrite IH. split.
          * intros Hr k' [<-|I]; [apply Qv; reflexivity|auto].
          * intros Hr k' I. apply Hr. auto.
        + split; [intros [st' E]; discriminate|].
          intros Hr. assert (E : key_uncompressed_only k) by auto. apply Qv in E. discriminate. }
    induction ns as [|n r IH]; intros st; simpl; [tauto|].
    rewrite check_node_eq, Qk. unfold all_keys; simpl.
    specialize (Qc (vkeys n) st).
    destruct (check_keys q st (vkeys n)) as [s1 r1] eqn:C. destruct r1.
    + rewrite IH. split.
      * intros Hr k I. apply in_app_or in I. destruct I as [I|I]; [|apply Hr; exact I].
        apply Qc; [eexists; reflexivity|exact I].
      * intros Hr k I. apply Hr. apply in_or_app; auto.
    + split; [discriminate|]. intros Hr.
      assert (E : exists st', (s1, VErr e) = (st', VOk)).
      { apply Qc. intros k I. apply Hr. apply in_or_app; auto. }
      destruct E as [st' E]; discriminate. }
  specialize (Q (s_nodes s) None).
  destruct (check_nodes q None (s_nodes s)).
  - rewrite LV. tauto.
  - split; [discriminate|]. intros Hr. apply Q in Hr. discriminate.
Qed.

(* ------------------------------------------------------------------ limit exactness *)
Definition others_within (l : limit) (p : vparams) (s : summary) : Prop :=
  forall l', l' <> l -> within l' p s.

Theorem limit_exact l p s : all_on p -> s_script_size s <= USIZE_MAX -> others_within l p s ->
  (validate p s = VErr (lim_err l) <-> lim_get l p < lim_fig l s) /\
  (validate p s = VOk <-> lim_fig l s <= lim_get l p).
Proof.
  intros H Hsz W. rewrite (validate_all_on p s H). unfold limit_verdict.
  assert (W1 : l <> LDepth -> s_tree_height s <= max_recursive_depth p) by (intros E; apply (W LDepth); congruence).
  assert (W2 : l <> LSize -> s_script_size s <= max_script_size p) by (intros E; apply (W LSize); congruence).
  assert (W3 : l <> LWit -> lim_fig LWit s <= max_witness_items p) by (intros E; apply (W LWit); congruence).
  assert (W4 : l <> LOps -> lim_fig LOps s <= max_opcode_count p) by (intros E; apply (W LOps); congruence).
  assert (W5 : l <> LStack -> lim_fig LStack s <= max_exec_stack_size p) by (intros E; apply (W LStack); congruence).
  unfold USIZE_MAX in *.
  destruct l; cbn [lim_err lim_get lim_fig] in *.
  - (* depth *)
    destruct (N.ltb_spec (max_recursive_depth p) (s_tree_height s)).
    + split; split; try lia; auto; discriminate.
    + specialize (W2 ltac:(discriminate)). specialize (W3 ltac:(discriminate)).
      specialize (W4 ltac:(discriminate)). specialize (W5 ltac:(discriminate)).
      replace (max_script_size p <? s_script_size s) with false by (symmetry; apply N.ltb_ge; lia).
      rewrite andb_false_r. destruct (s_sat s) as [d|].
      * replace (max_witness_items p <? sf_wit_count d + 1) with false by (symmetry; apply N.ltb_ge; lia).
        replace (max_opcode_count p <? sf_op_count d) with false by (symmetry; apply N.ltb_ge; lia).
        replace (max_exec_stack_size p <? sf_wit_count d + sf_exec_stack d) with false
          by (symmetry; apply N.ltb_ge; lia).
        split; split; try lia; auto; discriminate.
      * split; split; try lia; auto; discriminate.
  - (* size *)
    specialize (W1 ltac:(discriminate)). specialize (W3 ltac:(discriminate)).
    specialize (W4 ltac:(discriminate)). specialize (W5 ltac:(discriminate)).
    replace (max_recursive_depth p <? s_tree_height s) with false by (symmetry; apply N.ltb_ge; lia).
    destruct (N.ltb_spec (max_script_size p) 18446744073709551615);
      destruct (N.ltb_spec (max_script_size p) (s_script_size s)); cbn [andb];
      try (split; split; try lia; auto; discriminate).
    all: destruct (s_sat s) as [d|];
      [replace (max_witness_items p <? sf_wit_count d + 1) with false by (symmetry; apply N.ltb_ge; lia);
       replace (max_opcode_count p <? sf_op_count d) with false by (symmetry; apply N.ltb_ge; lia);
       replace (max_exec_stack_size p <? sf_wit_count d + sf_exec_stack d) with false
         by (symmetry; apply N.ltb_ge; lia)|];
      split; split; try lia; auto; discriminate.
  - (* witness items *)
    specialize (W1 ltac:(discriminate)). specialize (W2 ltac:(discriminate)).
    specialize (W4 ltac:(discriminate)). specialize (W5 ltac:(discriminate)).
    replace (max_recursive_depth p <? s_tree_height s) with false by (symmetry; apply N.ltb_ge; lia).
    replace (max_script_size p <? s_script_size s) with false by (symmetry; apply N.ltb_ge; lia).
    rewrite andb_false_r. destruct (s_sat s) as [d|].
    + destruct (N.ltb_spec (max_witness_items p) (sf_wit_count d + 1)).
      * split; split; try lia; auto; discriminate.
      * replace (max_opcode_count p <? sf_op_count d) with false by (symmetry; apply N.ltb_ge; lia).
        replace (max_exec_stack_size p <? sf_wit_count d + sf_exec_stack d) with false
          by (symmetry; apply N.ltb_ge; lia).
        split; split; try lia; auto; discriminate.
    + split; split; try lia; auto; discriminate.
  - (* op count *)
    specialize (W1 ltac:(discriminate)). specialize (W2 ltac:(discriminate)).
    specialize (W3 ltac:(discriminate)). specialize (W5 ltac:(discriminate)).
    replace (max_recursive_depth p <? s_tree_height s) with false by (symmetry; apply N.ltb_ge; lia).
    replace (max_script_size p <? s_script_size s) with false by (symmetry; apply N.ltb_ge; lia).
    rewrite andb_false_r. destruct (s_sat s) as [d|].
    + replace (max_witness_items p <? sf_wit_count d + 1) with false by (symmetry; apply N.ltb_ge; lia).
      destruct (N.ltb_spec (max_opcode_count p) (sf_op_count d)).
      * split; split; try lia; auto; discriminate.
      * replace (max_exec_stack_size p <? sf_wit_count d + sf_exec_stack d) with false
          by (symmetry; apply N.ltb_ge; lia).
        split; split; try lia; auto; discriminate.
    + split; split; try lia; auto; discriminate.
  - (* exec stack *)
    specialize (W1 ltac:(discriminate)). specialize (W2 ltac:(discriminate)).
    specialize (W3 ltac:(discriminate)). specialize (W4 ltac:(discriminate)).
    replace (max_recursive_depth p <? s_tree_height s) with false by (symmetry; apply N.ltb_ge; lia).
    replace (max_script_size p <? s_script_size s) with false by (symmetry; apply N.ltb_ge; lia).
    rewrite andb_false_r. destruct (s_sat s) as [d|].
    + replace (max_witness_items p <? sf_wit_count d + 1) with false by (symmetry; apply N.ltb_ge; lia).
      replace (max_opcode_count p <? sf_op_count d) with false by (symmetry; apply N.ltb_ge; lia).
      destruct (N.ltb_spec (max_exec_stack_size p) (sf_wit_count d + sf_exec_stack d)).
      * split; split; try lia; auto; discriminate.
      * split; split; try lia; auto; discriminate.
    + split; split; try lia; auto; discriminate.
Qed.
