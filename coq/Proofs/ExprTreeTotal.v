(* tree_total: Tree::from_str_inner never panics.  Pass 1 (parse_pre_check) and pass 2 are run
   in lockstep over the same string; the invariant says that the counts pass 1 accumulates are
   exactly what pass 2 uses (stack height, high-water mark = max_depth, pushed nodes + pending
   node = n_nodes + stack height) and that every index pass 2 dereferences is in range. *)
From Coq Require Import List Bool Arith NArith Lia.
From Verif Require Import ChecksumModel ChecksumSpec ChecksumTheorems ExprTreeModel.
Import ListNotations.
Local Open Scope N_scope.

Definition cur_cnt (c : option node) : N := match c with Some _ => 1 | None => 0 end.

Record INV (len pos : N) (rem : bytes) (st1 : pre_state) (st2 : p2_state) : Prop := mkINV {
  inv_len : pos + blen rem = len;
  inv_stack : length (p2_stack st2) = length (ps_stack st1);
  inv_hwm : p2_hwm st2 = ps_depth st1;
  inv_cnt : nlen (p2_nodes st2) + cur_cnt (p2_cur st2) = ps_nodes st1 + N.of_nat (length (ps_stack st1));
  inv_none : p2_cur st2 = None ->
             match rem with [] => True | c :: _ => is_close c || (c =? COMMA) = true end;
  inv_pos : forall c, p2_cur st2 = Some c -> nd_name_pos c <= pos /\ nd_last_child c = None;
  inv_stk : Forall (fun p => p < nlen (p2_nodes st2)) (p2_stack st2);
  inv_lc : forall i nd k, nth_error (p2_nodes st2) i = Some nd -> nd_last_child nd = Some k ->
                          k < nlen (p2_nodes st2) + cur_cnt (p2_cur st2) }.

(* ---------------------------------------------------------------- small facts *)
Lemma open_not_close : forall c, is_open c = true -> is_close c || (c =? COMMA) = false.
Proof.
  intros c H. unfold is_open, is_close, LPAREN, LBRACE, RPAREN, RBRACE, COMMA in *.
  apply orb_true_iff in H. destruct H as [H|H]; apply N.eqb_eq in H; subst; reflexivity.
Qed.

Lemma close_not_comma : forall c, is_close c = true -> (c =? COMMA) = false.
Proof.
  intros c H. unfold is_close, RPAREN, RBRACE, COMMA in *.
  apply orb_true_iff in H. destruct H as [H|H]; apply N.eqb_eq in H; subst; reflexivity.
Qed.

Lemma nlen_app : forall a b, nlen (a ++ b) = nlen a + nlen b.
Proof. intros. unfold nlen. rewrite app_length. lia. Qed.

Lemma update_nth_some : forall (A : Type) (f : A -> A) (l : list A) (i : nat), (i < length l)%nat ->
  exists l', update_nth l i f = Some l' /\ length l' = length l /\
             forall j x, nth_error l' j = Some x ->
                         exists x0, nth_error l j = Some x0 /\ (x = x0 \/ (j = i /\ x = f x0)).
Proof.
  intros A f. induction l as [|a l IH]; intros i H; [cbn in H; lia|].
  destruct i as [|i].
  - exists (f a :: l). split; [reflexivity|]. split; [reflexivity|].
    intros j x Hj. destruct j as [|j]; cbn in Hj.
    + injection Hj as <-. exists a. split; [reflexivity|]. right. split; reflexivity.
    + exists x. split; [exact Hj|left; reflexivity].
  - cbn [length] in H. destruct (IH i ltac:(lia)) as (l' & E & L & P).
    exists (a :: l'). cbn [update_nth]. rewrite E. split; [reflexivity|]. split; [cbn [length]; lia|].
    intros j x Hj. destruct j as [|j]; cbn in Hj.
    + injection Hj as <-. exists a. split; [reflexivity|left; reflexivity].
    + destruct (P j x Hj) as (x0 & E0 & D). exists x0. split; [exact E0|].
      destruct D as [D|[D1 D2]]; [left; exact D|right; split; [lia|exact D2]].
Qed.

(* new_node succeeds when the top of the stack is a valid index; it only rewrites last_child to
   the index of the fresh node *)
Lemma new_node_ok : forall nodes stack pos,
  Forall (fun p => p < nlen nodes) stack ->
  exists nodes' fresh, new_node nodes stack pos = Ok (nodes', fresh) /\
    length nodes' = length nodes /\ nd_name_pos fresh = pos /\ nd_last_child fresh = None /\
    forall i nd k, nth_error nodes' i = Some nd -> nd_last_child nd = Some k ->
                   k = nlen nodes \/ exists nd0, nth_error nodes i = Some nd0 /\ nd_last_child nd0 = Some k.
Proof.
  intros nodes stack pos H. unfold new_node. destruct stack as [|p stack]; cbn [hd_error].
  - eexists. eexists. split; [reflexivity|]. repeat split.
    intros i nd k E1 E2. right. exists nd. split; assumption.
  - inversion H as [|? ? Hp _]; subst. unfold nlen in Hp.
    destruct (update_nth_some node (bump_parent (nlen nodes)) nodes (N.to_nat p) ltac:(lia)) as (l' & E & L & P).
    rewrite E. eexists. eexists. split; [reflexivity|]. split; [exact L|]. split; [reflexivity|]. split; [reflexivity|].
    intros i nd k E1 E2. destruct (P i nd E1) as (x0 & E0 & D). destruct D as [->|[_ ->]].
    + right. exists x0. split; assumption.
    + left. cbn in E2. injection E2 as <-. reflexivity.
Qed.

Lemma flush_ok : forall s st pos,
  (forall c, p2_cur st = Some c -> nd_name_pos c <= pos /\ nd_last_child c = None) ->
  exists nodes1, flush s st pos = Ok nodes1 /\
    nlen nodes1 = nlen (p2_nodes st) + cur_cnt (p2_cur st) /\
    forall i nd k, nth_error nodes1 i = Some nd -> nd_last_child nd = Some k ->
                   exists nd0, nth_error (p2_nodes st) i = Some nd0 /\ nd_last_child nd0 = Some k.
Proof.
  intros s st pos H. unfold flush. destruct (p2_cur st) as [c|] eqn:E.
  - destruct (H c eq_refl) as [Hp Hl]. unfold slice.
    replace (pos <? nd_name_pos c) with false by (symmetry; apply N.ltb_ge; exact Hp).
    eexists. split; [reflexivity|]. split; [rewrite nlen_app; reflexivity|].
    intros i nd k E1 E2. destruct (Nat.lt_ge_cases i (length (p2_nodes st))) as [Hi|Hi].
    + rewrite nth_error_app1 in E1 by assumption. exists nd. split; assumption.
    + rewrite nth_error_app2 in E1 by assumption.
      destruct (i - length (p2_nodes st))%nat as [|j]; cbn in E1.
      * injection E1 as <-. cbn in E2. rewrite Hl in E2. discriminate.
      * destruct j; discriminate.
  - exists (p2_nodes st). split; [reflexivity|]. split; [cbn; lia|].
    intros i nd k E1 E2. exists nd. split; assumption.
Qed.

Lemma Forall_lt_mono : forall (l : list N) a b, a <= b -> Forall (fun p => p < a) l -> Forall (fun p => p < b) l.
Proof. intros l a b H F. eapply Forall_impl; [|exact F]. cbn. intros; lia. Qed.

(* ---------------------------------------------------------------- one step of both passes *)
Lemma lockstep_step : forall s len pos ch rest st1 st2,
  INV len pos (ch :: rest) st1 st2 ->
  match pre_step len st1 pos ch rest with
  | Ok st1' => exists st2', p2_step s st2 pos ch = Ok st2' /\ INV len (pos + 1) rest st1' st2'
  | Err _ => True
  | Panic _ => False
  end.
Proof.
  intros s len pos ch rest st1 st2 I. destruct I as [Il Is Ih Ic In Ip Ik Ilc].
  assert (Hlen : pos + 1 + blen rest = len) by (rewrite <- Il; unfold blen; cbn [length]; lia).
  assert (Hpos : len =? 0 = false) by (apply N.eqb_neq; lia).
  unfold pre_step, p2_step.
  destruct (is_open ch) eqn:Eo.
  { (* '(' or '{' *)
    destruct (p2_cur st2) as [c|] eqn:Ec.
    2:{ specialize (In eq_refl). cbn in In. rewrite (open_not_close ch Eo) in In. discriminate. }
    destruct (Ip c eq_refl) as [Hp Hl]. unfold slice.
    replace (pos <? nd_name_pos c) with false by (symmetry; apply N.ltb_ge; exact Hp).
    set (cur' := set_name _ _ c).
    set (nodesA := p2_nodes st2 ++ [cur']).
    assert (FA : Forall (fun p => p < nlen nodesA) (nlen (p2_nodes st2) :: p2_stack st2)).
    { constructor; [unfold nodesA; rewrite nlen_app; cbn; lia|].
      eapply Forall_lt_mono; [|exact Ik]. unfold nodesA. rewrite nlen_app. lia. }
    destruct (new_node_ok nodesA _ (pos + 1) FA) as (nodes' & fresh & E & L & Fp & Fl & P).
    rewrite E. eexists. split; [reflexivity|].
    assert (NL : nlen nodes' = nlen (p2_nodes st2) + 1).
    { unfold nlen. rewrite L. unfold nodesA. rewrite app_length. cbn [length]. lia. }
    constructor; cbn [p2_stack p2_nodes p2_cur p2_hwm ps_stack ps_depth ps_nodes cur_cnt].
    - exact Hlen.
    - cbn [length]. rewrite Is. reflexivity.
    - cbn [length]. rewrite Is, Ih. reflexivity.
    - rewrite NL. cbn [length]. try rewrite Ec in Ic. cbn [cur_cnt] in Ic. lia.
    - discriminate.
    - intros c0 E0. injection E0 as <-. rewrite Fp, Fl. split; [lia|reflexivity].
    - eapply Forall_lt_mono; [|exact FA]. unfold nlen. rewrite L. lia.
    - intros i nd k E1 E2. destruct (P i nd k E1 E2) as [->|(nd0 & E0 & E0')].
      + rewrite NL. unfold nodesA. rewrite nlen_app. cbn. lia.
      + rewrite NL. unfold nodesA in E0.
        destruct (Nat.lt_ge_cases i (length (p2_nodes st2))) as [Hi|Hi].
        * rewrite nth_error_app1 in E0 by assumption. specialize (Ilc i nd0 k E0 E0'). try rewrite Ec in Ilc. cbn in Ilc. lia.
        * rewrite nth_error_app2 in E0 by assumption.
          destruct (i - length (p2_nodes st2))%nat as [|j]; cbn in E0.
          -- injection E0 as <-. cbn in E0'. rewrite Hl in E0'. discriminate.
          -- destruct j; discriminate. }
  destruct (is_close ch) eqn:Ecl.
  { (* ')' or '}' *)
    rewrite (close_not_comma ch Ecl).
    destruct (ps_stack st1) as [|[open_ch open_pos] stack1] eqn:E1; [exact I|].
    destruct (((open_ch =? LPAREN) && (ch =? RBRACE)) || ((open_ch =? LBRACE) && (ch =? RPAREN))); [exact I|].
    destruct (flush_ok s st2 pos Ip) as (nodes1 & Ef & Nf & Pf).
    destruct (p2_stack st2) as [|top stack2] eqn:E2; [cbn in Is; discriminate|].
    cbn [length] in Is.
    destruct stack1 as [|[pch ppos] stack1'].
    - (* last paren *)
      rewrite Hpos. destruct (pos <? len - 1) eqn:Elt.
      + destruct rest; [apply N.ltb_lt in Elt; unfold blen in Hlen; cbn in Hlen; lia|exact I].
      + rewrite Ef. eexists. split; [reflexivity|].
        assert (rest = []) as -> by (apply N.ltb_ge in Elt; destruct rest; [reflexivity|unfold blen in Hlen; cbn [length] in Hlen; lia]).
        constructor; cbn [p2_stack p2_nodes p2_cur p2_hwm ps_stack ps_depth ps_nodes cur_cnt tl].
        * exact Hlen.
        * cbn [length] in *. lia.
        * exact Ih.
        * rewrite Nf. cbn [length] in *. lia.
        * intros _. exact I.
        * discriminate.
        * inversion Ik; subst. eapply Forall_lt_mono; [|eassumption]. rewrite Nf. lia.
        * intros i nd k Ea Eb. destruct (Pf i nd k Ea Eb) as (nd0 & E0 & E0'). specialize (Ilc i nd0 k E0 E0'). rewrite Nf. lia.
    - (* not the last paren *)
      rewrite Hpos. destruct (pos =? len - 1) eqn:Eeq; [exact I|].
      destruct rest as [|next rest'].
      + apply N.eqb_neq in Eeq. unfold blen in Hlen. cbn in Hlen. lia.
      + destruct (negb (next =? RPAREN) && negb (next =? RBRACE) && negb (next =? COMMA)) eqn:En; [exact I|].
        rewrite Ef. eexists. split; [reflexivity|].
        constructor; cbn [p2_stack p2_nodes p2_cur p2_hwm ps_stack ps_depth ps_nodes cur_cnt tl].
        * exact Hlen.
        * cbn [length] in *. lia.
        * exact Ih.
        * rewrite Nf. cbn [length] in *. lia.
        * intros _. unfold is_close.
          destruct (next =? RPAREN), (next =? RBRACE), (next =? COMMA); cbn in En; try discriminate; reflexivity.
        * discriminate.
        * inversion Ik; subst. eapply Forall_lt_mono; [|eassumption]. rewrite Nf. lia.
        * intros i nd k Ea Eb. destruct (Pf i nd k Ea Eb) as (nd0 & E0 & E0'). specialize (Ilc i nd0 k E0 E0'). rewrite Nf. lia. }
  destruct (ch =? COMMA) eqn:Eco.
  { (* ',' *)
    destruct (ps_stack st1) as [|top1 stack1] eqn:E1; [exact I|].
    destruct (flush_ok s st2 pos Ip) as (nodes1 & Ef & Nf & Pf). rewrite Ef.
    destruct (p2_stack st2) as [|top stack2] eqn:E2; [cbn in Is; discriminate|].
    cbn [hd_error].
    inversion Ik as [|? ? Htop Hrest]; subst.
    assert (Htop1 : (N.to_nat top < length nodes1)%nat) by (unfold nlen in *; lia).
    destruct (nth_error nodes1 (N.to_nat top)) as [parent|] eqn:Epar.
    2:{ apply nth_error_None in Epar. lia. }
    (* the sibling update *)
    assert (exists nodes2, (match nd_last_child parent with
                            | None => Ok nodes1
                            | Some k => match update_nth nodes1 (N.to_nat k) (set_sibling (nlen nodes1)) with
                                        | None => Panic 32 | Some l => Ok l end
                            end : outcome tree_err (list node)) = Ok nodes2 /\ length nodes2 = length nodes1 /\
              forall i nd k, nth_error nodes2 i = Some nd -> nd_last_child nd = Some k ->
                             exists nd0, nth_error nodes1 i = Some nd0 /\ nd_last_child nd0 = Some k) as (nodes2 & E2' & L2 & P2).
    { destruct (nd_last_child parent) as [k|] eqn:Elc.
      - destruct (Pf _ _ _ Epar Elc) as (nd0 & E0 & E0'). specialize (Ilc _ _ _ E0 E0').
        destruct (update_nth_some node (set_sibling (nlen nodes1)) nodes1 (N.to_nat k)) as (l' & E & L & P);
          [unfold nlen in *; lia|].
        rewrite E. exists l'. split; [reflexivity|]. split; [exact L|].
        intros i nd k0 Ea Eb. destruct (P i nd Ea) as (x0 & Ex & D). exists x0. split; [exact Ex|].
        destruct D as [->|[_ ->]]; [exact Eb|exact Eb].
      - exists nodes1. split; [reflexivity|]. split; [reflexivity|].
        intros i nd k Ea Eb. exists nd. split; assumption. }
    rewrite E2'.
    assert (F2 : Forall (fun p => p < nlen nodes2) (top :: stack2)).
    { eapply Forall_lt_mono; [|exact Ik]. unfold nlen in *. lia. }
    destruct (new_node_ok nodes2 _ (pos + 1) F2) as (nodes3 & fresh & E3 & L3 & Fp & Fl & P3).
    rewrite E3. eexists. split; [reflexivity|].
    assert (NL : nlen nodes3 = nlen (p2_nodes st2) + cur_cnt (p2_cur st2)) by (unfold nlen in *; lia).
    constructor; cbn [p2_stack p2_nodes p2_cur p2_hwm ps_stack ps_depth ps_nodes cur_cnt].
    - exact Hlen.
    - exact Is.
    - exact Ih.
    - rewrite NL. lia.
    - discriminate.
    - intros c0 E0. injection E0 as <-. rewrite Fp, Fl. split; [lia|reflexivity].
    - eapply Forall_lt_mono; [|exact F2]. unfold nlen in *. lia.
    - intros i nd k Ea Eb. destruct (P3 i nd k Ea Eb) as [->|(nd0 & E0 & E0')].
      + unfold nlen in *. lia.
      + destruct (P2 _ _ _ E0 E0') as (nd1 & Eb1 & Eb1'). destruct (Pf _ _ _ Eb1 Eb1') as (nd2 & Ec2 & Ec2').
        specialize (Ilc _ _ _ Ec2 Ec2'). rewrite NL. lia. }
  (* any other character *)
  eexists. split; [reflexivity|].
  constructor; try assumption.
  - intros En. specialize (In En). cbn in In. discriminate.
  - intros c Ec. destruct (Ip c Ec). split; [lia|assumption].
Qed.

Lemma lockstep_loop : forall s len rem pos st1 st2,
  INV len pos rem st1 st2 ->
  match pre_loop len st1 pos rem with
  | Ok st1f => exists st2f, p2_loop s st2 pos rem = Ok st2f /\ INV len len [] st1f st2f
  | Err _ => True
  | Panic _ => False
  end.
Proof.
  intros s len rem. induction rem as [|ch rest IH]; intros pos st1 st2 I.
  - cbn [pre_loop p2_loop]. exists st2. split; [reflexivity|].
    assert (pos = len) as <- by (destruct I as [Il]; unfold blen in Il; cbn in Il; lia). exact I.
  - cbn [pre_loop p2_loop]. pose proof (lockstep_step s len pos ch rest st1 st2 I) as S.
    destruct (pre_step len st1 pos ch rest) as [st1'|e|n]; [|exact Logic.I|exact S].
    destruct S as (st2' & E & I'). rewrite E. exact (IH _ _ _ I').
Qed.

Lemma init_INV : forall s, INV (blen s) 0 s (mkPre 1 0 []) (mkP2 [] [] (Some (null_node 0)) 0).
Proof.
  intro s. constructor; cbn; try reflexivity.
  - discriminate.
  - intros c E. injection E as <-. split; [reflexivity|reflexivity].
  - constructor.
  - intros i nd k E. destruct i; discriminate.
Qed.

Lemma tree_total_lemma : forall s0, no_panic_t (from_str_inner s0).
Proof.
  intro s0. unfold from_str_inner, parse_pre_check.
  destruct (ck_total_lemma s0) as [_ V].
  destruct (verify_checksum s0) as [s|e|n]; [|exact I|exact V].
  pose proof (lockstep_loop s (blen s) s 0 _ _ (init_INV s)) as L.
  destruct (pre_loop (blen s) (mkPre 1 0 []) 0 s) as [st1|e|n]; [|exact I|exact L].
  destruct L as (st2 & E & Inv).
  destruct (ps_stack st1) as [|[c p] r] eqn:Es; [|exact I].
  destruct (MAX_RECURSION_DEPTH <? ps_depth st1); [exact I|].
  rewrite E. destruct Inv as [Il Is Ih Ic In Ip Ik Ilc].
  destruct (flush_ok s st2 (blen s) Ip) as (nodes & Ef & Nf & _). rewrite Ef.
  rewrite Ih, N.ltb_irrefl.
  rewrite Es in Ic. cbn [length N.of_nat] in Ic. rewrite N.add_0_r in Ic.
  rewrite Nf, Ic, N.ltb_irrefl, N.eqb_refl. exact I.
Qed.
