(* Proofs about the PSBT state machine model (Ms/PsbtModel.v) for property C14. *)
From Coq Require Import List Bool NArith Arith Lia Permutation.
Import ListNotations.
From Verif Require Import PsbtModel.

(* ---------------------------------------------------------------- lists *)
Lemma length_set_nth {A} (i : nat) (x : A) l : length (set_nth i x l) = length l.
Proof. revert i; induction l; intros [|i]; simpl; auto. Qed.

Lemma nth_set_nth_eq {A} (l : list A) i x a :
  nth_error l i = Some a -> nth_error (set_nth i x l) i = Some x.
Proof. revert i; induction l; intros [|i]; simpl; intros; try discriminate; auto. Qed.

Lemma nth_set_nth_neq {A} (l : list A) i j x : i <> j -> nth_error (set_nth i x l) j = nth_error l j.
Proof.
  revert i j; induction l; intros [|i] [|j] H; simpl; auto; try congruence.
Qed.

Lemma set_nth_same {A} (l : list A) i a : nth_error l i = Some a -> set_nth i a l = l.
Proof. revert i; induction l; intros [|i]; simpl; intros; try discriminate; try congruence. f_equal; auto. Qed.

Lemma set_nth_set_nth {A} (l : list A) i x y : set_nth i x (set_nth i y l) = set_nth i x l.
Proof. revert i; induction l; intros [|i]; simpl; auto. f_equal; auto. Qed.

Lemma set_nth_comm {A} (l : list A) i j x y : i <> j ->
  set_nth i x (set_nth j y l) = set_nth j y (set_nth i x l).
Proof.
  revert i j; induction l; intros [|i] [|j] H; simpl; auto; try congruence. f_equal; auto.
Qed.

Lemma nth_error_lt {A} (l : list A) i a : nth_error l i = Some a -> i < length l.
Proof. intros H. apply nth_error_Some. congruence. Qed.

(* ---------------------------------------------------------------- maps *)
Lemma ins_comm k1 v1 k2 v2 m : k1 <> k2 -> ins k1 v1 (ins k2 v2 m) = ins k2 v2 (ins k1 v1 m).
Proof.
  intros Hne. induction m as [|[k v] r IH]; simpl.
  - destruct (N.ltb_spec k1 k2), (N.ltb_spec k2 k1), (N.eqb_spec k1 k2), (N.eqb_spec k2 k1);
      try lia; try congruence; reflexivity.
  - destruct (N.ltb_spec k2 k), (N.eqb_spec k2 k), (N.ltb_spec k1 k), (N.eqb_spec k1 k); simpl;
      repeat match goal with
             | |- context [N.ltb ?a ?b] => destruct (N.ltb_spec a b)
             | |- context [N.eqb ?a ?b] => destruct (N.eqb_spec a b)
             end; subst; try lia; try congruence; try reflexivity.
Qed.

Lemma lookup_ins_eq k v m : lookup k (ins k v m) = Some v.
Proof.
  induction m as [|[k' v'] r IH]; simpl.
  - now rewrite N.eqb_refl.
  - destruct (N.ltb_spec k k'); simpl.
    + now rewrite N.eqb_refl.
    + destruct (N.eqb_spec k k') as [E|E]; simpl.
      * now rewrite N.eqb_refl.
      * destruct (N.eqb_spec k k'); [congruence|exact IH].
Qed.

Lemma lookup_ins_neq k k' v m : k <> k' -> lookup k' (ins k v m) = lookup k' m.
Proof.
  intros Hne. induction m as [|[k0 v0] r IH]; simpl.
  - destruct (N.eqb_spec k' k); congruence.
  - destruct (N.ltb_spec k k0); simpl.
    + destruct (N.eqb_spec k' k); [congruence|reflexivity].
    + destruct (N.eqb_spec k k0); simpl; subst.
      * destruct (N.eqb_spec k' k0); [congruence|reflexivity].
      * destruct (N.eqb_spec k' k0); auto.
Qed.

(* strictly increasing key order = canonical BTreeMap form *)
Inductive sorted : amap -> Prop :=
| sorted_nil : sorted []
| sorted_one k v : sorted [(k, v)]
| sorted_cons k v k' v' r : (k < k')%N -> sorted ((k', v') :: r) -> sorted ((k, v) :: (k', v') :: r).

Lemma ins_sorted k v m : sorted m -> sorted (ins k v m).
Proof.
  induction 1 as [|k0 v0|k0 v0 k1 v1 r Hlt Hs IH]; simpl.
  - constructor.
  - destruct (N.ltb_spec k k0). constructor; auto; constructor.
    destruct (N.eqb_spec k k0). constructor. constructor. lia. constructor.
  - destruct (N.ltb_spec k k0). constructor; auto. constructor; auto.
    destruct (N.eqb_spec k k0). subst. constructor; auto.
    simpl in IH. destruct (N.ltb_spec k k1).
    + constructor. lia. exact IH.
    + destruct (N.eqb_spec k k1).
      * subst. constructor; auto.
      * constructor; auto.
Qed.

(* canonical maps are determined by their lookup function: insertion order cannot matter *)
Lemma sorted_head_min k v r k' : sorted ((k, v) :: r) -> (k' < k)%N -> lookup k' ((k, v) :: r) = None.
Proof.
  revert k v. induction r as [|[k1 v1] r IH]; intros k v Hs Hlt; simpl.
  - destruct (N.eqb_spec k' k); auto; lia.
  - destruct (N.eqb_spec k' k); try lia. inversion Hs; subst. apply IH; auto. lia.
Qed.

Lemma sorted_ext m1 : forall m2, sorted m1 -> sorted m2 -> (forall k, lookup k m1 = lookup k m2) -> m1 = m2.
Proof.
  induction m1 as [|[k1 v1] r1 IH]; intros [|[k2 v2] r2] S1 S2 E; auto.
  - specialize (E k2). simpl in E. rewrite N.eqb_refl in E. discriminate.
  - specialize (E k1). simpl in E. rewrite N.eqb_refl in E. discriminate.
  - assert (k1 = k2).
    { destruct (N.lt_trichotomy k1 k2) as [H|[H|H]]; auto.
      - pose proof (E k1) as E1. rewrite (sorted_head_min _ _ _ _ S2 H) in E1. simpl in E1.
        rewrite N.eqb_refl in E1. discriminate.
      - pose proof (E k2) as E1. rewrite (sorted_head_min _ _ _ _ S1 H) in E1. simpl in E1.
        rewrite N.eqb_refl in E1. discriminate. }
    subst. pose proof (E k2) as E0. simpl in E0. rewrite N.eqb_refl in E0. inversion E0; subst.
    f_equal. apply IH.
    + inversion S1; subst; auto; constructor.
    + inversion S2; subst; auto; constructor.
    + intros k. specialize (E k). simpl in E. destruct (N.eqb_spec k k2); auto. subst.
      assert (lookup k2 r1 = None).
      { destruct r1 as [|[ka va] ra]; auto. inversion S1; subst. apply sorted_head_min; auto. }
      assert (lookup k2 r2 = None).
      { destruct r2 as [|[ka va] ra]; auto. inversion S2; subst. apply sorted_head_min; auto. }
      congruence.
Qed.
