(* C17, reported locks are SUFFICIENT (table level).
   Every Stack the model's satisfier returns (as satisfaction or dissatisfaction of any fragment)
   is an entry of the specification table computed for the assets RESTRICTED to the locks that
   very result reports: after(t) is granted only when t is in the unit of s_abs and not larger,
   older(t) only when t is in the unit of s_rel and not larger; with s_abs / s_rel = None no
   after / older is granted at all.  With Theorem A: the witness is accepted in every environment
   whose nLockTime / nSequence pass CLTV resp. CSV for exactly the reported values.
   (Proofs/SatProofs.v : sat_in_table asks the environment to meet every lock the satisfier
   was allowed to consider.) *)
From Verif Require Import Exec Ser Ast Types TypeCheck SatSpec Sat ExecLemmas TheoremA SatProofs PlanProofs.
From Coq Require Import Lia Permutation.

(* ---------- the two lock orders (absolute::LockTime / relative::LockTime partial orders) ---------- *)
Definition abs_le (t T : N) : bool := Bool.eqb (N.ltb t 500000000) (N.ltb T 500000000) && N.leb t T.
Definition rel_le (t R : N) : bool := Bool.eqb (rel_is_time t) (rel_is_time R) && N.leb (rel_val t) (rel_val R).
Definition leo (le : N -> N -> bool) (t : N) (o : option N) : bool :=
  match o with Some T => le t T | None => false end.
Definition osub (le : N -> N -> bool) (o o' : option N) : Prop :=
  forall t, leo le t o = true -> leo le t o' = true.

Lemma abs_le_refl t : abs_le t t = true.
Proof. unfold abs_le. rewrite Bool.eqb_reflx, N.leb_refl. reflexivity. Qed.
Lemma rel_le_refl t : rel_le t t = true.
Proof. unfold rel_le. rewrite Bool.eqb_reflx, N.leb_refl. reflexivity. Qed.
Lemma abs_le_trans a b c : abs_le a b = true -> abs_le b c = true -> abs_le a c = true.
Proof.
  unfold abs_le. intros H1 H2. apply andb_prop in H1. apply andb_prop in H2. destruct H1 as [E1 L1], H2 as [E2 L2].
  apply Bool.eqb_prop in E1. apply Bool.eqb_prop in E2. apply N.leb_le in L1. apply N.leb_le in L2.
  rewrite E1, E2, Bool.eqb_reflx. cbn [andb]. apply N.leb_le. lia.
Qed.
Lemma rel_le_trans a b c : rel_le a b = true -> rel_le b c = true -> rel_le a c = true.
Proof.
  unfold rel_le. intros H1 H2. apply andb_prop in H1. apply andb_prop in H2. destruct H1 as [E1 L1], H2 as [E2 L2].
  apply Bool.eqb_prop in E1. apply Bool.eqb_prop in E2. apply N.leb_le in L1. apply N.leb_le in L2.
  rewrite E1, E2, Bool.eqb_reflx. cbn [andb]. apply N.leb_le. lia.
Qed.

Lemma abs_max_le x y t : abs_max x y = Some t -> abs_le x t = true /\ abs_le y t = true.
Proof.
  unfold abs_max, abs_le. destruct (Bool.eqb (N.ltb x 500000000) (N.ltb y 500000000)) eqn:E; [|discriminate].
  apply Bool.eqb_prop in E. destruct (N.leb_spec y x) as [Hle|Hle]; intros Hq; inversion Hq; subst.
  - rewrite Bool.eqb_reflx, N.leb_refl, <- E, Bool.eqb_reflx. cbn [andb]. split; [reflexivity | apply N.leb_le; exact Hle].
  - rewrite Bool.eqb_reflx, N.leb_refl, E, Bool.eqb_reflx. cbn [andb]. split; [apply N.leb_le; lia | reflexivity].
Qed.
Lemma rel_max_le x y t : rel_max x y = Some t -> rel_le x t = true /\ rel_le y t = true.
Proof.
  unfold rel_max, rel_le. destruct (Bool.eqb (rel_is_time x) (rel_is_time y)) eqn:E; [|discriminate].
  apply Bool.eqb_prop in E. destruct (N.leb_spec (rel_val y) (rel_val x)) as [Hle|Hle]; intros Hq; inversion Hq; subst.
  - rewrite Bool.eqb_reflx, N.leb_refl, <- E, Bool.eqb_reflx. cbn [andb]. split; [reflexivity | apply N.leb_le; exact Hle].
  - rewrite Bool.eqb_reflx, N.leb_refl, E, Bool.eqb_reflx. cbn [andb]. split; [apply N.leb_le; lia | reflexivity].
Qed.

Lemma osub_refl le o : osub le o o.
Proof. intros t H. exact H. Qed.
Lemma osub_trans le a b c : osub le a b -> osub le b c -> osub le a c.
Proof. intros H1 H2 t H. apply H2, H1, H. Qed.
Lemma osub_none le o : osub le None o.
Proof. intros t H. discriminate. Qed.

Lemma merge_sub (le : N -> N -> bool) (mx : N -> N -> option N) :
  (forall x y t, mx x y = Some t -> le x t = true /\ le y t = true) ->
  (forall a b c, le a b = true -> le b c = true -> le a c = true) ->
  forall a b c, merge_lock mx a b = Some c -> osub le a c /\ osub le b c.
Proof.
  intros Hmx Htr a b c H. destruct a as [x|], b as [y|]; cbn [merge_lock] in H.
  - destruct (mx x y) as [t|] eqn:E; [|discriminate]. inversion H; subst. destruct (Hmx x y t E) as [H1 H2].
    split; intros u Hu; cbn [leo] in *; eapply Htr; eassumption.
  - inversion H; subst. split; [apply osub_refl | apply osub_none].
  - inversion H; subst. split; [apply osub_none | apply osub_refl].
  - inversion H; subst. split; apply osub_refl.
Qed.

(* one result reports locks at least as strict as another *)
Definition lsub (a c : satn) : Prop := osub abs_le (s_abs a) (s_abs c) /\ osub rel_le (s_rel a) (s_rel c).
Lemma lsub_refl a : lsub a a.
Proof. split; apply osub_refl. Qed.
Lemma lsub_trans a b c : lsub a b -> lsub b c -> lsub a c.
Proof. intros [H1 H2] [H3 H4]. split; eapply osub_trans; eassumption. Qed.

Lemma concat_lsub a b l : s_stack (concatenate_rev a b) = WStack l ->
  lsub a (concatenate_rev a b) /\ lsub b (concatenate_rev a b).
Proof.
  unfold concatenate_rev. destruct (is_imp (s_stack a) || is_imp (s_stack b)); [discriminate|].
  destruct (merge_lock rel_max (s_rel a) (s_rel b)) as [r|] eqn:Er; [|discriminate].
  destruct (merge_lock abs_max (s_abs a) (s_abs b)) as [ab|] eqn:Ea; [|discriminate].
  intros _. unfold lsub. cbn [s_abs s_rel].
  destruct (merge_sub abs_le abs_max abs_max_le abs_le_trans _ _ _ Ea) as [A1 A2].
  destruct (merge_sub rel_le rel_max rel_max_le rel_le_trans _ _ _ Er) as [R1 R2].
  repeat split; assumption.
Qed.

(* ---------- restricted assets and monotonicity of the table ---------- *)
Definition restrict (A : assets) (oa orl : option N) : assets :=
  mkAssets (a_sig A) (a_sha256 A) (a_hash256 A) (a_ripemd160 A) (a_hash160 A)
           (fun t => a_after A t && leo abs_le t oa) (fun t => a_older A t && leo rel_le t orl).

Record assets_le (A A' : assets) : Prop := {
  al_sig : a_sig A' = a_sig A;
  al_sha256 : a_sha256 A' = a_sha256 A;
  al_hash256 : a_hash256 A' = a_hash256 A;
  al_ripemd160 : a_ripemd160 A' = a_ripemd160 A;
  al_hash160 : a_hash160 A' = a_hash160 A;
  al_after : forall t, a_after A t = true -> a_after A' t = true;
  al_older : forall t, a_older A t = true -> a_older A' t = true
}.

Lemma restrict_le A oa orl oa' orl' : osub abs_le oa oa' -> osub rel_le orl orl' ->
  assets_le (restrict A oa orl) (restrict A oa' orl').
Proof.
  intros Ha Hr. constructor; try reflexivity; cbn [restrict a_after a_older]; intros t H;
  apply andb_prop in H; destruct H as [H1 H2]; rewrite H1; cbn [andb]; [apply Ha | apply Hr]; exact H2.
Qed.
Lemma restrict_le_full A oa orl : assets_le (restrict A oa orl) A.
Proof.
  constructor; try reflexivity; cbn [restrict a_after a_older]; intros t H; apply andb_prop in H; tauto.
Qed.

Lemma pick_sigs_ext A A' : a_sig A' = a_sig A -> forall ks k, pick_sigs A' k ks = pick_sigs A k ks.
Proof.
  intros H. induction ks as [|key r IH]; intros k; cbn [pick_sigs]; [reflexivity|].
  rewrite H, (IH k). destruct k as [|k']; [reflexivity|]. rewrite (IH k'). reflexivity.
Qed.
Lemma pick_sigs_a_ext A A' : a_sig A' = a_sig A -> forall ks k, pick_sigs_a A' k ks = pick_sigs_a A k ks.
Proof.
  intros H. induction ks as [|key r IH]; intros k; cbn [pick_sigs_a]; [reflexivity|].
  rewrite H, (IH k). destruct k as [|k']; [reflexivity|]. rewrite (IH k'). reflexivity.
Qed.

Lemma cross_incl (S S' T T' : list wit) : incl S S' -> incl T T' -> incl (cross S T) (cross S' T').
Proof.
  intros HS HT w Hin. apply in_cross in Hin. destruct Hin as [a [b [Ha [Hb ->]]]].
  apply in_cross. exists a, b. auto.
Qed.

Definition pair_incl (p p' : list wit * list wit) : Prop := incl (fst p) (fst p') /\ incl (snd p) (snd p').

Lemma thresh_comb_incl cs cs' : Forall2 pair_incl cs cs' -> forall k, incl (thresh_comb k cs) (thresh_comb k cs').
Proof.
  induction 1 as [|[s d] [s' d'] r r' [Hs Hd] Hr IH]; intros k; cbn [thresh_comb]; [apply incl_refl|].
  cbn [fst snd] in Hs, Hd. apply incl_app_app.
  - destruct k as [|k']; [apply incl_refl | apply cross_incl; [exact Hs | apply IH]].
  - apply cross_incl; [exact Hd | apply IH].
Qed.

Lemma sd_mono ke A A' : assets_le A A' -> forall m, pair_incl (sd ke A m) (sd ke A' m).
Proof.
  intros HL. unfold pair_incl.
  induction m using ms_ind'; cbn [sd];
  try (rewrite ?(al_sig _ _ HL), ?(al_sha256 _ _ HL), ?(al_hash256 _ _ HL), ?(al_ripemd160 _ _ HL), ?(al_hash160 _ _ HL),
               ?(pick_sigs_ext A A' (al_sig _ _ HL)), ?(pick_sigs_a_ext A A' (al_sig _ _ HL));
       split; apply incl_refl).
  - (* after *) split; [|apply incl_refl]. cbn [fst]. destruct (a_after A t) eqn:E; [rewrite (al_after _ _ HL t E); apply incl_refl | apply incl_nil_l].
  - (* older *) split; [|apply incl_refl]. cbn [fst]. destruct (a_older A t) eqn:E; [rewrite (al_older _ _ HL t E); apply incl_refl | apply incl_nil_l].
  - exact IHm.
  - exact IHm.
  - exact IHm.
  - (* d *) destruct IHm as [H1 H2]. split; cbn [fst snd]; [apply incl_map; exact H1 | apply incl_refl].
  - (* v *) destruct IHm as [H1 H2]. split; cbn [fst snd]; [exact H1 | apply incl_refl].
  - (* j *) destruct IHm as [H1 H2]. split; cbn [fst snd]; [exact H1 | apply incl_refl].
  - exact IHm.
  - (* and_v *) destruct (sd ke A m1) as [sx dx], (sd ke A' m1) as [sx' dx'], (sd ke A m2) as [sy dy], (sd ke A' m2) as [sy' dy'].
    cbn [fst snd] in *. destruct IHm1, IHm2. split; apply cross_incl; assumption.
  - (* and_b *) destruct (sd ke A m1) as [sx dx], (sd ke A' m1) as [sx' dx'], (sd ke A m2) as [sy dy], (sd ke A' m2) as [sy' dy'].
    cbn [fst snd] in *. destruct IHm1, IHm2. split; apply cross_incl; assumption.
  - (* andor *) destruct (sd ke A m1) as [sa da], (sd ke A' m1) as [sa' da'], (sd ke A m2) as [sb db], (sd ke A' m2) as [sb' db'],
      (sd ke A m3) as [sc dc], (sd ke A' m3) as [sc' dc'].
    cbn [fst snd] in *. destruct IHm1, IHm2, IHm3. split; [apply incl_app_app|]; apply cross_incl; assumption.
  - (* or_b *) destruct (sd ke A m1) as [sx dx], (sd ke A' m1) as [sx' dx'], (sd ke A m2) as [sy dy], (sd ke A' m2) as [sy' dy'].
    cbn [fst snd] in *. destruct IHm1, IHm2. split; [apply incl_app_app|]; apply cross_incl; assumption.
  - (* or_d *) destruct (sd ke A m1) as [sx dx], (sd ke A' m1) as [sx' dx'], (sd ke A m2) as [sy dy], (sd ke A' m2) as [sy' dy'].
    cbn [fst snd] in *. destruct IHm1, IHm2. split; [apply incl_app_app; [assumption|]|]; apply cross_incl; assumption.
  - (* or_c *) destruct (sd ke A m1) as [sx dx], (sd ke A' m1) as [sx' dx'], (sd ke A m2) as [sy dy], (sd ke A' m2) as [sy' dy'].
    cbn [fst snd] in *. destruct IHm1, IHm2. split; [apply incl_app_app; [assumption | apply cross_incl; assumption] | apply incl_refl].
  - (* or_i *) destruct (sd ke A m1) as [sx dx], (sd ke A' m1) as [sx' dx'], (sd ke A m2) as [sy dy], (sd ke A' m2) as [sy' dy'].
    cbn [fst snd] in *. destruct IHm1, IHm2. split; apply incl_app_app; apply incl_map; assumption.
  - (* thresh *)
    assert (HF : Forall2 pair_incl
      ((fix go (l : list ms) : list (list wit * list wit) := match l with [] => [] | x :: r => sd ke A x :: go r end) xs)
      ((fix go (l : list ms) : list (list wit * list wit) := match l with [] => [] | x :: r => sd ke A' x :: go r end) xs)).
    { induction H as [|x r Hx Hr IHr]; constructor; [exact Hx | exact IHr]. }
    split; cbn [fst snd]; apply thresh_comb_incl; exact HF.
Qed.

Lemma sat_mono ke m A1 A2 : assets_le A1 A2 -> incl (all_sat ke A1 m) (all_sat ke A2 m).
Proof. intros H. exact (proj1 (sd_mono ke A1 A2 H m)). Qed.
Lemma dsat_mono ke m A1 A2 : assets_le A1 A2 -> incl (all_dsat ke A1 m) (all_dsat ke A2 m).
Proof. intros H. exact (proj2 (sd_mono ke A1 A2 H m)). Qed.

(* leaves that contain no lock: the table does not look at a_after / a_older *)
Definition lockless_leaf (m : ms) : bool :=
  match m with
  | MTrue | MFalse | MPkK _ | MPkH _ | MRawPkH _ | MSha256 _ | MHash256 _ | MRipemd160 _ | MHash160 _
  | MMulti _ _ | MSortedMulti _ _ | MMultiA _ _ | MSortedMultiA _ _ => true
  | _ => false
  end.
Lemma sd_leaf_eq ke A oa orl m : lockless_leaf m = true -> sd ke (restrict A oa orl) m = sd ke A m.
Proof.
  destruct m; try discriminate; intros _; cbn [sd restrict a_sig a_sha256 a_hash256 a_ripemd160 a_hash160];
  rewrite ?(pick_sigs_ext A (restrict A oa orl) eq_refl), ?(pick_sigs_a_ext A (restrict A oa orl) eq_refl); reflexivity.
Qed.

(* ---------- the satisfier's outputs are in the table of the assets restricted to the reported locks ---------- *)
Section LockTable.
  Variable ke : keyenv.
  Variable A : assets.
  Variable se : senv.
  Variable f : fill.
  Hypothesis L : linked ke A se f.
  Hypothesis Hksort_len : forall ks, length (ksort ke ks) = length ks.

  Definition rA (s : satn) : assets := restrict A (s_abs s) (s_rel s).
  Lemma rA_le a c : lsub a c -> assets_le (rA a) (rA c).
  Proof. intros [H1 H2]. apply restrict_le; assumption. Qed.

  Definition satokL (m : ms) (s : satn) : Prop := satok ke (rA s) f m s.
  Definition disokL (m : ms) (s : satn) : Prop := disok ke (rA s) f m s.
  Definition in_tableL (m : ms) (ds : satn * satn) : Prop := disokL m (fst ds) /\ satokL m (snd ds).

  Lemma satok_mono A1 A2 m s : assets_le A1 A2 -> satok ke A1 f m s -> satok ke A2 f m s.
  Proof. intros HL H l bs Hs Hf. apply (sat_mono ke m A1 A2 HL). eapply H; eassumption. Qed.
  Lemma disok_mono A1 A2 m s : assets_le A1 A2 -> disok ke A1 f m s -> disok ke A2 f m s.
  Proof. intros HL H l bs Hs Hf. apply (dsat_mono ke m A1 A2 HL). eapply H; eassumption. Qed.

  Definition amono (F : assets -> list wit) : Prop := forall A1 A2, assets_le A1 A2 -> incl (F A1) (F A2).
  Definition okF (F : assets -> list wit) (s : satn) : Prop :=
    forall l bs, s_stack s = WStack l -> fill_all f l = Some bs -> In (rev bs) (F (rA s)).

  Lemma amono_sat m : amono (fun A' => all_sat ke A' m).
  Proof. intros A1 A2 H. apply sat_mono, H. Qed.
  Lemma amono_dsat m : amono (fun A' => all_dsat ke A' m).
  Proof. intros A1 A2 H. apply dsat_mono, H. Qed.
  Lemma amono_cross F G : amono F -> amono G -> amono (fun A' => cross (F A') (G A')).
  Proof. intros HF HG A1 A2 H. apply cross_incl; [apply HF | apply HG]; exact H. Qed.

  Lemma concat_okL (F G : assets -> list wit) a b : amono F -> amono G -> okF F a -> okF G b ->
    okF (fun A' => cross (F A') (G A')) (concatenate_rev a b).
  Proof.
    intros HF HG Ha Hb l bs Hs Hf. destruct (concat_lsub a b l Hs) as [La Lb].
    apply concat_stack in Hs. destruct Hs as [la [lb [Ea [Eb ->]]]].
    apply fill_all_app in Hf. destruct Hf as [b1 [b2 [F1 [F2 ->]]]]. rewrite rev_app_distr.
    apply cross_intro.
    - apply (HF _ _ (rA_le _ _ La)). eapply Ha; eassumption.
    - apply (HG _ _ (rA_le _ _ Lb)). eapply Hb; eassumption.
  Qed.

  Lemma min_pick (mall : bool) a b l : s_stack ((if mall then minimum_mall se else minimum se) a b) = WStack l ->
    let r := (if mall then minimum_mall se else minimum se) a b in
    (s_stack a = WStack l /\ s_abs r = s_abs a /\ s_rel r = s_rel a) \/
    (s_stack b = WStack l /\ s_abs r = s_abs b /\ s_rel r = s_rel b).
  Proof.
    destruct mall; cbv zeta.
    - unfold minimum_mall. destruct (is_stack (s_stack a)); cbn [negb]; [|intros H; right; auto].
      destruct (is_stack (s_stack b)); cbn [negb]; [|intros H; left; auto].
      destruct (wit_lt se (s_stack a) (s_stack b)); cbn [s_stack s_abs s_rel]; intros H; [left | right]; auto.
    - unfold minimum. destruct (is_imp (s_stack a)); [intros H; right; auto|]. destruct (is_imp (s_stack b)); [intros H; left; auto|].
      destruct (s_has_sig a), (s_has_sig b); cbn [s_stack s_abs s_rel]; try discriminate; intros H; auto.
      destruct (wit_lt se (s_stack a) (s_stack b)); cbn [s_stack s_abs s_rel] in *; [left | right]; auto.
  Qed.

  Lemma min_okL (F : assets -> list wit) (mall : bool) a b : okF F a -> okF F b ->
    okF F ((if mall then minimum_mall se else minimum se) a b).
  Proof.
    intros Ha Hb l bs Hs Hf. destruct (min_pick mall a b l Hs) as [[E [E1 E2]]|[E [E1 E2]]]; unfold rA; rewrite E1, E2.
    - eapply Ha; eassumption.
    - eapply Hb; eassumption.
  Qed.

  Lemma okF_l (F G : assets -> list wit) s : okF F s -> okF (fun A' => F A' ++ G A') s.
  Proof. intros H l bs Hs Hf. apply in_or_app. left. eapply H; eassumption. Qed.
  Lemma okF_r (F G : assets -> list wit) s : okF G s -> okF (fun A' => F A' ++ G A') s.
  Proof. intros H l bs Hs Hf. apply in_or_app. right. eapply H; eassumption. Qed.

  Lemma push_okL (F : assets -> list wit) a (p : ph) (v : bytes) : fill_ph f p = Some v -> okF F a ->
    okF (fun A' => map (cons v) (F A')) (with_stack a (wcombine (s_stack a) (WStack [p]))).
  Proof. intros Hp Ha l bs Hs Hf. exact (push_in f (F (rA a)) a p v Hp Ha l bs Hs Hf). Qed.

  (* ---------- leaves ---------- *)
  Lemma leaf_okL mall rhs m : lockless_leaf m = true -> kwf m -> in_tableL m (sat_dissat ke se mall rhs m).
  Proof.
    intros Hl Hk. destruct (sat_in_table ke A se f L Hksort_len mall rhs m Hk) as [Hd Hs].
    split; intros l bs Hst Hf; unfold all_sat, all_dsat, rA; rewrite (sd_leaf_eq ke A _ _ m Hl);
    [eapply Hd | eapply Hs]; eassumption.
  Qed.

  Lemma time_okL (ok rhs isabs : bool) t m :
    (forall oa orl, oa = (if isabs then Some t else None) -> orl = (if isabs then None else Some t) ->
       sd ke (restrict A oa orl) m = ((if ok then (@nil bytes :: nil) else (@nil wit)), @nil wit)) ->
    in_tableL m (sd_time ok rhs t isabs).
  Proof.
    intros Hm. unfold sd_time. split; cbn [fst snd].
    - intros l bs Hs. cbn in Hs. discriminate.
    - intros l bs Hs Hf. unfold all_sat, rA.
      destruct isabs; cbn [s_stack s_abs s_rel] in *; destruct ok; try (destruct rhs; discriminate);
      rewrite (Hm _ _ eq_refl eq_refl); inversion Hs; subst; cbn in Hf; inversion Hf; subst; left; reflexivity.
  Qed.

  (* ---------- thresh ---------- *)
  Lemma fold_stack_acc Ls : forall acc l, s_stack (fold_left concatenate_rev Ls acc) = WStack l ->
    exists la, s_stack acc = WStack la.
  Proof.
    induction Ls as [|x r IH]; intros acc l H; cbn [fold_left] in H; [eauto|].
    destruct (IH _ _ H) as [la Ha]. apply concat_stack in Ha. destruct Ha as [la' [_ [Ha _]]]. eauto.
  Qed.
  Lemma fold_lsub Ls : forall acc l, s_stack (fold_left concatenate_rev Ls acc) = WStack l ->
    lsub acc (fold_left concatenate_rev Ls acc) /\ forall x, In x Ls -> lsub x (fold_left concatenate_rev Ls acc).
  Proof.
    induction Ls as [|x r IH]; intros acc l H; cbn [fold_left] in *.
    - split; [apply lsub_refl | intros x []].
    - destruct (IH _ _ H) as [H1 H2]. destruct (fold_stack_acc _ _ _ H) as [la Ha].
      destruct (concat_lsub acc x la Ha) as [La Lx]. split; [eapply lsub_trans; eassumption|].
      intros y [<-|Hy]; [eapply lsub_trans; eassumption | apply H2, Hy].
  Qed.

  Lemma flat_genL (T : list (ms * satn * bool)) :
    (forall x e b, In (x, e, b) T -> if b then satokL x e else disokL x e) ->
    forall l bs, s_stack (flatten_rev (map (fun t => snd (fst t)) T)) = WStack l -> fill_all f l = Some bs ->
      In (rev bs) (thresh_comb (tcount T)
                     (map (fun t => sd ke (rA (flatten_rev (map (fun t => snd (fst t)) T))) (fst (fst t))) T)).
  Proof.
    intros HT l bs Hs Hf. set (fin := flatten_rev (map (fun t => snd (fst t)) T)) in *.
    assert (HT' : forall x e b, In (x, e, b) T -> if b then satok ke (rA fin) f x e else disok ke (rA fin) f x e).
    { intros x e b Hin. pose proof (HT x e b Hin) as Hx.
      assert (Hl : lsub e fin).
      { unfold fin, flatten_rev in *. destruct (fold_lsub _ _ _ Hs) as [_ H2]. apply H2.
        apply in_map_iff. exists (x, e, b). split; [reflexivity | exact Hin]. }
      destruct b; [eapply satok_mono | eapply disok_mono]; try (apply rA_le; exact Hl); exact Hx. }
    unfold fin, flatten_rev in Hs.
    destruct (flat_gen ke (rA fin) f T HT' TRIVIAL l Hs) as [lacc [lT [Ha [-> Hres]]]]. cbn in Ha. inversion Ha; subst.
    rewrite app_nil_r in Hf. exact (Hres bs Hf).
  Qed.

  Lemma swap_in_tableL (xs : list ms) (ds : list (satn * satn)) (order : list nat) (k : nat) :
    length ds = length xs ->
    (forall i x d, nth_error xs i = Some x -> nth_error ds i = Some d -> in_tableL x d) ->
    Permutation order (seq 0 (length xs)) -> (k <= length xs)%nat ->
    forall l bs, let fin := flatten_rev (swap_in (firstn k order) (map fst ds) (map snd ds)) in
      s_stack fin = WStack l -> fill_all f l = Some bs -> In (rev bs) (thresh_comb k (map (sd ke (rA fin)) xs)).
  Proof.
    intros Hlen Hin Hperm Hk l bs fin Hs Hf. unfold fin in *. clear fin.
    set (chosen := firstn k order) in *.
    set (T := map (fun i => (nth i xs MTrue, (if existsb (Nat.eqb i) chosen then nth_sat (map snd ds) i else nth i (map fst ds) IMPOSSIBLE),
                             existsb (Nat.eqb i) chosen)) (seq 0 (length xs))).
    assert (HE : swap_in chosen (map fst ds) (map snd ds) = map (fun t => snd (fst t)) T).
    { unfold swap_in, T. rewrite map_length, Hlen, map_map. cbn [fst snd].
      assert (Hc : forall (dl : list satn) a, map (fun p => if existsb (Nat.eqb (fst p)) chosen then nth_sat (map snd ds) (fst p) else snd p)
                       (combine (seq a (length dl)) dl)
                   = map (fun i => if existsb (Nat.eqb i) chosen then nth_sat (map snd ds) i else nth (i - a) dl IMPOSSIBLE) (seq a (length dl))).
      { induction dl as [|d r IHd]; intros a; [reflexivity|]. cbn [length seq combine map fst snd].
        rewrite Nat.sub_diag. cbn [nth]. f_equal. rewrite IHd. apply map_ext_in. intros i Hi. apply in_seq in Hi.
        destruct (existsb (Nat.eqb i) chosen); [reflexivity|]. replace (i - a)%nat with (S (i - S a)) by lia. reflexivity. }
      specialize (Hc (map fst ds) 0%nat). rewrite map_length, Hlen in Hc. rewrite Hc.
      apply map_ext. intros i. rewrite Nat.sub_0_r. reflexivity. }
    assert (HC : forall A', map (fun t => sd ke A' (fst (fst t))) T = map (sd ke A') xs).
    { intros A'. unfold T. rewrite map_map. cbn [fst]. clear.
      assert (G : forall (l : list ms) a, map (fun i => sd ke A' (nth (i - a) l MTrue)) (seq a (length l)) = map (sd ke A') l).
      { induction l as [|x r IH]; intros a; [reflexivity|]. cbn [length seq map]. rewrite Nat.sub_diag. cbn [nth]. f_equal.
        rewrite <- (IH (S a)). apply map_ext_in. intros i Hi. apply in_seq in Hi. replace (i - a)%nat with (S (i - S a)) by lia. reflexivity. }
      specialize (G xs 0%nat). rewrite <- G. apply map_ext. intros i. rewrite Nat.sub_0_r. reflexivity. }
    assert (HT : forall x e b, In (x, e, b) T -> if b then satokL x e else disokL x e).
    { intros x e b Hi. unfold T in Hi. apply in_map_iff in Hi. destruct Hi as [i [Hi Hseq]]. apply in_seq in Hseq.
      inversion Hi; subst; clear Hi.
      assert (Hx : nth_error xs i = Some (nth i xs MTrue)) by (apply nth_error_nth'; lia).
      destruct (nth_error ds i) as [d|] eqn:Ed; [|apply nth_error_None in Ed; lia].
      destruct (Hin i _ d Hx Ed) as [Hd Hsat].
      assert (E1 : nth i (map fst ds) IMPOSSIBLE = fst d).
      { rewrite (nth_indep _ IMPOSSIBLE (fst (IMPOSSIBLE, IMPOSSIBLE))) by (rewrite map_length; lia).
        rewrite map_nth. erewrite nth_error_nth; [reflexivity | exact Ed]. }
      assert (E2 : nth_sat (map snd ds) i = snd d).
      { unfold nth_sat. rewrite (nth_indep _ IMPOSSIBLE (snd (IMPOSSIBLE, IMPOSSIBLE))) by (rewrite map_length; lia).
        rewrite map_nth. erewrite nth_error_nth; [reflexivity | exact Ed]. }
      destruct (existsb (Nat.eqb i) chosen); [rewrite E2; exact Hsat | rewrite E1; exact Hd]. }
    rewrite HE in Hs |- *.
    pose proof (flat_genL T HT l bs Hs Hf) as Hres. rewrite HC in Hres.
    assert (Hcount : tcount T = k).
    { unfold tcount, T. rewrite filter_map_len. cbn [snd].
      assert (Hnd : NoDup order) by (eapply Permutation_NoDup; [symmetry; exact Hperm | apply seq_NoDup]).
      rewrite chosen_count.
      - unfold chosen. apply firstn_length_le. rewrite (Permutation_length Hperm), seq_length. exact Hk.
      - apply firstn_nodup. exact Hnd.
      - intros i Hi. apply firstn_incl in Hi. eapply Permutation_in in Hi; [|exact Hperm]. apply in_seq in Hi. lia. }
    rewrite Hcount in Hres. exact Hres.
  Qed.

  Lemma flat_constL (b : bool) (xs : list ms) (ds : list (satn * satn)) :
    Forall2 in_tableL xs ds ->
    forall l bs, let fin := flatten_rev (map (fun d => if b then snd d else fst d) ds) in
      s_stack fin = WStack l -> fill_all f l = Some bs ->
      In (rev bs) (thresh_comb (if b then length xs else 0) (map (sd ke (rA fin)) xs)).
  Proof.
    intros HF l bs fin Hs Hf. unfold fin in *. clear fin.
    set (T := map (fun p => (fst p, (if b then snd (snd p) else fst (snd p)), b)) (combine xs ds)).
    assert (Hlen : length xs = length ds) by (clear -HF; induction HF; cbn; congruence).
    assert (HE : map (fun d => if b then snd d else fst d) ds = map (fun t => snd (fst t)) T).
    { unfold T. rewrite map_map. cbn [fst snd]. clear -Hlen. revert ds Hlen.
      induction xs as [|x r IH]; intros [|d ds] Hl; cbn in *; try lia; [reflexivity|]. f_equal. apply IH. lia. }
    assert (HC : forall A', map (fun t => sd ke A' (fst (fst t))) T = map (sd ke A') xs).
    { intros A'. unfold T. rewrite map_map. cbn [fst]. clear -Hlen. revert ds Hlen.
      induction xs as [|x r IH]; intros [|d ds] Hl; cbn in *; try lia; [reflexivity|]. f_equal. apply IH. lia. }
    assert (HT : forall x e b0, In (x, e, b0) T -> if b0 then satokL x e else disokL x e).
    { intros x e b0 Hi. unfold T in Hi. apply in_map_iff in Hi. destruct Hi as [[x' d] [Hi Hc]]. cbn [fst snd] in Hi. inversion Hi; subst x e b0; clear Hi.
      assert (Hxd : in_tableL x' d).
      { clear -HF Hc. induction HF as [|x0 d0 xs0 ds0 H0 HF' IH]; cbn in Hc; [contradiction|].
        destruct Hc as [Hc|Hc]; [inversion Hc; subst; exact H0 | apply IH, Hc]. }
      destruct Hxd as [Hd Hsat]. destruct b; assumption. }
    rewrite HE in Hs |- *.
    pose proof (flat_genL T HT l bs Hs Hf) as Hres. rewrite HC in Hres.
    assert (Hcount : tcount T = if b then length xs else 0%nat).
    { unfold tcount, T. rewrite filter_map_len. cbn [snd]. destruct b.
      - assert (Hf' : filter (fun _ : ms * (satn * satn) => true) (combine xs ds) = combine xs ds).
        { clear. induction (combine xs ds) as [|p r IH]; [reflexivity|]. cbn. rewrite IH. reflexivity. }
        rewrite Hf', combine_length. lia.
      - assert (Hf' : filter (fun _ : ms * (satn * satn) => false) (combine xs ds) = []).
        { clear. induction (combine xs ds) as [|p r IH]; [reflexivity|]. cbn. exact IH. }
        rewrite Hf'. reflexivity. }
    rewrite Hcount in Hres. exact Hres.
  Qed.

  Theorem sat_in_table_locks mall rhs : forall m, kwf m -> in_tableL m (sat_dissat ke se mall rhs m).
  Proof.
    induction m using ms_ind'; intros Hk; try (apply leaf_okL; [reflexivity | exact Hk]); cbn [sat_dissat kwf] in *.
    - (* after *) apply time_okL. intros oa orl -> ->. cbn [sd restrict a_after leo]. rewrite abs_le_refl, Bool.andb_true_r, (lk_after _ _ _ _ L). reflexivity.
    - (* older *) apply time_okL. intros oa orl -> ->. cbn [sd restrict a_older leo]. rewrite rel_le_refl, Bool.andb_true_r, (lk_older _ _ _ _ L). reflexivity.
    - (* a *) exact (IHm Hk).
    - exact (IHm Hk).
    - exact (IHm Hk).
    - (* d *) destruct (sat_dissat ke se mall rhs m) as [d0 sub] eqn:E. destruct (IHm Hk) as [_ Hs]. cbn [snd] in Hs.
      split; cbn [fst snd].
      + intros l bs Hl Hf. cbn in Hl. inversion Hl; subst. cbn in Hf. inversion Hf. cbn. left. reflexivity.
      + unfold satokL, satok, all_sat. cbn [sd fst].
        exact (push_okL (fun A' => fst (sd ke A' m)) sub PhPushOne [1%N] eq_refl Hs).
    - (* v *) destruct (sat_dissat ke se mall rhs m) as [d0 sub] eqn:E. destruct (IHm Hk) as [_ Hs].
      split; cbn [fst snd]; [intros l bs Hl; cbn in Hl; discriminate | exact Hs].
    - (* j *) destruct (sat_dissat ke se mall rhs m) as [d0 sub] eqn:E. destruct (IHm Hk) as [_ Hs].
      split; cbn [fst snd]; [|exact Hs]. intros l bs Hl Hf. cbn in Hl. inversion Hl; subst. cbn in Hf. inversion Hf. cbn. left. reflexivity.
    - (* n *) exact (IHm Hk).
    - (* and_v *) destruct Hk as [H1 H2]. destruct (sat_dissat ke se mall rhs m1) as [ld ls] eqn:E1.
      destruct (sat_dissat ke se mall rhs m2) as [rd rs] eqn:E2. destruct (IHm1 H1) as [_ Hls]. destruct (IHm2 H2) as [Hrd Hrs].
      cbn [fst snd] in *. split; cbn [fst snd]; unfold satokL, disokL, satok, disok; intros l bs; [rewrite dsat_and_v | rewrite sat_and_v]; revert l bs.
      + exact (concat_okL _ _ ls rd (amono_sat m1) (amono_dsat m2) Hls Hrd).
      + exact (concat_okL _ _ ls rs (amono_sat m1) (amono_sat m2) Hls Hrs).
    - (* and_b *) destruct Hk as [H1 H2]. destruct (sat_dissat ke se mall rhs m1) as [ld ls] eqn:E1.
      destruct (sat_dissat ke se mall rhs m2) as [rd rs] eqn:E2. destruct (IHm1 H1) as [Hld Hls]. destruct (IHm2 H2) as [Hrd Hrs].
      cbn [fst snd] in *. split; cbn [fst snd]; unfold satokL, disokL, satok, disok, all_sat, all_dsat; intros l bs; rewrite sd_and_b; cbn [fst snd]; revert l bs.
      + exact (concat_okL _ _ ld rd (amono_dsat m1) (amono_dsat m2) Hld Hrd).
      + exact (concat_okL _ _ ls rs (amono_sat m1) (amono_sat m2) Hls Hrs).
    - (* andor *) destruct Hk as [H1 [H2 H3]]. destruct (sat_dissat ke se mall rhs m1) as [ad asat] eqn:E1.
      destruct (sat_dissat ke se mall rhs m2) as [bd bsat] eqn:E2. destruct (sat_dissat ke se mall rhs m3) as [cd csat] eqn:E3.
      destruct (IHm1 H1) as [Had Has]. destruct (IHm2 H2) as [_ Hbs]. destruct (IHm3 H3) as [Hcd Hcs]. cbn [fst snd] in *.
      split; cbn [fst snd]; unfold satokL, disokL, satok, disok, all_sat, all_dsat; intros l bs; rewrite sd_andor; cbn [fst snd]; revert l bs.
      + exact (concat_okL _ _ ad cd (amono_dsat m1) (amono_dsat m3) Had Hcd).
      + apply (min_okL (fun A' => cross (all_sat ke A' m1) (all_sat ke A' m2) ++ cross (all_dsat ke A' m1) (all_sat ke A' m3))).
        * apply okF_l. exact (concat_okL _ _ asat bsat (amono_sat m1) (amono_sat m2) Has Hbs).
        * apply (okF_r (fun A' => cross (all_sat ke A' m1) (all_sat ke A' m2))).
          exact (concat_okL _ _ ad csat (amono_dsat m1) (amono_sat m3) Had Hcs).
    - (* or_b *) destruct Hk as [H1 H2]. destruct (sat_dissat ke se mall rhs m1) as [ld ls] eqn:E1.
      destruct (sat_dissat ke se mall rhs m2) as [rd rs] eqn:E2. destruct (IHm1 H1) as [Hld Hls]. destruct (IHm2 H2) as [Hrd Hrs].
      cbn [fst snd] in *. split; cbn [fst snd]; unfold satokL, disokL, satok, disok, all_sat, all_dsat; intros l bs; rewrite sd_or_b; cbn [fst snd]; revert l bs.
      + exact (concat_okL _ _ ld rd (amono_dsat m1) (amono_dsat m2) Hld Hrd).
      + apply (min_okL (fun A' => cross (all_dsat ke A' m1) (all_sat ke A' m2) ++ cross (all_sat ke A' m1) (all_dsat ke A' m2))).
        * apply okF_l. exact (concat_okL _ _ ld rs (amono_dsat m1) (amono_sat m2) Hld Hrs).
        * apply (okF_r (fun A' => cross (all_dsat ke A' m1) (all_sat ke A' m2))).
          exact (concat_okL _ _ ls rd (amono_sat m1) (amono_dsat m2) Hls Hrd).
    - (* or_d *) destruct Hk as [H1 H2]. destruct (sat_dissat ke se mall rhs m1) as [ld ls] eqn:E1.
      destruct (sat_dissat ke se mall rhs m2) as [rd rs] eqn:E2. destruct (IHm1 H1) as [Hld Hls]. destruct (IHm2 H2) as [Hrd Hrs].
      cbn [fst snd] in *. split; cbn [fst snd]; unfold satokL, disokL, satok, disok, all_sat, all_dsat; intros l bs; rewrite sd_or_d; cbn [fst snd]; revert l bs.
      + exact (concat_okL _ _ ld rd (amono_dsat m1) (amono_dsat m2) Hld Hrd).
      + apply (min_okL (fun A' => all_sat ke A' m1 ++ cross (all_dsat ke A' m1) (all_sat ke A' m2))).
        * apply (okF_l (fun A' => all_sat ke A' m1)). exact Hls.
        * apply (okF_r (fun A' => all_sat ke A' m1)).
          exact (concat_okL _ _ ld rs (amono_dsat m1) (amono_sat m2) Hld Hrs).
    - (* or_c *) destruct Hk as [H1 H2]. destruct (sat_dissat ke se mall rhs m1) as [ld ls] eqn:E1.
      destruct (sat_dissat ke se mall rhs m2) as [rd rs] eqn:E2. destruct (IHm1 H1) as [Hld Hls]. destruct (IHm2 H2) as [_ Hrs].
      cbn [fst snd] in *. split; cbn [fst snd].
      + intros l bs Hl; cbn in Hl; discriminate.
      + unfold satokL, satok. intros l bs. rewrite sat_or_c. revert l bs.
        apply (min_okL (fun A' => all_sat ke A' m1 ++ cross (all_dsat ke A' m1) (all_sat ke A' m2))).
        * apply (okF_l (fun A' => all_sat ke A' m1)). exact Hls.
        * apply (okF_r (fun A' => all_sat ke A' m1)).
          exact (concat_okL _ _ ld rs (amono_dsat m1) (amono_sat m2) Hld Hrs).
    - (* or_i *) destruct Hk as [H1 H2]. destruct (sat_dissat ke se mall rhs m1) as [ld ls] eqn:E1.
      destruct (sat_dissat ke se mall rhs m2) as [rd rs] eqn:E2. destruct (IHm1 H1) as [Hld Hls]. destruct (IHm2 H2) as [Hrd Hrs].
      cbn [fst snd] in *. split; cbn [fst snd]; unfold satokL, disokL, satok, disok, all_sat, all_dsat; intros l bs; rewrite sd_or_i; cbn [fst snd]; revert l bs.
      + apply (min_okL (fun A' => map (cons [1%N]) (all_dsat ke A' m1) ++ map (cons []) (all_dsat ke A' m2))).
        * apply (okF_l (fun A' => map (cons [1%N]) (all_dsat ke A' m1))).
          exact (push_okL (fun A' => all_dsat ke A' m1) ld PhPushOne [1%N] eq_refl Hld).
        * apply (okF_r (fun A' => map (cons [1%N]) (all_dsat ke A' m1)) (fun A' => map (cons []) (all_dsat ke A' m2))).
          exact (push_okL (fun A' => all_dsat ke A' m2) rd PhPushZero [] eq_refl Hrd).
      + apply (min_okL (fun A' => map (cons [1%N]) (all_sat ke A' m1) ++ map (cons []) (all_sat ke A' m2))).
        * apply (okF_l (fun A' => map (cons [1%N]) (all_sat ke A' m1))).
          exact (push_okL (fun A' => all_sat ke A' m1) ls PhPushOne [1%N] eq_refl Hls).
        * apply (okF_r (fun A' => map (cons [1%N]) (all_sat ke A' m1)) (fun A' => map (cons []) (all_sat ke A' m2))).
          exact (push_okL (fun A' => all_sat ke A' m2) rs PhPushZero [] eq_refl Hrs).
    - (* thresh *) destruct Hk as [Hk Hkw]. rewrite ds_thresh.
      set (ds := map (sat_dissat ke se mall rhs) xs).
      assert (HF : Forall2 in_tableL xs ds).
      { unfold ds. clear Hk. induction H as [|x r Hx Hr IHr]; cbn [map]; constructor.
        - apply Hx. apply Hkw. - apply IHr. apply Hkw. }
      assert (Hlen : length ds = length xs) by (unfold ds; apply map_length).
      split; cbn [fst snd]; unfold satokL, disokL, satok, disok, all_sat, all_dsat; intros l bs; rewrite sd_thresh'; cbn [fst snd]; revert l bs.
      + intros l bs Hs Hf. exact (flat_constL false xs ds HF l bs Hs Hf).
      + destruct (N.eqb_spec k (N.of_nat (length xs))) as [Ekn|Ekn].
        * intros l bs Hs Hf. pose proof (flat_constL true xs ds HF l bs Hs Hf) as Hr. cbn in Hr.
          replace (N.to_nat k) with (length xs) by lia. exact Hr.
        * assert (Hnth : forall i x d, nth_error xs i = Some x -> nth_error ds i = Some d -> in_tableL x d).
          { clear -HF. induction HF as [|x0 d0 xs0 ds0 H0 HF' IH]; intros [|i] x d Hx Hd; cbn in *; try discriminate.
            - inversion Hx; inversion Hd; subst. exact H0.
            - eapply IH; eassumption. }
          destruct mall.
          -- intros l bs Hs Hf. unfold thresh_mall in Hs |- *. rewrite map_length, Hlen in Hs |- *.
             eapply (swap_in_tableL xs ds _ (N.to_nat k) Hlen Hnth); [ | | exact Hs | exact Hf]; [apply order_perm | lia].
          -- intros l bs Hs Hf. unfold thresh_nonmall in Hs |- *. rewrite map_length, Hlen in Hs |- *. cbv zeta in Hs |- *.
             destruct (is_imp _); [cbn in Hs; discriminate|].
             destruct (negb _ && negb _); [cbn in Hs; discriminate|].
             eapply (swap_in_tableL xs ds _ (N.to_nat k) Hlen Hnth); [ | | exact Hs | exact Hf]; [apply order_perm | lia].
  Qed.
End LockTable.
