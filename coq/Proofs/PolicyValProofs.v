(* Proofs about the translation validator of coq/Ms/PolicyVal.v (property C08). *)
From Coq Require Import List Bool NArith ZArith Lia Permutation.
From Verif Require Import PolicyVal.
Import ListNotations.
Local Open Scope N_scope.

(* ------------------------------------------------------------------ decidable equalities *)
Lemma list_eqb_spec {A} (f : A -> A -> bool) :
  (forall x y, f x y = true <-> x = y) -> forall a b, list_eqb f a b = true <-> a = b.
Proof.
  intros H a; induction a as [|x r IH]; intros [|y s]; simpl; split; intro E;
    try reflexivity; try discriminate.
  - apply andb_true_iff in E as [E1 E2]. apply H in E1. apply IH in E2. congruence.
  - inversion E; subst. apply andb_true_iff; split; [apply H | apply IH]; reflexivity.
Qed.

Lemma vbytes_eqb_spec a b : vbytes_eqb a b = true <-> a = b.
Proof. apply list_eqb_spec. intros; apply N.eqb_eq. Qed.

Lemma vhash_eqb_spec a b : vhash_eqb a b = true <-> a = b.
Proof. destruct a, b; simpl; split; intro; try reflexivity; discriminate. Qed.

Lemma hatom_eqb_spec a b : hatom_eqb a b = true <-> a = b.
Proof.
  destruct a as [a1 a2], b as [b1 b2]; unfold hatom_eqb; simpl. rewrite andb_true_iff, vhash_eqb_spec, vbytes_eqb_spec.
  split; [intros [-> ->]; reflexivity | intro E; inversion E; auto].
Qed.

Lemma memb_In {A} (f : A -> A -> bool) (Hf : forall x y, f x y = true <-> x = y) x l :
  memb f x l = true <-> In x l.
Proof.
  induction l as [|y r IH]; simpl; [split; [discriminate | tauto]|].
  rewrite orb_true_iff, IH, Hf. split; intros [H|H]; auto.
Qed.

Lemma dedup_In {A} (f : A -> A -> bool) (Hf : forall x y, f x y = true <-> x = y) x l :
  In x (dedup f l) <-> In x l.
Proof.
  induction l as [|y r IH]; simpl; [tauto|].
  destruct (memb f y r) eqn:E.
  - rewrite IH. split; [auto|]. intros [->|H]; [apply (memb_In f Hf); exact E | exact H].
  - simpl. rewrite IH. tauto.
Qed.

(* ------------------------------------------------------------------ induction principles *)
Section SInd.
  Variable P : spolicy -> Prop.
  Hypothesis HU : P SUnsat. Hypothesis HTr : P STrivial.
  Hypothesis HK : forall k, P (SKey k). Hypothesis HA : forall t, P (SAfter t).
  Hypothesis HO : forall t, P (SOlder t). Hypothesis HH : forall hk h, P (SHash hk h).
  Hypothesis HT : forall k l, Forall P l -> P (SThresh k l).
  Fixpoint spolicy_ind' (p : spolicy) : P p :=
    match p with
    | SUnsat => HU | STrivial => HTr | SKey k => HK k | SAfter t => HA t | SOlder t => HO t
    | SHash hk h => HH hk h
    | SThresh k l =>
      HT k l ((fix go (l : list spolicy) : Forall P l :=
                 match l with [] => Forall_nil P | x :: r => Forall_cons x (spolicy_ind' x) (go r) end) l)
    end.
End SInd.

Section CInd.
  Variable P : vpolicy -> Prop.
  Hypothesis HU : P CUnsat. Hypothesis HTr : P CTrivial.
  Hypothesis HK : forall k, P (CKey k). Hypothesis HA : forall t, P (CAfter t).
  Hypothesis HO : forall t, P (COlder t). Hypothesis HH : forall hk h, P (CHash hk h).
  Hypothesis HAnd : forall l, Forall P l -> P (CAnd l).
  Hypothesis HOr : forall l, Forall (fun wp => P (snd wp)) l -> P (COr l).
  Hypothesis HT : forall k l, Forall P l -> P (CThresh k l).
  Fixpoint vpolicy_ind' (p : vpolicy) : P p :=
    match p with
    | CUnsat => HU | CTrivial => HTr | CKey k => HK k | CAfter t => HA t | COlder t => HO t
    | CHash hk h => HH hk h
    | CAnd l =>
      HAnd l ((fix go (l : list vpolicy) : Forall P l :=
                 match l with [] => Forall_nil P | x :: r => Forall_cons x (vpolicy_ind' x) (go r) end) l)
    | COr l =>
      HOr l ((fix go (l : list (N * vpolicy)) : Forall (fun wp => P (snd wp)) l :=
                match l with
                | [] => Forall_nil _
                | (w, x) :: r => Forall_cons (w, x) (vpolicy_ind' x) (go r)
                end) l)
    | CThresh k l =>
      HT k l ((fix go (l : list vpolicy) : Forall P l :=
                 match l with [] => Forall_nil P | x :: r => Forall_cons x (vpolicy_ind' x) (go r) end) l)
    end.
End CInd.

(* ------------------------------------------------------------------ counting *)
Lemma countb_le_length l : countb l <= N.of_nat (length l).
Proof. induction l as [|b r IH]; cbn [length]; [simpl; lia|]. cbn [countb]. destruct b; lia. Qed.

Lemma countb_all l : countb l = N.of_nat (length l) <-> forallb (fun b => b) l = true.
Proof.
  induction l as [|b r IH]; [simpl; tauto|].
  cbn [countb forallb length]. pose proof (countb_le_length r). rewrite Nat2N.inj_succ.
  destruct b; cbn [andb].
  - rewrite <- IH. lia.
  - split; [lia | discriminate].
Qed.

Lemma countb_pos l : 1 <= countb l <-> existsb (fun b => b) l = true.
Proof.
  induction l as [|b r IH]; [simpl; split; [lia | discriminate]|].
  cbn [countb existsb]. destruct b; cbn [orb]; [split; [reflexivity | lia]|].
  rewrite <- IH. lia.
Qed.

Lemma forallb_map {A} (f : A -> bool) l : forallb (fun b => b) (map f l) = forallb f l.
Proof. induction l; simpl; congruence. Qed.
Lemma existsb_map {A} (f : A -> bool) l : existsb (fun b => b) (map f l) = existsb f l.
Proof. induction l; simpl; congruence. Qed.

Lemma thresh_all W l : evals W (SThresh (N.of_nat (length l)) l) = forallb (evals W) l.
Proof.
  simpl. rewrite <- forallb_map. pose proof (countb_le_length (map (evals W) l)) as Hle.
  pose proof (countb_all (map (evals W) l)) as Hall. rewrite map_length in *.
  destruct (forallb (fun b => b) (map (evals W) l)).
  - apply N.leb_le. destruct Hall as [_ Hall]. rewrite Hall by reflexivity. lia.
  - apply N.leb_gt. destruct Hall as [Hall _].
    destruct (N.eq_dec (countb (map (evals W) l)) (N.of_nat (length l))) as [E|E]; [specialize (Hall E); discriminate | lia].
Qed.

Lemma thresh_one W l : evals W (SThresh 1 l) = existsb (evals W) l.
Proof.
  simpl. rewrite <- existsb_map. pose proof (countb_pos (map (evals W) l)) as H.
  destruct (existsb (fun b => b) (map (evals W) l)).
  - apply N.leb_le. apply H. reflexivity.
  - apply N.leb_gt. destruct (N.lt_ge_cases (countb (map (evals W) l)) 1) as [L|L]; [exact L|].
    apply H in L. discriminate.
Qed.

(* ------------------------------------------------------------------ concrete = its embedding *)
Lemma lift_c_eval W p : evals W (lift_c p) = evalc W p.
Proof.
  induction p using vpolicy_ind'; try reflexivity.
  - (* And *) cbn [lift_c evalc]. rewrite <- (map_length lift_c l), thresh_all.
    induction H as [|x r Hx Hr IH]; simpl; [reflexivity|]. rewrite Hx, IH. reflexivity.
  - (* Or *) cbn [lift_c evalc]. rewrite thresh_one.
    induction H as [|[w x] r Hx Hr IH]; simpl; [reflexivity|]. simpl in Hx. rewrite Hx, IH. reflexivity.
  - (* Thresh *) cbn [lift_c evalc evals]. rewrite map_map. do 2 f_equal.
    induction H as [|x r Hx Hr IH]; simpl; [reflexivity|]. rewrite Hx, IH. reflexivity.
Qed.
