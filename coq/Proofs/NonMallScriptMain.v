(* C03 at SCRIPT level — closed statements (U3).
   For a sane script (typed B, `m`, no repeated keys, constructor side conditions) whose non-malleable
   satisfaction the model returns, EVERY stack the Script semantics accepts and whose valid signatures
   (for keys of the script) are the honest party's and occur in the published witness IS the published
   witness.  Route: accepts <-> Rsat (Theorem B, exact) ; uniqueness invariant over R (NonMallScript.v). *)
From Verif Require Import Exec Ser Ast Types TypeCheck SatSpec Sat ExecLemmas TheoremA SatProofs
  CompleteProofs CompleteThresh CompleteNonMall HasSigProofs SignedLemmas DenotSpec DenotLemmas DenotMain
  FrameBase FrameSound NonMallUnique NonMallUniqueThresh NonMallUniqueMulti NonMallUniqueMain NonMallUniqueStatic NonMallScript.
From Coq Require Import Lia Permutation ZArith.

Lemma wf_lwf e ke : forall m, wf e ke m -> lwf m.
Proof.
  induction m using ms_ind'; cbn [wf lwf]; try tauto; try (intros; exact I).
  intros [_ [_ Hw]]. induction H as [|x r Hx Hr IH]; [exact I|]. destruct Hw as [H1 H2]. split; [apply Hx, H1 | apply IH, H2].
Qed.

(* what the third party's witness w' may contain, relative to the published witness w: every element of w'
   that is a non-empty signature accepted under a key of the script is the honest party's signature for that
   key and occurs in w.  Everything else in w' is unconstrained. *)
Definition third_party_material (e : env) (ke : keyenv) (A : assets) (K : list key) (w w' : list bytes) : Prop :=
  forall k x, In k K -> In x w' -> x <> [] -> e_sigok e (kb ke k) x = true -> a_sig A k = Some x /\ In x w.

(* the two ingredients separately: no forgery, and one valid signature per key among the published material *)
Definition no_forgery (e : env) (ke : keyenv) (K : list key) (w w' : list bytes) : Prop :=
  forall k x, In k K -> In x w' -> x <> [] -> e_sigok e (kb ke k) x = true -> In x w.
Definition sigs_recognisable (e : env) (ke : keyenv) (A : assets) (K : list key) (w : list bytes) : Prop :=
  forall k x, In k K -> In x w -> x <> [] -> e_sigok e (kb ke k) x = true -> a_sig A k = Some x.
Lemma material_of_parts e ke A K w w' : no_forgery e ke K w w' -> sigs_recognisable e ke A K w ->
  third_party_material e ke A K w w'.
Proof. intros H1 H2 k x Hk Hx Hne Hok. pose proof (H1 k x Hk Hx Hne Hok) as Hin. split; [exact (H2 k x Hk Hin Hne Hok) | exact Hin]. Qed.

(* environment *)
Record env_ok (e : env) (ke : keyenv) (A : assets) (K : list key) : Prop := {
  eo_se : forall kbs, e_sigok e kbs [] = false;
  eo_after : forall t, (0 < t < 2147483648)%N -> a_after A t = check_locktime e (Z.of_N t);
  eo_older : forall t, (0 < t < 2147483648)%N -> a_older A t = check_sequence e (Z.of_N t);
  eo_pre : forall kd h p x, look A kd h = Some p -> blen x = 32%N -> hfun e kd x = h -> x = p;
  eo_pkh : forall k key, In k K -> e_keyok e key = true -> e_hash160 e key = kh ke k -> key = kb ke k
}.

(* eo_pre from collision-freedom on 32-byte strings and genuine assets *)
Lemma pre_unique_of_injective e ke A : assets_ok e ke A ->
  (forall kd x1 x2, blen x1 = 32%N -> blen x2 = 32%N -> hfun e kd x1 = hfun e kd x2 -> x1 = x2) ->
  forall kd h p x, look A kd h = Some p -> blen x = 32%N -> hfun e kd x = h -> x = p.
Proof.
  intros HA Hinj kd h p x Hp Hx Hh.
  assert (G : hfun e kd p = h /\ blen p = 32%N).
  { destruct kd; cbn [look hfun] in *; [exact (ok_sha256 _ _ _ HA h p Hp) | exact (ok_hash256 _ _ _ HA h p Hp) | exact (ok_ripemd160 _ _ _ HA h p Hp) | exact (ok_hash160 _ _ _ HA h p Hp)]. }
  destruct G as [G1 G2]. apply (Hinj kd x p Hx G2). congruence.
Qed.

Lemma in_existsb_bytes x w : In x w -> existsb (bytes_eqb x) w = true.
Proof.
  intros H. apply existsb_exists. exists x. split; [exact H|]. clear. induction x as [|a x IH]; [reflexivity|]. cbn [bytes_eqb]. rewrite N.eqb_refl, IH. reflexivity.
Qed.

(* ---------- (U3) ---------- *)
Theorem nonmall_unique_script_full (e : env) (ke : keyenv) (A : assets) (se : senv) (f : fill) :
  linked ke A se f -> locks_compatible se -> (forall ks, Permutation (ksort ke ks) ks) -> sigs_distinct ke A ->
  forall (rhs : bool) (m : ms) (t : ty),
  type_of m = ROk t -> c_base (t_corr t) = BB -> wf e ke m -> no_multi m -> NoDup (ukeys m) -> m_nm (t_mall t) = true ->
  ifsafe (minimalif (e_sv e)) m -> env_ok e ke A (ukeys m) ->
  forall bs, satisfy ke se f false rhs m = Some bs ->
  forall w', accepts e (enc ke m) w' = true -> third_party_material e ke A (ukeys m) (rev bs) w' -> w' = rev bs.
Proof.
  intros HL [Ha Hr] Hks HD rhs m t Ht Hb Hwf Hnr Hnd Hnm Hif HE bs Hs w' Hacc Hmat. unfold satisfy in Hs.
  destruct (s_stack (snd (sat_dissat ke se false rhs m))) as [l| |] eqn:El; try discriminate.
  pose proof (script_inv e ke A se f HL Ha Hr (eo_after _ _ _ _ HE) (eo_older _ _ _ _ HE) (eo_pre _ _ _ _ HE)
                (ukeys m) (eo_pkh _ _ _ _ HE) l rhs (eo_se _ _ _ _ HE) Hks m (wf_uwf e ke m Hwf Hnr) (wf_lwf e ke m Hwf) Hif Hnd (incl_refl _) t Ht Hnm) as F.
  apply (js_stk _ _ _ _ _ _ _ _ _ (f_sat _ _ _ _ _ _ _ _ _ _ _ F) l bs El Hs).
  - intros k _ H. exact H.
  - intros k x Hk Hx Hne Hok. destruct (Hmat k x Hk Hx Hne Hok) as [Ea Hin]. split; [exact Ea|].
    apply (adv_vis ke A se f (fun _ _ => None) (ukeys m) l bs HL HD Hs k Hk).
    cbn [adv_assets a_sig]. rewrite Ea, (in_existsb_bytes x (rev bs) Hin). discriminate.
  - apply (accepts_iff_Rsat e ke m t Ht Hwf Hb w'). exact Hacc.
Qed.

(* exact form: among the stacks that contain no forged signature, the accepted ones are exactly the published witness *)
Theorem nonmall_script_exact (e : env) (ke : keyenv) (A : assets) (se : senv) (f : fill) :
  linked ke A se f -> locks_compatible se -> (forall ks, Permutation (ksort ke ks) ks) -> sigs_distinct ke A ->
  assets_ok e ke A ->
  forall (rhs : bool) (m : ms) (t : ty),
  type_of m = ROk t -> c_base (t_corr t) = BB -> wf e ke m -> no_multi m -> NoDup (ukeys m) -> m_nm (t_mall t) = true ->
  ifsafe (minimalif (e_sv e)) m -> env_ok e ke A (ukeys m) ->
  forall bs, satisfy ke se f false rhs m = Some bs ->
  sigs_recognisable e ke A (ukeys m) (rev bs) ->
  forall w', no_forgery e ke (ukeys m) (rev bs) w' ->
    (accepts e (enc ke m) w' = true <-> w' = rev bs).
Proof.
  intros HL HC Hks HD HA rhs m t Ht Hb Hwf Hnr Hnd Hnm Hif HE bs Hs Hrec w' Hnf. split.
  - intros Hacc. exact (nonmall_unique_script_full e ke A se f HL HC Hks HD rhs m t Ht Hb Hwf Hnr Hnd Hnm Hif HE bs Hs w' Hacc
                          (material_of_parts e ke A _ _ _ Hnf Hrec)).
  - intros ->. exact (model_satisfaction_spends e ke A se f HL (fun ks => Permutation_length (Hks ks)) HA (eo_se _ _ _ _ HE) false rhs m t Ht Hb Hwf Hnr bs Hs).
Qed.

(* ---------- the hypotheses on the lock view are satisfiable for every environment ---------- *)
Definition in_range (t : N) : bool := N.ltb 0 t && N.ltb t 2147483648.
Lemma land_dis_small t : (t < 2147483648)%N -> N.land t SEQ_DISABLE = 0%N.
Proof.
  intros H. apply N.bits_inj. intros i. rewrite N.land_spec, N.bits_0. change SEQ_DISABLE with (2 ^ 31)%N.
  destruct (N.eq_dec i 31) as [->|Hne].
  - destruct (N.eq_dec t 0) as [->|Ht]; [reflexivity|]. rewrite (N.bits_above_log2 t 31); [reflexivity|].
    apply N.log2_lt_pow2; [lia | exact H].
  - rewrite (N.pow2_bits_false 31 i) by congruence. apply Bool.andb_false_r.
Qed.
Lemma cs_type e t : (t < 2147483648)%N -> check_sequence e (Z.of_N t) = true -> N.land t SEQ_TYPE = N.land (e_sequence e) SEQ_TYPE.
Proof.
  intros R H. unfold check_sequence in H. rewrite N2Z.id, (land_dis_small t R) in H. cbn [N.eqb negb] in H.
  apply Bool.andb_true_iff in H. destruct H as [_ H]. apply Bool.andb_true_iff in H. destruct H as [H _].
  apply Bool.andb_true_iff in H. destruct H as [_ H]. apply N.eqb_eq in H. exact H.
Qed.
Lemma cl_unit e t : check_locktime e (Z.of_N t) = true -> N.ltb t 500000000 = N.ltb (e_locktime e) 500000000.
Proof.
  intros H. unfold check_locktime in H. rewrite N2Z.id in H. unfold LOCKTIME_THRESHOLD in H.
  apply Bool.andb_true_iff in H. destruct H as [_ H]. apply Bool.andb_true_iff in H. destruct H as [H _].
  apply Bool.andb_true_iff in H. destruct H as [H _]. apply Bool.eqb_prop in H. exact H.
Qed.
Lemma lock_view_compatible (e : env) (se : senv) :
  (forall t, se_after se t = in_range t && check_locktime e (Z.of_N t)) ->
  (forall t, se_older se t = in_range t && check_sequence e (Z.of_N t)) -> locks_compatible se.
Proof.
  intros Ha Ho. split; intros t1 t2 H1 H2.
  - rewrite Ha in H1, H2. apply Bool.andb_true_iff in H1, H2. destruct H1 as [_ H1], H2 as [_ H2].
    rewrite (cl_unit e t1 H1), (cl_unit e t2 H2). apply Bool.eqb_reflx.
  - rewrite Ho in H1, H2. apply Bool.andb_true_iff in H1, H2. destruct H1 as [R1 H1], H2 as [R2 H2].
    unfold in_range in R1, R2. apply Bool.andb_true_iff in R1, R2. destruct R1 as [_ R1], R2 as [_ R2]. apply N.ltb_lt in R1, R2.
    unfold rel_is_time. change 4194304%N with SEQ_TYPE. rewrite (cs_type e t1 R1 H1), (cs_type e t2 R2 H2). apply Bool.eqb_reflx.
Qed.

(* ---------- non-vacuity: a concrete sane script, environment and witness ---------- *)
Local Open Scope N_scope.
(* environment of FrameSound.v (witness v0: MINIMALIF): a signature for key bytes k is k ++ [1]; sha256 b = 1 :: b;
   hash160 b = 4 :: b; key k is pushed as [2; k].  The honest party signs for keys 0 and 2. *)
Definition sx_has (k : key) : bool := N.eqb k 0 || N.eqb k 2.
Definition sx_A : assets :=
  mkAssets (fun k => if sx_has k then Some [2; k; 1] else None)
           (fun _ => None) (fun _ => None) (fun _ => None) (fun _ => None)
           (fun t => in_range t && check_locktime ex_env (Z.of_N t))
           (fun t => in_range t && check_sequence ex_env (Z.of_N t)).
Definition sx_se : senv := se_of sx_A.
Definition sx_f : fill := f_of ex_ke sx_A.
(* thresh(2, pk(0), s:pk(1), s:pk(2)) *)
Definition sx_ms : ms := MThresh 2 [MCheck (MPkK 0); MSwap (MCheck (MPkK 1)); MSwap (MCheck (MPkK 2))].
Definition sx_bs : list bytes := [[2; 2; 1]; []; [2; 0; 1]].     (* push order *)

Lemma sx_env_ok : env_ok ex_env ex_ke sx_A (ukeys sx_ms).
Proof.
  constructor.
  - intros kbs. cbn. destruct kbs; reflexivity.
  - intros t Ht. cbn [sx_A a_after]. unfold in_range. replace (N.ltb 0 t) with true by (symmetry; apply N.ltb_lt; lia).
    replace (N.ltb t 2147483648) with true by (symmetry; apply N.ltb_lt; lia). reflexivity.
  - intros t Ht. cbn [sx_A a_older]. unfold in_range. replace (N.ltb 0 t) with true by (symmetry; apply N.ltb_lt; lia).
    replace (N.ltb t 2147483648) with true by (symmetry; apply N.ltb_lt; lia). reflexivity.
  - intros kd h p x H. destruct kd; discriminate.
  - intros k key _ _ H. cbn in H. inversion H. reflexivity.
Qed.
Lemma sx_distinct : sigs_distinct ex_ke sx_A.
Proof.
  constructor; cbn.
  - intros k1 k2 s H1 H2. destruct (sx_has k1), (sx_has k2); try discriminate. inversion H1; subst. inversion H2. reflexivity.
  - intros k s H. destruct (sx_has k); inversion H. discriminate.
  - intros k s H. destruct (sx_has k); inversion H. discriminate.
  - intros k s H. destruct (sx_has k); inversion H. discriminate.
  - intros k s k' H. destruct (sx_has k); inversion H. discriminate.
  - intros k s kd h H. destruct kd; discriminate.
Qed.
Lemma sx_locks : locks_compatible sx_se.
Proof. apply (lock_view_compatible ex_env); intros t; reflexivity. Qed.
Lemma sx_material_self : third_party_material ex_env ex_ke sx_A (ukeys sx_ms) (rev sx_bs) (rev sx_bs).
Proof.
  intros k x Hk Hx Hne Hok. cbn in Hk, Hx.
  destruct Hk as [<-|[<-|[<-|[]]]]; destruct Hx as [<-|[<-|[<-|[]]]]; try (exfalso; apply Hne; reflexivity); try (cbn in Hok; discriminate);
    (split; [reflexivity | cbn; auto]).
Qed.

Theorem script_full_nonvacuous :
  linked ex_ke sx_A sx_se sx_f /\ locks_compatible sx_se /\ (forall ks, Permutation (ksort ex_ke ks) ks) /\ sigs_distinct ex_ke sx_A /\
  (exists t, type_of sx_ms = ROk t /\ c_base (t_corr t) = BB /\ m_nm (t_mall t) = true /\ m_signed (t_mall t) = true) /\
  wf ex_env ex_ke sx_ms /\ no_multi sx_ms /\ NoDup (ukeys sx_ms) /\ ifsafe (minimalif (e_sv ex_env)) sx_ms /\ env_ok ex_env ex_ke sx_A (ukeys sx_ms) /\
  satisfy ex_ke sx_se sx_f false true sx_ms = Some sx_bs /\
  accepts ex_env (enc ex_ke sx_ms) (rev sx_bs) = true /\
  third_party_material ex_env ex_ke sx_A (ukeys sx_ms) (rev sx_bs) (rev sx_bs) /\
  (* an alternative the third party may try: both signatures it saw, moved to other keys — rejected *)
  accepts ex_env (enc ex_ke sx_ms) [[2; 0; 1]; [2; 2; 1]; []] = false.
Proof.
  split; [apply linked_of|]. split; [apply sx_locks|]. split; [intros ks; apply Permutation_refl|]. split; [apply sx_distinct|].
  split; [eexists; split; [vm_compute; reflexivity | repeat split; reflexivity]|].
  split; [cbn; repeat split; lia|]. split; [cbn; tauto|]. split; [cbn; repeat constructor; cbn; intuition discriminate|]. split; [apply ifsafe_true|].
  split; [apply sx_env_ok|]. split; [vm_compute; reflexivity|]. split; [vm_compute; reflexivity|]. split; [apply sx_material_self|].
  vm_compute. reflexivity.
Qed.

(* [ifsafe] is necessary: under the base signature version (no MINIMALIF) the selector of or_i is malleable.
   or_i(pk(0), pk(1)) with the signature of key 0: the witness [sig0 01] is accepted, and so is [sig0 02]. *)
Definition sxb_env : env :=
  mkEnv SvBase 100 0 2 (e_sigok ex_env) (e_keyok ex_env) (e_sha256 ex_env) (e_hash256 ex_env) (e_ripemd160 ex_env) (e_hash160 ex_env).
Definition sxb_ms : ms := MOrI (MCheck (MPkK 0)) (MCheck (MPkK 1)).
Theorem script_needs_ifsafe :
  (exists t, type_of sxb_ms = ROk t /\ c_base (t_corr t) = BB /\ m_nm (t_mall t) = true /\ m_signed (t_mall t) = true) /\
  wf sxb_env ex_ke sxb_ms /\ ~ ifsafe (minimalif (e_sv sxb_env)) sxb_ms /\
  satisfy ex_ke sx_se sx_f false true sxb_ms = Some [[2; 0; 1]; [1]] /\
  accepts sxb_env (enc ex_ke sxb_ms) [[1]; [2; 0; 1]] = true /\
  accepts sxb_env (enc ex_ke sxb_ms) [[2]; [2; 0; 1]] = true /\
  third_party_material sxb_env ex_ke sx_A (ukeys sxb_ms) [[1]; [2; 0; 1]] [[2]; [2; 0; 1]].
Proof.
  split; [eexists; split; [vm_compute; reflexivity | repeat split; reflexivity]|].
  split; [cbn; tauto|]. split; [cbn; intros [H _]; discriminate|].
  split; [vm_compute; reflexivity|]. split; [vm_compute; reflexivity|]. split; [vm_compute; reflexivity|].
  intros k x Hk Hx Hne Hok. cbn in Hk, Hx.
  destruct Hk as [<-|[<-|[]]]; destruct Hx as [<-|[<-|[]]]; try (cbn in Hok; discriminate); (split; [reflexivity | cbn; auto]).
Qed.
