(* The hypotheses on the cryptographic bodies bundled in one predicate, the theorems restated with it,
   and an instance showing that they are satisfiable (non-vacuity): two extended keys (an "xpub…" of
   depth 3 and a "tpub…" of depth 0, 111 characters each), one compressed key text ("02" + 64 hex
   characters), one x-only key text (64 hex characters). *)
From Coq Require Import List Bool NArith Lia.
From Verif Require Import MsTextModel KeyTextModel KeyTextBasics KeyTextSteps KeyTextProofs KeyTextValid.
Import ListNotations.
Local Open Scope N_scope.

Section Bundle.
  Variables xatom fatom oatom : Type.
  Variable xpub_parse : tbytes -> option xatom.
  Variable xpub_print : xatom -> tbytes.
  Variable xpub_depth : xatom -> N.
  Variable full_parse : tbytes -> option fatom.
  Variable full_print : fatom -> tbytes.
  Variable xonly_parse : tbytes -> option oatom.
  Variable xonly_print : oatom -> tbytes.

  (* the ONLY assumptions: on the body printers/parsers (base58check xpub, hex points) *)
  Definition bodies_ok : Prop :=
    (forall a, xpub_parse (xpub_print a) = Some a) /\
    (forall a, forallb alnum (xpub_print a) = true) /\
    (forall a, tb_eqb (firstn 4 (xpub_print a)) X_XPUB || tb_eqb (firstn 4 (xpub_print a)) X_TPUB = true) /\
    (forall a, 64 <= len (xpub_print a)) /\
    (forall a, full_parse (full_print a) = Some a) /\
    (forall a, forallb alnum (full_print a) = true) /\
    (forall a, len (full_print a) = 66 \/ len (full_print a) = 130) /\
    (forall a, tb_eqb (firstn 2 (full_print a)) P_02 || tb_eqb (firstn 2 (full_print a)) P_03
               || tb_eqb (firstn 2 (full_print a)) P_04 = true) /\
    (forall a, xonly_parse (xonly_print a) = Some a) /\
    (forall a, forallb hexany (xonly_print a) = true) /\
    (forall a, len (xonly_print a) = 64).

  Notation key_parse := (key_parse xatom fatom oatom xpub_parse xpub_depth full_parse xonly_parse).
  Notation key_print := (key_print xatom fatom oatom xpub_print full_print xonly_print).
  Notation wf_dkey := (wf_dkey xatom fatom oatom xpub_depth).

  Lemma key_print_parse_b : bodies_ok -> forall k, wf_dkey k -> key_parse (key_print k) = Ok k.
  Proof.
    intros [H1 [H2 [H3 [H4 [H5 [H6 [H7 [H8 [H9 [H10 H11]]]]]]]]]].
    apply (key_print_parse xatom fatom oatom xpub_parse xpub_print xpub_depth full_parse full_print xonly_parse xonly_print); assumption.
  Qed.

  Lemma key_parse_print_fixpoint_b : bodies_ok -> forall s k, key_parse s = Ok k ->
    key_parse (key_print k) = Ok k /\
    (forall k', key_parse (key_print k) = Ok k' -> key_print k' = key_print k).
  Proof.
    intros [H1 [H2 [H3 [H4 [H5 [H6 [H7 [H8 [H9 [H10 H11]]]]]]]]]].
    apply (key_parse_print_fixpoint xatom fatom oatom xpub_parse xpub_print xpub_depth full_parse full_print xonly_parse xonly_print); assumption.
  Qed.

  (* the printed form is canonical: whatever spelling was accepted (h / ', upper-case fingerprint,
     "+5", "007", "/*'"), two texts that parse to the same key print identically, and the printed
     text is a fixed point of print . parse *)
  Lemma key_print_canonical_b : bodies_ok -> forall s1 s2 k1 k2,
    key_parse s1 = Ok k1 -> key_parse s2 = Ok k2 ->
    (k1 = k2 <-> key_print k1 = key_print k2).
  Proof.
    intros Hb s1 s2 k1 k2 P1 P2. split; [intros ->; reflexivity|]. intros E.
    destruct (key_parse_print_fixpoint_b Hb _ _ P1) as [R1 _].
    destruct (key_parse_print_fixpoint_b Hb _ _ P2) as [R2 _].
    rewrite E in R1. rewrite R1 in R2. injection R2 as ->. reflexivity.
  Qed.
End Bundle.

(* ------------------------------------------------------------------ an instance *)
Definition inst_pad : tbytes := repeat 49 107.      (* 107 x '1' *)
Definition inst_xpub_print (b : bool) : tbytes := (if b then X_XPUB else X_TPUB) ++ inst_pad.
Definition inst_xpub_parse (s : tbytes) : option bool :=
  if tb_eqb s (inst_xpub_print true) then Some true
  else if tb_eqb s (inst_xpub_print false) then Some false else None.
Definition inst_xpub_depth (b : bool) : N := if b then 3 else 0.
Definition inst_full_print (_ : unit) : tbytes := P_02 ++ repeat 97 64.    (* "02aa…a" *)
Definition inst_full_parse (s : tbytes) : option unit := if tb_eqb s (inst_full_print tt) then Some tt else None.
Definition inst_xonly_print (_ : unit) : tbytes := repeat 98 64.           (* "bb…b" *)
Definition inst_xonly_parse (s : tbytes) : option unit := if tb_eqb s (inst_xonly_print tt) then Some tt else None.

Lemma inst_bodies_ok :
  bodies_ok bool unit unit inst_xpub_parse inst_xpub_print inst_full_parse inst_full_print inst_xonly_parse inst_xonly_print.
Proof.
  unfold bodies_ok. repeat split; try (intros []; vm_compute; reflexivity).
  - intros []; vm_compute; discriminate.
  - intros []. left. vm_compute. reflexivity.
Qed.

Definition inst_key := dkey bool unit unit.
Definition inst_parse : tbytes -> outcome key_err inst_key :=
  key_parse bool unit unit inst_xpub_parse inst_xpub_depth inst_full_parse inst_xonly_parse.
Definition inst_print : inst_key -> tbytes := key_print bool unit unit inst_xpub_print inst_full_print inst_xonly_print.
Definition inst_wf : inst_key -> Prop := wf_dkey bool unit unit inst_xpub_depth.

(* [d34db33f/44'/0'/0']xpub111…1/1/<0;1>/*  *)
Definition inst_k1 : inst_key :=
  KMulti (Some ([211; 77; 179; 63], [CHard 44; CHard 0; CHard 0])) true
         [[CNormal 1; CNormal 0]; [CNormal 1; CNormal 1]] WUnh.
Lemma inst_k1_wf : inst_wf inst_k1.
Proof.
  cbn. split.
  - repeat split; repeat constructor; unfold TWO31; lia.
  - exists [CNormal 1], [CNormal 0; CNormal 1], []. repeat split; try (repeat constructor; unfold TWO31; lia).
    + repeat constructor; cbn; intuition discriminate.
    + vm_compute. discriminate.
Qed.
(* the same key spelled [D34DB33F/44h/+0'/00h]xpub111…1/+1/<0;01>/*  *)
Definition inst_alias1 : tbytes :=
  [91; 68; 51; 52; 68; 66; 51; 51; 70; 47; 52; 52; 104; 47; 43; 48; 39; 47; 48; 48; 104; 93]
  ++ inst_xpub_print true ++ [47; 43; 49; 47; 60; 48; 59; 48; 49; 62; 47; 42].
