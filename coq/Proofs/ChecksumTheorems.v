(* Top-level checksum lemmas, in the form Properties/C10.v states them. *)
From Coq Require Import List Bool Arith NArith Lia.
From Verif Require Import ChecksumModel ChecksumSpec ChecksumBits ChecksumStream ChecksumVerify ChecksumGroups
  ChecksumSweep ChecksumEdits.
Import ListNotations.
Local Open Scope N_scope.

Arguments N.shiftl : simpl never.
Arguments N.shiftr : simpl never.
Arguments N.land : simpl never.
Arguments N.lor : simpl never.
Arguments N.lxor : simpl never.
Arguments N.testbit : simpl never.
Arguments N.pow : simpl never.
Arguments N.mul : simpl never.
Arguments N.add : simpl never.
Arguments N.sub : simpl never.

(* ---------------------------------------------------------------- linearity, on the model's own fold *)
Lemma ck_linear_lemma : forall xs ys s1 s2,
  length xs = length ys -> Forall (fun x => x < 32) xs -> Forall (fun x => x < 32) ys ->
  s1 < 2 ^ 40 -> s2 < 2 ^ 40 ->
  polymod_from (N.lxor s1 s2) (zipxor xs ys) = N.lxor (polymod_from s1 xs) (polymod_from s2 ys).
Proof.
  intros xs ys s1 s2 L Hx Hy H1 H2.
  rewrite !polymod_from_F; try assumption.
  - apply F_lxor. assumption.
  - apply (lxor_lt _ _ 40); assumption.
  - apply zipxor_sym32; assumption.
Qed.

(* ---------------------------------------------------------------- printed = accepted; totality *)
Lemma first_invalid_none : forall s pos, first_invalid pos s = None <-> allvalid s.
Proof.
  induction s as [|c s IH]; intro pos; cbn [first_invalid].
  - split; [constructor|reflexivity].
  - fold (valid_char c). destruct (valid_char c) eqn:V.
    + rewrite IH. split; [intro; constructor; assumption|intro H; inversion H; assumption].
    + split; [discriminate|intro H; inversion H; congruence].
Qed.

Lemma desc_checksum_valid : forall s, allvalid s -> desc_checksum s = Ok (cks s).
Proof.
  intros s V. unfold desc_checksum, engine_input.
  destruct (first_invalid 0 s) eqn:E.
  - apply (first_invalid_none s 0) in V. rewrite V in E. discriminate.
  - destruct (cks_chars s V) as (st & E1 & E2). rewrite E1. exact E2.
Qed.

Lemma desc_checksum_invalid : forall s, ~ allvalid s -> exists pos, desc_checksum s = Err (InvalidCharacter pos).
Proof.
  intros s NV. unfold desc_checksum, engine_input. destruct (first_invalid 0 s) eqn:E.
  - eexists. reflexivity.
  - exfalso. apply NV. apply (first_invalid_none s 0). assumption.
Qed.

Lemma ck_printed_accepted_lemma : forall s cs, desc_checksum s = Ok cs -> verify_checksum (s ++ HASH :: cs) = Ok s.
Proof.
  intros s cs H. destruct (allvalid_dec s) as [V|NV].
  - rewrite desc_checksum_valid in H by assumption. injection H as <-.
    destruct (chars_of_props (F 1 (stream s ++ TARGET))) as (C8 & CV & CH). fold (cks s) in C8, CV, CH.
    rewrite verify_hash by assumption.
    replace (blen (cks s) =? CHECKSUM_LENGTH) with true
      by (symmetry; apply N.eqb_eq; unfold blen, CHECKSUM_LENGTH; rewrite C8; reflexivity).
    cbn [negb]. replace (bytes_eqb (cks s) (cks s)) with true by (symmetry; apply bytes_eqb_eq; reflexivity).
    reflexivity.
  - destruct (desc_checksum_invalid s NV) as [q E]. rewrite E in H. discriminate.
Qed.

Lemma ck_total_lemma : forall s, no_panic (desc_checksum s) /\ no_panic (verify_checksum s).
Proof.
  intro s. split.
  - destruct (allvalid_dec s) as [V|NV].
    + rewrite desc_checksum_valid by assumption. exact I.
    + destruct (desc_checksum_invalid s NV) as [q ->]. exact I.
  - destruct (allvalid_dec s) as [V|NV].
    + destruct (in_dec N.eq_dec HASH s) as [Ih|Nh].
      * destruct (last_hash_split s Ih) as (a & b & -> & Hb).
        apply allvalid_app in V. destruct V as [Va Vb]. inversion Vb; subst.
        rewrite verify_hash by assumption.
        destruct (negb (blen b =? CHECKSUM_LENGTH)); [exact I|].
        destruct (negb (bytes_eqb (cks a) b)); exact I.
      * rewrite verify_nohash by assumption. exact I.
    + destruct (verify_invalid s NV) as [q ->]. exact I.
Qed.

(* ---------------------------------------------------------------- substitutions *)
Lemma ck_one_char_lemma : forall s p s',
  verify_checksum s = Ok p -> In HASH s ->
  length s' = length s -> hamming s s' = 1%nat ->
  rejected (verify_checksum s') \/ sep_replaced p s'.
Proof.
  intros s p s' Hv Hh Hl Hd. apply (edits_rejected 1 s p s'); try assumption; [lia|].
  intros p' V' L' H'. destruct (verify_ok_inv s p Hv Hh) as [Vp _].
  pose proof (synd_one_any p p' Vp V' (eq_sym L') ltac:(lia)). lia.
Qed.

Lemma ck_two_chars_lemma : forall s p s',
  verify_checksum s = Ok p -> In HASH s -> (length p <= 501)%nat ->
  length s' = length s -> (1 <= hamming s s' <= 2)%nat ->
  rejected (verify_checksum s') \/ sep_replaced p s'.
Proof.
  intros s p s' Hv Hh Hb Hl Hd. apply (edits_rejected 2 s p s'); try assumption.
  intros p' V' L' H'. destruct (verify_ok_inv s p Hv Hh) as [Vp _].
  destruct (Nat.eq_dec (hamming p p') 1) as [E|NE].
  - pose proof (synd_one_bound p p' Vp V' (eq_sym L') E Hb). lia.
  - pose proof (synd_two p p' Vp V' (eq_sym L') ltac:(lia) Hb). lia.
Qed.

(* any number of substitutions confined to one group of three payload characters, any length *)
Lemma ck_one_group_lemma : forall pre g g' post,
  allvalid (pre ++ g ++ post) -> allvalid g' -> (length pre mod 3 = 0)%nat ->
  length g = length g' -> (length g = 3%nat \/ post = []) -> (1 <= length g <= 3)%nat -> g <> g' ->
  cks (pre ++ g' ++ post) <> cks (pre ++ g ++ post).
Proof.
  intros pre g g' post V Vg' Hpre Lg Hfull Hg Hne.
  apply allvalid_app in V. destruct V as [Vpre V]. apply allvalid_app in V. destruct V as [Vg Vpost].
  assert (L : length (pre ++ g ++ post) = length (pre ++ g' ++ post)) by (rewrite !app_length; lia).
  apply (reject_core (pre ++ g ++ post) (pre ++ g' ++ post)); [assumption|].
  rewrite hamming_refl.
  assert (GO : group_ok g g') by (unfold group_ok; repeat split; try assumption; lia).
  (* the difference stream is zeros, the group's block, zeros *)
  assert (SD : exists k1 k2, D (pre ++ g ++ post) (pre ++ g' ++ post) = repeat 0 k1 ++ D g g' ++ repeat 0 k2).
  { clear Hne L. revert Hpre Vpre. induction pre as [| a | a b | a b c r IH] using list_ind3; intros Hpre Vpre.
    - cbn [app]. destruct Hfull as [H3 | ->].
      + destruct g as [|x [|y [|z [|]]]]; try discriminate. destruct g' as [|x' [|y' [|z' [|]]]]; try discriminate.
        exists 0%nat, (length (stream post)). cbn [app repeat]. rewrite D_group, D_same. reflexivity.
      + exists 0%nat, 0%nat. rewrite !app_nil_r. reflexivity.
    - discriminate.
    - discriminate.
    - cbn [length] in Hpre. assert (length r mod 3 = 0)%nat as Hr.
      { replace (S (S (S (length r)))) with (length r + 1 * 3)%nat in Hpre by lia.
        rewrite Nat.mod_add in Hpre by discriminate. exact Hpre. }
      inversion Vpre as [|? ? ? Vp1]; subst. inversion Vp1 as [|? ? ? Vp2]; subst. inversion Vp2 as [|? ? ? Vr]; subst.
      destruct (IH Hr Vr) as (k1 & k2 & E). exists (4 + k1)%nat, k2.
      cbn [app]. rewrite D_group, E, D_same. cbn [stream length]. rewrite repeat_app, <- app_assoc. reflexivity. }
  destruct SD as (k1 & k2 & SD).
  apply Wt_pos; [apply synd_lt; [apply allvalid_app; split; [|apply allvalid_app; split]|
                                 apply allvalid_app; split; [|apply allvalid_app; split]]; assumption|].
  unfold synd. rewrite SD, F_zeros_prefix, F_zeros_suffix.
  apply Tn_nonzero; [apply Tn_lt; apply group_lt; assumption|].
  apply Tn_nonzero; [apply group_lt; assumption|]. apply group_nonzero; assumption.
Qed.

(* ---------------------------------------------------------------- the BIP-380 reference algorithm *)
Definition valid_chars : list N := map (fun i => N.of_nat i) (seq 32 95).

Lemma valid_in : forall c, valid_char c = true -> In c valid_chars.
Proof.
  intros c H. apply valid_char_iff in H. unfold valid_chars. rewrite <- (N2Nat.id c). apply in_map. apply in_seq. lia.
Qed.

Lemma ck_charmap_lemma : forall c, valid_char c = true -> find_index c BIP380_INPUT_CHARSET 0 = Some (sym c).
Proof.
  intros c H. apply valid_in in H.
  assert (forallb (fun c => match find_index c BIP380_INPUT_CHARSET 0 with Some v => v =? sym c | None => false end)
                  valid_chars = true) as P by (vm_compute; reflexivity).
  rewrite forallb_forall in P. specialize (P c H).
  destruct (find_index c BIP380_INPUT_CHARSET 0); [|discriminate]. apply N.eqb_eq in P. subst. reflexivity.
Qed.

Lemma bip380_expand_stream : forall s, allvalid s -> bip380_expand s [] = Some (stream s).
Proof.
  intro s. induction s as [| a | a b | a b c r IH] using list_ind3; intro V.
  - reflexivity.
  - valid3. cbn [bip380_expand].
    repeat (rewrite ?ck_charmap_lemma by assumption; cbn [app option_map bip380_expand]). reflexivity.
  - valid3. cbn [bip380_expand].
    repeat (rewrite ?ck_charmap_lemma by assumption; cbn [app option_map bip380_expand]). reflexivity.
  - inversion V as [|? ? Va V1]; subst. inversion V1 as [|? ? Vb V2]; subst. inversion V2 as [|? ? Vc Vr]; subst.
    cbn [bip380_expand].
    repeat (rewrite ?ck_charmap_lemma by assumption; cbn [app option_map bip380_expand]).
    rewrite (IH Vr). cbn [option_map stream].
    fold (lo a) (lo b) (lo c) (hi a) (hi b) (hi c). do 5 f_equal. lia.
Qed.

Lemma F_target : forall xs st, F st (xs ++ TARGET) = N.lxor (F st (xs ++ repeat 0 8)) 1.
Proof.
  intros xs st.
  assert (E : xs ++ TARGET = zipxor (xs ++ repeat 0 8) (repeat 0 (length xs) ++ TARGET)).
  { rewrite zipxor_app by (rewrite repeat_length; reflexivity). rewrite zipxor_zeros_r. reflexivity. }
  rewrite E. rewrite <- (N.lxor_0_r st) at 1. rewrite F_lxor by (rewrite !app_length, !repeat_length; reflexivity).
  rewrite F_zeros_prefix. reflexivity.
Qed.

Lemma unpack_alt : forall r k, unpack r k = N.land (N.shiftr r (5 * k)) 31.
Proof.
  intros. unfold unpack. rewrite (N.mul_comm k 5). rewrite <- N.land_assoc. reflexivity.
Qed.

Lemma ck_bip380_lemma : forall s, allvalid s -> bip380_create s = Some (cks s).
Proof.
  intros s V. unfold bip380_create. rewrite bip380_expand_stream by assumption.
  f_equal. unfold cks, chars_of.
  assert (P : bip380_polymod (stream s ++ [0; 0; 0; 0; 0; 0; 0; 0]) = F 1 (stream s ++ repeat 0 8)).
  { unfold bip380_polymod, F. cbn [repeat]. generalize (stream s ++ [0; 0; 0; 0; 0; 0; 0; 0]). generalize 1.
    intros st l. revert st. induction l as [|x l IHl]; intro st; [reflexivity|].
    cbn [fold_left]. rewrite bip380_step_step. apply IHl. }
  rewrite P, <- F_target. unfold BIP380_CHECKSUM_CHARSET. cbn [map].
  rewrite !unpack_alt. reflexivity.
Qed.

Lemma find_index_none : forall c l i, ~ In c l -> find_index c l i = None.
Proof.
  induction l as [|x l IH]; intros i H; [reflexivity|]. cbn [find_index].
  destruct (N.eqb_spec x c) as [->|]; [exfalso; apply H; left; reflexivity|].
  apply IH. intro I. apply H. right. assumption.
Qed.

Lemma charset_valid : forall c, In c BIP380_INPUT_CHARSET -> valid_char c = true.
Proof.
  assert (forallb valid_char BIP380_INPUT_CHARSET = true) as P by (vm_compute; reflexivity).
  rewrite forallb_forall in P. exact P.
Qed.

Lemma bip380_expand_invalid : forall s groups, ~ allvalid s -> bip380_expand s groups = None.
Proof.
  induction s as [|c s IH]; intros groups H; [exfalso; apply H; constructor|].
  cbn [bip380_expand]. destruct (valid_char c) eqn:V.
  - assert (~ allvalid s) as Hs by (intro A; apply H; constructor; assumption).
    destruct (find_index c BIP380_INPUT_CHARSET 0); [|reflexivity].
    destruct (groups ++ [N.shiftr n 5]) as [|g0 [|g1 [|g2 [|]]]]; rewrite IH by assumption; reflexivity.
  - rewrite find_index_none; [reflexivity|]. intro I. apply charset_valid in I. congruence.
Qed.

Lemma ck_bip380_full : forall s cs, desc_checksum s = Ok cs <-> bip380_create s = Some cs.
Proof.
  intros s cs. destruct (allvalid_dec s) as [V|NV].
  - rewrite desc_checksum_valid, ck_bip380_lemma by assumption. split; intro H; injection H as <-; reflexivity.
  - destruct (desc_checksum_invalid s NV) as [q ->]. unfold bip380_create.
    rewrite bip380_expand_invalid by assumption. split; discriminate.
Qed.

Lemma desc_checksum_ok_inv : forall s cs, desc_checksum s = Ok cs -> allvalid s /\ cs = cks s.
Proof.
  intros s cs H. destruct (allvalid_dec s) as [V|NV].
  - rewrite desc_checksum_valid in H by assumption. injection H as <-. split; [assumption|reflexivity].
  - destruct (desc_checksum_invalid s NV) as [q E]. rewrite E in H. discriminate.
Qed.

Lemma ck_one_group_desc : forall pre g g' post cs cs',
  (length pre mod 3 = 0)%nat -> length g = length g' -> (length g = 3%nat \/ post = []) ->
  (1 <= length g <= 3)%nat -> g <> g' ->
  desc_checksum (pre ++ g ++ post) = Ok cs -> desc_checksum (pre ++ g' ++ post) = Ok cs' -> cs' <> cs.
Proof.
  intros pre g g' post cs cs' Hpre Lg Hfull Hg Hne H H'.
  apply desc_checksum_ok_inv in H. destruct H as [V ->].
  apply desc_checksum_ok_inv in H'. destruct H' as [V' ->].
  apply ck_one_group_lemma; try assumption.
  apply allvalid_app in V'. destruct V' as [_ V']. apply allvalid_app in V'. tauto.
Qed.
