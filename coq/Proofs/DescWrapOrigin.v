(* C16 proofs, part 10: derivation does not depend on the (unauthenticated) key origin
   information at all - only on the key bytes, resp. the xpub and the path. *)
From Coq Require Import List Bool NArith Lia Arith.
Import ListNotations.
From Verif Require Import DescWrapModel DescWrapKeys.
Local Open Scope N_scope.

Definition with_origin (o : origin) (k : dkey) : dkey :=
  match k with
  | KSingle _ s => KSingle o s
  | KXpub _ x p w => KXpub o x p w
  | KMulti _ x ps w => KMulti o x ps w
  end.

Lemma derivable_with_origin : forall i o k, derivable i (with_origin o k) = derivable i k.
Proof. intros i o [? ?|? ? ? ?|? ? ? ?]; reflexivity. Qed.

Lemma key_at_with_origin : forall i o k,
  key_at_derivation_index i (with_origin o k)
  = match key_at_derivation_index i k with KOk k' => KOk (with_origin o k') | KErr e => KErr e end.
Proof.
  intros i o [o' s|o' x p w|o' x ps w]; cbn [with_origin key_at_derivation_index]; try reflexivity.
  destruct w; unfold definite_new; cbn [key_has_wildcard key_has_hardened_step key_is_multipath wildcard_eqb negb];
    repeat match goal with |- context [if ?b then _ else _] => destruct b end; reflexivity.
Qed.

Section Origin.
  Variable ckd : N -> list step -> pubkey.
  Variable full_key : bytes -> bool -> pubkey.
  Variable xonly_key : bytes -> pubkey.
  Notation derive := (derive_pk_total ckd full_key xonly_key).
  Notation spec_at := (spec_key_at ckd full_key xonly_key).

  Lemma derive_with_origin : forall o k, derive (with_origin o k) = derive k.
  Proof. intros o [o' [b c|b]|o' x p w|o' x ps w]; reflexivity. Qed.
  Lemma spec_with_origin : forall i o k, spec_at i (with_origin o k) = spec_at i k.
  Proof. intros i o [o' [b c|b]|o' x p w|o' x ps w]; reflexivity. Qed.

  (* Rewriting the origin of every key in any way (f may give different keys the same origin,
     or the same key different origins) changes neither whether the descriptor can be derived
     at i, nor any derived public key, hence no script / address *)
  Theorem origin_irrelevant : forall (f : dkey -> origin) i d,
    let d' := desc_map (fun k => with_origin (f k) k) d in
    (forall k, In k (desc_keys d) -> derivable i k = true) ->
    (forall k, In k (desc_keys d') -> derivable i k = true) /\
    derived_descriptor ckd full_key xonly_key (desc_map (definite_form i) d')
    = derived_descriptor ckd full_key xonly_key (desc_map (definite_form i) d) /\
    desc_map (spec_at i) d' = desc_map (spec_at i) d.
  Proof.
    intros f i d d' H. unfold d'. split; [|split].
    - intros k Hk. rewrite desc_keys_map in Hk. apply in_map_iff in Hk. destruct Hk as [k0 [<- Hk0]].
      rewrite derivable_with_origin. apply H. exact Hk0.
    - unfold derived_descriptor. rewrite !desc_map_map. apply desc_map_ext. intros k _.
      destruct k as [o' [b c|b]|o' x p w|o' x ps w]; reflexivity.
    - rewrite desc_map_map. apply desc_map_ext. intros k _. apply spec_with_origin.
  Qed.

  (* in particular two keys that differ in the xpub but carry the same origin are derived
     independently: the derived key of each is the child of ITS xpub *)
  Theorem same_origin_different_xpub : forall o x1 x2 p i,
    existsb is_hardened p = false -> valid_index i = true ->
    derive (definite_form i (KXpub o x1 p WUnhardened)) = ckd x1 (p ++ [Step false i]) /\
    derive (definite_form i (KXpub o x2 p WUnhardened)) = ckd x2 (p ++ [Step false i]).
  Proof.
    intros o x1 x2 p i Hh Hv. unfold derive_pk_total. cbn [definite_form subst_path derive_public_key].
    rewrite existsb_app. cbn [existsb is_hardened]. rewrite Hh. split; reflexivity.
  Qed.
End Origin.
