(* Shared facts for the denotational specification (Ms/DenotSpec.v): numbers, unfolding of the
   nested relations, monotonicity canonical => exact. *)
From Verif Require Import Exec Ser Ast Types TypeCheck SatSpec ExecLemmas Spec TypesSpec ScriptNumProofs TheoremA.
From Verif Require Import FrameBase SignedLemmas DenotSpec.
From Coq Require Import Lia.

(* ---------- numbers ---------- *)
Lemma num4_numeric4 v : num4 v <-> numeric4 v.
Proof. split; intros H; exact H. Qed.

Lemma num4_bool b : num4 (bool_bytes b).
Proof. apply numeric4_bool. Qed.

Lemma num_operand4_bound z z' : (0 <= z)%Z -> num_operand 4 (num_encode z) = Some z' -> (z < 2147483648)%Z.
Proof.
  intros Hz H. destruct (Z.ltb_spec z 2147483648) as [Hlt|Hge]; [exact Hlt|].
  exfalso. unfold num_operand in H.
  assert (Hl : N.leb (blen (num_encode z)) 4 = false).
  { apply N.leb_gt. unfold blen, num_encode. destruct (Z.eqb_spec z 0); [lia|].
    pose proof (enc_mag_long (Z.abs z) (if (z <? 0)%Z then 128%N else 0%N) ltac:(lia)). lia. }
  rewrite Hl in H. discriminate.
Qed.

Lemma num_encode_inj a b : (0 <= a < 2147483648)%Z -> (0 <= b)%Z -> num_encode a = num_encode b -> a = b.
Proof.
  intros Ha Hb E. pose proof (num_roundtrip 4 a ltac:(lia) Ha) as H. rewrite E in H.
  apply num_operand4_encode in H; [congruence | exact Hb].
Qed.

Lemma num_eqb_encode a b : (0 <= a < 2147483648)%Z -> (0 <= b)%Z ->
  bytes_eqb (num_encode a) (num_encode b) = (a =? b)%Z.
Proof.
  intros Ha Hb. destruct (Z.eqb_spec a b) as [->|Hne]; [apply bytes_eqb_refl|].
  apply bytes_eqb_neq. intros E. apply Hne. apply num_encode_inj; assumption.
Qed.

Lemma size32 x : bytes_eqb (num_encode 32) (num_encode (Z.of_N (blen x))) = true <-> blen x = 32%N.
Proof.
  rewrite num_eqb_encode by lia. rewrite Z.eqb_eq. lia.
Qed.

Lemma size_ok_spec a : (exists n, num_operand 4 (num_encode (Z.of_N (blen a))) = Some n) <-> size_ok a.
Proof.
  unfold size_ok. split.
  - intros [n H]. apply num_operand4_bound in H; lia.
  - intros H. exists (Z.of_N (blen a)). apply num_roundtrip; lia.
Qed.

Lemma blen_nonempty a : a <> [] -> (0 < blen a)%N.
Proof. destruct a; [congruence|]. intros _. unfold blen. cbn [length]. lia. Qed.

Lemma if_cond_some_truthy e v c : if_cond e v = Some c -> truthy v = c.
Proof. apply if_cond_truthy. Qed.

(* ---------- the nested relations ---------- *)
Lemma Rthr_nil P w j : Rthr P [] w j <-> w = [] /\ j = 0%nat.
Proof. reflexivity. Qed.
Lemma Rthr_cons P x r w j : Rthr P (x :: r) w j <->
  exists wx wr, w = wx ++ wr /\
    ((exists j', j = S j' /\ P x true wx [1%N] /\ Rthr P r wr j') \/ (P x false wx [] /\ Rthr P r wr j)).
Proof. reflexivity. Qed.

Lemma Rthr_le P l : forall w j, Rthr P l w j -> (j <= length l)%nat.
Proof.
  induction l as [|x r IH]; intros w j H.
  - destruct H as [_ ->]. cbn. lia.
  - apply Rthr_cons in H. destruct H as [wx [wr [_ [[j' [-> [_ H]]]|[_ H]]]]]; apply IH in H; cbn [length]; lia.
Qed.

Lemma Rthr_mono (P Q : ms -> bool -> wit -> bytes -> Prop) l :
  Forall (fun x => forall s w v, P x s w v -> Q x s w v) l ->
  forall w j, Rthr P l w j -> Rthr Q l w j.
Proof.
  induction 1 as [|x r Hx _ IH]; intros w j H; [exact H|].
  apply Rthr_cons in H. apply Rthr_cons. destruct H as [wx [wr [-> H]]]. exists wx, wr. split; [reflexivity|].
  destruct H as [[j' [-> [H1 H2]]]|[H1 H2]]; [left; exists j' | right]; auto.
Qed.

Lemma Rcsa_le e ke ks : forall w j, Rcsa e ke ks w j -> (j <= length ks)%nat /\ length w = length ks.
Proof.
  induction ks as [|k r IH]; intros w j H; cbn [Rcsa] in H.
  - destruct H as [-> ->]. split; reflexivity.
  - destruct H as [sg [w' [-> [_ [[_ H]|[_ [_ [j' [-> H]]]]]]]]]; apply IH in H; cbn [length]; lia.
Qed.

Lemma forallb_nil_repeat (sigs : list bytes) :
  forallb (fun sg : bytes => match sg with [] => true | _ => false end) sigs = true <-> sigs = repeat [] (length sigs).
Proof.
  induction sigs as [|a r IH]; cbn [forallb length repeat]; [tauto|]. split.
  - intros H. apply andb_prop in H. destruct H as [Ha Hr]. destruct a; [|discriminate]. f_equal. apply IH, Hr.
  - intros H. inversion H as [[Ha Hr]]. rewrite <- Hr. apply IH in Hr. rewrite Hr. reflexivity.
Qed.

(* ---------- canonical => exact ---------- *)
Section Mono.
  Variable e : env.
  Variable ke : keyenv.

  Lemma Rhash_mono hf h s w v : Rhash true hf h s w v -> Rhash false hf h s w v.
  Proof.
    intros [x [H1 [H2 [H3 [H4 _]]]]]. exists x. repeat split; auto. discriminate.
  Qed.

  Theorem Rcan_R : forall m s w v, Rcan e ke m s w v -> R e ke m s w v.
  Proof.
    unfold Rcan, R. induction m using ms_ind'; intros s w v HR; cbn [Rg] in HR |- *;
      try exact HR; try (apply Rhash_mono; exact HR); try (apply IHm; exact HR).
    - (* pk_h *) destruct HR as [sg [H1 [H2 [H3 _]]]]. exists sg. repeat split; auto; try apply H3. discriminate.
    - (* raw *) destruct HR as [HR _]. discriminate.
    - (* c: *) destruct HR as [Hv [key HR]]. split; [exact Hv|]. exists key. apply IHm, HR.
    - (* d: *) destruct HR as [H1 [H2 [H3 _]]]. split; [exact H1|]. split; [exact H2|]. split; [|discriminate].
      intros Hs. apply IHm, H3, Hs.
    - (* v: *) destruct HR as [H1 [H2 [v' H3]]]. split; [exact H1|]. split; [exact H2|]. exists v'. apply IHm, H3.
    - (* j: *) destruct HR as [HR|[a [r [H1 [H2 [H3 [H4 _]]]]]]]; [left; exact HR | right].
      exists a, r. repeat split; auto. discriminate.
    - (* n: *) destruct HR as [Hv [v' [H1 H2]]]. split; [exact Hv|]. exists v'. auto.
    - (* and_v *) destruct HR as [wx [wy [-> [H1 H2]]]]. exists wx, wy. auto.
    - (* and_b *) destruct HR as [wx [wy [vx [vy [sx [sy [-> [H1 [H2 [H3 [H4 [H5 [H6 _]]]]]]]]]]]]].
      exists wx, wy, vx, vy, sx, sy. repeat split; auto. discriminate.
    - (* andor *) destruct HR as [wa [w' [va [-> HR]]]]. exists wa, w', va. split; [reflexivity|].
      destruct HR as [[H1 [H2 [H3 _]]]|[H1 [H2 H3]]]; [left | right]; repeat split; auto. discriminate.
    - (* or_b *) destruct HR as [wx [wy [vx [vy [sx [sy [-> [H1 [H2 [H3 [H4 [H5 [H6 _]]]]]]]]]]]]].
      exists wx, wy, vx, vy, sx, sy. repeat split; auto. discriminate.
    - (* or_d *) destruct HR as [[H1 [H2 H3]]|[wx [wy [vx [-> [H1 [H2 H3]]]]]]]; [left; auto | right].
      exists wx, wy, vx. auto.
    - (* or_c *) destruct HR as [H1 [H2 HR]]. split; [exact H1|]. split; [exact H2|].
      destruct HR as [[vx [H3 H4]]|[wx [wy [vx [-> [H3 [H4 H5]]]]]]]; [left; exists vx; auto | right].
      exists wx, wy, vx. auto.
    - (* or_i *) destruct HR as [sel [w' [b [-> [H1 [H2 _]]]]]]. exists sel, w', b. split; [reflexivity|].
      split; [exact H1|]. split; [|discriminate]. destruct b; auto.
    - (* thresh *) destruct HR as [Hv [j [H1 [H2 _]]]]. split; [exact Hv|]. exists j. split; [|split; [exact H2 | discriminate]].
      revert H1. apply Rthr_mono. exact H.
    - (* multi_a *) destruct HR as [Hv [j [H1 [H2 _]]]]. split; [exact Hv|]. exists j. split; [exact H1|]. split; [exact H2 | discriminate].
    - destruct HR as [Hv [j [H1 [H2 _]]]]. split; [exact Hv|]. exists j. split; [exact H1|]. split; [exact H2 | discriminate].
  Qed.
End Mono.
