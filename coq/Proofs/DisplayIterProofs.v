(* C10 / C11 — the printer loop of miniscript/display.rs over the verbose pre-order items
   (Ms/DisplayIterModel.v) computes the recursive printer of MsTextModel.v. *)
From Coq Require Import List NArith Bool Lia Arith.
From Verif Require Import Bytes RobustModel VerboseIterModel VerboseIterProofs MsTextModel DisplayIterModel TheoremA.
Import ListNotations.
Local Open Scope N_scope.
Local Arguments N.eqb : simpl never.
Local Arguments N.add : simpl never.

Notation dt := (gtree dlabel).

Lemma display_items_cons : forall y ys, display_items (y :: ys) = display_item y ++ display_items ys.
Proof. reflexivity. Qed.
Lemma display_items_app : forall a b, display_items (a ++ b) = display_items a ++ display_items b.
Proof. intros. unfold display_items. now rewrite map_app, concat_app. Qed.

Lemma drec_atom_node : forall pw s cs, drec pw (GNode (DLAtom s) cs) = s ++ drec_atoms s cs.
Proof. intros. cbn [drec]. f_equal. induction cs as [|c r IH]; [reflexivity|]. cbn [drec_atoms]. rewrite <- IH. reflexivity. Qed.
Lemma drec_wrap_node : forall pw name cs, drec pw (GNode (DLNode name true) cs) = name ++ drec_wrapped cs.
Proof. reflexivity. Qed.
Lemma drec_nw_node : forall pw name cs, drec pw (GNode (DLNode name false) cs) =
  (if pw then [COLON] else []) ++ name ++ match cs with [] => [] | _ => [LPAREN] end ++ drec_commas cs ++
  match cs with [] => [] | _ => [RPAREN] end.
Proof. reflexivity. Qed.

(* ---- part 1: on every DisplayNode tree the items of the specification print the recursive text *)
Definition pd (t : dt) : Prop := forall par b, display_items (verbose_spec t par b) = drec (parent_is_wrapper par) t.

Lemma atom_from : forall s cs par b l, Forall pd l -> forall b' k,
  display_items (verbose_spec_from (GNode (DLAtom s) cs) par b l b' k) = s ++ drec_atoms s l.
Proof.
  intros s cs par b l H. induction H as [|c r Hc Hr IH]; intros b' k; cbn [verbose_spec_from];
    rewrite display_items_cons; [reflexivity|].
  rewrite display_items_app, Hc, IH. cbn [parent_is_wrapper drec_atoms]. unfold display_item. cbn [vi_node glabel].
  reflexivity.
Qed.
Lemma wrap_from : forall name cs par b l, Forall pd l -> forall b' k,
  display_items (verbose_spec_from (GNode (DLNode name true) cs) par b l b' k) =
  (if k =? 0 then name else []) ++ drec_wrapped l.
Proof.
  intros name cs par b l H. induction H as [|c r Hc Hr IH]; intros b' k; cbn [verbose_spec_from];
    rewrite display_items_cons; unfold display_item at 1; cbn [vi_node glabel vi_nyielded]; [reflexivity|].
  rewrite display_items_app, Hc, IH. cbn [parent_is_wrapper drec_wrapped].
  replace (k + 1 =? 0) with false by (symmetry; apply N.eqb_neq; lia). reflexivity.
Qed.
Lemma nw_from : forall name cs par b l, Forall pd l -> forall pre, cs = pre ++ l -> pre <> [] -> forall b',
  display_items (verbose_spec_from (GNode (DLNode name false) cs) par b l b' (RobustModel.nlen pre)) =
  match l with [] => [RPAREN] | _ => COMMA :: drec_commas l ++ [RPAREN] end.
Proof.
  intros name cs par b l H. induction H as [|c r Hc Hr IH]; intros pre Hcs Hpre b'; cbn [verbose_spec_from];
    rewrite display_items_cons; unfold display_item at 1; cbn [vi_node glabel vi_nyielded vi_complete vi_parent];
    (replace (RobustModel.nlen pre =? 0) with false by (symmetry; apply N.eqb_neq; unfold RobustModel.nlen; destruct pre; [congruence|cbn [length]; lia]));
    unfold g_n_children; cbn [gchildren]; rewrite Hcs.
  - rewrite (app_nil_r pre), N.eqb_refl. reflexivity.
  - replace (RobustModel.nlen pre =? RobustModel.nlen (pre ++ c :: r)) with false
      by (symmetry; apply N.eqb_neq; unfold RobustModel.nlen; rewrite app_length; cbn [length]; lia).
    rewrite display_items_app, Hc. cbn [parent_is_wrapper].
    replace (RobustModel.nlen pre + 1) with (RobustModel.nlen (pre ++ [c])) by (unfold RobustModel.nlen; rewrite app_length; cbn [length]; lia).
    rewrite <- Hcs. rewrite (IH (pre ++ [c])); [| now rewrite <- app_assoc | destruct pre; discriminate].
    destruct r; cbn [drec_commas app]; [reflexivity|]. rewrite <- app_assoc. reflexivity.
Qed.

Lemma pd_all : forall t : dt, pd t.
Proof.
  induction t as [l cs IH] using gtree_ind2. intros par b. rewrite verbose_spec_node.
  destruct l as [name [|]|s].
  - rewrite wrap_from by exact IH. rewrite N.eqb_refl. reflexivity.
  - rewrite drec_nw_node. destruct cs as [|c r]; cbn [verbose_spec_from]; rewrite display_items_cons;
      unfold display_item at 1; cbn [vi_node glabel vi_nyielded vi_complete vi_parent]; rewrite N.eqb_refl;
      unfold g_n_children; cbn [gchildren RobustModel.nlen length].
    + cbn. now rewrite !app_nil_r.
    + replace (0 =? N.of_nat (S (length r))) with false by (symmetry; apply N.eqb_neq; lia). cbn [negb].
      inversion IH as [|? ? Hc Hr]; subst.
      rewrite display_items_app, Hc. cbn [parent_is_wrapper].
      pose proof (nw_from name (c :: r) par b r Hr [c] eq_refl ltac:(discriminate) (b + 1 + gnsize c)) as HF.
      change (RobustModel.nlen [c]) with (0 + 1) in HF. rewrite HF.
      rewrite <- !app_assoc. do 2 f_equal. cbn [app]. f_equal.
      destruct r; cbn [drec_commas app]; [reflexivity|]. rewrite <- app_assoc. reflexivity.
  - rewrite atom_from by exact IH. now rewrite drec_atom_node.
Qed.

Theorem display_iter_tree_eq_recursive : forall t : dt, display_iter_tree t = ROk (drec false t).
Proof.
  intros t. unfold display_iter_tree. rewrite verbose_order_exact. cbn [rbind]. f_equal. apply (pd_all t None 0).
Qed.

(* ---- part 2: the DisplayNode tree of a miniscript prints as MsTextModel's recursive printer *)
Fixpoint pcommas (l : list etree) : tbytes :=
  match l with [] => [] | [c] => print c | c :: r => print c ++ COMMA :: pcommas r end.
Lemma print_node : forall name p kids, print (ENode name p kids) = name ++ open_of p ++ pcommas kids ++ close_of p.
Proof. reflexivity. Qed.

Definition nilb {X} (l : list X) : bool := match l with [] => true | _ => false end.
Definition colon_if (b : bool) : tbytes := if b then [COLON] else [].
Definition same_text (c : dt) (e : etree) : Prop := drec false c = print e.

Lemma commas_match : forall cs es, Forall2 same_text cs es -> drec_commas cs = pcommas es.
Proof.
  intros cs es H. induction H as [|c e cs es Hce Hr IH]; [reflexivity|].
  cbn [drec_commas pcommas]. inversion Hr; subst; [exact Hce|]. rewrite Hce. f_equal. f_equal. exact IH.
Qed.
Lemma atom_leaf : forall s, same_text (GNode (DLAtom s) []) (ENode s PNone []).
Proof. intros s. unfold same_text. rewrite drec_atom_node, print_node. cbn. now rewrite !app_nil_r. Qed.

Section MsDisplay.
Variable print_key : key -> tbytes.
Variable print_hash : hkind -> tbytes -> tbytes.
Notation tw' := (tw print_key print_hash).
Notation dtree' := (dtree print_key print_hash).

Definition qd (m : ms) : Prop := forall pw,
  drec pw (dtree' m) = colon_if (pw && nilb (fst (tw' m))) ++ print (mk_node (tw' m)).

Lemma qd_false : forall m, qd m -> same_text (dtree' m) (mk_node (tw' m)).
Proof. intros m H. exact (H false). Qed.

Lemma nw_case : forall name cs es pw, Forall2 same_text cs es ->
  drec pw (GNode (DLNode name false) cs) = colon_if pw ++ print (mk_node ([], (name, es))).
Proof.
  intros name cs es pw H. rewrite drec_nw_node. unfold mk_node, full_name. rewrite print_node, (commas_match _ _ H).
  inversion H; subst; reflexivity.
Qed.
Lemma w_case : forall c x pw, qd x ->
  drec pw (GNode (DLNode [c] true) [dtree' x]) = print (mk_node (wrap c (tw' x))).
Proof.
  intros c x pw H. rewrite drec_wrap_node. cbn [drec_wrapped]. rewrite (H true), app_nil_r. cbn [andb].
  destruct (tw' x) as [w [name kids]]. unfold wrap, mk_node, full_name. cbn [fst snd]. rewrite !print_node.
  destruct w; cbn [nilb colon_if app]; rewrite <- ?app_assoc; reflexivity.
Qed.
Lemma keys_match : forall ks : list key,
  Forall2 same_text (map (fun k => datom (print_key k)) ks) (map (fun k => leaf (print_key k)) ks).
Proof. induction ks; cbn [map]; constructor; [apply atom_leaf|assumption]. Qed.
Lemma subs_match : forall xs, Forall qd xs ->
  Forall2 same_text (map dtree' xs) (map (fun x => mk_node (tw' x)) xs).
Proof. intros xs H. induction H; cbn [map]; constructor; [now apply qd_false|assumption]. Qed.
Lemma is_false_inv : forall m, is_false m = true -> m = MFalse.
Proof. destruct m; cbn; congruence. Qed.
Lemma is_true_inv : forall m, is_true m = true -> m = MTrue.
Proof. destruct m; cbn; congruence. Qed.

Ltac expose := cbn [dtree tw fragment_name]; unfold is_wrapper; cbn [fragment_name is_true is_false].
Ltac nw name cs es :=
  match goal with |- drec ?pw _ = _ =>
    change (drec pw (GNode (DLNode name false) cs) = colon_if (pw && true) ++ print (mk_node ([], (name, es)))) end;
  rewrite andb_true_r; apply nw_case;
  repeat first [apply Forall2_nil | apply Forall2_cons | apply atom_leaf | apply keys_match
               | (apply subs_match; assumption) | (apply qd_false; assumption)].
Ltac wr c x :=
  match goal with |- drec ?pw _ = _ =>
    change (drec pw (GNode (DLNode [c] true) [dtree' x]) = colon_if (pw && false) ++ print (mk_node (wrap c (tw' x)))) end;
  rewrite andb_false_r; apply w_case; assumption.

Lemma qd_mfalse : qd MFalse.
Proof. intros pw. nw n_0 (@nil dt) (@nil etree). Qed.
Lemma qd_mtrue : qd MTrue.
Proof. intros pw. nw n_1 (@nil dt) (@nil etree). Qed.

Lemma qd_all : forall m, qd m.
Proof.
  induction m using ms_ind'.
  - apply qd_mtrue.
  - apply qd_mfalse.
  - intros pw. nw n_pk_k [datom (print_key k)] [leaf (print_key k)].
  - intros pw. nw n_pk_h [datom (print_key k)] [leaf (print_key k)].
  - intros pw. nw n_expr_raw_pkh [datom (print_hash HRawPkh h)] [leaf (print_hash HRawPkh h)].
  - intros pw. nw n_after [datom (dec t)] [leaf (dec t)].
  - intros pw. nw n_older [datom (dec t)] [leaf (dec t)].
  - intros pw. nw n_sha256 [datom (print_hash HSha256 h)] [leaf (print_hash HSha256 h)].
  - intros pw. nw n_hash256 [datom (print_hash HHash256 h)] [leaf (print_hash HHash256 h)].
  - intros pw. nw n_ripemd160 [datom (print_hash HRipemd160 h)] [leaf (print_hash HRipemd160 h)].
  - intros pw. nw n_hash160 [datom (print_hash HHash160 h)] [leaf (print_hash HHash160 h)].
  - intros pw. wr ch_a m.
  - intros pw. wr ch_s m.
  - (* c: / pk() / pkh() *)
    intros pw. destruct m;
      first [ nw n_pk [datom (print_key k)] [leaf (print_key k)]
            | nw n_pkh [datom (print_key k)] [leaf (print_key k)]
            | match goal with |- drec _ (dtree' (MCheck ?x)) = _ => wr ch_c x end ].
  - intros pw. wr ch_d m.
  - intros pw. wr ch_v m.
  - intros pw. wr ch_j m.
  - intros pw. wr ch_n m.
  - (* and_v / t: *)
    intros pw. destruct (is_true m2) eqn:E.
    + apply is_true_inv in E. subst m2. wr ch_t m1.
    + expose. rewrite ?E. nw n_and_v [dtree' m1; dtree' m2] [mk_node (tw' m1); mk_node (tw' m2)].
  - intros pw. nw n_and_b [dtree' m1; dtree' m2] [mk_node (tw' m1); mk_node (tw' m2)].
  - (* andor / and_n *)
    intros pw. destruct (is_false m3) eqn:E.
    + apply is_false_inv in E. subst m3. nw n_and_n [dtree' m1; dtree' m2] [mk_node (tw' m1); mk_node (tw' m2)].
    + expose. rewrite ?E.
      nw n_andor [dtree' m1; dtree' m2; dtree' m3] [mk_node (tw' m1); mk_node (tw' m2); mk_node (tw' m3)].
  - intros pw. nw n_or_b [dtree' m1; dtree' m2] [mk_node (tw' m1); mk_node (tw' m2)].
  - intros pw. nw n_or_d [dtree' m1; dtree' m2] [mk_node (tw' m1); mk_node (tw' m2)].
  - intros pw. nw n_or_c [dtree' m1; dtree' m2] [mk_node (tw' m1); mk_node (tw' m2)].
  - (* or_i / u: / l: *)
    intros pw. destruct (is_false m2) eqn:E2; [apply is_false_inv in E2; subst m2|];
      (destruct (is_false m1) eqn:E1; [apply is_false_inv in E1; subst m1|]).
    + wr ch_u MFalse.
    + expose. rewrite ?E1. wr ch_u m1.
    + expose. rewrite ?E2. wr ch_l m2.
    + expose. rewrite ?E1, ?E2. nw n_or_i [dtree' m1; dtree' m2] [mk_node (tw' m1); mk_node (tw' m2)].
  - intros pw. nw n_thresh (datom (dec k) :: map dtree' xs) (leaf (dec k) :: map (fun x => mk_node (tw' x)) xs).
  - intros pw. nw n_multi (datom (dec k) :: map (fun k => datom (print_key k)) ks) (leaf (dec k) :: map (fun k => leaf (print_key k)) ks).
  - intros pw. nw n_sortedmulti (datom (dec k) :: map (fun k => datom (print_key k)) ks) (leaf (dec k) :: map (fun k => leaf (print_key k)) ks).
  - intros pw. nw n_multi_a (datom (dec k) :: map (fun k => datom (print_key k)) ks) (leaf (dec k) :: map (fun k => leaf (print_key k)) ks).
  - intros pw. nw n_sortedmulti_a (datom (dec k) :: map (fun k => datom (print_key k)) ks) (leaf (dec k) :: map (fun k => leaf (print_key k)) ks).
Qed.

(* `impl Display for Miniscript` as coded (the loop) = the recursive printer of MsTextModel.v *)
Theorem display_iter_eq_recursive : forall m,
  display_iter print_key print_hash m = ROk (ms_to_text print_key print_hash m).
Proof.
  intros m. unfold display_iter. rewrite display_iter_tree_eq_recursive. f_equal.
  exact (qd_false m (qd_all m)).
Qed.

End MsDisplay.
