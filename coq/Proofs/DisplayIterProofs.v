(* C10 / C11 — the printer loop of miniscript/display.rs over the verbose pre-order items
   (Ms/DisplayIterModel.v) computes the recursive printer of MsTextModel.v. *)
From Coq Require Import List NArith Bool Lia Arith.
From Verif Require Import Bytes RobustModel VerboseIterModel VerboseIterProofs MsTextModel DisplayIterModel TheoremA.
Import ListNotations.
Local Open Scope N_scope.
Local Arguments N.eqb : simpl never.
Local Arguments N.add : simpl never.

Notation dt := (gtree dlabel).

Lemma display_items_cons : forall y ys, display_items (y :: ys) = display_item y ++ display_items ys.
Proof. reflexivity. Qed.
Lemma display_items_app : forall a b, display_items (a ++ b) = display_items a ++ display_items b.
Proof. intros. unfold display_items. now rewrite map_app, concat_app. Qed.

Lemma drec_atom_node : forall pw s cs, drec pw (GNode (DLAtom s) cs) = s ++ drec_atoms s cs.
Proof. intros. cbn [drec]. f_equal. induction cs as [|c r IH]; [reflexivity|]. cbn [drec_atoms]. rewrite <- IH. reflexivity. Qed.
Lemma drec_wrap_node : forall pw name cs, drec pw (GNode (DLNode name true) cs) = name ++ drec_wrapped cs.
Proof. reflexivity. Qed.
Lemma drec_nw_node : forall pw name cs, drec pw (GNode (DLNode name false) cs) =
  (if pw then [COLON] else []) ++ name ++ match cs with [] => [] | _ => [LPAREN] end ++ drec_commas cs ++
  match cs with [] => [] | _ => [RPAREN] end.
Proof. reflexivity. Qed.

(* ---- part 1: on every DisplayNode tree the items of the specification print the recursive text *)
Definition pd (t : dt) : Prop := forall par b, display_items (verbose_spec t par b) = drec (parent_is_wrapper par) t.

Lemma atom_from : forall s cs par b l, Forall pd l -> forall b' k,
  display_items (verbose_spec_from (GNode (DLAtom s) cs) par b l b' k) = s ++ drec_atoms s l.
Proof.
  intros s cs par b l H. induction H as [|c r Hc Hr IH]; intros b' k; cbn [verbose_spec_from];
    rewrite display_items_cons; [reflexivity|].
  rewrite display_items_app, Hc, IH. cbn [parent_is_wrapper drec_atoms]. unfold display_item. cbn [vi_node glabel].
  reflexivity.
Qed.
Lemma wrap_from : forall name cs par b l, Forall pd l -> forall b' k,
  display_items (verbose_spec_from (GNode (DLNode name true) cs) par b l b' k) =
  (if k =? 0 then name else []) ++ drec_wrapped l.
Proof.
  intros name cs par b l H. induction H as [|c r Hc Hr IH]; intros b' k; cbn [verbose_spec_from];
    rewrite display_items_cons; unfold display_item at 1; cbn [vi_node glabel vi_nyielded]; [reflexivity|].
  rewrite display_items_app, Hc, IH. cbn [parent_is_wrapper drec_wrapped].
  replace (k + 1 =? 0) with false by (symmetry; apply N.eqb_neq; lia). reflexivity.
Qed.
Lemma nw_from : forall name cs par b l, Forall pd l -> forall pre, cs = pre ++ l -> pre <> [] -> forall b',
  display_items (verbose_spec_from (GNode (DLNode name false) cs) par b l b' (RobustModel.nlen pre)) =
  match l with [] => [RPAREN] | _ => COMMA :: drec_commas l ++ [RPAREN] end.
Proof.
  intros name cs par b l H. induction H as [|c r Hc Hr IH]; intros pre Hcs Hpre b'; cbn [verbose_spec_from];
    rewrite display_items_cons; unfold display_item at 1; cbn [vi_node glabel vi_nyielded vi_complete vi_parent];
    (replace (RobustModel.nlen pre =? 0) with false by (symmetry; apply N.eqb_neq; unfold RobustModel.nlen; destruct pre; [congruence|cbn [length]; lia]));
    unfold g_n_children; cbn [gchildren]; rewrite Hcs.
  - rewrite (app_nil_r pre), N.eqb_refl. reflexivity.
  - replace (RobustModel.nlen pre =? RobustModel.nlen (pre ++ c :: r)) with false
      by (symmetry; apply N.eqb_neq; unfold RobustModel.nlen; rewrite app_length; cbn [length]; lia).
    rewrite display_items_app, Hc. cbn [parent_is_wrapper].
    replace (RobustModel.nlen pre + 1) with (RobustModel.nlen (pre ++ [c])) by (unfold RobustModel.nlen; rewrite app_length; cbn [length]; lia).
    rewrite <- Hcs. rewrite (IH (pre ++ [c])); [| now rewrite <- app_assoc | destruct pre; discriminate].
    destruct r; cbn [drec_commas app]; [reflexivity|]. rewrite <- app_assoc. reflexivity.
Qed.

Lemma pd_all : forall t : dt, pd t.
Proof.
  induction t as [l cs IH] using gtree_ind2. intros par b. rewrite verbose_spec_node.
  destruct l as [name [|]|s].
  - rewrite wrap_from by exact IH. rewrite N.eqb_refl. reflexivity.
  - rewrite drec_nw_node. destruct cs as [|c r]; cbn [verbose_spec_from]; rewrite display_items_cons;
      unfold display_item at 1; cbn [vi_node glabel vi_nyielded vi_complete vi_parent]; rewrite N.eqb_refl;
      unfold g_n_children; cbn [gchildren RobustModel.nlen length].
    + cbn. now rewrite !app_nil_r.
    + replace (0 =? N.of_nat (S (length r))) with false by (symmetry; apply N.eqb_neq; lia). cbn [negb].
      inversion IH as [|? ? Hc Hr]; subst.
      rewrite display_items_app, Hc. cbn [parent_is_wrapper].
      pose proof (nw_from name (c :: r) par b r Hr [c] eq_refl ltac:(discriminate) (b + 1 + gnsize c)) as HF.
      change (RobustModel.nlen [c]) with (0 + 1) in HF. rewrite HF.
      rewrite <- !app_assoc. do 2 f_equal. cbn [app]. f_equal.
      destruct r; cbn [drec_commas app]; [reflexivity|]. rewrite <- app_assoc. reflexivity.
  - rewrite atom_from by exact IH. now rewrite drec_atom_node.
Qed.

Theorem display_iter_tree_eq_recursive : forall t : dt, display_iter_tree t = ROk (drec false t).
Proof.
  intros t. unfold display_iter_tree. rewrite verbose_order_exact. cbn [rbind]. f_equal. apply (pd_all t None 0).
Qed.
